import TypstyleModel.Model.Printer.Knot
import TypstyleModel.Model.Cert
import TypstyleModel.Model.Range
import TypstyleModel.Model.Cli
import TypstyleModel.Proofs.CarriesKnot
/-! Line-protocol driver: evaluates the model's executable definitions on the cases the Rust
harness produced from the implementation, and reports where they differ.  One `R …` line per case. -/
open Pretty Typstyle

/-- Why a tree is outside the covered fragment: the kind of an innermost node that is not in it. -/
partial def fragBlocker (n : ANode) : String :=
  if inFrag n || inFragM n then "-" else
  match n.children.find? (fun c => !(inFrag c || inFragM c)) with
  | some c => fragBlocker c
  | none => n.kind.name

def hexVal (c : Char) : Nat :=
  if '0' ≤ c ∧ c ≤ '9' then c.toNat - '0'.toNat
  else if 'a' ≤ c ∧ c ≤ 'f' then c.toNat - 'a'.toNat + 10 else 0

def unhex (s : String) : String :=
  if s == "-" then "" else
  let rec go : List Char → ByteArray → ByteArray
    | a :: b :: r, acc => go r (acc.push (UInt8.ofNat (hexVal a * 16 + hexVal b)))
    | _, acc => acc
  match String.fromUTF8? (go s.toList ByteArray.empty) with
  | some s => s
  | none => "<bad>"

def hexDigit (n : Nat) : Char := if n < 10 then Char.ofNat (48 + n) else Char.ofNat (87 + n)
def hex (s : String) : String :=
  if s.isEmpty then "-" else
  String.ofList (s.toUTF8.toList.flatMap fun b => [hexDigit (b.toNat / 16), hexDigit (b.toNat % 16)])

partial def parseDoc : List String → Option (Doc × List String)
  | "N" :: r => some (.nil, r)
  | "H" :: r => some (.hardline, r)
  | "T" :: n :: h :: r => some (.text (unhex h) n.toNat! .tok, r)
  | "A" :: r => do let (a, r) ← parseDoc r; let (b, r) ← parseDoc r; pure (.append a b, r)
  | "F" :: r => do let (a, r) ← parseDoc r; let (b, r) ← parseDoc r; pure (.flatAlt a b, r)
  | "G" :: r => do let (a, r) ← parseDoc r; pure (.group a, r)
  | "L" :: r => do let (a, r) ← parseDoc r; pure (.align a, r)
  | "S" :: n :: r => do let (a, r) ← parseDoc r; pure (.nest n.toInt! a, r)
  | _ => none

partial def parseKids (n : Nat) (r : List String) (acc : List Node) : Option (List Node × List String) :=
  if n == 0 then some (acc.reverse, r) else
  match parseTree r with
  | some (c, r) => parseKids (n-1) r (c :: acc)
  | none => none
where
  parseTree : List String → Option (Node × List String)
    | "L" :: k :: h :: r => do let k ← Kind.ofString k; pure (.leaf k (unhex h), r)
    | "I" :: k :: n :: r => do let k ← Kind.ofString k; let (cs, r) ← parseKids n.toNat! r []; pure (.inner k cs, r)
    | _ => none

partial def parseEKids (n : Nat) (r : List String) (acc : List ENode) : Option (List ENode × List String) :=
  if n == 0 then some (acc.reverse, r) else
  match parseETree r with
  | some (c, r) => parseEKids (n-1) r (c :: acc)
  | none => none
where
  parseETree : List String → Option (ENode × List String)
    | "L" :: k :: h :: r => do let k ← Kind.ofString k; pure (.leaf k (unhex h) false, r)
    | "X" :: h :: r => pure (.leaf .error_ (unhex h) true, r)
    | "I" :: k :: n :: r => do let k ← Kind.ofString k; let (cs, r) ← parseEKids n.toNat! r []; pure (.inner k cs false, r)
    | "E" :: k :: n :: r => do let k ← Kind.ofString k; let (cs, r) ← parseEKids n.toNat! r []; pure (.inner k cs true, r)
    | _ => none

/-- Display widths of non-ASCII atoms are not modelled (`unicode-width`): they are read off the
implementation's document. -/
partial def widthTable : Doc → List (String × Nat) → List (String × Nat)
  | .text s l _, acc => if isAscii s then acc else (s, l) :: acc
  | .append a b, acc => widthTable b (widthTable a acc)
  | .group a, acc => widthTable a acc
  | .flatAlt a b, acc => widthTable b (widthTable a acc)
  | .nest _ a, acc => widthTable a acc
  | .align a, acc => widthTable a acc
  | _, acc => acc

def wdOf (tbl : List (String × Nat)) (s : String) : Nat :=
  match tbl.find? (·.1 == s) with
  | some p => p.2
  | none => s.length

partial def firstDiff : Doc → Doc → Option String
  | .append a b, .append c d => (firstDiff a c).orElse fun _ => firstDiff b d
  | .group a, .group b => firstDiff a b
  | .flatAlt a b, .flatAlt c d => (firstDiff a c).orElse fun _ => firstDiff b d
  | .nest n a, .nest m b => if n != m then some s!"nest {n} vs {m}" else firstDiff a b
  | .align a, .align b => firstDiff a b
  | x, y => if x == y then none else some s!"MODEL: {(toString (repr x)).take 200} RUST: {(toString (repr y)).take 200}"

namespace Typstyle.Cli

partial def parseEntry : List String → Option (Entry × List String)
  | "f" :: h :: r => some (.file (.text (unhex h)) false, r)
  | "b" :: r => some (.file .binary false, r)
  | "l" :: r => some (.symlink, r)
  | "d" :: n :: r => do
    let mut es : List (String × Entry) := []
    let mut rest := r
    for _ in List.range n.toNat! do
      match rest with
      | nm :: r' =>
        let (e, r'') ← parseEntry r'
        es := es ++ [(unhex nm, e)]
        rest := r''
      | [] => none
    pure (.dir es, rest)
  | _ => none

def parsePath (h : String) : Path := ((unhex h).splitOn "/").filter (· ≠ "")

partial def serEntry : Entry → String
  | .file (.text s) t => s!"f {hex s} {if t then 1 else 0}"
  | .file .binary t => s!"b {if t then 1 else 0}"
  | .symlink => "l"
  | .dir es => s!"d {es.length}" ++ String.join (es.map fun (n, e) => s!" {hex n} {serEntry e}")

def takeN {α} (n : Nat) (l : List α) : List α × List α := (l.take n, l.drop n)

/-- `CLI <id> A <inplace> <check> <quiet> <verbose> <column> <tab> <reorder> <cmd…> T <tree…> LIB <n> (<content> <result|!>)*` -/
def evalLine (toks : List String) : String :=
  match toks with
  | id :: "A" :: ip :: ck :: q :: v :: col :: tab :: ro :: rest =>
    let b (x : String) := x == "1"
    let cmdRes : Option (Cmd × List String) :=
      match rest with
      | "F" :: n :: r => let (ps, r') := takeN n.toNat! r; some (.files (ps.map parsePath), r')
      | "S" :: h :: r => some (.stdin (unhex h), r)
      | "D" :: "0" :: r => some (.formatAll none, r)
      | "D" :: "1" :: h :: r => some (.formatAll (some (parsePath h)), r)
      | _ => none
    match cmdRes with
    | some (cmd, "T" :: r) =>
      match parseEntry r with
      | some (w, "LIB" :: _n :: tbl) =>
        let rec pairs : List String → List (String × Option String)
          | c :: res :: r => (unhex c, if res == "!" then none else some (unhex res)) :: pairs r
          | _ => []
        let table := pairs tbl
        let lib : Lib := fun _ c => match table.find? (·.1 == c) with
          | some (_, r) => r
          | none => some "<<missing from the library table>>"
        let a : Args := { cmd := cmd, inplace := b ip, check := b ck, quiet := b q, verbose := b v,
                          style := { column := col.toNat!, tab := tab.toNat!, reorder := b ro } }
        let r := run lib a w
        let outs := r.evs.filterMap fun | .out s => some s | _ => none
        let infos := r.evs.filterMap fun | .info s => some s | _ => none
        let warns := (r.evs.filter (· == .warn)).length
        let errs := (r.evs.filter (· == .error)).length
        let infos := infos.toArray.qsort (· < ·) |>.toList
        s!"R cli {id} exit={r.exit} out={hex (String.join outs)} info={hex ("\n".intercalate infos)} warns={warns} errors={errs} tree={hex (serEntry r.world)}"
      | _ => s!"R cli {id} error=tree-parse"
    | _ => s!"R cli {id} error=cmd-parse"
  | _ => "R cli ? error=line-parse"

end Typstyle.Cli

structure S where
  gen : String := ""
  idx : String := ""
  cfg : Config := {}
  src : String := ""
  tree : Option Node := none
  etree : Option ENode := none
  cnt : Option Nat := none
  out : Option String := none
  doc1 : Option Doc := none
  xshape : String := ""
  pairCap : Nat := 400

def oneLine (s : String) : String := ((s.replace "\n" "⏎").take 400).toString

/-- Compare renderings of two documents at every width in `[0, cap]` and at the saturation bound. -/
def sweepDiffs (m d : Doc) (cap : Nat) : List (Nat × String × String) := Id.run do
  let L := max m.bound d.bound
  let top := min L cap
  let mut acc : List (Nat × String × String) := []
  let mut n : Nat := 0
  for w in List.range (top + 1) ++ (if L > cap then [L] else []) do
    let a := strip (pretty w m)
    let b := strip (pretty w d)
    if a != b && n < 6 then
      acc := (w, a, b) :: acc
      n := n + 1
  return acc.reverse

def evalCase (s : S) (d : Doc) : IO Unit := do
  let some t := s.tree | IO.println s!"R {s.gen} {s.idx} error=no-tree"
  let tbl := widthTable d []
  let mut fields : List String := []
  let mut extra : List String := []
  -- renderer + strip against the implementation's output
  match s.out with
  | some o =>
    let r := strip (pretty s.cfg.maxWidth d)
    if r == o then fields := "render=eq" :: fields
    else
      fields := "render=diff" :: fields
      extra := s!"RENDERDIFF model={oneLine r} impl={oneLine o}" :: extra
  | none => pure ()
  -- certificates on the implementation's document (lc: below, with the model's ghost tags when
  -- the two documents are syntactically equal)
  match s.doc1 with
  | some d1 =>
    fields := (if scale s.cfg.tab d1 == d then "scale=eq" else "scale=diff") :: fields
  | none => pure ()
  -- printer model
  match printTwin { cfg := s.cfg.toP, wd := wdOf tbl } t with
  | .ok (tw, calls) =>
    let m := tw.fam s.cfg.tab
    -- by-construction certificates (C01 token text, C06 comment text)
    if s.cfg.reorder then
      if tokensCertifiedR s.cfg.toP t tw then fields := "tok=ok" :: fields
      else
        fields := "tok=viol" :: fields
        extra := s!"TOKDIFF (reorder) good={tw.good} doc={oneLine tw.toks} tree={oneLine (specToks (reorderTree s.cfg.toP (prepare t)))}" :: extra
    else if tokensCertified t tw then fields := "tok=ok" :: fields
    else
      fields := "tok=viol" :: fields
      extra := s!"TOKDIFF good={tw.good} doc={oneLine tw.toks} tree={oneLine (specToks (prepare t))}" :: extra
    if commentsCertified t tw then fields := "cmt=ok" :: fields
    else
      fields := "cmt=viol" :: fields
      extra := s!"CMTDIFF good={tw.good} doc={oneLine tw.cmts} tree={oneLine (specCmts (prepare t))}" :: extra
    if verbatimCertified t tw then fields := "verb=ok" :: fields
    else
      fields := "verb=viol" :: fields
      extra := s!"VERBDIFF good={tw.good} doc={oneLine tw.verbs} tree={oneLine (specVerb (prepare t))}" :: extra
    if proseCertified t tw then fields := "prose=ok" :: fields
    else
      fields := "prose=viol" :: fields
      extra := s!"PROSEDIFF good={tw.good} doc={oneLine tw.prose} tree={oneLine (specProse (prepare t))}" :: extra
    if s.cfg.reorder then
      if literalsCertifiedR s.cfg.toP t tw then fields := "lit=ok" :: fields
      else
        fields := "lit=viol" :: fields
        extra := s!"LITDIFF (reorder) good={tw.good} doc={oneLine tw.lits} tree={oneLine (specLit (reorderTree s.cfg.toP (prepare t)))}" :: extra
    else if literalsCertified t tw then fields := "lit=ok" :: fields
    else
      fields := "lit=viol" :: fields
      extra := s!"LITDIFF good={tw.good} doc={oneLine tw.lits} tree={oneLine (specLit (prepare t))}" :: extra
    -- route M: a document of the covered fragment is certified by theorem (routeM_document); the
    -- evaluated certificates must agree
    let pt := prepare t
    if pt.kind == .markup && inFrag pt then
      let all := tokensCertified t tw && commentsCertified t tw && verbatimCertified t tw && proseCertified t tw && literalsCertified t tw
      fields := (if all then "rm=in" else "rm=viol") :: fields
    else fields := s!"rmwhy={fragBlocker pt}" :: "rm=out" :: fields
    if let some c := s.cnt then
      fields := (if c == calls then "count=eq" else s!"count=diff:{calls}:{c}") :: fields
    let me := m.erase
    fields := (if (if me == d then lcSafe m else lcSafe d) then "lc=ok" else "lc=viol") :: fields
    if me == d then fields := "doc=eq" :: fields
    else
      let diffs := sweepDiffs me d s.pairCap
      if diffs.isEmpty then fields := "doc=rendereq" :: fields
      else
        fields := "doc=diff" :: fields
        extra := s!"DOCDIFF {oneLine ((firstDiff me d).getD "?")}" :: extra
        for (w, a, b) in diffs do
          extra := s!"PAIR {s.gen} {s.idx} {w} {hex a} {hex b}" :: extra
    fields := (if lcSafe m then "mlc=ok" else "mlc=viol") :: fields
  | .error e =>
    fields := (if lcSafe d then "lc=ok" else "lc=viol") :: fields
    fields := s!"reject={(toString (repr e)).replace " " "_" |>.replace "\n" "_"}" :: fields
  if s.xshape != "" then fields := s!"xshape={s.xshape}" :: fields
  IO.println s!"R {s.gen} {s.idx} {" ".intercalate fields.reverse}"
  for x in extra.reverse do IO.println x

def evalRange (s : S) (a b : Nat) (res : Option (Nat × Nat × String)) : IO Unit := do
  let some t := s.etree | IO.println s!"R {s.gen} {s.idx} error=no-tree"
  let m := formatRange s.cfg (fun x => x.length) s.src t a b
  -- by-construction certificate of the replacement document (C13 with C01/C06/C07/C08/C10)
  let cert := match formatRangeDoc s.cfg (fun x => x.length) s.src t a b with
    | .ok node _ _ d _ =>
      let c := rangeCertified s.cfg.reorder node d
      -- route M: is the covering node an expression of the fragment for which certification is a theorem
      -- (C13_fragment_replacement_is_certified)?  Then the certificate cannot fail.
      let len := s.src.utf8ByteSize
      let tr := trimRange s.src.toList (min a len) (min b len)
      let cmode := match cover tr.1 (min tr.2 len) t 0 .markup with
        | some (_, _, mode) => some mode
        | none => none
      -- C13_fragment_replacement_is_certified (non-math cover) / C13_fragment_math_replacement_is_certified (math cover)
      -- … / C13_fragment_markup_replacement_is_certified (a markup body)
      let frag := (match cmode with
        | some mode =>
          if isExpr node then (if mode == LMode.math then inFragM node else inFrag node)
          else node.kind == Kind.markup && mode != LMode.math && inFrag node
        | none => false)
      (if c then "rcert=ok" else "rcert=viol") ++ (if frag then (if c then " rm=in" else " rm=viol") else " rm=out")
    | _ => "rcert=na"
  match m, res with
  | .refused, none => IO.println s!"R {s.gen} {s.idx} range=eq"
  | .ok rs re txt, some (rs', re', txt') =>
    if rs == rs' && re == re' then
      if txt == txt' || !(isAscii txt') then IO.println s!"R {s.gen} {s.idx} range=eq text={if txt == txt' then "eq" else "skip-nonascii"} {cert}"
      else IO.println s!"R {s.gen} {s.idx} range=eq text=diff {cert}\nRANGETEXT model={oneLine txt} impl={oneLine txt'}"
    else IO.println s!"R {s.gen} {s.idx} range=diff model={rs}..{re} impl={rs'}..{re'}"
  | .rejected e, _ => IO.println s!"R {s.gen} {s.idx} reject={(e.replace " " "_").replace "\n" "_"}"
  | .refused, some (rs', re', _) => IO.println s!"R {s.gen} {s.idx} range=diff model=refused impl={rs'}..{re'}"
  | .ok rs re _, none => IO.println s!"R {s.gen} {s.idx} range=diff model={rs}..{re} impl=refused"

partial def loop (h : IO.FS.Stream) (s : S) : IO Unit := do
  let line ← h.getLine
  if line.isEmpty then return
  let toks := (line.trimAscii.toString.splitOn " ").filter (· ≠ "")
  match toks with
  | ["CASE", g, i] => loop h { gen := g, idx := i, pairCap := s.pairCap }
  | ["CFG", tab, w, bl, ro] =>
    loop h { s with cfg := { tab := tab.toNat!, maxWidth := w.toNat!, blankUpper := bl.toNat!, reorder := ro == "1" } }
  | ["SRC", hx] => loop h { s with src := unhex hx }
  | ["XSHAPE", id] => loop h { s with xshape := id }
  | ["COUNT", c] => loop h { s with cnt := some c.toNat! }
  | ["OUT", hx] => loop h { s with out := some (unhex hx) }
  | "TREE" :: r =>
    match parseKids 1 r [] with
    | some ([t], _) => loop h { s with tree := some t }
    | _ => IO.println s!"R {s.gen} {s.idx} error=tree-parse"; loop h { s with tree := none }
  | "ETREE" :: r =>
    match parseEKids 1 r [] with
    | some ([t], _) => loop h { s with etree := some t }
    | _ => IO.println s!"R {s.gen} {s.idx} error=tree-parse"; loop h { s with etree := none }
  | "DOC1" :: r =>
    match parseDoc r with
    | some (d, _) => loop h { s with doc1 := some d }
    | none => loop h s
  | "DOC" :: r =>
    match parseDoc r with
    | some (d, _) => evalCase s d; loop h s
    | none => IO.println s!"R {s.gen} {s.idx} error=doc-parse"; loop h s
  | ["RANGE", a, b, "refused"] => evalRange s a.toNat! b.toNat! none; loop h s
  | ["RANGE", a, b, rs, re, hx] => evalRange s a.toNat! b.toNat! (some (rs.toNat!, re.toNat!, unhex hx)); loop h s
  | "WS" :: r =>
    let impl := r.map String.toNat!
    let model := (List.range 0x110000).filter fun n => (n < 0xD800 || n > 0xDFFF) && isWs (Char.ofNat n)
    IO.println s!"R ws 0 wsset={if impl == model then "eq" else "diff"} n={model.length}"
    loop h s
  | "NL" :: r =>
    let impl := r.map String.toNat!
    let model := (List.range 0x110000).filter fun n => (n < 0xD800 || n > 0xDFFF) && isNewlineChar (Char.ofNat n)
    IO.println s!"R nl 0 nlset={if impl == model then "eq" else "diff"} n={model.length}"
    loop h s
  | ["STRIP", a, b] =>
    let m := strip (unhex a)
    IO.println s!"R strip {a} strip={if m == unhex b then "eq" else "diff"}"
    loop h s
  | ["CW", w, v] =>
    IO.println s!"R cw {w} cw={if chainWidth w.toNat! == v.toNat! then "eq" else "diff"}"
    loop h s
  | "CLI" :: r =>
    IO.println (Cli.evalLine r)
    loop h s
  | _ => loop h s

def main : IO Unit := do
  loop (← IO.getStdin) {}
