import TypstyleModel.Model.Kind
/-! Syntax trees as produced by `typst-syntax`, the attribute pass of `attr.rs`, and the
kind-based accessors of `typst_syntax::ast` that the printer uses. -/
namespace Typstyle

/-- Concrete syntax tree (`typst_syntax::SyntaxNode` without spans; error nodes never reach the printer). -/
inductive Node where
  | leaf (kind : Kind) (text : String)
  | inner (kind : Kind) (children : List Node)
deriving Repr, Inhabited

/-- `attr.rs` `Attributes`. -/
structure Attrs where
  disabled : Bool := false
  comment : Bool := false
  multiline : Bool := false
  flavor : Bool := false
  /-- Preorder number of the node in the tree being printed (identity of the node, cf. the span). -/
  id : Nat := 0
deriving Repr, Inhabited, DecidableEq

/-- Tree annotated with the attributes `AttrStore` keeps per span (spans are unique per node). -/
inductive ANode where
  | leaf (kind : Kind) (text : String) (a : Attrs)
  | inner (kind : Kind) (children : List ANode) (a : Attrs)
deriving Repr, Inhabited

namespace Node
def kind : Node → Kind
  | leaf k _ => k
  | inner k _ => k
/-- `SyntaxNode::text()`: empty for inner nodes. -/
def text : Node → String
  | leaf _ t => t
  | inner _ _ => ""
end Node

namespace ANode
def kind : ANode → Kind
  | leaf k _ _ => k
  | inner k _ _ => k
def attrs : ANode → Attrs
  | leaf _ _ a => a
  | inner _ _ a => a
def children : ANode → List ANode
  | leaf _ _ _ => []
  | inner _ cs _ => cs
def text : ANode → String
  | leaf _ t _ => t
  | inner _ _ _ => ""
def setDisabled : ANode → ANode
  | leaf k t a => leaf k t { a with disabled := true }
  | inner k cs a => inner k cs { a with disabled := true }

mutual
/-- `SyntaxNode::into_text()`. -/
def intoText : ANode → String
  | leaf _ t _ => t
  | inner _ cs _ => intoTextL cs
def intoTextL : List ANode → String
  | [] => ""
  | c :: cs => intoText c ++ intoTextL cs
end

mutual
def depth : ANode → Nat
  | leaf _ _ _ => 1
  | inner _ cs _ => 1 + depthL cs
def depthL : List ANode → Nat
  | [] => 0
  | c :: cs => max (depth c) (depthL cs)
end
end ANode

/-- Typst's `is_newline` (lexer.rs:967). -/
def isNewlineChar (c : Char) : Bool :=
  c == '\n' || c == '\x0b' || c == '\x0c' || c == '\r' || c == '\u0085' || c == ' ' || c == ' '

/-- `StrExt::has_linebreak` (ext.rs): contains a character Typst treats as a newline. -/
def hasLinebreak (s : String) : Bool := s.toList.any isNewlineChar

def countLinebreaksGo : List Char → Bool → Nat → Nat
  | [], _, n => n
  | c :: cs, prevCr, n =>
    countLinebreaksGo cs (c == '\r') (if isNewlineChar c && !(prevCr && c == '\n') then n + 1 else n)

/-- `StrExt::count_linebreaks` (ext.rs): `\r\n` counts once. -/
def countLinebreaks (s : String) : Nat := countLinebreaksGo s.toList false 0

def isCommentKind (k : Kind) : Bool := k == .lineComment || k == .blockComment

def containsOff (s : String) : Bool := (s.splitOn "@typstyle off").length > 1

/-- `compute_multiline_impl` for one node, given its already annotated children. -/
def multilineOf : List ANode → (ml seenSpace flavor : Bool) → Bool × Bool
  | [], ml, _, flavor => (ml, flavor)
  | c :: rest, ml, seenSpace, flavor =>
    if c.kind == .space then
      if hasLinebreak c.text then
        multilineOf rest (true || c.attrs.multiline) true (if !seenSpace then true else flavor)
      else multilineOf rest (ml || c.attrs.multiline) true flavor
    else if c.kind == .blockComment then
      multilineOf rest (ml || hasLinebreak c.text || c.attrs.multiline) seenSpace flavor
    else multilineOf rest (ml || c.attrs.multiline) seenSpace flavor

mutual
/-- Both passes of `AttrStore::new`. `under`: an ancestor-or-self is format-disabled, so the
no-format pass does not reach this node. -/
def annotate (under : Bool) : Node → ANode
  | .leaf k t => .leaf k t {}
  | .inner k cs =>
    let r := annotateKids under false false cs
    let m := multilineOf r.1 false false false
    .inner k r.1 { comment := r.2, multiline := m.1, flavor := m.2 }

/-- The loop of `compute_no_format_impl` over the children (returns them annotated, and `commented`). -/
def annotateKids (under disableNext commented : Bool) : List Node → List ANode × Bool
  | [] => ([], commented)
  | c :: rest =>
    if under then
      let r := annotateKids under false false rest
      (annotate true c :: r.1, false)
    else if isCommentKind c.kind then
      if containsOff c.text then
        let r := annotateKids under true true rest
        ((annotate true c).setDisabled :: r.1, r.2)
      else
        let r := annotateKids under disableNext true rest
        (annotate true c :: r.1, r.2)
    else if disableNext && !(c.kind == .space || c.kind == .hash) then
      let r := annotateKids under false commented rest
      ((annotate true c).setDisabled :: r.1, r.2)
    else
      let r := annotateKids under disableNext commented rest
      (annotate false c :: r.1, r.2)
end

mutual
/-- Number the nodes in preorder, starting at `next`; returns the next free number. -/
def number : ANode → Nat → ANode × Nat
  | .leaf k t a, next => (.leaf k t { a with id := next }, next + 1)
  | .inner k cs a, next =>
    let r := numberL cs (next + 1)
    (.inner k r.1 { a with id := next }, r.2)
def numberL : List ANode → Nat → List ANode × Nat
  | [], next => ([], next)
  | c :: cs, next =>
    let r := number c next
    let rs := numberL cs r.2
    (r.1 :: rs.1, rs.2)
end

mutual
/-- Number of nodes. -/
def ANode.size : ANode → Nat
  | .leaf _ _ _ => 1
  | .inner _ cs _ => 1 + ANode.sizeL cs
def ANode.sizeL : List ANode → Nat
  | [] => 0
  | c :: cs => ANode.size c + ANode.sizeL cs
end

/-! ### casts of `typst_syntax::ast` -/
def Kind.isExpr : Kind → Bool
  | .linebreak | .parbreak | .text | .escape | .shorthand | .smartQuote | .strong | .emph | .raw | .link | .label
  | .ref | .heading | .listItem | .enumItem | .termItem | .equation | .math | .mathText | .mathIdent
  | .mathShorthand | .mathAlignPoint | .mathDelimited | .mathAttach | .mathPrimes | .mathFrac | .mathRoot
  | .ident | .none_ | .auto_ | .bool | .int | .float | .numeric | .str | .codeBlock | .contentBlock
  | .parenthesized | .array | .dict | .unary | .binary | .fieldAccess | .funcCall | .closure | .letBinding
  | .destructAssignment | .setRule | .showRule | .contextual | .conditional | .whileLoop | .forLoop
  | .moduleImport | .moduleInclude | .loopBreak | .loopContinue | .funcReturn => true
  | _ => false

def isExpr (n : ANode) : Bool := n.kind.isExpr
def isPattern (n : ANode) : Bool := n.kind == .underscore || n.kind == .destructuring || isExpr n
def isArg (n : ANode) : Bool := n.kind == .named || n.kind == .spread || isExpr n
def isParam (n : ANode) : Bool := n.kind == .named || n.kind == .spread || isPattern n
def Kind.isLiteral : Kind → Bool
  | .none_ | .auto_ | .bool | .int | .float | .numeric | .str => true
  | _ => false

/-- `SyntaxKind::is_keyword`. -/
def Kind.isKeyword : Kind → Bool
  | .not_ | .and_ | .or_ | .none_ | .auto_ | .let_ | .set_ | .show_ | .context_ | .if_ | .else_ | .for_ | .in_
  | .while_ | .break_ | .continue_ | .return_ | .import_ | .include_ | .as_ => true
  | _ => false

def hasCommentChildren (n : ANode) : Bool := n.children.any fun c => isCommentKind c.kind
def firstWhere (n : ANode) (p : ANode → Bool) : Option ANode := n.children.find? p
def lastWhere (n : ANode) (p : ANode → Bool) : Option ANode := n.children.reverse.find? p
def isOnlyOneAnd {α} (l : List α) (p : α → Bool) : Bool :=
  match l with
  | [x] => p x
  | _ => false

end Typstyle
