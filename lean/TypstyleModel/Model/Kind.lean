namespace Typstyle

/-- `typst_syntax::SyntaxKind` (0.13.1), same order. -/
inductive Kind where
  | end_
  | error_
  | shebang
  | lineComment
  | blockComment
  | markup
  | text
  | space
  | linebreak
  | parbreak
  | escape
  | shorthand
  | smartQuote
  | strong
  | emph
  | raw
  | rawLang
  | rawDelim
  | rawTrimmed
  | link
  | label
  | ref
  | refMarker
  | heading
  | headingMarker
  | listItem
  | listMarker
  | enumItem
  | enumMarker
  | termItem
  | termMarker
  | equation
  | math
  | mathText
  | mathIdent
  | mathShorthand
  | mathAlignPoint
  | mathDelimited
  | mathAttach
  | mathPrimes
  | mathFrac
  | mathRoot
  | hash
  | leftBrace
  | rightBrace
  | leftBracket
  | rightBracket
  | leftParen
  | rightParen
  | comma
  | semicolon
  | colon
  | star
  | underscore
  | dollar
  | plus
  | minus
  | slash
  | hat
  | prime
  | dot
  | eq
  | eqEq
  | exclEq
  | lt
  | ltEq
  | gt
  | gtEq
  | plusEq
  | hyphEq
  | starEq
  | slashEq
  | dots
  | arrow
  | root
  | not_
  | and_
  | or_
  | none_
  | auto_
  | let_
  | set_
  | show_
  | context_
  | if_
  | else_
  | for_
  | in_
  | while_
  | break_
  | continue_
  | return_
  | import_
  | include_
  | as_
  | code
  | ident
  | bool
  | int
  | float
  | numeric
  | str
  | codeBlock
  | contentBlock
  | parenthesized
  | array
  | dict
  | named
  | keyed
  | unary
  | binary
  | fieldAccess
  | funcCall
  | args
  | spread
  | closure
  | params
  | letBinding
  | setRule
  | showRule
  | contextual
  | conditional
  | whileLoop
  | forLoop
  | moduleImport
  | importItems
  | importItemPath
  | renamedImportItem
  | moduleInclude
  | loopBreak
  | loopContinue
  | funcReturn
  | destructuring
  | destructAssignment
deriving DecidableEq, Repr, Inhabited

def Kind.ofString : String → Option Kind
  | "End" => some .end_
  | "Error" => some .error_
  | "Shebang" => some .shebang
  | "LineComment" => some .lineComment
  | "BlockComment" => some .blockComment
  | "Markup" => some .markup
  | "Text" => some .text
  | "Space" => some .space
  | "Linebreak" => some .linebreak
  | "Parbreak" => some .parbreak
  | "Escape" => some .escape
  | "Shorthand" => some .shorthand
  | "SmartQuote" => some .smartQuote
  | "Strong" => some .strong
  | "Emph" => some .emph
  | "Raw" => some .raw
  | "RawLang" => some .rawLang
  | "RawDelim" => some .rawDelim
  | "RawTrimmed" => some .rawTrimmed
  | "Link" => some .link
  | "Label" => some .label
  | "Ref" => some .ref
  | "RefMarker" => some .refMarker
  | "Heading" => some .heading
  | "HeadingMarker" => some .headingMarker
  | "ListItem" => some .listItem
  | "ListMarker" => some .listMarker
  | "EnumItem" => some .enumItem
  | "EnumMarker" => some .enumMarker
  | "TermItem" => some .termItem
  | "TermMarker" => some .termMarker
  | "Equation" => some .equation
  | "Math" => some .math
  | "MathText" => some .mathText
  | "MathIdent" => some .mathIdent
  | "MathShorthand" => some .mathShorthand
  | "MathAlignPoint" => some .mathAlignPoint
  | "MathDelimited" => some .mathDelimited
  | "MathAttach" => some .mathAttach
  | "MathPrimes" => some .mathPrimes
  | "MathFrac" => some .mathFrac
  | "MathRoot" => some .mathRoot
  | "Hash" => some .hash
  | "LeftBrace" => some .leftBrace
  | "RightBrace" => some .rightBrace
  | "LeftBracket" => some .leftBracket
  | "RightBracket" => some .rightBracket
  | "LeftParen" => some .leftParen
  | "RightParen" => some .rightParen
  | "Comma" => some .comma
  | "Semicolon" => some .semicolon
  | "Colon" => some .colon
  | "Star" => some .star
  | "Underscore" => some .underscore
  | "Dollar" => some .dollar
  | "Plus" => some .plus
  | "Minus" => some .minus
  | "Slash" => some .slash
  | "Hat" => some .hat
  | "Prime" => some .prime
  | "Dot" => some .dot
  | "Eq" => some .eq
  | "EqEq" => some .eqEq
  | "ExclEq" => some .exclEq
  | "Lt" => some .lt
  | "LtEq" => some .ltEq
  | "Gt" => some .gt
  | "GtEq" => some .gtEq
  | "PlusEq" => some .plusEq
  | "HyphEq" => some .hyphEq
  | "StarEq" => some .starEq
  | "SlashEq" => some .slashEq
  | "Dots" => some .dots
  | "Arrow" => some .arrow
  | "Root" => some .root
  | "Not" => some .not_
  | "And" => some .and_
  | "Or" => some .or_
  | "None" => some .none_
  | "Auto" => some .auto_
  | "Let" => some .let_
  | "Set" => some .set_
  | "Show" => some .show_
  | "Context" => some .context_
  | "If" => some .if_
  | "Else" => some .else_
  | "For" => some .for_
  | "In" => some .in_
  | "While" => some .while_
  | "Break" => some .break_
  | "Continue" => some .continue_
  | "Return" => some .return_
  | "Import" => some .import_
  | "Include" => some .include_
  | "As" => some .as_
  | "Code" => some .code
  | "Ident" => some .ident
  | "Bool" => some .bool
  | "Int" => some .int
  | "Float" => some .float
  | "Numeric" => some .numeric
  | "Str" => some .str
  | "CodeBlock" => some .codeBlock
  | "ContentBlock" => some .contentBlock
  | "Parenthesized" => some .parenthesized
  | "Array" => some .array
  | "Dict" => some .dict
  | "Named" => some .named
  | "Keyed" => some .keyed
  | "Unary" => some .unary
  | "Binary" => some .binary
  | "FieldAccess" => some .fieldAccess
  | "FuncCall" => some .funcCall
  | "Args" => some .args
  | "Spread" => some .spread
  | "Closure" => some .closure
  | "Params" => some .params
  | "LetBinding" => some .letBinding
  | "SetRule" => some .setRule
  | "ShowRule" => some .showRule
  | "Contextual" => some .contextual
  | "Conditional" => some .conditional
  | "WhileLoop" => some .whileLoop
  | "ForLoop" => some .forLoop
  | "ModuleImport" => some .moduleImport
  | "ImportItems" => some .importItems
  | "ImportItemPath" => some .importItemPath
  | "RenamedImportItem" => some .renamedImportItem
  | "ModuleInclude" => some .moduleInclude
  | "LoopBreak" => some .loopBreak
  | "LoopContinue" => some .loopContinue
  | "FuncReturn" => some .funcReturn
  | "Destructuring" => some .destructuring
  | "DestructAssignment" => some .destructAssignment
  | _ => none

def Kind.name : Kind → String
  | .end_ => "End"
  | .error_ => "Error"
  | .shebang => "Shebang"
  | .lineComment => "LineComment"
  | .blockComment => "BlockComment"
  | .markup => "Markup"
  | .text => "Text"
  | .space => "Space"
  | .linebreak => "Linebreak"
  | .parbreak => "Parbreak"
  | .escape => "Escape"
  | .shorthand => "Shorthand"
  | .smartQuote => "SmartQuote"
  | .strong => "Strong"
  | .emph => "Emph"
  | .raw => "Raw"
  | .rawLang => "RawLang"
  | .rawDelim => "RawDelim"
  | .rawTrimmed => "RawTrimmed"
  | .link => "Link"
  | .label => "Label"
  | .ref => "Ref"
  | .refMarker => "RefMarker"
  | .heading => "Heading"
  | .headingMarker => "HeadingMarker"
  | .listItem => "ListItem"
  | .listMarker => "ListMarker"
  | .enumItem => "EnumItem"
  | .enumMarker => "EnumMarker"
  | .termItem => "TermItem"
  | .termMarker => "TermMarker"
  | .equation => "Equation"
  | .math => "Math"
  | .mathText => "MathText"
  | .mathIdent => "MathIdent"
  | .mathShorthand => "MathShorthand"
  | .mathAlignPoint => "MathAlignPoint"
  | .mathDelimited => "MathDelimited"
  | .mathAttach => "MathAttach"
  | .mathPrimes => "MathPrimes"
  | .mathFrac => "MathFrac"
  | .mathRoot => "MathRoot"
  | .hash => "Hash"
  | .leftBrace => "LeftBrace"
  | .rightBrace => "RightBrace"
  | .leftBracket => "LeftBracket"
  | .rightBracket => "RightBracket"
  | .leftParen => "LeftParen"
  | .rightParen => "RightParen"
  | .comma => "Comma"
  | .semicolon => "Semicolon"
  | .colon => "Colon"
  | .star => "Star"
  | .underscore => "Underscore"
  | .dollar => "Dollar"
  | .plus => "Plus"
  | .minus => "Minus"
  | .slash => "Slash"
  | .hat => "Hat"
  | .prime => "Prime"
  | .dot => "Dot"
  | .eq => "Eq"
  | .eqEq => "EqEq"
  | .exclEq => "ExclEq"
  | .lt => "Lt"
  | .ltEq => "LtEq"
  | .gt => "Gt"
  | .gtEq => "GtEq"
  | .plusEq => "PlusEq"
  | .hyphEq => "HyphEq"
  | .starEq => "StarEq"
  | .slashEq => "SlashEq"
  | .dots => "Dots"
  | .arrow => "Arrow"
  | .root => "Root"
  | .not_ => "Not"
  | .and_ => "And"
  | .or_ => "Or"
  | .none_ => "None"
  | .auto_ => "Auto"
  | .let_ => "Let"
  | .set_ => "Set"
  | .show_ => "Show"
  | .context_ => "Context"
  | .if_ => "If"
  | .else_ => "Else"
  | .for_ => "For"
  | .in_ => "In"
  | .while_ => "While"
  | .break_ => "Break"
  | .continue_ => "Continue"
  | .return_ => "Return"
  | .import_ => "Import"
  | .include_ => "Include"
  | .as_ => "As"
  | .code => "Code"
  | .ident => "Ident"
  | .bool => "Bool"
  | .int => "Int"
  | .float => "Float"
  | .numeric => "Numeric"
  | .str => "Str"
  | .codeBlock => "CodeBlock"
  | .contentBlock => "ContentBlock"
  | .parenthesized => "Parenthesized"
  | .array => "Array"
  | .dict => "Dict"
  | .named => "Named"
  | .keyed => "Keyed"
  | .unary => "Unary"
  | .binary => "Binary"
  | .fieldAccess => "FieldAccess"
  | .funcCall => "FuncCall"
  | .args => "Args"
  | .spread => "Spread"
  | .closure => "Closure"
  | .params => "Params"
  | .letBinding => "LetBinding"
  | .setRule => "SetRule"
  | .showRule => "ShowRule"
  | .contextual => "Contextual"
  | .conditional => "Conditional"
  | .whileLoop => "WhileLoop"
  | .forLoop => "ForLoop"
  | .moduleImport => "ModuleImport"
  | .importItems => "ImportItems"
  | .importItemPath => "ImportItemPath"
  | .renamedImportItem => "RenamedImportItem"
  | .moduleInclude => "ModuleInclude"
  | .loopBreak => "LoopBreak"
  | .loopContinue => "LoopContinue"
  | .funcReturn => "FuncReturn"
  | .destructuring => "Destructuring"
  | .destructAssignment => "DestructAssignment"

end Typstyle
