import TypstyleModel.Model.Printer.Knot
/-! Model of `partial.rs` (`format_source_range`, `get_node_cover_range`) and of the two helpers
of `utils.rs` it uses.  Offsets are UTF-8 byte offsets, as in the implementation. -/
namespace Typstyle
open Pretty

/-- Syntax tree with the parser's error flags (`SyntaxNode::erroneous`). -/
inductive ENode where
  | leaf (kind : Kind) (text : String) (err : Bool)
  | inner (kind : Kind) (children : List ENode) (err : Bool)
deriving Repr, Inhabited

namespace ENode
def kind : ENode → Kind
  | leaf k _ _ => k
  | inner k _ _ => k
def erroneous : ENode → Bool
  | leaf _ _ e => e
  | inner _ _ e => e
mutual
def len : ENode → Nat
  | leaf _ t _ => t.utf8ByteSize
  | inner _ cs _ => lenL cs
def lenL : List ENode → Nat
  | [] => 0
  | c :: cs => len c + lenL cs
end
mutual
def toNode : ENode → Node
  | leaf k t _ => .leaf k t
  | inner k cs _ => .inner k (toNodeL cs)
def toNodeL : List ENode → List Node
  | [] => []
  | c :: cs => toNode c :: toNodeL cs
end
end ENode

/-- Characters of `cs` (starting at byte offset `off`) whose start offset lies in `[a, b)`. -/
def sliceBytes : List Char → (off a b : Nat) → List Char
  | [], _, _, _ => []
  | c :: cs, off, a, b =>
    if off ≥ b then []
    else if off ≥ a then c :: sliceBytes cs (off + c.utf8Size) a b
    else sliceBytes cs (off + c.utf8Size) a b

def bytesOf (l : List Char) : Nat := (l.map Char.utf8Size).sum

/-- `utils::trim_range` (after the clamp of `format_source_range`). -/
def trimRange (text : List Char) (s e : Nat) : Nat × Nat :=
  let e' := s + bytesOf (trimEndL (sliceBytes text 0 s e))
  let s' := e' - bytesOf (trimStartL (sliceBytes text 0 s e'))
  (s', e')

/-- `utils::count_spaces_after_last_newline`. -/
def countSpacesAfterLastNewline (text : List Char) (i : Nat) : Nat :=
  let pre := sliceBytes text 0 0 i
  if pre.contains '\n' then
    ((pre.reverse.takeWhile (· != '\n')).reverse.takeWhile (· == ' ')).length
  else 0

def modeOfKind (k : Kind) (m : LMode) : LMode :=
  match k with
  | .markup => .markup
  | .codeBlock => .code
  | .equation => .math
  | _ => m

def isCoverKind (k : Kind) : Bool := k == .markup || k.isExpr || k == .underscore || k == .destructuring

mutual
/-- `get_node_cover_range_impl`: the first node in post-order (children before the node itself)
that is a Markup/Expr/Pattern and contains `[s, e]`. Returns the node, its start offset and the mode. -/
def cover (s e : Nat) : ENode → (off : Nat) → LMode → Option (ENode × Nat × LMode)
  | .leaf k t err, off, mode =>
    let mode := modeOfKind k mode
    if off ≤ s && off + t.utf8ByteSize ≥ e && isCoverKind k then some (.leaf k t err, off, mode) else none
  | .inner k cs err, off, mode =>
    let mode := modeOfKind k mode
    match coverL s e cs off mode with
    | some r => some r
    | none =>
      if off ≤ s && off + ENode.lenL cs ≥ e && isCoverKind k then some (.inner k cs err, off, mode) else none
def coverL (s e : Nat) : List ENode → (off : Nat) → LMode → Option (ENode × Nat × LMode)
  | [], _, _ => none
  | c :: cs, off, mode =>
    match cover s e c off mode with
    | some r => some r
    | none => coverL s e cs (off + c.len) mode
end

inductive RangeResult where
  | refused
  | rejected (why : String)
  | ok (start stop : Nat) (text : String)
deriving Repr

/-- Result of the conversion stage of range formatting: the covering node (annotated), its start
offset, its length, the printed family and the indentation of the line the range starts on. -/
inductive RangeDoc where
  | refused
  | rejected (why : String)
  | ok (node : ANode) (start len : Nat) (d : Twin.Doc) (indent : Nat)

/-- `Typstyle::format_source_range` up to the document. -/
def formatRangeDoc (cfg : Config) (wd : String → Nat) (src : String) (root : ENode) (a b : Nat) : RangeDoc :=
  let env : Env := { cfg := cfg.toP, wd := wd }
  let text := src.toList
  let len := src.utf8ByteSize
  let (s, e) := trimRange text (min a len) (min b len)
  match cover s (min e len) root 0 .markup with
  | none => .refused
  | some (n, off, mode) =>
    if n.erroneous then .refused else
    let t := prepare n.toNode
    let r := knot env (2 * t.depth + 2)
    let ctx : Ctx := { mode := mode }
    let conv : M Twin.Doc :=
      if n.kind == .markup then r.markup ctx t .document
      else if n.kind.isExpr then r.expr ctx t
      else r.pattern ctx t
    match conv.run { limit := t.size } with
    | .error err => .rejected (toString (repr err))
    | .ok (d, _) => .ok t off n.len d (countSpacesAfterLastNewline text s)

/-- `Typstyle::format_source_range`. -/
def formatRange (cfg : Config) (wd : String → Nat) (src : String) (root : ENode) (a b : Nat) : RangeResult :=
  match formatRangeDoc cfg wd src root a b with
  | .refused => .refused
  | .rejected why => .rejected why
  | .ok _ off len d indent => .ok off (off + len) (Pretty.pretty cfg.maxWidth ((d.fam cfg.tab).nst indent))

/-- Stream certificates of the family printed for the covering node (C13 with C01/C06/C08/C10): it
carries the code tokens, comments, prose, literals and verbatim text the *node* prescribes.
(Tokens and literals are not compared with import reordering on.) -/
def rangeCertified (reorder : Bool) (t : ANode) (d : Twin.Doc) : Bool :=
  d.good && (reorder || d.toks == specToks t) && d.cmts == specCmts t && d.prose == specProse t
    && (reorder || d.lits == specLit t) && d.verbs == specVerb t

end Typstyle
