/-! Rust `str` helpers used by typstyle, over `String`/`List Char`. -/
namespace Typstyle

/-- Rust `char::is_whitespace` (Unicode `White_Space`). -/
def isWs (c : Char) : Bool :=
  let n := c.toNat
  (9 ≤ n && n ≤ 13) || n == 32 || n == 0x85 || n == 0xA0 || n == 0x1680 ||
  (0x2000 ≤ n && n ≤ 0x200A) || n == 0x2028 || n == 0x2029 || n == 0x202F || n == 0x205F || n == 0x3000

/-- `str::split_inclusive('\n')` pieces without the terminator; the flag says whether it was terminated. -/
def splitNl : List Char → List (List Char × Bool)
  | [] => []
  | c :: cs =>
    if c = '\n' then ([], true) :: splitNl cs
    else
      match splitNl cs with
      | [] => [([c], false)]
      | (l, t) :: rest => (c :: l, t) :: rest

def dropLastCr (l : List Char) : List Char :=
  match l.reverse with
  | '\r' :: r => r.reverse
  | _ => l

/-- `str::lines`. -/
def linesL (s : List Char) : List (List Char) :=
  (splitNl s).map fun (l, t) => if t then dropLastCr l else l

def rlines (s : String) : List String := (linesL s.toList).map String.ofList

def trimEndL (l : List Char) : List Char := (l.reverse.dropWhile isWs).reverse
def trimStartL (l : List Char) : List Char := l.dropWhile isWs
def trimStart (s : String) : String := String.ofList (trimStartL s.toList)

/-- `utils::strip_trailing_whitespace`. -/
def stripL (s : List Char) : List Char :=
  if s = [] then ['\n'] else (linesL s).flatMap fun l => trimEndL l ++ ['\n']
def strip (s : String) : String := String.ofList (stripL s.toList)

end Typstyle
