import TypstyleModel.Model.Cert
/-! Unit-indexed documents: the printer does not build one `pretty` document but the whole
family `u ↦ document at indent unit u`, together with the kernel-checked proof that the member at
unit `u` is `scale u` of the member at unit 1.  Every builder operation the printer uses is lifted
once, with its proof; the printer itself is written in ordinary notation over this type, so the
indentation-scaling property (C12, `print_scale`) holds *by construction* for every tree.
Core Lean only (the driver links). -/
namespace Pretty

/-! ### `scale` commutes with the builder -/
@[simp] theorem scale_eq_nil (u : Nat) (d : Doc) : (scale u d = .nil) ↔ d = .nil := by
  cases d <;> simp [scale]

@[simp] theorem scale_app (u : Nat) (a b : Doc) : scale u (a ++ b) = scale u a ++ scale u b := by
  show scale u (Doc.app a b) = Doc.app (scale u a) (scale u b)
  cases a <;> cases b <;> simp [Doc.app, scale]

@[simp] theorem scale_grp (u : Nat) (d : Doc) : scale u d.grp = (scale u d).grp := by
  cases d <;> simp [Doc.grp, scale] <;> split <;> simp [scale]

@[simp] theorem scale_falt (u : Nat) (a b : Doc) : scale u (Doc.falt a b) = Doc.falt (scale u a) (scale u b) := by
  simp [Doc.falt, scale]

theorem scale_nst (u : Nat) (hu : 0 < u) (d : Doc) (k : Nat) : scale u (d.nst k) = (scale u d).nst (k * u) := by
  cases d <;> simp [Doc.nst, scale] <;> (split <;> simp_all [scale, Nat.mul_eq_zero] <;> omega)

@[simp] theorem scale_enclose (u : Nat) (d a b : Doc) :
    scale u (d.enclose a b) = (scale u d).enclose (scale u a) (scale u b) := by
  simp [Doc.enclose]

/-- No indentation step outside `align`: such a document is the same at every unit. -/
def Doc.closed : Doc → Bool
  | .nest _ _ => false
  | .append a b => a.closed && b.closed
  | .group d => d.closed
  | .flatAlt b f => b.closed && f.closed
  | _ => true

theorem scale_closed (u : Nat) : (d : Doc) → d.closed = true → scale u d = d
  | .nil, _ => rfl
  | .text _ _ _, _ => rfl
  | .hardline, _ => rfl
  | .align _, _ => rfl
  | .nest _ _, h => by simp [Doc.closed] at h
  | .append a b, h => by
    simp only [Doc.closed, Bool.and_eq_true] at h
    simp [scale, scale_closed u a h.1, scale_closed u b h.2]
  | .group d, h => by simp [scale, scale_closed u d (by simpa [Doc.closed] using h)]
  | .flatAlt b f, h => by
    simp only [Doc.closed, Bool.and_eq_true] at h
    simp [scale, scale_closed u b h.1, scale_closed u f h.2]

theorem mkText_closed (wd : String → Nat) (t : Tag) (s : String) : (mkText wd t s).closed = true := by
  unfold mkText; split <;> rfl

end Pretty

namespace Twin
open Pretty (scale)

/-- The family of documents, one per indent unit, related by `scale`. -/
structure Doc where
  fam : Nat → Pretty.Doc
  rel : ∀ u, 0 < u → fam u = scale u (fam 1)

/-- A document without indentation steps (text, line breaks, comments): the same at every unit. -/
def Doc.ofClosed (d : Pretty.Doc) (h : d.closed = true) : Doc :=
  ⟨fun _ => d, fun u _ => (Pretty.scale_closed u d h).symm⟩

def Doc.nil : Doc := .ofClosed .nil rfl
instance : Inhabited Doc := ⟨Doc.nil⟩

def mkText (wd : String → Nat) (tag : Pretty.Tag) (s : String) : Doc :=
  .ofClosed (Pretty.mkText wd tag s) (Pretty.mkText_closed wd tag s)

def Doc.app (a b : Doc) : Doc :=
  ⟨fun u => a.fam u ++ b.fam u, fun u hu => by rw [a.rel u hu, b.rel u hu, Pretty.scale_app]⟩
instance : Append Doc := ⟨Doc.app⟩

def Doc.grp (d : Doc) : Doc :=
  ⟨fun u => (d.fam u).grp, fun u hu => by rw [d.rel u hu, Pretty.scale_grp]⟩

/-- `nest(config.tab_spaces)`: the only way the printer indents. -/
def Doc.nstTab (d : Doc) : Doc :=
  ⟨fun u => (d.fam u).nst u, fun u hu => by
    show (d.fam u).nst u = scale u ((d.fam 1).nst 1)
    rw [Pretty.scale_nst u hu, d.rel u hu, Nat.one_mul]⟩

def Doc.falt (b f : Doc) : Doc :=
  ⟨fun u => Pretty.Doc.falt (b.fam u) (f.fam u), fun u hu => by rw [b.rel u hu, f.rel u hu, Pretty.scale_falt]⟩

def space : Doc := .ofClosed Pretty.space rfl
def hardline : Doc := .ofClosed Pretty.hardline rfl
def line : Doc := Doc.falt hardline space
def line_ : Doc := Doc.falt hardline .nil

def Doc.enclose (d : Doc) (a b : Doc) : Doc := (a ++ d) ++ b

def repeatN (d : Doc) : Nat → Doc
  | 0 => .nil
  | n+1 => repeatN d n ++ d

def concatDocs (ds : List Doc) : Doc := ds.foldl (· ++ ·) .nil

def intersperse (ds : List Doc) (sep : Doc) : Doc :=
  match ds with
  | [] => .nil
  | d :: rest => rest.foldl (fun acc x => (acc ++ sep) ++ x) (Doc.nil ++ d)

/-- **Scaling by construction**: the member at unit `u` is `scale u` of the member at unit 1. -/
theorem Doc.scale_eq (d : Doc) (u : Nat) (hu : 0 < u) : d.fam u = scale u (d.fam 1) := d.rel u hu

@[simp] theorem fam_app (a b : Doc) (u : Nat) : (a ++ b).fam u = a.fam u ++ b.fam u := rfl
@[simp] theorem fam_grp (d : Doc) (u : Nat) : d.grp.fam u = (d.fam u).grp := rfl
@[simp] theorem fam_nstTab (d : Doc) (u : Nat) : d.nstTab.fam u = (d.fam u).nst u := rfl
@[simp] theorem fam_falt (b f : Doc) (u : Nat) : (Doc.falt b f).fam u = Pretty.Doc.falt (b.fam u) (f.fam u) := rfl
@[simp] theorem fam_nil (u : Nat) : Doc.nil.fam u = .nil := rfl
@[simp] theorem fam_space (u : Nat) : space.fam u = Pretty.space := rfl
@[simp] theorem fam_hardline (u : Nat) : hardline.fam u = Pretty.hardline := rfl
@[simp] theorem fam_ofClosed (d : Pretty.Doc) (h : d.closed = true) (u : Nat) : (Doc.ofClosed d h).fam u = d := rfl
@[simp] theorem fam_mkText (wd : String → Nat) (t : Pretty.Tag) (s : String) (u : Nat) :
    (mkText wd t s).fam u = Pretty.mkText wd t s := rfl

end Twin
