import TypstyleModel.Model.Cert
import TypstyleModel.Model.Text
import TypstyleModel.Proofs.Lay
/-! Unit-indexed documents: the printer does not build one `pretty` document but the whole
family `u ↦ document at indent unit u`, together with the kernel-checked proof that the member at
unit `u` is `scale u` of the member at unit 1.  Every builder operation the printer uses is lifted
once, with its proof; the printer itself is written in ordinary notation over this type, so the
indentation-scaling property (C12, `print_scale`) holds *by construction* for every tree.
Core Lean only (the driver links). -/
namespace Pretty

/-! ### `scale` commutes with the builder -/
@[simp] theorem scale_eq_nil (u : Nat) (d : Doc) : (scale u d = .nil) ↔ d = .nil := by
  cases d <;> simp [scale]

@[simp] theorem scale_app (u : Nat) (a b : Doc) : scale u (a ++ b) = scale u a ++ scale u b := by
  show scale u (Doc.app a b) = Doc.app (scale u a) (scale u b)
  cases a <;> cases b <;> simp [Doc.app, scale]

@[simp] theorem scale_grp (u : Nat) (d : Doc) : scale u d.grp = (scale u d).grp := by
  cases d <;> simp [Doc.grp, scale] <;> split <;> simp [scale]

@[simp] theorem scale_falt (u : Nat) (a b : Doc) : scale u (Doc.falt a b) = Doc.falt (scale u a) (scale u b) := by
  simp [Doc.falt, scale]

theorem scale_nst (u : Nat) (hu : 0 < u) (d : Doc) (k : Nat) : scale u (d.nst k) = (scale u d).nst (k * u) := by
  cases d <;> simp [Doc.nst, scale] <;> (split <;> simp_all [scale, Nat.mul_eq_zero] <;> omega)

@[simp] theorem scale_enclose (u : Nat) (d a b : Doc) :
    scale u (d.enclose a b) = (scale u d).enclose (scale u a) (scale u b) := by
  simp [Doc.enclose]

/-- No indentation step outside `align`: such a document is the same at every unit. -/
def Doc.closed : Doc → Bool
  | .nest _ _ => false
  | .append a b => a.closed && b.closed
  | .group d => d.closed
  | .flatAlt b f => b.closed && f.closed
  | _ => true

theorem scale_closed (u : Nat) : (d : Doc) → d.closed = true → scale u d = d
  | .nil, _ => rfl
  | .text _ _ _, _ => rfl
  | .hardline, _ => rfl
  | .align _, _ => rfl
  | .nest _ _, h => by simp [Doc.closed] at h
  | .append a b, h => by
    simp only [Doc.closed, Bool.and_eq_true] at h
    simp [scale, scale_closed u a h.1, scale_closed u b h.2]
  | .group d, h => by simp [scale, scale_closed u d (by simpa [Doc.closed] using h)]
  | .flatAlt b f, h => by
    simp only [Doc.closed, Bool.and_eq_true] at h
    simp [scale, scale_closed u b h.1, scale_closed u f h.2]

theorem mkText_closed (wd : String → Nat) (t : Tag) (s : String) : (mkText wd t s).closed = true := by
  unfold mkText; split <;> rfl

end Pretty

namespace Pretty
open Typstyle (isWs)

/-! ### the token text of a layout -/

/-- Characters the printer may re-synthesise (delimiters and separators) — together with blanks
they are the only characters the token-preservation theorem does not account for. -/
def isDelimChar (c : Char) : Bool :=
  c == '(' || c == ')' || c == '{' || c == '}' || c == ',' || c == ';' || c == ':'

def keepChar (c : Char) : Bool := !isWs c && !isDelimChar c

/-- The kept characters of a string. -/
def keepOf (s : String) : String := String.ofList (s.toList.filter keepChar)

/-- The four streams a document carries by construction. -/
inductive Stream where
  | tok    -- code tokens: kept characters of everything that is not a comment
  | cmt    -- comments: all non-blank characters of comment atoms
  | prose  -- markup text: every character of prose atoms (C08)
  | lit    -- literals: every character of literal atoms (strings, raw text, numbers, labels, …; C10)
  | verb   -- verbatim regions: every character of the atoms copied for `@typstyle off` nodes (C07)
deriving DecidableEq, Repr

/-- The characters a text with tag `t` contributes to stream `c`. -/
def charsOf (c : Stream) (t : Tag) (s : String) : List Char :=
  match c with
  | .tok => if t = .comment then [] else s.toList.filter keepChar
  | .cmt => if t = .comment then s.toList.filter (fun x => !isWs x) else []
  | .prose => if t = .prose ∨ t = .plit then s.toList else []
  | .lit => if t = .lit ∨ t = .plit then s.toList else []
  | .verb => if t = .verbatim then s.toList else []

def atomChars (c : Stream) : Atom → List Char
  | .txt s t => charsOf c t s
  | .nl _ => []

/-- Text of stream `c` in a layout, in order. -/
def streamText (c : Stream) (xs : List Atom) : List Char := xs.flatMap (atomChars c)

/-- Token text of a layout: the kept characters of every atom that is not a comment, in order. -/
abbrev tokText (xs : List Atom) : List Char := streamText .tok xs
/-- Comment text of a layout: the non-blank characters of the comment atoms, in order. -/
abbrev cmtText (xs : List Atom) : List Char := streamText .cmt xs
/-- Prose text of a layout: all characters of the markup-text atoms, in order. -/
abbrev proseText (xs : List Atom) : List Char := streamText .prose xs
/-- Literal text of a layout: all characters of the literal atoms, in order. -/
abbrev litText (xs : List Atom) : List Char := streamText .lit xs
/-- Verbatim text of a layout: all characters of the atoms copied for `@typstyle off` nodes, in order. -/
abbrev verbText (xs : List Atom) : List Char := streamText .verb xs

theorem streamText_append (c : Stream) (xs ys : List Atom) : streamText c (xs ++ ys) = streamText c xs ++ streamText c ys := by
  simp [streamText]

/-- Every layout of `d`, in either mode, has text `s` in stream `c`. -/
def EmitsS (c : Stream) (d : Doc) (s : List Char) : Prop := ∀ m xs, Lay m d xs → streamText c xs = s
abbrev EmitsT (d : Doc) (s : List Char) : Prop := EmitsS .tok d s

theorem lay_app' {m a b xs} (h : Lay m (a ++ b) xs) : ∃ xa xb, xs = xa ++ xb ∧ Lay m a xa ∧ Lay m b xb := by
  change Lay m (Doc.app a b) xs at h
  unfold Doc.app at h
  split at h
  · exact ⟨[], xs, rfl, Lay.nil, h⟩
  · exact ⟨xs, [], by simp, h, Lay.nil⟩
  · cases h with
    | append h1 h2 => exact ⟨_, _, rfl, h1, h2⟩

theorem EmitsS.app {c a b sa sb} (ha : EmitsS c a sa) (hb : EmitsS c b sb) : EmitsS c (a ++ b) (sa ++ sb) := by
  intro m xs h
  obtain ⟨xa, xb, rfl, h1, h2⟩ := lay_app' h
  rw [streamText_append, ha m xa h1, hb m xb h2]

theorem EmitsS.grp {c d s} (h : EmitsS c d s) : EmitsS c d.grp s := by
  intro m xs hl
  unfold Doc.grp at hl
  split at hl
  · exact h m xs hl
  · exact h m xs hl
  · split at hl
    · exact h m xs hl
    · cases hl with
      | groupSame h' => exact h _ _ h'
      | groupFlat h' => exact h _ _ h'
  · cases hl with
    | groupSame h' => exact h _ _ h'
    | groupFlat h' => exact h _ _ h'

theorem EmitsS.nst {c d s n} (h : EmitsS c d s) : EmitsS c (d.nst n) s := by
  intro m xs hl
  unfold Doc.nst at hl
  split at hl
  · exact h m xs hl
  · split at hl
    · exact h m xs hl
    · cases hl with
      | nest h' => exact h _ _ h'

theorem EmitsS.falt {c b f s} (hb : EmitsS c b s) (hf : EmitsS c f s) : EmitsS c (Doc.falt b f) s := by
  intro m xs hl
  cases hl with
  | flatAltB h' => exact hb _ _ h'
  | flatAltF h' => exact hf _ _ h'

theorem EmitsS.mkText (c : Stream) (wd : String → Nat) (t : Tag) (s : String) :
    EmitsS c (mkText wd t s) (charsOf c t s) := by
  intro m xs h
  unfold Pretty.mkText at h
  split at h
  · rename_i he
    cases h
    have : s = "" := by simpa using he
    subst this
    cases c <;> simp [streamText, charsOf]
  · cases h
    simp [streamText, atomChars]

/-- Every text of the document is tagged as comment text, and there are no alternatives
(`flat_alt`): a converted comment. -/
def Doc.commentOnly : Doc → Bool
  | .text _ _ t => t == .comment
  | .append a b => a.commentOnly && b.commentOnly
  | .group d => d.commentOnly
  | .flatAlt _ _ => false
  | .nest _ d => d.commentOnly
  | .align d => d.commentOnly
  | _ => true

/-- The non-blank characters of all texts of the document, in order. -/
def Doc.allChars : Doc → List Char
  | .text s _ _ => s.toList.filter (fun x => !isWs x)
  | .append a b => a.allChars ++ b.allChars
  | .group d => d.allChars
  | .flatAlt b _ => b.allChars
  | .nest _ d => d.allChars
  | .align d => d.allChars
  | _ => []

theorem commentOnly_emits {m : Mode} {d : Doc} {xs : List Atom} (hl : Lay m d xs) :
    d.commentOnly = true → ∀ c, streamText c xs = (if c = .cmt then d.allChars else []) := by
  induction hl with
  | nil => intro _ c; cases c <;> rfl
  | text =>
    intro h c; simp only [Doc.commentOnly, beq_iff_eq] at h
    cases c <;> simp [streamText, atomChars, charsOf, h, Doc.allChars]
  | hardline => intro _ c; cases c <;> rfl
  | append _ _ iha ihb =>
    intro h c; simp only [Doc.commentOnly, Bool.and_eq_true] at h
    rw [streamText_append, iha h.1 c, ihb h.2 c]
    cases c <;> simp [Doc.allChars]
  | groupSame _ ih => intro h c; simpa [Doc.allChars] using ih (by simpa [Doc.commentOnly] using h) c
  | groupFlat _ ih => intro h c; simpa [Doc.allChars] using ih (by simpa [Doc.commentOnly] using h) c
  | flatAltB _ _ => intro h; simp [Doc.commentOnly] at h
  | flatAltF _ _ => intro h; simp [Doc.commentOnly] at h
  | nest _ ih => intro h c; simpa [Doc.allChars] using ih (by simpa [Doc.commentOnly] using h) c
  | align _ ih => intro h c; simpa [Doc.allChars] using ih (by simpa [Doc.commentOnly] using h) c

end Pretty

namespace Twin
open Pretty (scale EmitsS keepOf charsOf Stream)

/-- The four stream texts of a document. -/
structure Streams where
  tok : String := ""
  cmt : String := ""
  prose : String := ""
  lit : String := ""
  verb : String := ""
deriving DecidableEq, Repr

def Streams.get (s : Streams) : Stream → String
  | .tok => s.tok
  | .cmt => s.cmt
  | .prose => s.prose
  | .lit => s.lit
  | .verb => s.verb

def Streams.app (a b : Streams) : Streams :=
  ⟨a.tok ++ b.tok, a.cmt ++ b.cmt, a.prose ++ b.prose, a.lit ++ b.lit, a.verb ++ b.verb⟩

theorem Streams.get_app (a b : Streams) (c : Stream) : (a.app b).get c = a.get c ++ b.get c := by
  cases c <;> rfl

/-- The family of documents, one per indent unit, related by `scale`; together with the texts of
the four streams (`ss`) that every layout of every member carries (when `good`: the dynamic side
conditions — both alternatives of a `flat_alt` carry the same streams, a comment document holds only
comment text — held). -/
structure Doc where
  fam : Nat → Pretty.Doc
  rel : ∀ u, 0 < u → fam u = scale u (fam 1)
  ss : Streams
  good : Bool
  emits : good = true → ∀ u c, EmitsS c (fam u) (ss.get c).toList

def Doc.toks (d : Doc) : String := d.ss.tok
def Doc.cmts (d : Doc) : String := d.ss.cmt
def Doc.prose (d : Doc) : String := d.ss.prose
def Doc.lits (d : Doc) : String := d.ss.lit
def Doc.verbs (d : Doc) : String := d.ss.verb

/-- A comment (plain closed document): its non-blank characters go to the comment stream, nothing to the others. -/
def Doc.ofClosed (d : Pretty.Doc) (h : d.closed = true) : Doc :=
  { fam := fun _ => d
    rel := fun u _ => (Pretty.scale_closed u d h).symm
    ss := { cmt := String.ofList d.allChars }
    good := d.commentOnly
    emits := fun hg _ c m xs hl => by
      rw [Pretty.commentOnly_emits hl hg c]
      cases c <;> simp [Streams.get] }

def mkText (wd : String → Nat) (tag : Pretty.Tag) (s : String) : Doc :=
  { fam := fun _ => Pretty.mkText wd tag s
    rel := fun u _ => (Pretty.scale_closed u _ (Pretty.mkText_closed wd tag s)).symm
    ss := ⟨String.ofList (charsOf .tok tag s), String.ofList (charsOf .cmt tag s),
           String.ofList (charsOf .prose tag s), String.ofList (charsOf .lit tag s),
           String.ofList (charsOf .verb tag s)⟩
    good := true
    emits := fun _ _ c => by cases c <;> simpa [Streams.get] using Pretty.EmitsS.mkText _ wd tag s }

def Doc.nil : Doc := mkText (fun _ => 0) .soft ""
instance : Inhabited Doc := ⟨Doc.nil⟩

def Doc.app (a b : Doc) : Doc :=
  { fam := fun u => a.fam u ++ b.fam u
    rel := fun u hu => by rw [a.rel u hu, b.rel u hu, Pretty.scale_app]
    ss := a.ss.app b.ss
    good := a.good && b.good
    emits := fun hg u c => by
      simp only [Bool.and_eq_true] at hg
      simpa [Streams.get_app] using Pretty.EmitsS.app (a.emits hg.1 u c) (b.emits hg.2 u c) }
instance : Append Doc := ⟨Doc.app⟩

def Doc.grp (d : Doc) : Doc :=
  { d with fam := fun u => (d.fam u).grp
           rel := fun u hu => by rw [d.rel u hu, Pretty.scale_grp]
           emits := fun hg u c => Pretty.EmitsS.grp (d.emits hg u c) }

/-- `nest(config.tab_spaces)`: the only way the printer indents. -/
def Doc.nstTab (d : Doc) : Doc :=
  { d with fam := fun u => (d.fam u).nst u
           rel := fun u hu => by
             show (d.fam u).nst u = scale u ((d.fam 1).nst 1)
             rw [Pretty.scale_nst u hu, d.rel u hu, Nat.one_mul]
           emits := fun hg u c => Pretty.EmitsS.nst (d.emits hg u c) }

/-- `flat_alt`: both alternatives must carry the same streams (checked, recorded in `good`). -/
def Doc.falt (b f : Doc) : Doc :=
  { fam := fun u => Pretty.Doc.falt (b.fam u) (f.fam u)
    rel := fun u hu => by rw [b.rel u hu, f.rel u hu, Pretty.scale_falt]
    ss := b.ss
    good := b.good && f.good && b.ss == f.ss
    emits := fun hg u c => by
      simp only [Bool.and_eq_true, beq_iff_eq] at hg
      obtain ⟨⟨hb, hf⟩, ht⟩ := hg
      have hf1 := f.emits hf u c
      rw [← ht] at hf1
      exact Pretty.EmitsS.falt (b.emits hb u c) hf1 }

def space : Doc := mkText (fun _ => 0) .soft " "
def hardline : Doc :=
  { fam := fun _ => Pretty.hardline
    rel := fun _ _ => rfl
    ss := {}
    good := true
    emits := fun _ _ c m xs hl => by cases hl; cases c <;> rfl }
def line : Doc := Doc.falt hardline space
def line_ : Doc := Doc.falt hardline .nil

def Doc.enclose (d : Doc) (a b : Doc) : Doc := (a ++ d) ++ b

def repeatN (d : Doc) : Nat → Doc
  | 0 => .nil
  | n+1 => repeatN d n ++ d

def concatDocs (ds : List Doc) : Doc := ds.foldl (· ++ ·) .nil

def intersperse (ds : List Doc) (sep : Doc) : Doc :=
  match ds with
  | [] => .nil
  | d :: rest => rest.foldl (fun acc x => (acc ++ sep) ++ x) (Doc.nil ++ d)

/-- **Scaling by construction**: the member at unit `u` is `scale u` of the member at unit 1. -/
theorem Doc.scale_eq (d : Doc) (u : Nat) (hu : 0 < u) : d.fam u = scale u (d.fam 1) := d.rel u hu

@[simp] theorem fam_app (a b : Doc) (u : Nat) : (a ++ b).fam u = a.fam u ++ b.fam u := rfl
@[simp] theorem fam_grp (d : Doc) (u : Nat) : d.grp.fam u = (d.fam u).grp := rfl
@[simp] theorem fam_nstTab (d : Doc) (u : Nat) : d.nstTab.fam u = (d.fam u).nst u := rfl
@[simp] theorem fam_falt (b f : Doc) (u : Nat) : (Doc.falt b f).fam u = Pretty.Doc.falt (b.fam u) (f.fam u) := rfl
@[simp] theorem fam_nil (u : Nat) : Doc.nil.fam u = .nil := rfl
@[simp] theorem fam_space (u : Nat) : space.fam u = Pretty.space := rfl
@[simp] theorem fam_hardline (u : Nat) : hardline.fam u = Pretty.hardline := rfl
@[simp] theorem fam_ofClosed (d : Pretty.Doc) (h : d.closed = true) (u : Nat) : (Doc.ofClosed d h).fam u = d := rfl
@[simp] theorem fam_mkText (wd : String → Nat) (t : Pretty.Tag) (s : String) (u : Nat) :
    (mkText wd t s).fam u = Pretty.mkText wd t s := rfl

end Twin
