/-! Model of `pretty` 0.12.4: documents (with ghost provenance tags), builder smart
constructors and the renderer `best` / `fitting` (render.rs). No imports: the driver links. -/
namespace Pretty

/-- Ghost provenance of a text atom. Ignored by the renderer, erased before comparison with Rust. -/
inductive Tag where
  | tok        -- text copied from a leaf of the source tree
  | syn        -- constant printed instead of a leaf whose text the lexer fixes (`:`, `=`, `#`, …)
  | soft       -- synthesised blank, delimiter or separator
  | comment    -- a line or block comment (or one line of it)
  | verbatim   -- whole-node source text
  | prose      -- text copied from a markup `Text` leaf (a `tok` that also feeds the prose stream)
  | lit        -- text copied from a literal leaf (a `tok` that also feeds the literal stream)
  | plit       -- a literal that is also part of the prose: escape, link, label, reference target
deriving DecidableEq, Repr, Inhabited

inductive Doc where
  | nil : Doc
  | text (s : String) (len : Nat) (tag : Tag) : Doc
  | hardline : Doc
  | append (a b : Doc) : Doc
  | group (d : Doc) : Doc
  | flatAlt (b f : Doc) : Doc
  | nest (n : Int) (d : Doc) : Doc
  | align (d : Doc) : Doc          -- `column(|c| nesting(|n| nest(c - n)))`
deriving Repr, Inhabited

inductive Mode where
  | brk | flat
deriving DecidableEq, Repr

structure Cmd where
  ind : Nat
  mode : Mode
  doc : Doc

inductive Atom where
  | txt (s : String) (tag : Tag)
  | nl (ind : Nat)
deriving Repr, DecidableEq

def Doc.size : Doc → Nat
  | .nil => 1
  | .text _ _ _ => 1
  | .hardline => 1
  | .append a b => 2 + a.size + b.size
  | .group d => 1 + d.size
  | .flatAlt b f => 1 + b.size + f.size
  | .nest _ d => 1 + d.size
  | .align d => 1 + d.size

def docsSize : List Doc → Nat
  | [] => 0
  | d :: ds => d.size + docsSize ds

def cmdsSize : List Cmd → Nat
  | [] => 0
  | c :: cs => c.doc.size + 1 + cmdsSize cs

def pick (m : Mode) (b f : Doc) : Doc :=
  match m with
  | .brk => b
  | .flat => f

theorem pick_size_lt (m : Mode) (b f : Doc) : (pick m b f).size < 1 + b.size + f.size := by
  cases m <;> simp [pick] <;> omega

/-- `Best::fitting` (render.rs:350). -/
def fitting (w : Nat) (pos : Nat) (fcmds : List Doc) (mode : Mode) (rest : List Cmd) : Bool :=
  match fcmds with
  | [] =>
    match rest with
    | [] => true
    | c :: rest' => fitting w pos [c.doc] .brk rest'
  | d :: fs =>
    match d with
    | .nil => fitting w pos fs mode rest
    | .append a b => fitting w pos (a :: b :: fs) mode rest
    | .hardline => mode == .brk
    | .text _ len _ => if pos + len > w then false else fitting w (pos + len) fs mode rest
    | .flatAlt b f => fitting w pos (pick mode b f :: fs) mode rest
    | .nest _ d => fitting w pos (d :: fs) mode rest
    | .group d => fitting w pos (d :: fs) mode rest
    | .align d => fitting w pos (d :: fs) mode rest
termination_by docsSize fcmds + cmdsSize rest
decreasing_by
  all_goals simp only [docsSize, cmdsSize, Doc.size]
  all_goals try omega
  all_goals (have := pick_size_lt mode b f; omega)

def addInd (i : Nat) (n : Int) : Nat :=
  if n ≥ 0 then i + n.toNat else i - (-n).toNat

/-- `Best::best` (render.rs:435). -/
def best (w : Nat) (pos : Nat) (cmds : List Cmd) : List Atom :=
  match cmds with
  | [] => []
  | ⟨i, m, d⟩ :: rest =>
    match d with
    | .nil => best w pos rest
    | .append a b => best w pos (⟨i, m, a⟩ :: ⟨i, m, b⟩ :: rest)
    | .flatAlt b f => best w pos (⟨i, m, pick m b f⟩ :: rest)
    | .group d =>
      let m' := if m = .brk ∧ fitting w pos [d] .flat rest then Mode.flat else m
      best w pos (⟨i, m', d⟩ :: rest)
    | .nest n d => best w pos (⟨addInd i n, m, d⟩ :: rest)
    | .align d => best w pos (⟨pos, m, d⟩ :: rest)
    | .hardline =>
      match rest with
      | [] => [.nl i]
      | c :: rest' => .nl c.ind :: best w c.ind (c :: rest')
    | .text s len t => .txt s t :: best w (pos + len) rest
termination_by cmdsSize cmds
decreasing_by
  all_goals simp only [cmdsSize, Doc.size]
  all_goals try omega
  all_goals (have := pick_size_lt m b f; omega)

def Atom.render : Atom → String
  | .txt s _ => s
  | .nl n => "\n" ++ String.ofList (List.replicate n ' ')

def renderAtoms (xs : List Atom) : String := String.join (xs.map Atom.render)

def pretty (w : Nat) (d : Doc) : String := renderAtoms (best w 0 [⟨0, .brk, d⟩])

/-! ### builder (lib.rs `DocBuilder`) -/

def isAscii (s : String) : Bool := s.toList.all (fun c => c.toNat < 128)

/-- `text(..)` + `with_utf8_len`: empty text is `Nil`; `wd` is the display width of non-ASCII text. -/
def mkText (wd : String → Nat) (tag : Tag) (s : String) : Doc :=
  if s.isEmpty then .nil else .text s (if isAscii s then s.utf8ByteSize else wd s) tag

def Doc.app (a b : Doc) : Doc :=
  match a, b with
  | .nil, _ => b
  | _, .nil => a
  | _, _ => .append a b

instance : Append Doc := ⟨Doc.app⟩

/-- `group()`: no-op on `Nil`, `Group` and plain (ASCII) text; non-ASCII text sits under `RenderLen`. -/
def Doc.grp (d : Doc) : Doc :=
  match d with
  | .group _ | .nil => d
  | .text s _ _ => if isAscii s then d else .group d
  | _ => .group d

def Doc.nst (d : Doc) (n : Nat) : Doc :=
  match d with
  | .nil => d
  | _ => if n == 0 then d else .nest n d

def Doc.falt (b f : Doc) : Doc := .flatAlt b f

def space : Doc := .text " " 1 .soft
abbrev hardline : Doc := .hardline
def line : Doc := Doc.falt hardline space
def line_ : Doc := Doc.falt hardline .nil

def Doc.enclose (d : Doc) (a b : Doc) : Doc := (a ++ d) ++ b

def repeatN (d : Doc) : Nat → Doc
  | 0 => .nil
  | n+1 => repeatN d n ++ d

def concatDocs (ds : List Doc) : Doc := ds.foldl (· ++ ·) .nil

def intersperse (ds : List Doc) (sep : Doc) : Doc :=
  match ds with
  | [] => .nil
  | d :: rest => rest.foldl (fun acc x => (acc ++ sep) ++ x) (Doc.nil ++ d)

def Doc.alignD (d : Doc) : Doc := .align d
def Doc.hang (d : Doc) (n : Nat) : Doc := .align (d.nst n)

/-- Erase ghost tags (for comparison with the implementation's `Doc`). -/
def Doc.erase : Doc → Doc
  | .text s l _ => .text s l .tok
  | .append a b => .append a.erase b.erase
  | .group d => .group d.erase
  | .flatAlt b f => .flatAlt b.erase f.erase
  | .nest n d => .nest n d.erase
  | .align d => .align d.erase
  | d => d

def Doc.beq : Doc → Doc → Bool
  | .nil, .nil => true
  | .text s l t, .text s' l' t' => s == s' && l == l' && t == t'
  | .hardline, .hardline => true
  | .append a b, .append c d => Doc.beq a c && Doc.beq b d
  | .group a, .group b => Doc.beq a b
  | .flatAlt a b, .flatAlt c d => Doc.beq a c && Doc.beq b d
  | .nest n a, .nest m b => n == m && Doc.beq a b
  | .align a, .align b => Doc.beq a b
  | _, _ => false

instance : BEq Doc := ⟨Doc.beq⟩

end Pretty
