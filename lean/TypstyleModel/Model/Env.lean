import TypstyleModel.Model.Twin
import TypstyleModel.Model.Syntax
import TypstyleModel.Model.Text
/-! Configuration, context and the model's monad. -/
namespace Typstyle
open Pretty

/-- `config.rs` `Config`. -/
structure Config where
  tab : Nat := 2
  maxWidth : Nat := 80
  blankUpper : Nat := 2
  reorder : Bool := false
deriving Repr

/-- The part of the configuration the printer can see: everything except the indent unit.  The
printer builds the document family for *all* units at once (`Twin.Doc`); the unit is applied at the
very end (`printDoc`), so that no decision of the printer can depend on it (C12). -/
structure PConfig where
  maxWidth : Nat := 80
  blankUpper : Nat := 2
  reorder : Bool := false
deriving Repr

def Config.toP (c : Config) : PConfig := { maxWidth := c.maxWidth, blankUpper := c.blankUpper, reorder := c.reorder }

/-- What the printer closes over: the (unit-free) configuration and the (unmodelled) display-width function. -/
structure Env where
  cfg : PConfig
  wd : String → Nat

inductive LMode | markup | code | codeCont | math deriving DecidableEq, Repr
/-- `context.rs` `Context`. -/
structure Ctx where
  mode : LMode := .markup
  suppressed : Bool := false
deriving Repr

def LMode.isCode (m : LMode) : Bool := m == .code || m == .codeCont
def Ctx.withMode (c : Ctx) (m : LMode) : Ctx := { c with mode := m }
def Ctx.withModeIf (c : Ctx) (m : LMode) (b : Bool) : Ctx := if b then { c with mode := m } else c
def Ctx.suppress (c : Ctx) : Ctx := { c with suppressed := true }

inductive Fold | fit | never | always deriving DecidableEq, Repr

/-- Why the model refuses a tree: the Rust code would panic there, would silently drop a
child, or the tree has a shape the lexer/parser never produces. -/
inductive Reject where
  | fuel
  | panic (site : String)
  | dropped (where_ : String) (k : Kind)
  | shape (what : String)
deriving Repr

/-! ### the model's monad: state + rejection, linear in the conversion entries *by construction*

The state records which (entry point, node) pairs have been entered.  `enter` is the only operation
that changes it, and it refuses to enter the same pair twice or a node whose number is not below
`limit` (the number of nodes of the tree).  A computation of type `M α` carries the proof that it
preserves this invariant, so every definition of the model — written in ordinary `do` notation —
is linear by construction and the kernel checks it (property C18). -/

structure St where
  /-- number of nodes of the tree being printed -/
  limit : Nat
  /-- codes `entry * limit + node` of the conversion entries so far, most recent first -/
  visited : List Nat := []

/-- Number of entries into the four conversion entry points so far (the hook counter). -/
def St.calls (s : St) : Nat := s.visited.length

def St.OK (s : St) : Prop := s.visited.Nodup ∧ ∀ v ∈ s.visited, v < 4 * s.limit

def Preserves {α : Type} (f : St → Except Reject (α × St)) : Prop :=
  ∀ s, s.OK → ∀ a s', f s = .ok (a, s') → s'.OK ∧ s'.limit = s.limit

structure M (α : Type) where
  run : St → Except Reject (α × St)
  ok : Preserves run

def M.pure' {α : Type} (a : α) : M α :=
  ⟨fun s => .ok (a, s), by intro s hs a' s' h; cases h; exact ⟨hs, rfl⟩⟩

def M.bind' {α β : Type} (x : M α) (f : α → M β) : M β :=
  ⟨fun s => match x.run s with
    | .ok (a, s1) => (f a).run s1
    | .error e => .error e,
   by
    intro s hs b s' h
    cases hx : x.run s with
    | error e => simp [hx] at h
    | ok p =>
      obtain ⟨a, s1⟩ := p
      simp only [hx] at h
      have h1 := x.ok s hs a s1 hx
      have h2 := (f a).ok s1 h1.1 b s' h
      exact ⟨h2.1, h2.2.trans h1.2⟩⟩

instance : Monad M where
  pure := M.pure'
  bind := M.bind'

def reject {α : Type} (r : Reject) : M α := ⟨fun _ => .error r, by intro s _ a s' h; cases h⟩

/-- The four counted conversion entry points. -/
inductive Entry | expr | pattern | markup | math deriving DecidableEq, Repr
def Entry.code : Entry → Nat
  | .expr => 0 | .pattern => 1 | .markup => 2 | .math => 3

/-- Enter a conversion entry point on the node numbered `id`: counted once; a second entry of
the same pair, or a number that is not a node of the tree, is refused. -/
def enter (k : Entry) (id : Nat) : M Unit :=
  ⟨fun s =>
    if id < s.limit ∧ (k.code * s.limit + id) ∉ s.visited then
      .ok ((), { s with visited := (k.code * s.limit + id) :: s.visited })
    else .error (.shape s!"conversion entry {repr k} entered twice on node {id} (or node number out of range)"),
   by
    intro s hs a s' h
    simp only at h
    split at h
    · rename_i hc
      cases h
      refine ⟨⟨List.nodup_cons.mpr ⟨hc.2, hs.1⟩, ?_⟩, rfl⟩
      intro v hv
      rcases List.mem_cons.mp hv with rfl | hv'
      · have : k.code < 4 := by cases k <;> simp [Entry.code]
        have h1 : k.code * s.limit + id < k.code * s.limit + s.limit := Nat.add_lt_add_left hc.1 _
        have h2 : k.code * s.limit + s.limit = (k.code + 1) * s.limit := by rw [Nat.add_mul, Nat.one_mul]
        have h3 : (k.code + 1) * s.limit ≤ 4 * s.limit := Nat.mul_le_mul_right _ (by omega)
        show k.code * s.limit + id < 4 * s.limit
        omega
      · exact hs.2 v hv'
    · cases h⟩

def Env.tok (e : Env) (s : String) : Twin.Doc := Twin.mkText e.wd .tok s
/-- Text of a markup `Text`, shorthand or smart quote leaf. -/
def Env.prose (e : Env) (s : String) : Twin.Doc := Twin.mkText e.wd .prose s
/-- Text of a literal leaf (string, number, identifier, raw text …). -/
def Env.lit (e : Env) (s : String) : Twin.Doc := Twin.mkText e.wd .lit s
/-- Text of a literal leaf that is also prose (escape, link, label, reference target). -/
def Env.plit (e : Env) (s : String) : Twin.Doc := Twin.mkText e.wd .plit s
def Env.syn (e : Env) (s : String) : Twin.Doc := Twin.mkText e.wd .syn s
def Env.soft (e : Env) (s : String) : Twin.Doc := Twin.mkText e.wd .soft s
/-- One line of a comment, as a plain document (comments never contain indentation steps). -/
def Env.cmt (e : Env) (s : String) : Doc := mkText e.wd .comment s
def Env.cmtT (e : Env) (s : String) : Twin.Doc := Twin.mkText e.wd .comment s
def Env.verb (e : Env) (s : String) : Twin.Doc := Twin.mkText e.wd .verbatim s

/-- `Config::chain_width`: `(max_width as f32 * 0.6f32) as usize`, exact integer model of the f32 rounding. -/
def round24 (m : Nat) : Nat × Nat :=
  let bits := Nat.log2 m + 1
  if m == 0 || bits ≤ 24 then (m, 0) else
    let sh := bits - 24
    let q := m >>> sh
    let rem := m % (2 ^ sh)
    let half := 2 ^ (sh - 1)
    let q := if rem > half || (rem == half && q % 2 == 1) then q + 1 else q
    (q, sh)

def chainWidth (w : Nat) : Nat :=
  let (m1, s1) := round24 w
  let (m2, s2) := round24 (m1 * 10066330)
  let e : Int := (s1 + s2 : Nat) - 24
  if e ≥ 0 then m2 * 2 ^ e.toNat else m2 / 2 ^ (-e).toNat

end Typstyle
