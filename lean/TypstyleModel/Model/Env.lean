import TypstyleModel.Model.Doc
import TypstyleModel.Model.Syntax
import TypstyleModel.Model.Text
/-! Configuration, context and the model's monad. -/
namespace Typstyle
open Pretty

/-- `config.rs` `Config`. -/
structure Config where
  tab : Nat := 2
  maxWidth : Nat := 80
  blankUpper : Nat := 2
  reorder : Bool := false
deriving Repr

/-- What the printer closes over: the configuration and the (unmodelled) display-width function. -/
structure Env where
  cfg : Config
  wd : String → Nat

inductive LMode | markup | code | codeCont | math deriving DecidableEq, Repr
/-- `context.rs` `Context`. -/
structure Ctx where
  mode : LMode := .markup
  suppressed : Bool := false
deriving Repr

def Ctx.withMode (c : Ctx) (m : LMode) : Ctx := { c with mode := m }
def Ctx.withModeIf (c : Ctx) (m : LMode) (b : Bool) : Ctx := if b then { c with mode := m } else c
def Ctx.suppress (c : Ctx) : Ctx := { c with suppressed := true }

inductive Fold | fit | never | always deriving DecidableEq, Repr

/-- Why the model refuses a tree: the Rust code would panic there, would silently drop a
child, or the tree has a shape the lexer/parser never produces. -/
inductive Reject where
  | fuel
  | panic (site : String)
  | dropped (where_ : String) (k : Kind)
  | shape (what : String)
deriving Repr

/-- State: number of entries into the four conversion entry points (property C18). -/
abbrev M := StateT Nat (Except Reject)
def tick : M Unit := modify (· + 1)
def reject {α} (r : Reject) : M α := throw r

def Env.tok (e : Env) (s : String) : Doc := mkText e.wd .tok s
def Env.syn (e : Env) (s : String) : Doc := mkText e.wd .syn s
def Env.soft (e : Env) (s : String) : Doc := mkText e.wd .soft s
def Env.cmt (e : Env) (s : String) : Doc := mkText e.wd .comment s
def Env.verb (e : Env) (s : String) : Doc := mkText e.wd .verbatim s

/-- `Config::chain_width`: `(max_width as f32 * 0.6f32) as usize`, exact integer model of the f32 rounding. -/
def round24 (m : Nat) : Nat × Nat :=
  let bits := Nat.log2 m + 1
  if m == 0 || bits ≤ 24 then (m, 0) else
    let sh := bits - 24
    let q := m >>> sh
    let rem := m % (2 ^ sh)
    let half := 2 ^ (sh - 1)
    let q := if rem > half || (rem == half && q % 2 == 1) then q + 1 else q
    (q, sh)

def chainWidth (w : Nat) : Nat :=
  let (m1, s1) := round24 w
  let (m2, s2) := round24 (m1 * 10066330)
  let e : Int := (s1 + s2 : Nat) - 24
  if e ≥ 0 then m2 * 2 ^ e.toNat else m2 / 2 ^ (-e).toNat

end Typstyle
