import TypstyleModel.Model.Doc
/-! Executable certificates evaluated on documents (the implementation's own or the model's):
`lcSafe` (no layout lets text follow an open line comment), `scale` (indentation scaling),
`Doc.bound` (a width from which no group breaks for width).  Soundness theorems are in `Proofs/`. -/
namespace Pretty

/-- A text atom that may open a line comment: it starts with `//` and is not known (by its ghost
tag) to be literal or prose text — a line of a raw block that starts with `//` is raw text. For an
untagged document (the implementation's) every `//` text counts. -/
def isLC (s : String) (t : Tag) : Bool := s.startsWith "//" && !(t == .lit || t == .plit || t == .prose)
def isBlank (s : String) : Bool := s.all Char.isWhitespace

/-- The "open line comment" automaton over a layout. `none`: some non-blank text follows an
open line comment on the same line; `some o`: final state. -/
def run : Bool → List Atom → Option Bool
  | o, [] => some o
  | _, .nl _ :: r => run false r
  | o, .txt s t :: r =>
    if isBlank s then run o r
    else if o then none
    else run (isLC s t) r

/-- Abstract outcome set for one start state. -/
structure Out where
  viol : Bool
  closed : Bool
  opn : Bool
deriving DecidableEq, Repr

def Out.empty : Out := ⟨false, false, false⟩
def Out.union (a b : Out) : Out := ⟨a.viol || b.viol, a.closed || b.closed, a.opn || b.opn⟩
def Out.has (a : Out) : Option Bool → Bool
  | none => a.viol
  | some false => a.closed
  | some true => a.opn

abbrev Summ := Bool → Out

def Summ.seq (f g : Summ) : Summ := fun o =>
  let r := f o
  let a : Out := if r.closed then g false else Out.empty
  let b : Out := if r.opn then g true else Out.empty
  ⟨r.viol || a.viol || b.viol, a.closed || b.closed, a.opn || b.opn⟩

def summ : Mode → Doc → Summ
  | _, .nil => fun o => if o then ⟨false, false, true⟩ else ⟨false, true, false⟩
  | _, .text s _ t => fun o =>
    if isBlank s then (if o then ⟨false, false, true⟩ else ⟨false, true, false⟩)
    else if o then ⟨true, false, false⟩
    else if isLC s t then ⟨false, false, true⟩ else ⟨false, true, false⟩
  | .brk, .hardline => fun _ => ⟨false, true, false⟩
  | .flat, .hardline => fun _ => Out.empty
  | m, .append a b => (summ m a).seq (summ m b)
  | .flat, .group d => summ .flat d
  | .brk, .group d => fun o => (summ .brk d o).union (summ .flat d o)
  | .brk, .flatAlt b _ => summ .brk b
  | .flat, .flatAlt _ f => summ .flat f
  | m, .nest _ d => summ m d
  | m, .align d => summ m d

/-- Certificate for C04/C06: in no layout does text follow an open line comment on its line. -/
def lcSafe (d : Doc) : Bool := !((summ .brk d) false).viol

/-- Multiply every indentation step outside `align` by `u`. -/
def scale (u : Nat) : Doc → Doc
  | .append a b => .append (scale u a) (scale u b)
  | .group d => .group (scale u d)
  | .flatAlt b f => .flatAlt (scale u b) (scale u f)
  | .nest n d => .nest (n * u) (scale u d)
  | d => d

/-- Sum of the positive indentation steps. -/
def Doc.nsum : Doc → Nat
  | .append a b => a.nsum + b.nsum
  | .group d => d.nsum
  | .flatAlt b f => b.nsum + f.nsum
  | .nest n d => n.toNat + d.nsum
  | .align d => d.nsum
  | _ => 0

/-- Total render length of all text (both branches of every `flatAlt`). -/
def Doc.tlen : Doc → Nat
  | .text _ len _ => len
  | .append a b => a.tlen + b.tlen
  | .group d => d.tlen
  | .flatAlt b f => b.tlen + f.tlen
  | .nest _ d => d.tlen
  | .align d => d.tlen
  | _ => 0

/-- A width from which the layout no longer depends on the width (R4). -/
def Doc.bound (d : Doc) : Nat := d.nsum + d.tlen

end Pretty
