import TypstyleModel.Model.Stylist.List
import TypstyleModel.Model.Stylist.Flow
import TypstyleModel.Model.Stylist.Chain
import TypstyleModel.Model.Stylist.Plain
/-! Open recursion: every converter takes the child converters as a `Rec`. -/
namespace Typstyle
open Twin

/-- `MarkupScope` (markup.rs:14). -/
inductive Scope | document | contentBlock | strong | item deriving DecidableEq, Repr

/-- The conversion entry points a construct may call on its children. `expr`, `pattern`,
`markup`, `math` are the four counted entry points of C18; `paren` is `convert_parenthesized`,
which recurses into itself directly. -/
structure Rec where
  expr : Ctx → ANode → M Doc
  pattern : Ctx → ANode → M Doc
  markup : Ctx → ANode → Scope → M Doc
  math : Ctx → ANode → M Doc
  paren : Ctx → ANode → M Doc

/-- `get_fold_style_untyped` (pretty/mod.rs:50). -/
def foldStyle (ctx : Ctx) (n : ANode) : Fold :=
  if ctx.suppressed then (if n.attrs.multiline then .fit else .always)
  else if n.attrs.flavor then .never else .fit

def childOr (o : Option ANode) (what : String) : M ANode :=
  match o with
  | some n => pure n
  | none => reject (.shape what)

/-- `optional_paren` (parened_expr.rs:73). -/
def optionalParen (e : Env) (body : Doc) (d0 d1 : String) : Doc :=
  let op := Doc.falt (e.soft d0 ++ hardline) .nil
  let cl := Doc.falt (hardline ++ e.soft d1) .nil
  (((op ++ body).nstTab) ++ cl).grp

/-- `is_paren_needed` (parened_expr.rs:85). -/
def isParenNeeded (n : ANode) : Bool :=
  match n.kind with
  | .parenthesized | .codeBlock | .contentBlock | .funcCall | .array | .dict | .conditional | .whileLoop
  | .forLoop | .contextual | .closure | .raw => false
  | _ => true

/-- `parenthesize_if_necessary`. -/
def parenthesizeIfNecessary (e : Env) (ctx : Ctx) (body : Ctx → M Doc) : M Doc := do
  if ctx.mode == .codeCont then body ctx
  else
    let d ← body (ctx.withMode .codeCont)
    pure (optionalParen e d "(" ")")

/-- `convert_expr_with_optional_paren`. -/
def exprWithOptionalParen (e : Env) (r : Rec) (ctx : Ctx) (x : ANode) (useBraces : Bool) : M Doc := do
  if ctx.suppressed || !isParenNeeded x then r.expr ctx x
  else
    let (mode, d0, d1) := if useBraces then (LMode.code, "{", "}") else (LMode.codeCont, "(", ")")
    let d ← r.expr (ctx.withMode mode) x
    pure (optionalParen e d d0 d1)

/-! ### operators (ast.rs `BinOp`, `UnOp`) -/
def binOpOfKind : Kind → Option String
  | .plus => some "+" | .minus => some "-" | .star => some "*" | .slash => some "/"
  | .and_ => some "and" | .or_ => some "or" | .eqEq => some "==" | .exclEq => some "!="
  | .lt => some "<" | .ltEq => some "<=" | .gt => some ">" | .gtEq => some ">="
  | .eq => some "=" | .in_ => some "in" | .plusEq => some "+=" | .hyphEq => some "-="
  | .starEq => some "*=" | .slashEq => some "/=" | _ => none

def precOf : String → Nat
  | "*" | "/" => 6 | "+" | "-" => 5
  | "==" | "!=" | "<" | "<=" | ">" | ">=" | "in" | "not in" => 4
  | "and" => 3 | "or" => 2 | _ => 1

def binaryOpGo : List ANode → Bool → String
  | [], _ => "+"
  | c :: rest, neg =>
    if c.kind == .not_ then binaryOpGo rest true
    else if c.kind == .in_ && neg then "not in"
    else match binOpOfKind c.kind with
      | some o => o
      | none => binaryOpGo rest neg

/-- `Binary::op`. -/
def binaryOp (n : ANode) : String := binaryOpGo n.children false
def isChainableBinary (n : ANode) : Bool := precOf (binaryOp n) > 1

end Typstyle
