import TypstyleModel.Model.Printer.Markup
/-! `math.rs`. -/
namespace Typstyle
open Twin

def isSpaceAt (o : Option ANode) : Bool := (o.map (·.kind == .space)).getD false

def equationItem (e : Env) (r : Rec) (cs : List ANode) (isBlock : Bool) (c : Ctx) (child : ANode) : M (Option Doc) := do
  if child.kind != .math then return none
  if child.children.length == 0 then return none
  let lastIsLinebreak := ((((child.children.filter (fun x => isExpr x || x.kind == .space)).getLast?).map (·.kind == .linebreak)).getD false)
    || endsWithLinebreak child
  -- the body is followed by a line break and then something else (a comment)
  let followedByBreak := (((cs.dropWhile (fun x => x.attrs.id != child.attrs.id))[1]?).map
    (fun x => x.kind == .space && hasLinebreak x.text)).getD false
  let trailing := lastIsLinebreak && (followedByBreak ||
    (isSpaceAt (cs.reverse)[1]? && (((cs.reverse)[2]?).map (·.kind == .math)).getD false))
  let body ← r.math c child
  pure (some (if !isBlock && trailing then body ++ e.soft " " else body))

/-- `convert_equation`. -/
def convEquation (e : Env) (r : Rec) (ctx : Ctx) (n : ANode) : M Doc := do
  let ctx := ctx.withMode .math
  let cs := n.children
  let isBlock := isSpaceAt cs[1]? && isSpaceAt (cs.reverse)[1]?
  let fold := if !isBlock || ctx.suppressed then Fold.always else if n.attrs.multiline then Fold.never else Fold.fit
  let ls := ({} : LS).withFold fold
  let ls ← ls.processM e ctx cs (equationItem e r cs isBlock)
  pure (ls.print e { sep := Doc.nil, d0 := e.syn "$", d1 := e.syn "$", addDelimSpace := isBlock, tightDelim := !isBlock })

def mathStep (e : Env) (r : Rec) (ctx : Ctx) (acc : Doc × Bool) (node : ANode) : M (Doc × Bool) := do
  let (doc, atHash) := acc
  if isExpr node then pure (doc ++ (← r.expr (ctx.withModeIf .code atHash) node), false)
  else if node.kind == .space then pure (doc ++ (if hasLinebreak node.text then hardline else space), false)
  else if node.kind == .hash then pure (doc ++ e.syn "#", true)
  else if isCommentKind node.kind then pure (doc ++ e.cmtT node.text, false)
  else pure (doc ++ e.tok node.text, false)       -- LeftParen, RightParen, …

/-- `convert_math`. -/
def convMath (e : Env) (r : Rec) (ctx : Ctx) (n : ANode) : M Doc := do
  enter .math n.attrs.id
  if n.attrs.disabled then return e.verb n.intoText
  let acc ← n.children.foldlM (mathStep e r ctx.suppress) (Doc.nil, false)
  pure acc.1

def delimitedProducer (r : Rec) (_ : Unit) (c : Ctx) (node : ANode) : M (Unit × Option FlowItem) := do
  if node.kind == .math then pure ((), tight (← r.math c node))
  else if node.kind == .space then pure ((), tight (if hasLinebreak node.text then line else space))
  else pure ((), none)

/-- `convert_math_delimited`. -/
def convMathDelimited (e : Env) (r : Rec) (ctx : Ctx) (n : ANode) : M Doc := do
  let cs := n.children
  if cs.length < 2 then reject (.panic "math.rs:92 inner_nodes[1..len-1]") else
  let inner := (cs.drop 1).dropLast
  let a : Doc × List ANode := match inner with
    | f :: rest => if f.kind == .space then ((if hasLinebreak f.text then hardline else space), rest) else (Doc.nil, inner)
    | [] => (Doc.nil, inner)
  let b : Doc × List ANode := match a.2.getLast? with
    | some l => if l.kind == .space then ((if hasLinebreak l.text then hardline else space), a.2.dropLast) else (Doc.nil, a.2)
    | none => (Doc.nil, a.2)
  let body ← flowM e ctx b.2 () (delimitedProducer r)
  let op ← r.expr ctx (← childOr (firstWhere n isExpr) "MathDelimited without open")
  let cl ← r.expr ctx (← childOr (lastWhere n isExpr) "MathDelimited without close")
  pure ((((a.1 ++ body).nstTab) ++ b.1).enclose op cl)

/-- State: the last node was a hashed expression that ends with an identifier. -/
def attachProducer (e : Env) (r : Rec) (afterHashedIdent : Bool) (c : Ctx) (node : ANode) : M (Bool × Option FlowItem) := do
  if isExpr node then
    let a := c.mode.isCode && (node.kind == .ident || node.kind == .fieldAccess || node.kind == .bool
      || node.kind == .none_ || node.kind == .auto_)
    pure (a, some ⟨← r.expr c node, false, a⟩)
  else if node.kind == .space then pure (afterHashedIdent, none)
  else if node.kind == .underscore && afterHashedIdent then pure (false, some ⟨e.tok node.text, true, false⟩)
  else pure (false, tight (e.tok node.text))

/-- `convert_math_attach`. -/
def convMathAttach (e : Env) (r : Rec) (ctx : Ctx) (n : ANode) : M Doc :=
  flowM e ctx n.children false (attachProducer e r)

def rootProducer (e : Env) (r : Rec) (_ : Unit) (c : Ctx) (node : ANode) : M (Unit × Option FlowItem) := do
  if isExpr node then pure ((), tight (← r.expr c node))
  else if node.kind == .space then pure ((), none)
  else pure ((), tight (e.tok node.text))

/-- `convert_math_root`. -/
def convMathRoot (e : Env) (r : Rec) (ctx : Ctx) (n : ANode) : M Doc :=
  flowM e ctx n.children () (rootProducer e r)

def fracProducer (e : Env) (r : Rec) (_ : Unit) (c : Ctx) (node : ANode) : M (Unit × Option FlowItem) := do
  if isExpr node then pure ((), spaced (← r.expr c node))
  else if node.kind == .semicolon then pure ((), tightSpaced (e.tok node.text))
  else if node.kind != .space then pure ((), spaced (e.tok node.text))
  else pure ((), none)

/-- `convert_math_frac`. -/
def convMathFrac (e : Env) (r : Rec) (ctx : Ctx) (n : ANode) : M Doc :=
  flowM e ctx n.children () (fracProducer e r)

/-- `convert_math_primes`. -/
def convMathPrimes (e : Env) (n : ANode) : M Doc :=
  if n.children.all (fun c => c.kind == .prime && c.text == "'") then
    pure (e.syn (String.ofList (List.replicate n.children.length '\'')))
  else reject (.shape "MathPrimes with a child that is not a prime")

end Typstyle
