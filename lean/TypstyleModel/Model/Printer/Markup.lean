import TypstyleModel.Model.Printer.Code
/-! `markup.rs`, `text.rs`. -/
namespace Typstyle
open Twin

/-- `Boundary` (markup.rs:251). -/
inductive Bound | nil | nilOrBreak | spaceOrBreak | brk | weakSpaceOrBreak | weakBreak deriving DecidableEq, Repr

def Bound.fromSpace (s : String) : Bound := if hasLinebreak s then .brk else .spaceOrBreak
def Bound.stripSpace : Bound → Bound
  | .spaceOrBreak => .nilOrBreak
  | b => b

structure MLine where
  nodes : List ANode := []
  breaks : Nat := 0
  mixedText : Bool := false

def isBlockElem (n : ANode) : Bool := n.kind == .listItem || n.kind == .enumItem || n.kind == .termItem

structure MRepr where
  lines : List MLine
  startB : Bound
  endB : Bound

/-- Main loop of `collect_markup_repr`. State: (finished lines, current line, start bound). -/
def reprStep (acc : List MLine × MLine × Bound) (node : ANode) : List MLine × MLine × Bound :=
  let (lines, cur, startB) := acc
  let k := node.kind
  if k == .parbreak then (lines ++ [{ cur with breaks := countLinebreaks node.text }], {}, startB)
  else if k == .space && cur.nodes.isEmpty then (lines, cur, Bound.fromSpace node.text)
  else if k == .space && hasLinebreak node.text then (lines ++ [{ cur with breaks := 1 }], {}, startB)
  else
    let cur := if k == .text || k == .strong || k == .emph || k == .raw then { cur with mixedText := true } else cur
    let startB := if cur.nodes.isEmpty && isBlockElem node then startB.stripSpace else startB
    (lines, { cur with nodes := cur.nodes ++ [node] }, startB)

mutual
/-- `ends_with_linebreak`: the last token of the node is a linebreak, at any depth. -/
def endsWithLinebreak : ANode → Bool
  | .leaf _ _ _ => false
  | .inner _ cs _ => endsWithLinebreakL cs
def endsWithLinebreakL : List ANode → Bool
  | [] => false
  | [a] => a.kind == .linebreak || endsWithLinebreak a
  | _ :: rest => endsWithLinebreakL rest
end

/-- "Remove trailing spaces" loop on the last line. -/
def stripTrailing : Nat → List ANode → Bound → List ANode × Bound
  | 0, nodes, endB => (nodes, endB)
  | fuel+1, nodes, endB =>
    match nodes.getLast? with
    | none => (nodes, endB)
    | some l =>
      if l.kind == .space then stripTrailing fuel nodes.dropLast (Bound.fromSpace l.text)
      -- a trailing `\` of the item must not meet the closing bracket
      else (nodes, if isBlockElem l && !endsWithLinebreak l then endB.stripSpace else endB)

/-- "Check boundary through comments". -/
def throughComments (line : Option MLine) (fromEnd : Bool) (b : Bound) : Bound :=
  if b != Bound.nil then b else
  match line with
  | none => b
  | some l =>
    let cand := if fromEnd then l.nodes.reverse.find? (fun it => !isCommentKind it.kind) else l.nodes.find? (fun it => !isCommentKind it.kind)
    match cand with
    | some it => if isBlockElem it then .nilOrBreak else if it.kind == .space then .weakSpaceOrBreak else b
    | none => if !l.nodes.isEmpty then .weakBreak else b

/-- `collect_markup_repr`. -/
def collectMarkupRepr (children : List ANode) : MRepr :=
  let r := children.foldl reprStep (([] : List MLine), ({} : MLine), Bound.nil)
  let lines := if !r.2.1.nodes.isEmpty then r.1 ++ [r.2.1] else r.1
  let startB := r.2.2
  let le : List MLine × Bound :=
    match lines.getLast? with
    | none => (lines, Bound.nil)
    | some last =>
      let lb : MLine × Bound := if last.breaks > 0 then ({ last with breaks := last.breaks - 1 }, Bound.brk) else (last, Bound.nil)
      let s := stripTrailing (lb.1.nodes.length + 1) lb.1.nodes lb.2
      (lines.dropLast ++ [{ lb.1 with nodes := s.1 }], s.2)
  { lines := le.1, startB := throughComments le.1.head? false startB, endB := throughComments le.1.getLast? true le.2 }

/-- `get_delim` (markup.rs:198). -/
def getDelim (scope : Scope) (isSym hasLB suppressed : Bool) (b : Bound) : Doc :=
  if scope == .document || scope == .item then (if b == .brk then hardline else .nil)
  else match b with
    | .nil => .nil
    | .nilOrBreak => if scope == .item || (!isSym && !hasLB) || suppressed then .nil else line_
    | .spaceOrBreak | .weakSpaceOrBreak =>
      if (isSym && !suppressed) || hasLB then line else if scope == .item then .nil else space
    | .brk | .weakBreak => hardline

def markupNodeStep (e : Env) (r : Rec) (ctx : Ctx) (mixed : Bool) (doc : Doc) (node : ANode) : M Doc := do
  let d ←
    if node.kind == .space then pure space
    else if node.kind == .text then pure (e.prose node.intoText)
    else if isExpr node then r.expr (if mixed then ctx.suppress else ctx) node
    else if isCommentKind node.kind then convCommentT e node
    else pure (e.tok node.text)       -- Hash, Semicolon, Shebang
  pure (doc ++ d)

def markupLineStep (e : Env) (r : Rec) (ctx : Ctx) (doc : Doc) (l : MLine) : M Doc := do
  let doc ← l.nodes.foldlM (markupNodeStep e r ctx l.mixedText) doc
  pure (if l.breaks > 0 then doc ++ repeatN hardline l.breaks else doc)

/-- `convert_markup_impl`. -/
def convMarkup (e : Env) (r : Rec) (ctx : Ctx) (n : ANode) (scope : Scope) : M Doc := do
  enter .markup n.attrs.id
  let ctx := ctx.withMode .markup
  if isOnlyOneAnd n.children (·.kind == .space) then return space
  let repr := collectMarkupRepr n.children
  let doc ← repr.lines.foldlM (markupLineStep e r ctx) Doc.nil
  let hasLB := n.attrs.multiline
  let isSym := repr.startB != .nil && repr.endB != .nil
  pure (doc.enclose (getDelim scope isSym hasLB ctx.suppressed repr.startB) (getDelim scope isSym hasLB ctx.suppressed repr.endB))

/-- `convert_strong` / `convert_emph`. -/
def convStrongEmph (e : Env) (r : Rec) (ctx : Ctx) (n : ANode) (delim : String) : M Doc := do
  let body ← childOr (firstWhere n (·.kind == .markup)) "Strong/Emph without Markup"
  let d ← r.markup ctx body .strong
  pure (d.enclose (e.syn delim) (e.syn delim))

def rawStep (e : Env) (doc : Doc) (c : ANode) : Doc :=
  if c.kind == .rawDelim || c.kind == .rawLang then doc ++ e.lit c.text
  else if c.kind == .text then doc ++ e.lit c.intoText
  else if c.kind == .rawTrimmed then doc ++ (if hasLinebreak c.text then hardline else space)
  else doc

/-- A raw element that is not a block but spans several lines is copied as it is. -/
def rawIsVerbatim (n : ANode) : Bool :=
  let delimLen := ((firstWhere n (·.kind == .rawDelim)).map (·.text.utf8ByteSize)).getD 0
  let isBlock := delimLen ≥ 3 && n.children.any (fun c => c.kind == .rawTrimmed && c.text.toList.any isNewlineChar)
  let lines := (n.children.filter (·.kind == .text)).length
  !isBlock && lines > 1

/-- `convert_raw`. -/
def convRaw (e : Env) (n : ANode) : Doc :=
  if rawIsVerbatim n then e.lit n.intoText
  else n.children.foldl (rawStep e) Doc.nil

/-- `convert_ref`. -/
def convRef (e : Env) (r : Rec) (ctx : Ctx) (n : ANode) : M Doc := do
  let marker ← childOr (firstWhere n (·.kind == .refMarker)) "Ref without RefMarker"
  let target := String.ofList (marker.text.toList.dropWhile (· == '@'))
  let doc := e.syn "@" ++ e.plit target
  match lastWhere n (·.kind == .contentBlock) with
  | some s => pure (doc ++ (← convContentBlock e r ctx s))
  | none => pure doc

def headingProducer (e : Env) (r : Rec) (_ : Unit) (c : Ctx) (child : ANode) : M (Unit × Option FlowItem) := do
  if child.kind == .headingMarker then pure ((), spaced (e.tok child.text))
  else if child.kind == .markup then pure ((), spaced (← r.markup c child .item))
  else if child.kind == .space then pure ((), none)
  else reject (.dropped "convert_heading" child.kind)

/-- `convert_heading`. -/
def convHeading (e : Env) (r : Rec) (ctx : Ctx) (n : ANode) : M Doc :=
  flowM e ctx n.children () (headingProducer e r)

/-- State: the colon of a term item needs a blank in front of it — nothing has been emitted since the
marker (an empty term, `/ : desc`), or the term ends with a linebreak (`/ a \ : b`: `\:` is an escape). -/
def listItemProducer (e : Env) (r : Rec) (afterMarker : Bool) (c : Ctx) (child : ANode) : M (Bool × Option FlowItem) := do
  match child.kind with
  | .listMarker | .enumMarker | .termMarker => pure (true, spaced (e.tok child.text))
  | .colon => pure (false, some ⟨e.tok child.text, afterMarker, true⟩)
  | .space => if hasLinebreak child.text then pure (afterMarker, tight hardline) else pure (afterMarker, none)
  | .parbreak => pure (afterMarker, tight (repeatN hardline (countLinebreaks child.text)))
  | .markup => if !child.children.isEmpty then pure (endsWithLinebreak child, spaced (← r.markup c child .item)) else pure (afterMarker, none)
  | k => reject (.dropped "convert_list_item_like" k)

/-- `convert_list_item_like`. -/
def convListItemLike (e : Env) (r : Rec) (ctx : Ctx) (n : ANode) : M Doc := do
  let d ← flowM e ctx n.children false (listItemProducer e r)
  pure (d.nstTab)

end Typstyle
