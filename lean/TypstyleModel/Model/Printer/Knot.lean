import TypstyleModel.Model.Printer.Math
/-! The dispatch of `convert_expr_impl` / `convert_pattern` and the fuel knot. -/
namespace Typstyle
open Twin

/-- A constant printed for a whole node: the node's text must be exactly that constant. -/
def Env.synNode (e : Env) (n : ANode) (s : String) : M Doc :=
  if n.intoText == s then pure (e.syn s) else reject (.shape s!"{n.kind.name} node whose text is not {s}")

/-- `convert_expr_impl` (pretty/mod.rs:97). -/
def convExprImpl (e : Env) (r : Rec) (ctx : Ctx) (n : ANode) : M Doc :=
  match n.kind with
  | .text => pure (e.tok n.intoText)
  | .space => pure (if hasLinebreak n.text then hardline else space)
  | .linebreak | .escape | .shorthand | .smartQuote | .link | .label | .ident | .bool | .int | .float | .numeric | .str
  | .mathText | .mathIdent | .mathAlignPoint | .mathShorthand => pure (e.tok n.text)
  | .parbreak => pure (repeatN hardline (countLinebreaks n.text))
  | .none_ => e.synNode n "none"
  | .auto_ => e.synNode n "auto"
  | .loopBreak => e.synNode n "break"
  | .loopContinue => e.synNode n "continue"
  | .strong => convStrongEmph e r ctx n "*"
  | .emph => convStrongEmph e r ctx n "_"
  | .raw => pure (convRaw e n)
  | .ref => convRef e r ctx n
  | .heading => convHeading e r ctx n
  | .listItem | .enumItem | .termItem => convListItemLike e r ctx n
  | .equation => convEquation e r ctx n
  | .math => r.math ctx n
  | .mathDelimited => convMathDelimited e r ctx n
  | .mathAttach | .mathRoot => convMathAttachLike e r ctx n
  | .mathPrimes => convMathPrimes e n
  | .mathFrac => convMathFrac e r ctx n
  | .codeBlock => convCodeBlock e r ctx n
  | .contentBlock => convContentBlock e r ctx n
  | .parenthesized => r.paren ctx n
  | .array => convArray e r ctx n
  | .dict => convDict e r ctx n
  | .unary => convUnary e r ctx n
  | .binary => convBinary e r ctx n
  | .fieldAccess => convFieldAccess e r ctx n
  | .funcCall => convFuncCall e r ctx n
  | .closure => convClosure e r ctx n
  | .letBinding | .destructAssignment => convLet e r ctx n
  | .setRule => convSetRule e r ctx n
  | .showRule => convShowRule e r ctx n
  | .contextual | .conditional | .whileLoop | .funcReturn | .moduleInclude => convExprFlow e r ctx n
  | .forLoop => convForLoop e r ctx n
  | .moduleImport => convImport e r ctx n
  | k => reject (.shape s!"convert_expr on a node of kind {k.name}")

/-- `convert_expr` (entry point). -/
def convExpr (e : Env) (r : Rec) (ctx : Ctx) (n : ANode) : M Doc := do
  enter .expr n.attrs.id
  if n.attrs.disabled then pure (e.verb n.intoText) else convExprImpl e r ctx n

/-- `convert_pattern` (entry point). `rSelf` is the same level (pattern → expr forwards without descending). -/
def convPattern (e : Env) (r : Rec) (exprSame : Ctx → ANode → M Doc) (parenSame : Ctx → ANode → M Doc) (ctx : Ctx) (n : ANode) : M Doc := do
  enter .pattern n.attrs.id
  if n.attrs.disabled then pure (e.verb n.intoText) else
  match n.kind with
  | .underscore => e.synNode n "_"
  | .destructuring => convDestructuring e r ctx n
  | .parenthesized => parenSame ctx n
  | _ => exprSame ctx n

def rejectAll : Rec :=
  { expr := fun _ _ => reject .fuel, pattern := fun _ _ => reject .fuel, markup := fun _ _ _ => reject .fuel,
    math := fun _ _ => reject .fuel, paren := fun _ _ => reject .fuel }

/-- The knot: level `fuel+1` converts a node with level `fuel` for its children. -/
def knot (e : Env) : Nat → Rec
  | 0 => rejectAll
  | fuel+1 =>
    let r := knot e fuel
    let exprF := convExpr e r
    let parenF := convParenthesized e r
    { expr := exprF
      pattern := convPattern e r exprF parenF
      markup := convMarkup e r
      math := convMath e r
      paren := parenF }

/-- Attributes, then node numbers. -/
def prepare (root : Node) : ANode := (number (annotate false root) 0).1

/-- Stages 2+3 of the pipeline for all indent units at once: attributes, then `convert_markup`
of the root. Returns the document family and the number of entries into the four conversion entry points. -/
def printTwin (e : Env) (root : Node) : Except Reject (Twin.Doc × Nat) :=
  let t := prepare root
  match ((knot e (2 * t.depth + 2)).markup {} t .document).run { limit := t.size } with
  | .ok (d, s) => .ok (d, s.calls)
  | .error r => .error r

/-- Stages 2+3 at a given configuration: the member of the family at `cfg.tab`. -/
def printDoc (cfg : Config) (wd : String → Nat) (root : Node) : Except Reject (Pretty.Doc × Nat) :=
  match printTwin { cfg := cfg.toP, wd := wd } root with
  | .ok (d, calls) => .ok (d.fam cfg.tab, calls)
  | .error r => .error r

/-- `Typstyle::format_source` after the error check. -/
def format (cfg : Config) (wd : String → Nat) (root : Node) : Except Reject String :=
  match printDoc cfg wd root with
  | .ok r => .ok (strip (Pretty.pretty cfg.maxWidth r.1))
  | .error r => .error r

end Typstyle
