import TypstyleModel.Model.Printer.Math
/-! The dispatch of `convert_expr_impl` / `convert_pattern` and the fuel knot. -/
namespace Typstyle
open Twin

/-- A constant printed for a whole node: the node's text must be exactly that constant. -/
def Env.synNode (e : Env) (n : ANode) (s : String) : M Doc :=
  if n.intoText == s then pure (e.syn s) else reject (.shape s!"{n.kind.name} node whose text is not {s}")

/-- The stream a leaf's own text belongs to, for the leaves that are printed from their text. -/
def leafTag : Kind → Option Pretty.Tag
  | .text | .shorthand | .smartQuote => some .prose
  | .escape | .link | .label => some .plit
  | .ident | .bool | .int | .float | .numeric | .str | .mathIdent => some .lit
  | .linebreak | .mathText | .mathAlignPoint | .mathShorthand | .underscore => some .tok
  | _ => none

/-- Verbatim emission of a disabled node: the whole source text (a leaf keeps its stream). -/
def Env.verbNode (e : Env) (n : ANode) : Doc :=
  match n, leafTag n.kind with
  | .leaf _ t _, some tag => Twin.mkText e.wd tag t
  | _, _ => e.verb n.intoText

/-- `convert_expr_impl` (pretty/mod.rs:97). -/
def convExprImpl (e : Env) (r : Rec) (ctx : Ctx) (n : ANode) : M Doc :=
  match n.kind with
  | .text => pure (e.prose n.intoText)
  | .space => pure (if hasLinebreak n.text then hardline else space)
  | .shorthand | .smartQuote => pure (e.prose n.text)
  | .escape | .link | .label => pure (e.plit n.text)
  | .ident | .bool | .int | .float | .numeric | .str | .mathIdent => pure (e.lit n.text)
  | .linebreak | .mathText | .mathAlignPoint | .mathShorthand => pure (e.tok n.text)
  | .parbreak => pure (repeatN hardline (countLinebreaks n.text))
  | .none_ => e.synNode n "none"
  | .auto_ => e.synNode n "auto"
  | .loopBreak => e.synNode n "break"
  | .loopContinue => e.synNode n "continue"
  | .strong => convStrongEmph e r ctx n "*"
  | .emph => convStrongEmph e r ctx n "_"
  | .raw => pure (convRaw e n)
  | .ref => convRef e r ctx n
  | .heading => convHeading e r ctx n
  | .listItem | .enumItem | .termItem => convListItemLike e r ctx n
  | .equation => convEquation e r ctx n
  | .math => r.math ctx n
  | .mathDelimited => convMathDelimited e r ctx n
  | .mathAttach => convMathAttach e r ctx n
  | .mathRoot => convMathRoot e r ctx n
  | .mathPrimes => convMathPrimes e n
  | .mathFrac => convMathFrac e r ctx n
  | .codeBlock => convCodeBlock e r ctx n
  | .contentBlock => convContentBlock e r ctx n
  | .parenthesized => r.paren ctx n
  | .array => convArray e r ctx n
  | .dict => convDict e r ctx n
  | .unary => convUnary e r ctx n
  | .binary => convBinary e r ctx n
  | .fieldAccess => convFieldAccess e r ctx n
  | .funcCall => convFuncCall e r ctx n
  | .closure => convClosure e r ctx n
  | .letBinding | .destructAssignment => convLet e r ctx n
  | .setRule => convSetRule e r ctx n
  | .showRule => convShowRule e r ctx n
  | .contextual | .conditional | .whileLoop | .funcReturn | .moduleInclude => convExprFlow e r ctx n
  | .forLoop => convForLoop e r ctx n
  | .moduleImport => convImport e r ctx n
  | k => reject (.shape s!"convert_expr on a node of kind {k.name}")

/-- `convert_expr` (entry point). -/
def convExpr (e : Env) (r : Rec) (ctx : Ctx) (n : ANode) : M Doc := do
  enter .expr n.attrs.id
  if n.attrs.disabled then pure (e.verbNode n) else convExprImpl e r ctx n

/-- `convert_pattern` (entry point). `rSelf` is the same level (pattern → expr forwards without descending). -/
def convPattern (e : Env) (r : Rec) (exprSame : Ctx → ANode → M Doc) (parenSame : Ctx → ANode → M Doc) (ctx : Ctx) (n : ANode) : M Doc := do
  enter .pattern n.attrs.id
  if n.attrs.disabled then pure (e.verbNode n) else
  match n.kind with
  | .underscore => e.synNode n "_"
  | .destructuring => convDestructuring e r ctx n
  | .parenthesized => parenSame ctx n
  | _ => exprSame ctx n

def rejectAll : Rec :=
  { expr := fun _ _ => reject .fuel, pattern := fun _ _ => reject .fuel, markup := fun _ _ _ => reject .fuel,
    math := fun _ _ => reject .fuel, paren := fun _ _ => reject .fuel }

/-- The knot: level `fuel+1` converts a node with level `fuel` for its children. -/
def knot (e : Env) : Nat → Rec
  | 0 => rejectAll
  | fuel+1 =>
    let r := knot e fuel
    let exprF := convExpr e r
    let parenF := convParenthesized e r
    { expr := exprF
      pattern := convPattern e r exprF parenF
      markup := convMarkup e r
      math := convMath e r
      paren := parenF }

/-- Attributes, then node numbers. -/
def prepare (root : Node) : ANode := (number (annotate false root) 0).1

/-- Is this node emitted verbatim as a whole (`@typstyle off`)?  The mark only takes effect where an
entry point checks it: expressions, patterns, code and math bodies; a code block whose body is marked
is emitted verbatim as a whole (`convert_code_block`). -/
def isVerbatimNode (k : Kind) (cs : List ANode) (a : Attrs) : Bool :=
  (a.disabled && (k.isExpr || k == .math || k == .code || k == .destructuring)) ||
  (k == .codeBlock && ((cs.find? (·.kind == .code)).map (·.attrs.disabled)).getD false)

mutual
/-- The token text the source tree prescribes: the kept characters (everything except blanks and
the delimiters/separators `( ) { } , ; :`) of every leaf that is not a comment or white space, in
order; a verbatim node counts with its whole source text. -/
def specToks : ANode → String
  | .leaf k t _ =>
    if isCommentKind k || k == .space || k == .parbreak then ""
    else Pretty.keepOf t
  | .inner k cs a =>
    if isVerbatimNode k cs a then Pretty.keepOf (ANode.intoTextL cs) else specToksL cs
def specToksL : List ANode → String
  | [] => ""
  | c :: cs => specToks c ++ specToksL cs
end

/-- The flattened node list `convert_import` hands to `convert_import_items` (everything from the
opening parenthesis or the item list on, item lists replaced by their children). -/
def importFlattened (nodes : List ANode) : List ANode :=
  let div := (nodes.findIdx? fun c => c.kind == .leftParen || c.kind == .importItems).getD nodes.length
  (nodes.drop div).flatMap fun c => if c.kind == .importItems then c.children else [c]

mutual
/-- The tree with the items of every import statement in the order the printer emits them for
configuration `cfg` (`importOrder`): with reordering on, and when the statement is sortable (no
comment in the list, no name bound twice), the children of its item list are sorted.  (The printer
sorts the *flattened* list, parentheses and separators included; a stable sort orders the items among
themselves exactly as sorting them alone does, and the other nodes carry no token or literal text.) -/
def reorderTree (cfg : PConfig) : ANode → ANode
  | .leaf k t a => .leaf k t a
  | .inner k cs a =>
    -- a node that is emitted verbatim (`@typstyle off`) is not touched, whatever it contains
    if isVerbatimNode k cs a then .inner k cs a else
    .inner k (reorderTreeL cfg (k == .moduleImport && cfg.reorder && importSortable (importFlattened cs)) cs) a
def reorderTreeL (cfg : PConfig) (sortItems : Bool) : List ANode → List ANode
  | [] => []
  | c :: cs =>
    (if sortItems && c.kind == .importItems then
      (match c with
        | .inner k ics a => ANode.inner k (stableSort importSortKey ics) a
        | l => l)
     else reorderTree cfg c) :: reorderTreeL cfg sortItems cs
end

mutual
/-- No comment leaf and no verbatim node anywhere in the tree. -/
def ANode.noCommentNoVerbatim : ANode → Bool
  | .leaf k _ _ => !isCommentKind k
  | .inner k cs a => !isVerbatimNode k cs a && ANode.noCommentNoVerbatimL cs
def ANode.noCommentNoVerbatimL : List ANode → Bool
  | [] => true
  | c :: cs => ANode.noCommentNoVerbatim c && ANode.noCommentNoVerbatimL cs
end

mutual
/-- Space and Parbreak leaves consist of white space only (what the parser produces). -/
def ANode.blankSpaces : ANode → Bool
  | .leaf k t _ => !(k == .space || k == .parbreak) || t.toList.all isWs
  | .inner _ cs _ => ANode.blankSpacesL cs
def ANode.blankSpacesL : List ANode → Bool
  | [] => true
  | c :: cs => ANode.blankSpaces c && ANode.blankSpacesL cs
end

mutual
/-- The comment text the source tree prescribes: the non-blank characters of every comment leaf,
in order (comments inside a verbatim node are part of that node's text, not comments of their own). -/
def specCmts : ANode → String
  | .leaf k t _ => if isCommentKind k then String.ofList (t.toList.filter fun c => !isWs c) else ""
  | .inner k cs a => if isVerbatimNode k cs a then "" else specCmtsL cs
def specCmtsL : List ANode → String
  | [] => ""
  | c :: cs => specCmts c ++ specCmtsL cs
end

mutual
/-- The prose text the source tree prescribes (C08): every character of the markup text,
shorthand, smart-quote, escape, link and label leaves and of reference targets, in order (raw text
is a literal, not prose; a verbatim node is emitted as it is and prescribes nothing here). -/
def specProse : ANode → String
  | .leaf k t _ =>
    if k == .text || k == .shorthand || k == .smartQuote || k == .escape || k == .link || k == .label then t
    else if k == .refMarker then String.ofList (t.toList.dropWhile (· == '@'))
    else ""
  | .inner k cs a => if isVerbatimNode k cs a || k == .raw then "" else specProseL cs
def specProseL : List ANode → String
  | [] => ""
  | c :: cs => specProse c ++ specProseL cs
end

/-- The pieces of a raw element the printer rebuilds it from. -/
def rawPieces : List ANode → String
  | [] => ""
  | c :: cs => (if c.kind == .rawDelim || c.kind == .rawLang || c.kind == .text then c.intoText else "") ++ rawPieces cs

mutual
/-- The literal text the source tree prescribes (C10): every character of the string, number,
boolean, identifier, label, link, escape leaves and reference targets, and of raw elements (fence,
language tag and text lines; the whole element when it is copied as it is), in order. -/
def specLit : ANode → String
  | .leaf k t _ =>
    if k == .str || k == .int || k == .float || k == .numeric || k == .bool || k == .ident || k == .mathIdent
       || k == .escape || k == .link || k == .label then t
    else if k == .refMarker then String.ofList (t.toList.dropWhile (· == '@'))
    else ""
  | .inner k cs a =>
    if isVerbatimNode k cs a then ""
    else if k == .raw then (if rawIsVerbatim (.inner k cs a) then ANode.intoTextL cs else rawPieces cs)
    else specLitL cs
def specLitL : List ANode → String
  | [] => ""
  | c :: cs => specLit c ++ specLitL cs
end

mutual
/-- The verbatim text the source tree prescribes (C07): the whole source text of every node that
is emitted as it is because of `@typstyle off`, in order (a marked leaf that is printed from its own
text anyway stays in its own stream). -/
def specVerb : ANode → String
  | .leaf k t a =>
    if a.disabled && k.isExpr && (leafTag k).isNone && k != .space && k != .parbreak then t else ""
  | .inner k cs a => if isVerbatimNode k cs a then ANode.intoTextL cs else specVerbL cs
def specVerbL : List ANode → String
  | [] => ""
  | c :: cs => specVerb c ++ specVerbL cs
end

/-- Stages 2+3 of the pipeline for all indent units at once: attributes, then `convert_markup`
of the root. Returns the document family and the number of entries into the four conversion entry
points. -/
def printTwin (e : Env) (root : Node) : Except Reject (Twin.Doc × Nat) :=
  let t := prepare root
  match ((knot e (2 * t.depth + 2)).markup {} t .document).run { limit := t.size } with
  | .ok (d, s) => .ok (d, s.calls)
  | .error r => .error r

/-- Token certificate of a printed family (C01): the token text the family carries by construction
is the one the tree prescribes.  (Not meaningful with import reordering on: reordering permutes items.) -/
def tokensCertified (root : Node) (d : Twin.Doc) : Bool :=
  d.good && d.toks == specToks (prepare root)

/-- Token certificate with import reordering on: the prescribed text is that of the tree with the
import items in the order `importOrder` gives them. -/
def tokensCertifiedR (cfg : PConfig) (root : Node) (d : Twin.Doc) : Bool :=
  d.good && d.toks == specToks (reorderTree cfg (prepare root))

/-- Literal certificate with import reordering on. -/
def literalsCertifiedR (cfg : PConfig) (root : Node) (d : Twin.Doc) : Bool :=
  d.good && d.lits == specLit (reorderTree cfg (prepare root))

/-- Comment certificate of a printed family (C06). -/
def commentsCertified (root : Node) (d : Twin.Doc) : Bool :=
  d.good && d.cmts == specCmts (prepare root)

/-- Verbatim certificate of a printed family (C07). -/
def verbatimCertified (root : Node) (d : Twin.Doc) : Bool :=
  d.good && d.verbs == specVerb (prepare root)

/-- Prose certificate of a printed family (C08). -/
def proseCertified (root : Node) (d : Twin.Doc) : Bool :=
  d.good && d.prose == specProse (prepare root)

/-- Literal certificate of a printed family (C10).  (Not meaningful with import reordering on.) -/
def literalsCertified (root : Node) (d : Twin.Doc) : Bool :=
  d.good && d.lits == specLit (prepare root)

/-- Stages 2+3 at a given configuration: the member of the family at `cfg.tab`. -/
def printDoc (cfg : Config) (wd : String → Nat) (root : Node) : Except Reject (Pretty.Doc × Nat) :=
  match printTwin { cfg := cfg.toP, wd := wd } root with
  | .ok (d, calls) => .ok (d.fam cfg.tab, calls)
  | .error r => .error r

/-- `Typstyle::format_source` after the error check. -/
def format (cfg : Config) (wd : String → Nat) (root : Node) : Except Reject String :=
  match printDoc cfg wd root with
  | .ok r => .ok (strip (Pretty.pretty cfg.maxWidth r.1))
  | .error r => .error r

end Typstyle
