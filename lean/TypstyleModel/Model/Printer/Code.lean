import TypstyleModel.Model.Printer.Base
/-! `code_flow.rs`, `code_list.rs`, `code_misc.rs`, `code_chain.rs`, `func_call.rs`, `table.rs`, `import.rs`. -/
namespace Typstyle
open Twin

/-! ### code_flow.rs: simple flow constructs -/

def namedProducer (e : Env) (r : Rec) (seen : Bool) (c : Ctx) (child : ANode) : M (Bool × Option FlowItem) := do
  if child.kind == .colon then pure (seen, tightSpaced (← e.synLeaf child ":"))
  else if isExpr child then pure (true, some ⟨← r.expr c child, true, seen⟩)
  else if isPattern child then pure (seen, spaced (← r.pattern c child))
  else if child.kind == .space then pure (seen, none)
  else if child.kind == .semicolon then pure (seen, none)   -- terminator of a hashed value in math args: not printed
  else reject (.dropped "convert_named" child.kind)

/-- `convert_named`. -/
def convNamed (e : Env) (r : Rec) (ctx : Ctx) (n : ANode) : M Doc :=
  flowM e ctx n.children false (namedProducer e r)

def keyedProducer (e : Env) (r : Rec) (seen : Bool) (c : Ctx) (child : ANode) : M (Bool × Option FlowItem) := do
  if child.kind == .colon then pure (seen, tightSpaced (← e.synLeaf child ":"))
  else if isExpr child then pure (true, some ⟨← r.expr c child, true, seen⟩)
  else if child.kind == .space then pure (seen, none)
  else if child.kind == .semicolon then pure (seen, none)   -- terminator of a hashed value in math args: not printed
  else reject (.dropped "convert_keyed" child.kind)

/-- `convert_keyed`. -/
def convKeyed (e : Env) (r : Rec) (ctx : Ctx) (n : ANode) : M Doc :=
  flowM e ctx n.children false (keyedProducer e r)

def spreadProducer (e : Env) (r : Rec) (_ : Unit) (c : Ctx) (child : ANode) : M (Unit × Option FlowItem) := do
  if child.kind == .dots then pure ((), spacedTight (← e.synLeaf child ".."))
  else if isExpr child then pure ((), tightSpaced (← r.expr c child))
  else if child.kind == .space then pure ((), none)
  else if child.kind == .semicolon then pure ((), none)   -- terminator of a hashed value in math args: not printed
  else reject (.dropped "convert_spread" child.kind)

/-- `convert_spread`. -/
def convSpread (e : Env) (r : Rec) (ctx : Ctx) (n : ANode) : M Doc :=
  flowM e ctx n.children () (spreadProducer e r)

def unaryProducer (e : Env) (r : Rec) (isOpKw : Bool) (_ : Unit) (c : Ctx) (child : ANode) : M (Unit × Option FlowItem) := do
  if child.kind == .plus || child.kind == .minus || child.kind == .not_ then pure ((), spacedTight (e.tok child.text))
  else if isExpr child then
    if isOpKw then pure ((), spaced (← r.expr c child)) else pure ((), tightSpaced (← r.expr c child))
  else if child.kind == .space then pure ((), none)
  else reject (.dropped "convert_unary" child.kind)

/-- `convert_unary`. -/
def convUnary (e : Env) (r : Rec) (ctx : Ctx) (n : ANode) : M Doc :=
  flowM e ctx n.children () (unaryProducer e r ((n.children.head?.map (·.kind == .not_)).getD false))

def binaryFlowProducer (e : Env) (r : Rec) (_ : Unit) (c : Ctx) (child : ANode) : M (Unit × Option FlowItem) := do
  if (binOpOfKind child.kind).isSome then pure ((), spaced (e.tok child.text))
  else if isExpr child then pure ((), spaced (← r.expr c child))
  else if child.kind == .space then pure ((), none)
  else reject (.dropped "convert_binary" child.kind)

def letProducer (e : Env) (r : Rec) (_ : Unit) (c : Ctx) (child : ANode) : M (Unit × Option FlowItem) := do
  if child.kind == .eq then pure ((), spaced (← e.synLeaf child "="))
  else if isPattern child then pure ((), spaced (← r.pattern c child))
  else if child.kind == .space then pure ((), none)
  else reject (.dropped "convert_let_binding" child.kind)

/-- `convert_let_binding` and `convert_destruct_assignment` (same producer: a pattern cast is
tried first, and every expression is a pattern). -/
def convLet (e : Env) (r : Rec) (ctx : Ctx) (n : ANode) : M Doc :=
  flowM e ctx n.children () (letProducer e r)

def exprFlowProducer (r : Rec) (what : String) (_ : Unit) (c : Ctx) (child : ANode) : M (Unit × Option FlowItem) := do
  if isExpr child then pure ((), spaced (← r.expr c child))
  else if child.kind == .space then pure ((), none)
  else reject (.dropped what child.kind)

/-- `convert_expr_flow` (contextual, conditional, while, return, include). -/
def convExprFlow (e : Env) (r : Rec) (ctx : Ctx) (n : ANode) : M Doc :=
  flowM e ctx n.children () (exprFlowProducer r "convert_expr_flow")

def forProducer (e : Env) (r : Rec) (la : Nat) (c : Ctx) (child : ANode) : M (Nat × Option FlowItem) := do
  if la == 0 && isPattern child then pure (1, spaced (← r.pattern c child))
  else if la == 1 && isExpr child then pure (2, spaced (← exprWithOptionalParen e r c child false))
  else if la ≥ 2 && isExpr child then pure (la, spaced (← r.expr c child))
  else if child.kind == .space then pure (la, none)
  else reject (.dropped "convert_for_loop" child.kind)

/-- `convert_for_loop` (look-ahead state 0 = pattern, 1 = iterable, 2 = body). -/
def convForLoop (e : Env) (r : Rec) (ctx : Ctx) (n : ANode) : M Doc :=
  flowM e ctx n.children 0 (forProducer e r)

def showProducer (e : Env) (r : Rec) (_ : Unit) (c : Ctx) (child : ANode) : M (Unit × Option FlowItem) := do
  if child.kind == .colon then pure ((), tightSpaced (← e.synLeaf child ":"))
  else if isExpr child then pure ((), spaced (← r.expr c child))
  else if child.kind == .space then pure ((), none)
  else reject (.dropped "convert_show_rule" child.kind)

/-- `convert_show_rule`. -/
def convShowRule (e : Env) (r : Rec) (ctx : Ctx) (n : ANode) : M Doc :=
  flowM e ctx n.children () (showProducer e r)

/-! ### code_list.rs / code_misc.rs -/

def convArrayItem (e : Env) (r : Rec) (c : Ctx) (x : ANode) : M (Option Doc) := do
  if x.kind == .spread then pure (some (← convSpread e r c x)) else if isExpr x then pure (some (← r.expr c x)) else pure none

/-- `convert_array`. -/
def convArray (e : Env) (r : Rec) (ctx : Ctx) (n : ANode) : M Doc := do
  let isExplicit := (n.children.head?.map (·.kind == .leftParen)).getD false
  -- a row of 2-D math args (implicit array) stays in the mode of its context
  let ctx := if isExplicit then ctx.withMode .codeCont else ctx
  let endsWithComma := !isExplicit && ((n.children.getLast?.map (·.kind == .comma)).getD false)
  let ls := ({} : LS).withFold (foldStyle ctx n)
  let ls ← ls.processM e ctx n.children (convArrayItem e r)
  pure (ls.print e {
    sep := e.soft ","
    d0 := (if isExplicit then e.soft "(" else Doc.nil)
    d1 := (if isExplicit then e.soft ")" else Doc.nil)
    addTrailingSepSingle := isExplicit
    addTrailingSepAlways := endsWithComma
    tightDelim := !isExplicit
    noIndent := !isExplicit })

def convDictItem (e : Env) (r : Rec) (c : Ctx) (x : ANode) : M (Option Doc) := do
  match x.kind with
  | .named => pure (some (← convNamed e r c x))
  | .keyed => pure (some (← convKeyed e r c x))
  | .spread => pure (some (← convSpread e r c x))
  | _ => pure none

/-- `convert_dict`. -/
def convDict (e : Env) (r : Rec) (ctx : Ctx) (n : ANode) : M Doc := do
  let ctx := ctx.withMode .codeCont
  let items := n.children.filter fun c => c.kind == .named || c.kind == .keyed || c.kind == .spread
  let allSpread := items.all (·.kind == .spread)
  let ls := ({} : LS).withFold (foldStyle ctx n)
  let ls ← ls.processM e ctx n.children (convDictItem e r)
  pure (ls.print e { e.parenStyle with d0 := e.soft (if allSpread then "(:" else "(") })

/-- `convert_param` / `convert_destructuring_item`. -/
def convParam (e : Env) (r : Rec) (c : Ctx) (x : ANode) : M (Option Doc) := do
  match x.kind with
  | .named => pure (some (← convNamed e r c x))
  | .spread => pure (some (← convSpread e r c x))
  | _ => if isPattern x then pure (some (← r.pattern c x)) else pure none

/-- `convert_destructuring`. -/
def convDestructuring (e : Env) (r : Rec) (ctx : Ctx) (n : ANode) : M Doc := do
  let ctx := ctx.withMode .codeCont
  let items := n.children.filter isParam
  let onlyOne := isOnlyOneAnd items (fun it => !(it.kind == .named || it.kind == .spread))
  let ls := ({} : LS).withFold (foldStyle ctx n)
  let ls ← ls.processM e ctx n.children (convParam e r)
  let ls := ls.alwaysFoldIf onlyOne
  pure (ls.print e { e.parenStyle with addTrailingSepSingle := onlyOne })

/-- `convert_params`. -/
def convParams (e : Env) (r : Rec) (ctx : Ctx) (n : ANode) (isUnnamed : Bool) : M Doc := do
  let ctx := ctx.withMode .codeCont
  let items := n.children.filter isParam
  let single := isUnnamed && !n.attrs.comment && isOnlyOneAnd items (fun it =>
    !(it.kind == .named || it.kind == .spread) && !(it.kind == .destructuring || it.kind == .parenthesized))
  let ls := ({} : LS).withFold (foldStyle ctx n)
  let ls ← ls.processM e ctx n.children (convParam e r)
  let ls := ls.alwaysFoldIf single
  pure (ls.print e { e.parenStyle with omitDelimSingle := single })

def closureProducer (e : Env) (r : Rec) (isNamed : Bool) (la : Nat) (c : Ctx) (child : ANode) : M (Nat × Option FlowItem) := do
  if child.kind == .eq then pure (la, spaced (← e.synLeaf child "="))
  else if child.kind == .arrow then pure (la, spaced (← e.synLeaf child "=>"))
  else if la == 0 && child.kind == .ident then pure (1, tight (e.lit child.text))
  else if la == 1 && child.kind == .params then pure (2, tightSpaced (← convParams e r c child (!isNamed)))
  else if la ≥ 2 && isExpr child then
    let useBraces := if child.kind == .binary then !isChainableBinary child else true
    pure (la, spaced (← exprWithOptionalParen e r c child useBraces))
  else if child.kind == .space then pure (la, none)
  else reject (.dropped "convert_closure" child.kind)

/-- `convert_closure` (look-ahead state 0 = name, 1 = params, 2 = body). -/
def convClosure (e : Env) (r : Rec) (ctx : Ctx) (n : ANode) : M Doc := do
  let isNamed := (n.children.head?.map (·.kind == .ident)).getD false
  flowM e ctx n.children (if isNamed then 0 else 1) (closureProducer e r isNamed)

/-- `convert_content_block`. -/
def convContentBlock (e : Env) (r : Rec) (ctx : Ctx) (n : ANode) : M Doc := do
  let body ← childOr (n.children.find? (·.kind == .markup)) "ContentBlock without Markup"
  let d ← r.markup ctx body .contentBlock
  pure (((d.nstTab).grp).enclose (e.syn "[") (e.syn "]"))

def codeBlockItem (r : Rec) (c : Ctx) (x : ANode) : M (Option Doc) := do
  if isExpr x then pure (some (← r.expr c x)) else pure none

/-- `convert_code_block`. -/
def convCodeBlock (e : Env) (r : Rec) (ctx : Ctx) (n : ANode) : M Doc := do
  let body := n.children.find? (·.kind == .code)
  if (body.map (·.attrs.disabled)).getD false then return e.verb n.intoText
  let ctx := ctx.withMode .code
  let nodes := n.children.flatMap fun c => if c.kind == .code then c.children else [c]
  let exprCount := (((body.map (·.children)).getD []).filter isExpr).length
  let canFold := exprCount ≤ 1 && !hasCommentChildren n
  let ls : LS := { disallowFront := true }
  let ls := ls.withFold (if canFold then foldStyle ctx n else .never)
  let ls := { ls with keepLinebreak := some e.cfg.blankUpper }
  let ls ← ls.processM e ctx nodes (codeBlockItem r)
  pure (ls.print e { sep := Doc.nil, d0 := e.soft "{", d1 := e.soft "}", addDelimSpace := true })

def parenItem (r : Rec) (c : Ctx) (x : ANode) : M (Option Doc) := do
  if isPattern x then pure (some (← r.pattern c x)) else pure none

/-- `convert_parenthesized` + `convert_parenthesized_impl`. -/
def convParenthesized (e : Env) (r : Rec) (ctx : Ctx) (n : ANode) : M Doc := do
  let ctx := ctx.withMode .codeCont
  let p ← childOr (n.children.find? isPattern) "Parenthesized without pattern"
  if p.kind == .parenthesized && !hasCommentChildren n then r.paren ctx p
  else
    -- `Parenthesized::expr()` is `Expr::default()` (the literal `none`) when no child is an expression, e.g. `(_)`
    let omittable : Bool := match n.children.find? isExpr with
      | some x => x.kind.isLiteral || x.kind == .array || x.kind == .dict || x.kind == .destructuring
          || x.kind == .codeBlock || x.kind == .contentBlock
      | none => true
    let canOmit := omittable && !hasCommentChildren n
    let ls := ({} : LS).withFold (foldStyle ctx n)
    let ls ← ls.processM e ctx n.children (parenItem r)
    pure (ls.print e { e.parenStyle with sep := Doc.nil, omitDelimFlat := canOmit })

/-! ### func_call.rs -/

/-- `convert_arg`. -/
def convArg (e : Env) (r : Rec) (ctx : Ctx) (a : ANode) : M Doc :=
  match a.kind with
  | .named => convNamed e r ctx a
  | .spread => convSpread e r ctx a
  | _ => r.expr ctx a

def hasParenArgs (args : ANode) : Bool := (args.children.head?.map (·.kind == .leftParen)).getD false
def parenArgsUntyped (args : ANode) : List ANode :=
  (args.children.dropWhile (·.kind != .leftParen)).takeWhile (·.kind != .rightParen)

def argItem (e : Env) (r : Rec) (c : Ctx) (x : ANode) : M (Option Doc) := do
  if isArg x then pure (some (← convArg e r c x)) else pure none

/-- `convert_parenthesized_args`. -/
def convParenArgs (e : Env) (r : Rec) (ctx : Ctx) (args : ANode) : M Doc := do
  let ctx := ctx.withMode .codeCont
  let children := args.children.takeWhile (·.kind != .rightParen)
  let argCount := (children.filter isArg).length
  let items := (args.children.filter isArg).take argCount
  let fold0 := foldStyle ctx args
  let fold := if !ctx.suppressed then
      match items with
      | [a] =>
        if a.kind == .named then Fold.fit
        else
          let inner := if a.kind == .spread then (lastWhere a isExpr).getD a else a
          if inner.kind == .funcCall || inner.kind == .fieldAccess || inner.kind == .unary || inner.kind == .binary then Fold.fit else Fold.always
      | _ => fold0
    else fold0
  let ls : LS := { keepLinebreak := some e.cfg.blankUpper }
  let ls := ls.withFold fold
  let ls ← ls.processM e ctx children (argItem e r)
  pure (ls.print e e.parenStyle)

def plainArgStep (e : Env) (r : Rec) (ctx : Ctx) (acc : List PItem × Bool) (child : ANode) : M (List PItem × Bool) := do
  let (items, ml) := acc
  match child.kind with
  | .comma => pure (items ++ [PItem.comma], ml)
  | .space =>
    let cnt := countLinebreaks child.text
    if cnt > 0 then
      if !items.isEmpty then pure (items ++ [PItem.linebreak (min cnt (e.cfg.blankUpper + 1))], true) else pure (items, true)
    else pure (items, ml)
  | .lineComment => pure (items ++ [PItem.lineComment (← convCommentT e child)], true)
  | .blockComment => pure (items ++ [PItem.blockComment (← convCommentT e child)], ml)
  | _ => if isArg child then pure (items ++ [PItem.item (← convArg e r ctx child)], ml) else pure (items, ml)

/-- `convert_parenthesized_args_as_list` (non-reflowable `table`/`grid`). -/
def convParenArgsAsList (e : Env) (r : Rec) (ctx : Ctx) (args : ANode) : M Doc := do
  let ctx := ctx.withMode .codeCont
  let acc ← (parenArgsUntyped args).foldlM (plainArgStep e r ctx) (([] : List PItem), false)
  let inner := plainPrint e (dropTrailingPLinebreaks acc.1) acc.2
  pure ((inner.nstTab).enclose (e.soft "(") (e.soft ")"))

/-- `convert_additional_args`: trailing content blocks. -/
def convAdditionalArgs (e : Env) (r : Rec) (ctx : Ctx) (args : ANode) (hasParen : Bool) : M Doc := do
  let rest := args.children.dropWhile fun c => if hasParen then c.kind != .rightParen else c.kind != .contentBlock
  let blocks := rest.filter (·.kind == .contentBlock)
  let docs ← blocks.mapM (convContentBlock e r ctx)
  pure (concatDocs docs)

/-- `convert_args`. -/
def convArgs (e : Env) (r : Rec) (ctx : Ctx) (args : ANode) : M Doc := do
  let hp := hasParenArgs args
  let p ← if hp then convParenArgs e r ctx args else pure Doc.nil
  pure (p ++ (← convAdditionalArgs e r ctx args hp))

mutual
/-- `is_ends_with_hashed_expr`: the text of the node ends with a hashed expression, at any depth. -/
def endsWithHashedExpr : ANode → Bool
  | .leaf _ _ _ => false
  | .inner _ cs _ => endsWithHashedExprL false cs
def endsWithHashedExprL (prevHash : Bool) : List ANode → Bool
  | [] => false
  | [a] => (prevHash && isExpr a) || endsWithHashedExpr a
  | [a, b] =>
    -- a trailing semicolon is the terminator of the hashed expression itself
    if b.kind == .semicolon then (prevHash && isExpr a) || endsWithHashedExpr a
    else (a.kind == .hash && isExpr b) || endsWithHashedExpr b
  | a :: rest => endsWithHashedExprL (a.kind == .hash) rest
end

def mathArgProducer (e : Env) (r : Rec) (peek : Bool) (c : Ctx) (child : ANode) : M (Bool × Option FlowItem) := do
  match child.kind with
  | .comma => pure (false, tightSpaced (← e.synLeaf child ","))
  | .semicolon => pure (false, some ⟨← e.synLeaf child ";", peek, true⟩)
  | .space => if hasLinebreak child.text then pure (peek, tight hardline) else pure (peek, none)
  | _ =>
    if isArg child then
      pure (endsWithHashedExpr child, spaced (← convArg e r c child))
    else reject (.dropped "convert_args_in_math" child.kind)

/-- `convert_args_in_math`. -/
def convArgsInMath (e : Env) (r : Rec) (ctx : Ctx) (args : ANode) : M Doc := do
  let cs := args.children
  let i := (cs.findIdx? fun c => !(c.kind == .leftParen || c.kind == .space)).getD 0
  let j := match cs.reverse.findIdx? fun c => !(c.kind == .rightParen || c.kind == .space) with
    | some k => cs.length - 1 - k
    | none => cs.length - 1
  -- `children.get(i..=j).unwrap_or_default()`
  let children := if i > j + 1 || j ≥ cs.length then [] else (cs.drop i).take (j + 1 - i)
  -- a trailing line comment must not swallow the closing parenthesis
  let endsWithLineComment : Bool := match children.getLast? with
    | some c => c.kind == .lineComment
    | none => false
  let inner ← flowM e ctx children false (mathArgProducer e r)
  if args.attrs.multiline then
    let close := if endsWithLineComment then hardline else line_
    pure (((((line_ ++ inner).nstTab) ++ close).grp).enclose (e.syn "(") (e.syn ")"))
  else pure (inner.enclose (e.syn "(") (e.syn ")"))

/-! ### table.rs -/
def funcName (n : ANode) : String := ((firstWhere n isExpr).map ANode.intoText).getD ""
def identFuncName (n : ANode) : Option String :=
  match firstWhere n isExpr with
  | some c => if c.kind == .ident then some c.text else none
  | none => none

def blackList := ["table.cell", "table.vline", "table.hline", "grid.cell", "grid.vline", "grid.hline"]
def headerFooter := ["table.header", "table.footer", "grid.header", "grid.footer"]

def isTable (fc : ANode) : Bool := identFuncName fc == some "table" || identFuncName fc == some "grid"

def formatableGo : List ANode → Bool → Option Bool
  | [], seenPos => some seenPos
  | it :: rest, seenPos =>
    if it.kind == .named then (if seenPos then none else formatableGo rest seenPos)
    else if it.kind == .spread then none
    else if it.kind == .funcCall && blackList.contains (funcName it) then none
    else formatableGo rest true

/-- `is_formatable`. -/
def isFormatable (fc : ANode) : Bool :=
  match lastWhere fc (·.kind == .args) with
  | none => false
  | some args =>
    if args.children.any (fun c => isCommentKind c.kind) then false
    else (formatableGo ((parenArgsUntyped args).filter isArg) false).getD false

/-- `Int::get() as usize` for a decimal literal; other radices are parsed by `intValue`. -/
def digitVal (c : Char) : Option Nat :=
  if '0' ≤ c ∧ c ≤ '9' then some (c.toNat - '0'.toNat)
  else if 'a' ≤ c ∧ c ≤ 'f' then some (c.toNat - 'a'.toNat + 10)
  else if 'A' ≤ c ∧ c ≤ 'F' then some (c.toNat - 'A'.toNat + 10) else none

def parseRadix (radix : Nat) (cs : List Char) : Option Nat :=
  cs.foldl (fun acc c => match acc, digitVal c with
    | some a, some d => if d < radix then some (a * radix + d) else none
    | _, _ => none) (some 0)

def intValue (s : String) : Option Nat :=
  match s.toList with
  | '0' :: 'x' :: r => parseRadix 16 r
  | '0' :: 'o' :: r => parseRadix 8 r
  | '0' :: 'b' :: r => parseRadix 2 r
  | r => parseRadix 10 r

/-- Look through redundant parentheses (`Parenthesized::expr`, repeatedly; `fuel` ≥ the nesting depth).
`cast_first_match` falls back to `Expr::default()` (the literal `none`), which is neither an integer
nor an array: `none` here. -/
def unparen : Nat → ANode → Option ANode
  | 0, _ => none
  | fuel+1, x =>
    if x.kind == .parenthesized then
      match firstWhere x isExpr with
      | some y => unparen fuel y
      | none => none
    else some x

/-- `get_table_columns`. -/
def tableColumns (fc : ANode) : Option Nat :=
  match lastWhere fc (·.kind == .args) with
  | none => none
  | some args =>
    (args.children.filter isArg).findSome? fun it =>
      if it.kind == .named then
        let name := ((firstWhere it (·.kind == .ident)).map ANode.text).getD ""
        if name == "columns" then
          match (lastWhere it isExpr).bind (fun x => unparen (x.depth + 1) x) with
          | some x =>
            if x.kind == .int then intValue x.text
            else if x.kind == .array then some ((x.children.filter (fun c => c.kind == .spread || isExpr c)).length)
            else none
          | none => none
        else none
      else none

def isFormatableTable (fc : ANode) : Option Nat := if isTable fc && isFormatable fc then tableColumns fc else none

def tableRowStep (columns : Nat) (acc : List (List ANode) × List ANode) (arg : ANode) : List (List ANode) × List ANode :=
  let (rows, row) := acc
  let row := row ++ [arg]
  let (rows, row) := if row.length == columns then (rows ++ [row], []) else (rows, row)
  if arg.kind == .funcCall && headerFooter.contains (funcName arg) then (rows ++ [row], []) else (rows, row)

def tableCellStep (e : Env) (r : Rec) (ctx : Ctx) (ncells : Nat) (rowHasNext : Bool) (acc : Doc × Nat) (cell : ANode) : M (Doc × Nat) := do
  let (rowDoc, ci) := acc
  let cellHasNext := ci + 1 < ncells
  pure (((rowDoc ++ (← convArg e r ctx cell)) ++ e.soft ",") ++ (if cellHasNext then line else if rowHasNext then line_ else Doc.nil), ci + 1)

def tableRowDocStep (e : Env) (r : Rec) (ctx : Ctx) (nrows : Nat) (acc : Doc × Nat) (row : List ANode) : M (Doc × Nat) := do
  let (doc, ri) := acc
  let rowHasNext := ri + 1 < nrows
  let rd ← row.foldlM (tableCellStep e r ctx row.length rowHasNext) (Doc.nil, 0)
  pure (doc ++ (rd.1.grp ++ (if rowHasNext then hardline else Doc.nil)), ri + 1)

def tableNamedStep (e : Env) (r : Rec) (ctx : Ctx) (doc : Doc) (named : ANode) : M Doc := do
  pure (doc ++ (((← convNamed e r ctx named) ++ e.soft ",") ++ hardline))

/-- `convert_table`. -/
def convTable (e : Env) (r : Rec) (ctx : Ctx) (fc : ANode) (columns : Nat) : M Doc := do
  let ctx := ctx.withMode .codeCont
  let args ← childOr (lastWhere fc (·.kind == .args)) "FuncCall without Args"
  let doc ← ((args.children.filter isArg).filter (·.kind == .named)).foldlM (tableNamedStep e r ctx) hardline
  let posArgs := ((args.children.takeWhile (·.kind != .rightParen)).filter isArg).filter fun a => !(a.kind == .named || a.kind == .spread)
  let rr := posArgs.foldl (tableRowStep columns) (([] : List (List ANode)), ([] : List ANode))
  let rows := if !rr.2.isEmpty then rr.1 ++ [rr.2] else rr.1
  let d ← rows.foldlM (tableRowDocStep e r ctx rows.length) (doc, 0)
  pure (((d.1.nstTab) ++ hardline).enclose (e.soft "(") (e.soft ")"))

/-- `convert_func_call_args`. -/
def convFuncCallArgs (e : Env) (r : Rec) (ctx : Ctx) (fc args : ANode) : M Doc := do
  if ctx.mode == .math then convArgsInMath e r ctx args
  else
    let hp := hasParenArgs args
    let doc ←
      if isTable fc then
        match isFormatableTable fc with
        | some cols => convTable e r ctx fc cols
        | none => if hp then convParenArgsAsList e r ctx args else pure Doc.nil
      else if hp then convParenArgs e r ctx args else pure Doc.nil
    pure (doc ++ (← convAdditionalArgs e r ctx args hp))

/-! ### code_chain.rs -/

/-- `resolve_dot_chain` (outermost first); `fuel` bounds the descent by the tree depth. -/
def resolveDotChain : Nat → ANode → List ANode
  | 0, n => [n]
  | fuel+1, n =>
    n :: (if n.kind == .fieldAccess || n.kind == .funcCall then
      match firstWhere n isExpr with
      | some t => resolveDotChain fuel t
      | none => []
    else [])

/-- `resolve_binary_chain`. -/
def resolveBinaryChain (prec : Nat) : Nat → ANode → List ANode
  | 0, n => [n]
  | fuel+1, n =>
    n :: (if n.kind == .binary && precOf (binaryOp n) == prec then
      match firstWhere n isExpr with
      | some t => resolveBinaryChain prec fuel t
      | none => []
    else [])

/-- `convert_field_access_plain`. -/
def fieldAccessProducer (e : Env) (r : Rec) (_ : Unit) (c : Ctx) (child : ANode) : M (Unit × Option FlowItem) := do
  if child.kind == .dot then pure ((), tight (← e.synLeaf child "."))
  else if isExpr child then pure ((), tight (← r.expr c child))
  else pure ((), none)

def convFieldAccessPlain (e : Env) (r : Rec) (ctx : Ctx) (n : ANode) : M Doc := do
  -- with comments (code whose breaks are suppressed): a flow, so that they are kept
  if hasCommentChildren n then return (← flowM e ctx n.children () (fieldAccessProducer e r))
  let t ← childOr (firstWhere n isExpr) "FieldAccess without target"
  let f ← childOr (lastWhere n (·.kind == .ident)) "FieldAccess without field"
  pure (((← r.expr ctx t) ++ e.syn ".") ++ e.lit f.text)

def fieldOf (c : ANode) : String := ((lastWhere c (·.kind == .ident)).map ANode.text).getD ""

/-- `try_convert_dot_chain_plain` (chain given outermost first). -/
def tryDotChainPlain (e : Env) (r : Rec) (ctx : Ctx) (chain : List ANode) : M (Option Doc) := do
  let chain := chain.reverse
  match chain.getLast?, chain.head? with
  | some fc, some id =>
    if fc.kind != .funcCall || id.kind != .ident then return none
    let est := id.text.utf8ByteSize + ((chain.drop 1).map fun c =>
      if c.kind == .fieldAccess then (fieldOf c).utf8ByteSize + 1 else 0).sum
    if est ≥ chainWidth e.cfg.maxWidth then return none
    let doc := chain.foldl (fun doc c => if c.kind == .fieldAccess then doc ++ (e.syn "." ++ e.lit (fieldOf c)) else doc) (e.lit id.text)
    let args ← childOr (lastWhere fc (·.kind == .args)) "FuncCall without Args"
    pure (some (doc ++ (← convArgs e r ctx args)))
  | _, _ => pure none

def dotOp (e : Env) (c : ANode) : M (Option Doc) := do
  if c.kind == .dot then pure (some (← e.synLeaf c ".")) else pure none

def dotRhs (e : Env) (_ : Ctx) (c : ANode) : M (Option Doc) :=
  pure (if c.kind == .ident then some (e.lit c.text) else none)

def dotFallback (e : Env) (r : Rec) (ctx : Ctx) (node : ANode) : M (Option Doc) := do
  if node.kind == .funcCall then
    pure (some (← convArgs e r ctx (← childOr (lastWhere node (·.kind == .args)) "FuncCall without Args")))
  else if isExpr node then pure (some (← r.expr ctx node)) else pure none

/-- `convert_dot_chain`. -/
def convDotChain (e : Env) (r : Rec) (ctx : Ctx) (n : ANode) : M Doc := do
  let cs ← ({} : CS).processM e ctx (resolveDotChain n.depth n).reverse (·.kind == .fieldAccess)
    (fun st c => do pure (st, ← dotOp e c)) (dotRhs e) (dotFallback e r)
  cs.print e true false

/-- `try_convert_dot_chain`. -/
def tryDotChain (e : Env) (r : Rec) (ctx : Ctx) (n : ANode) : M (Option Doc) := do
  if ctx.suppressed then return none
  let chain := resolveDotChain n.depth n
  let dotNum := (chain.filter (·.kind == .fieldAccess)).length
  let callNum := (chain.filter (·.kind == .funcCall)).length
  let hasCmt := chain.any hasCommentChildren
  let plain ← if dotNum > 1 && callNum == 1 && !hasCmt then tryDotChainPlain e r ctx chain else pure none
  match plain with
  | some d => pure (some d)
  | none =>
    if ctx.mode == .markup && dotNum > 1 && callNum > 0 then
      pure (some (← parenthesizeIfNecessary e ctx fun ctx => convDotChain e r ctx n))
    else if ctx.mode == .code || ctx.mode == .codeCont then
      pure (some (← convDotChain e r ctx n))
    else pure none

/-- The operator converter of `convert_binary_chain`; the state is the `seen_not` cell. -/
def binOpConv (e : Env) (seenNot : Bool) (c : ANode) : M (Bool × Option Doc) := do
  if c.kind == .not_ then pure (true, none)
  else if c.kind == .in_ && seenNot then
    if c.text == "in" then pure (false, some (e.syn "not in")) else reject (.shape "In leaf whose text is not in")
  else match binOpOfKind c.kind with
    | some o => pure (seenNot, some (← e.synLeaf c o))
    | none => pure (seenNot, none)

def exprOpt (r : Rec) (ctx : Ctx) (c : ANode) : M (Option Doc) := do
  if isExpr c then pure (some (← r.expr ctx c)) else pure none

/-- `convert_binary_chain`. -/
def convBinaryChain (e : Env) (r : Rec) (ctx : Ctx) (n : ANode) : M Doc := do
  let op := binaryOp n
  let prec := precOf op
  let cs ← ({} : CS).processM e ctx (resolveBinaryChain prec n.depth n).reverse
    (fun node => node.kind == .binary && precOf (binaryOp node) == prec)
    (binOpConv e) (exprOpt r) (exprOpt r)
  cs.print e false true

/-- `convert_binary`. -/
def convBinary (e : Env) (r : Rec) (ctx : Ctx) (n : ANode) : M Doc := do
  if !ctx.suppressed && isChainableBinary n then
    parenthesizeIfNecessary e ctx fun ctx => convBinaryChain e r ctx n
  else flowM e ctx n.children () (binaryFlowProducer e r)

/-- `convert_field_access`. -/
def convFieldAccess (e : Env) (r : Rec) (ctx : Ctx) (n : ANode) : M Doc := do
  match ← tryDotChain e r ctx n with
  | some d => pure d
  | none => convFieldAccessPlain e r ctx n

/-- `convert_func_call`. -/
def convFuncCall (e : Env) (r : Rec) (ctx : Ctx) (n : ANode) : M Doc := do
  let callee ← childOr (firstWhere n isExpr) "FuncCall without callee"
  let chain ← if callee.kind == .fieldAccess then tryDotChain e r ctx n else pure none
  match chain with
  | some d => pure d
  | none =>
    let args ← childOr (lastWhere n (·.kind == .args)) "FuncCall without Args"
    pure ((← r.expr ctx callee) ++ (← convFuncCallArgs e r ctx n args))

def setProducer (e : Env) (r : Rec) (_ : Unit) (c : Ctx) (child : ANode) : M (Unit × Option FlowItem) := do
  if isExpr child then pure ((), spaced (← r.expr c child))
  else if child.kind == .args then pure ((), tightSpaced (← convArgs e r c child))
  else if child.kind == .space then pure ((), none)
  else reject (.dropped "convert_set_rule" child.kind)

/-- `convert_set_rule`. -/
def convSetRule (e : Env) (r : Rec) (ctx : Ctx) (n : ANode) : M Doc :=
  flowM e ctx n.children () (setProducer e r)

/-! ### import.rs -/
def importPathProducer (e : Env) (_ : Unit) (_ : Ctx) (child : ANode) : M (Unit × Option FlowItem) := do
  if child.kind == .dot then pure ((), tight (← e.synLeaf child "."))
  else if child.kind == .ident then pure ((), tight (e.lit child.text))
  else if child.kind == .space then pure ((), none)
  else reject (.dropped "convert_import_item_path" child.kind)

def convImportItemPath (e : Env) (ctx : Ctx) (n : ANode) : M Doc :=
  flowM e ctx n.children () (importPathProducer e)

def importRenamedProducer (e : Env) (_ : Unit) (c : Ctx) (child : ANode) : M (Unit × Option FlowItem) := do
  if child.kind == .importItemPath then pure ((), spaced (← convImportItemPath e c child))
  else if child.kind == .ident then pure ((), spaced (e.lit child.text))
  else if child.kind == .space then pure ((), none)
  else reject (.dropped "convert_import_item_renamed" child.kind)

def convImportItemRenamed (e : Env) (ctx : Ctx) (n : ANode) : M Doc :=
  flowM e ctx n.children () (importRenamedProducer e)

def importItem (e : Env) (c : Ctx) (child : ANode) : M (Option Doc) := do
  match child.kind with
  | .renamedImportItem => pure (some (← convImportItemRenamed e c child))
  | .importItemPath => pure (some (← convImportItemPath e c child))
  | _ => pure none

/-- Name bound by an import item (`check_import_name_duplication`). -/
def importBoundName (n : ANode) : Option String :=
  if n.kind == .importItemPath || n.kind == .renamedImportItem then
    some (((n.children.reverse.find? (·.kind == .ident)).map ANode.text).getD "")
  else none

def noDupNames : List ANode → List String → Bool
  | [], _ => true
  | n :: rest, seen =>
    match importBoundName n with
    | some name => if seen.contains name then false else noDupNames rest (name :: seen)
    | none => noDupNames rest seen

def insertSorted (key : ANode → String) (x : ANode) : List ANode → List ANode
  | [] => [x]
  | y :: ys => if key x ≤ key y then x :: y :: ys else y :: insertSorted key x ys

/-- Stable sort by key (`sort_by_key`): insertion from the right keeps equal keys in order. -/
def stableSort (key : ANode → String) (l : List ANode) : List ANode := l.foldr (insertSorted key) []

/-- `str::split_whitespace`. -/
def wordsL (l : List Char) : List (List Char) :=
  let r := l.foldl (fun (acc : List (List Char) × List Char) c =>
    if isWs c then (if acc.2.isEmpty then acc else (acc.1 ++ [acc.2], [])) else (acc.1, acc.2 ++ [c])) ([], [])
  if r.2.isEmpty then r.1 else r.1 ++ [r.2]

/-- `import_item_sort_key`: the text of an import item with the spacing the formatter gives it. -/
def importSortKey (n : ANode) : String :=
  (wordsL n.intoText.toList).foldl (fun key w =>
    let w := String.ofList w
    if !key.isEmpty && !key.endsWith "." && !w.startsWith "." then key ++ " " ++ w else key ++ w) ""

/-- The guard of `convert_import_items`: no comment among the nodes and no name bound twice. -/
def importSortable (nodes : List ANode) : Bool :=
  nodes.all (fun n => !isCommentKind n.kind) && noDupNames nodes []

/-- The order in which `convert_import_items` hands the flattened nodes to the list stylist. -/
def importOrder (cfg : PConfig) (nodes : List ANode) : List ANode :=
  if cfg.reorder && importSortable nodes then stableSort importSortKey nodes else nodes

/-- `convert_import_items`. -/
def convImportItems (e : Env) (ctx : Ctx) (nodes : List ANode) : M Doc := do
  let ls ← ({} : LS).processM e ctx (importOrder e.cfg nodes) (importItem e)
  pure (ls.print e { e.parenStyle with omitDelimFlat := true, omitDelimEmpty := true })

def importPrefixProducer (e : Env) (r : Rec) (_ : Unit) (c : Ctx) (child : ANode) : M (Unit × Option FlowItem) := do
  match child.kind with
  | .colon => pure ((), tightSpaced (← e.synLeaf child ":"))
  | .star => pure ((), spaced (← e.synLeaf child "*"))
  | _ =>
    if child.kind == .ident then pure ((), spaced (e.lit child.text))
    else if isExpr child then pure ((), spaced (← r.expr c child))
    else if child.kind == .space then pure ((), none)
    else reject (.dropped "convert_import" child.kind)

/-- `convert_import`. -/
def convImport (e : Env) (r : Rec) (ctx : Ctx) (n : ANode) : M Doc := do
  let nodes := n.children
  let div := (nodes.findIdx? fun c => c.kind == .leftParen || c.kind == .importItems).getD nodes.length
  let itemsPart := nodes.drop div
  let prefixPart := if div > 0 && ((nodes[div - 1]?).map (·.kind == .space)).getD false then nodes.take (div - 1) else nodes.take div
  let prefixDoc ← flowM e ctx prefixPart () (importPrefixProducer e r)
  if itemsPart.isEmpty then return prefixDoc
  let itemNodes := itemsPart.flatMap fun c => if c.kind == .importItems then c.children else [c]
  if itemNodes.isEmpty then return prefixDoc
  let itemsDoc ← convImportItems e ctx itemNodes
  -- a line comment at the end of the prefix must not swallow the items
  let sep := if (prefixPart.getLast?.map (·.kind == .lineComment)).getD false then hardline else space
  pure ((prefixDoc ++ sep) ++ itemsDoc)

end Typstyle
