import TypstyleModel.Model.Comment
/-! `pretty/layout/list.rs`: `ListStylist`. -/
namespace Typstyle
open Twin

inductive LItem where
  | comment (d : Doc)
  | commented (body : Doc) (after : Option Doc)
  | linebreak (n : Nat)

/-- `ListStyle`; delimiters and separator are documents so that the caller fixes their ghost tag. -/
structure ListStyle where
  sep : Doc
  d0 : Doc
  d1 : Doc
  tightDelim : Bool := false
  addDelimSpace : Bool := false
  addTrailingSepSingle : Bool := false
  addTrailingSepAlways : Bool := false
  omitDelimSingle : Bool := false
  omitDelimFlat : Bool := false
  omitDelimEmpty : Bool := false
  noIndent : Bool := false

structure LS where
  canAttach : Bool := false
  free : List Doc := []
  peekHash : Bool := false
  items : List LItem := []
  realCount : Nat := 0
  hasComment : Bool := false
  hasLineComment : Bool := false
  fold : Fold := .fit
  disallowFront : Bool := false
  disallowDetach : Bool := false
  keepLinebreak : Option Nat := none

def LS.withFold (s : LS) (f : Fold) : LS :=
  { s with fold := f, disallowDetach := if f == .always then true else s.disallowDetach }

def LS.detach (s : LS) : LS := { s with items := s.items ++ s.free.map LItem.comment, free := [] }

def LS.tryAttach (s : LS) : LS × Bool :=
  if s.canAttach && !s.free.isEmpty then
    match s.items.getLast? with
    | some (.commented body after) =>
      let added := space ++ intersperse s.free space
      let after' := match after with
        | some c => some (c ++ added)
        | none => some added
      ({ s with items := s.items.dropLast ++ [.commented body after'], free := [] }, true)
    | _ => (s, false)
  else (s, false)

def LS.attachOrDetach (s : LS) : LS :=
  let r := s.tryAttach
  if r.2 then r.1 else s.detach

def LS.addItem (e : Env) (s : LS) (body : Doc) : LS :=
  let s := { s with realCount := s.realCount + 1 }
  let r : LS × Doc :=
    if s.disallowFront then (s.detach, Doc.nil)
    else if s.free.isEmpty then (s, Doc.nil)
    else
      let sep := if s.disallowDetach then space else line
      let doc := intersperse s.free sep ++ sep
      ({ s with free := [] }, if s.disallowDetach then doc else doc.grp)
  let s := r.1
  let hash := if s.peekHash then e.syn "#" else Doc.nil
  { s with items := s.items ++ [.commented ((r.2 ++ hash) ++ body) none], canAttach := true }

def LS.trivia (e : Env) (s : LS) (n : ANode) : M LS := do
  let k := n.kind
  if isCommentKind k then
    let s := { s with hasComment := true }
    let s := if k == .lineComment then { s with hasLineComment := true, fold := .never } else s
    pure { s with free := s.free ++ [← convCommentT e n] }
  else if k == .comma then pure (s.tryAttach).1
  else if k == .space then
    let cnt := countLinebreaks n.text
    if cnt > 0 then
      let s := s.attachOrDetach
      let s := { s with canAttach := false }
      match s.keepLinebreak with
      | some nl => pure (if cnt ≥ 2 && !s.items.isEmpty then { s with items := s.items ++ [.linebreak (min (cnt - 1) nl)] } else s)
      | none => pure s
    else pure s
  else if k == .hash then pure { s with peekHash := true }
  else pure s

def dropTrailingLinebreaks (items : List LItem) : List LItem :=
  (items.reverse.dropWhile fun | .linebreak _ => true | _ => false).reverse

def LS.windup (s : LS) : LS :=
  let s := s.attachOrDetach
  { s with items := dropTrailingLinebreaks s.items }

/-- One iteration of `process_iterable_impl`. -/
def LS.stepM (e : Env) (ctx : Ctx) (checker : Ctx → ANode → M (Option Doc)) (s : LS) (n : ANode) : M LS := do
  let ctx := ctx.withModeIf .code s.peekHash
  match ← checker ctx n with
  | some body => pure { (s.addItem e body) with peekHash := false }
  | none => ({ s with peekHash := false }).trivia e n

def LS.processM (e : Env) (s : LS) (ctx : Ctx) (nodes : List ANode) (checker : Ctx → ANode → M (Option Doc)) : M LS := do
  let s ← nodes.foldlM (LS.stepM e ctx checker) s
  pure s.windup

def LS.alwaysFoldIf (s : LS) (p : Bool) : LS := if !s.hasComment && p then { s with fold := .always } else s

def optDoc : Option Doc → Doc
  | some d => d
  | none => .nil

def neverStep (sty : ListStyle) (count : Nat) (acc : Doc × Nat) (item : LItem) : Doc × Nat :=
  let (inner, i) := acc
  let isLast := i + 1 == count
  match item with
  | .comment c => (inner ++ (c ++ hardline), i + 1)
  | .commented body after =>
    let inner := inner ++ ((body ++ sty.sep) ++ optDoc after)
    let inner := if !sty.tightDelim || !isLast then inner ++ hardline else inner
    (inner, i + 1)
  | .linebreak n => (inner ++ repeatN hardline n, i + 1)

def alwaysStep (sty : ListStyle) (count real : Nat) (trailing : Bool) (acc : Doc × Nat × Nat) (item : LItem) : Doc × Nat × Nat :=
  let (inner, i, seen) := acc
  let isLast := i + 1 == count
  match item with
  | .comment c => (inner ++ (if isLast && sty.tightDelim then c else c ++ space), i + 1, seen)
  | .commented body after =>
    let seen := seen + 1
    let isLastReal := seen == real
    let inner := inner ++ (body ++ optDoc after)
    let inner := if !isLastReal then inner ++ (sty.sep ++ space) else if trailing then inner ++ sty.sep else inner
    (inner, i + 1, seen)
  | .linebreak _ => (inner, i + 1, seen)

def fitStep (sty : ListStyle) (count real : Nat) (trailing : Bool) (acc : Doc × Nat × Nat) (item : LItem) : Doc × Nat × Nat :=
  let (inner, i, seen) := acc
  let isLast := i + 1 == count
  match item with
  | .comment c => (inner ++ (if isLast && sty.tightDelim then c else c ++ hardline), i + 1, seen)
  | .commented body after =>
    let seen := seen + 1
    let isLastReal := seen == real
    let follow := match after with
      | some after => Doc.falt (sty.sep ++ after) (if !isLastReal || trailing then after ++ sty.sep else after)
      | none =>
        if isLastReal && sty.tightDelim then Doc.nil
        else if !isLastReal || trailing then sty.sep
        else Doc.falt sty.sep .nil
    let ln := if !isLastReal then line else if sty.tightDelim then Doc.nil else line_
    (inner ++ ((body ++ follow) ++ ln), i + 1, seen)
  | .linebreak n => (inner ++ repeatN line n, i + 1, seen)

/-- `print_doc`. -/
def LS.print (e : Env) (s : LS) (sty : ListStyle) : Doc :=
  if s.items.isEmpty then
    if sty.omitDelimEmpty then .nil
    else if sty.addDelimSpace then (sty.d0 ++ space) ++ sty.d1
    else sty.d0 ++ sty.d1
  else
  let isSingle := s.realCount == 1
  let fold := if s.hasLineComment then Fold.never else s.fold
  let count := s.items.length
  let trailing := sty.addTrailingSepAlways || (isSingle && sty.addTrailingSepSingle)
  match fold with
  | .never =>
    let inner := (s.items.foldl (neverStep sty count) (if sty.tightDelim then Doc.nil else hardline, 0)).1
    let inner := if !sty.noIndent then inner.nstTab else inner
    inner.enclose sty.d0 sty.d1
  | .always =>
    let inner := (s.items.foldl (alwaysStep sty count s.realCount trailing) (Doc.nil, 0, 0)).1
    let inner := inner.grp
    if (isSingle && sty.omitDelimSingle) || sty.omitDelimFlat then inner
    else if sty.addDelimSpace then (inner.enclose space space).enclose sty.d0 sty.d1
    else inner.enclose sty.d0 sty.d1
  | .fit =>
    let inner := (s.items.foldl (fitStep sty count s.realCount trailing) (if sty.tightDelim then Doc.nil else line_, 0, 0)).1
    let inner := if !sty.noIndent then inner.nstTab else inner
    if isSingle && sty.omitDelimSingle then inner.grp
    else if sty.omitDelimFlat then (inner.enclose (Doc.falt sty.d0 .nil) (Doc.falt sty.d1 .nil)).grp
    else if sty.addDelimSpace then
      (inner.enclose (Doc.falt sty.d0 (sty.d0 ++ space)) (Doc.falt sty.d1 (space ++ sty.d1))).grp
    else inner.grp.enclose sty.d0 sty.d1

/-- Default `ListStyle`: `(`, `)`, `,`. -/
def Env.parenStyle (e : Env) : ListStyle := { sep := e.soft ",", d0 := e.soft "(", d1 := e.soft ")" }

end Typstyle
