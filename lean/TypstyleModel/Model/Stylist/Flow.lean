import TypstyleModel.Model.Comment
/-! `pretty/layout/flow.rs` and `convert_flow_like_iter` (code_flow.rs:289). -/
namespace Typstyle
open Twin

structure FlowItem where
  doc : Doc
  before : Bool
  after : Bool

structure Flow where
  doc : Doc := .nil
  spaceAfter : Bool := false
  atLineStart : Bool := true

def Flow.push (f : Flow) (d : Doc) (before after : Bool) : Flow :=
  let doc := if before && f.spaceAfter then f.doc ++ space else f.doc
  { doc := doc ++ d, spaceAfter := after, atLineStart := false }

def Flow.pushComment (f : Flow) (d : Doc) (isBlock : Bool) : Flow :=
  if isBlock then f.push d true true
  else
    let f := if !f.atLineStart then { f with spaceAfter := true } else f
    f.push d true false

def spaced (d : Doc) : Option FlowItem := some ⟨d, true, true⟩
def tightSpaced (d : Doc) : Option FlowItem := some ⟨d, false, true⟩
def spacedTight (d : Doc) : Option FlowItem := some ⟨d, true, false⟩
def tight (d : Doc) : Option FlowItem := some ⟨d, false, false⟩

structure FSt (σ : Type) where
  flow : Flow := {}
  peekLC : Bool := false
  peekHash : Bool := false
  st : σ

/-- One iteration of `convert_flow_like_iter`. A keyword / `#` leaf is printed from its own text
(keywords) or as the constant `#`; the model rejects a `#` leaf with any other text. -/
def flowStepM {σ : Type} (e : Env) (ctx : Ctx) (producer : σ → Ctx → ANode → M (σ × Option FlowItem))
    (acc : FSt σ) (child : ANode) : M (FSt σ) := do
  let atLC := acc.peekLC
  let atHash := acc.peekHash
  let k := child.kind
  if k.isKeyword && !(k == .none_ || k == .auto_) then
    pure { acc with flow := acc.flow.push (e.tok child.text) true true, peekLC := false, peekHash := false }
  else if isCommentKind k then
    pure { acc with flow := acc.flow.pushComment (← convCommentT e child) (k == .blockComment), peekLC := k == .lineComment, peekHash := false }
  else if atLC && k == .space && hasLinebreak child.text then
    pure { acc with flow := { (acc.flow.push hardline false false) with atLineStart := true }, peekLC := false, peekHash := false }
  else if k == .hash then
    if child.text == "#" then
      pure { acc with flow := acc.flow.push (e.syn "#") true false, peekLC := false, peekHash := true }
    else reject (.shape "Hash leaf whose text is not #")
  else
    let ctx := ctx.withModeIf .code atHash
    let r ← producer acc.st ctx child
    match r.2 with
    | some it => pure { flow := acc.flow.push it.doc it.before it.after, peekLC := false, peekHash := false, st := r.1 }
    | none => pure { acc with peekLC := false, peekHash := false, st := r.1 }

def flowM {σ : Type} (e : Env) (ctx : Ctx) (children : List ANode) (st : σ)
    (producer : σ → Ctx → ANode → M (σ × Option FlowItem)) : M Doc := do
  let acc ← children.foldlM (flowStepM e ctx producer) ({ st := st } : FSt σ)
  pure acc.flow.doc

/-- A constant printed in place of a leaf: the leaf must carry exactly that text. -/
def Env.synLeaf (e : Env) (child : ANode) (s : String) : M Doc :=
  if child.text == s then pure (e.syn s) else reject (.shape s!"{child.kind.name} leaf whose text is not {s}")

end Typstyle
