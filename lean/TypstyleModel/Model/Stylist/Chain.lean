import TypstyleModel.Model.Comment
/-! `pretty/layout/chain.rs`: `ChainStylist`. -/
namespace Typstyle
open Twin

inductive CItem where
  | body (d : Doc) | op (d : Doc) | comment (d : Doc) | attached (d : Doc) | linebreak

def CItem.isCmt : CItem → Bool
  | .comment _ | .attached _ => true
  | _ => false

structure CS where
  items : List CItem := []
  opNum : Nat := 0
  hasComment : Bool := false
  opState : Bool := false

/-- Inner loop of `process`: the children of one operand node. State: (stylist, can_attach,
seen_op); `cs.opState` is the state the operator converter closes over (`seen_not`). -/
def CS.childStepM (e : Env) (ctx : Ctx) (opConv : Bool → ANode → M (Bool × Option Doc)) (rhsConv : Ctx → ANode → M (Option Doc))
    (acc : CS × Bool × Bool) (child : ANode) : M (CS × Bool × Bool) := do
  let (cs, canAttach, seenOp) := acc
  let (ost, op?) ← opConv cs.opState child
  let cs := { cs with opState := ost }
  match op? with
  | some op => pure ({ cs with items := cs.items ++ [.op op] }, canAttach, true)
  | none =>
    if isCommentKind child.kind then
      let d ← convCommentT e child
      pure ({ cs with items := cs.items ++ [if canAttach then .attached d else .comment d], hasComment := true }, canAttach, seenOp)
    else if child.kind == .space then
      if hasLinebreak child.text then
        let cs := if (cs.items.getLast?.map CItem.isCmt).getD false then { cs with items := cs.items ++ [.linebreak] } else cs
        pure (cs, false, seenOp)
      else pure (cs, canAttach, seenOp)
    else if seenOp then
      match ← rhsConv ctx child with
      | some rhs => pure ({ cs with items := cs.items ++ [.body rhs] }, true, seenOp)
      | none => pure (cs, canAttach, seenOp)
    else pure (cs, canAttach, seenOp)

/-- Outer loop of `process`: one node of the resolved chain (innermost first). -/
def CS.nodeStepM (e : Env) (ctx : Ctx) (operandPred : ANode → Bool) (opConv : Bool → ANode → M (Bool × Option Doc))
    (rhsConv : Ctx → ANode → M (Option Doc)) (fallback : Ctx → ANode → M (Option Doc))
    (acc : CS × Bool) (node : ANode) : M (CS × Bool) := do
  let (cs, canAttach) := acc
  if operandPred node then
    let cs := { cs with opNum := cs.opNum + 1 }
    let r ← node.children.foldlM (CS.childStepM e ctx opConv rhsConv) (cs, canAttach, false)
    pure (r.1, r.2.1)
  else
    match ← fallback ctx node with
    | some fb =>
      match cs.items.getLast? with
      | some (.body b) => pure ({ cs with items := cs.items.dropLast ++ [.body (b ++ fb)] }, canAttach)
      | _ => pure ({ cs with items := cs.items ++ [.body fb] }, canAttach)
    | none => pure (cs, canAttach)

def CS.processM (e : Env) (cs : CS) (ctx : Ctx) (nodes : List ANode) (operandPred : ANode → Bool)
    (opConv : Bool → ANode → M (Bool × Option Doc)) (rhsConv : Ctx → ANode → M (Option Doc))
    (fallback : Ctx → ANode → M (Option Doc)) : M CS := do
  let r ← nodes.foldlM (CS.nodeStepM e ctx operandPred opConv rhsConv fallback) (cs, false)
  pure r.1

def appendLast (docs : List Doc) (d : Doc) : List Doc :=
  match docs.getLast? with
  | some l => docs.dropLast ++ [l ++ d]
  | none => docs

/-- Loop of `print_doc`. State: (docs, has_break, leading, space_after). -/
def CS.printStep (opSep : Doc) (simple spaceAroundOp : Bool) (acc : List Doc × Bool × Bool × Bool) (item : CItem) :
    List Doc × Bool × Bool × Bool :=
  let (docs, hasBreak, leading, spaceAfter) := acc
  match item with
  | .body b => ((if leading then docs ++ [b] else appendLast docs b), hasBreak, false, true)
  | .op op =>
    let docs := if !((hasBreak && leading) || simple) then docs ++ [opSep] else docs
    let docs := if spaceAroundOp then docs ++ [op ++ space] else docs ++ [op]
    (docs, false, false, false)
  | .comment c =>
    ((if leading then docs ++ [c] else appendLast docs (if spaceAfter then space ++ c else c)), hasBreak, false, true)
  | .attached c => (appendLast docs (if spaceAfter then space ++ c else c), hasBreak, leading, spaceAfter)
  | .linebreak => (docs ++ [hardline], true, true, spaceAfter)

def CS.print (e : Env) (cs : CS) (noBreakSingle spaceAroundOp : Bool) : M Doc := do
  let opSep := if spaceAroundOp then line else line_
  let simple := cs.opNum == 1 && noBreakSingle && !cs.hasComment
  let r := cs.items.foldl (CS.printStep opSep simple spaceAroundOp) (([] : List Doc), false, true, true)
  match r.1 with
  | [] => reject (.panic "chain.rs:214 docs.remove(0)")
  | first :: rest =>
    let follow := concatDocs rest
    if simple then pure (first ++ follow).grp else pure (first ++ follow.nstTab).grp

end Typstyle
