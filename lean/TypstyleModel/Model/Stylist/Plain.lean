import TypstyleModel.Model.Stylist.Flow
/-! `pretty/layout/plain.rs`: `PlainStylist`. -/
namespace Typstyle
open Twin

inductive PItem where
  | item (d : Doc) | comma | linebreak (n : Nat) | lineComment (d : Doc) | blockComment (d : Doc)

def plainStep (e : Env) (f : Flow) (it : PItem) : Flow :=
  match it with
  | .item b => f.push b true true
  | .comma => f.push (e.soft ",") false true
  | .linebreak n => f.push (repeatN hardline n) false false
  | .lineComment c => f.push c true false
  | .blockComment c => f.push c true true

def plainPrint (e : Env) (items : List PItem) (multiline : Bool) : Doc :=
  let flow := items.foldl (plainStep e) ({} : Flow)
  if multiline then flow.doc.enclose hardline hardline else flow.doc

def dropTrailingPLinebreaks (items : List PItem) : List PItem :=
  (items.reverse.dropWhile fun | .linebreak _ => true | _ => false).reverse

end Typstyle
