/-! Model of the command-line front end (`crates/typstyle/src/{main,fmt,cli}.rs`) as a function
over an abstract file tree, with the library as a parameter `lib`.  No imports: the driver links. -/
namespace Typstyle.Cli

abbrev Path := List String

/-- What `std::fs::read_to_string` can see of a file. -/
inductive Content where
  | text (s : String)
  | binary              -- not valid UTF-8: `read_to_string` fails
deriving Repr, DecidableEq, Inhabited

/-- File tree. `touched` records whether the file was written by the run (modification time). -/
inductive Entry where
  | file (c : Content) (touched : Bool)
  | dir (es : List (String × Entry))
  | symlink
deriving Repr, Inhabited

structure Style where
  column : Nat := 80
  tab : Nat := 2
  reorder : Bool := false
deriving Repr, DecidableEq

inductive Cmd where
  | files (ps : List Path)
  | stdin (input : String)
  | formatAll (dir : Option Path)
deriving Repr

structure Args where
  cmd : Cmd
  inplace : Bool := false
  check : Bool := false
  quiet : Bool := false
  verbose : Bool := false
  style : Style := {}
deriving Repr

/-- Observable events, in order. -/
inductive Ev where
  | out (s : String)       -- `print!` of a library result or of the unchanged input (stdout)
  | info (s : String)      -- `info!` / `debug!` line (stdout)
  | warn                   -- `warn!` line (stderr)
  | error                  -- `error!` line (stderr)
deriving Repr, DecidableEq

structure Result where
  world : Entry
  evs : List Ev
  exit : Nat
deriving Repr

abbrev Lib := Style → String → Option String

/-! ### file tree access -/
def lookup (es : List (String × Entry)) (n : String) : Option Entry :=
  match es with
  | [] => none
  | (k, e) :: r => if k == n then some e else lookup r n

def Entry.get : Entry → Path → Option Entry
  | e, [] => some e
  | .dir es, n :: p => match lookup es n with
    | some e => e.get p
    | none => none
  | _, _ :: _ => none

mutual
def Entry.write : Entry → Path → String → Entry
  | .file _ _, [], s => .file (.text s) true
  | .dir es, n :: p, s => .dir (writeL es n p s)
  | e, _, _ => e
def writeL : List (String × Entry) → String → Path → String → List (String × Entry)
  | [], _, _, _ => []
  | (k, e) :: r, n, p, s => if k == n then (k, e.write p s) :: r else (k, e) :: writeL r n p s
end

/-- `std::fs::read_to_string`. -/
def readToString (w : Entry) (p : Path) : Option String :=
  match w.get p with
  | some (.file (.text s) _) => some s
  | _ => none

def showPath (p : Path) : String := "/".intercalate p

/-! ### `format_one` -/
inductive FormatResult where
  | changed (s : String)
  | unchanged (s : String)
  | erroneous (s : String)

/-- `format_debug`. -/
def formatDebug (lib : Lib) (a : Args) (content : String) : FormatResult :=
  match lib a.style content with
  | none => .erroneous content
  | some r => if r != content then .changed r else .unchanged r

def infoEv (a : Args) (s : String) : List Ev := if a.quiet then [] else [.info s]
def debugEv (a : Args) (s : String) : List Ev := if a.verbose then [.info s] else []
/-- `warn!`: suppressed by `--quiet` (level filter `Error`). -/
def warnEv (a : Args) : List Ev := if a.quiet then [] else [.warn]

structure St where
  world : Entry
  evs : List Ev := []

/-- `get_input`. -/
def getInput (w : Entry) (input : Option Path) (stdin : String) : Option String :=
  match input with
  | some p => readToString w p
  | none => some stdin

/-- `format_one`: `none` = `Err` (I/O error), `some changed` = `Ok(status)`. -/
def formatOne (lib : Lib) (a : Args) (input : Option Path) (stdin : String) (st : St) : St × Option Bool :=
  match getInput st.world input stdin with
  | none => (st, none)
  | some content =>
    match formatDebug lib a content with
    | .changed r =>
      if a.inplace then
        match input with
        | some p => ({ st with world := st.world.write p r }, some true)
        | none => (st, some true)
      else if a.check then
        match input with
        | some p => ({ st with evs := st.evs ++ infoEv a s!"Would reformat: {showPath p}" }, some true)
        | none => (st, some true)
      else ({ st with evs := st.evs ++ [.out r] }, some true)
    | .unchanged r =>
      if !a.inplace && !a.check then ({ st with evs := st.evs ++ [.out r] }, some false) else (st, some false)
    | .erroneous c =>
      let evs := if !a.inplace && !a.check then [Ev.out c] else []
      ({ st with evs := st.evs ++ evs ++ warnEv a }, some false)

/-! ### `format_many` -/
structure ManySt where
  st : St
  changed : Bool := false
  errors : Nat := 0

def manyStep (lib : Lib) (a : Args) (acc : ManySt) (p : Path) : ManySt :=
  match formatOne lib a (some p) "" acc.st with
  | (st, some ch) => { acc with st := st, changed := acc.changed || ch }
  | (st, none) => { st := { st with evs := st.evs ++ [.error] }, changed := acc.changed, errors := acc.errors + 1 }

/-! ### `format_all` -/
def isHidden (name : String) : Bool := name.startsWith "."

/-- `Path::extension() == Some("typ")`. -/
def hasTypExt (name : String) : Bool :=
  name.endsWith ".typ" && name.length > 4 && !(name.startsWith "." && ((name.drop 1).toString.splitOn ".").length < 2)

structure AllSt where
  st : St
  changed : Bool := false
  formatted : Nat := 0
  unchanged : Nat := 0
  errors : Nat := 0

/-- The loop body of `format_all` for one visited regular file with extension `typ`. -/
def allFile (lib : Lib) (a : Args) (acc : AllSt) (p : Path) (c : Content) : AllSt :=
  match c with
  | .binary => { acc with st := { acc.st with evs := acc.st.evs ++ [.error] }, errors := acc.errors + 1 }
  | .text content =>
    match lib a.style content with
    | none => { acc with st := { acc.st with evs := acc.st.evs ++ warnEv a } }
    | some res =>
      if res == content then { acc with unchanged := acc.unchanged + 1 }
      else if a.check then
        { acc with changed := true, formatted := acc.formatted + 1,
                   st := { acc.st with evs := acc.st.evs ++ debugEv a s!"Would reformat: {showPath p}" } }
      else
        { acc with changed := true, formatted := acc.formatted + 1,
                   st := { acc.st with world := acc.st.world.write p res } }

mutual
/-- The part of `walkdir` that `format_all` uses: pre-order walk without following links;
`filter_entry` prunes hidden entries below the root. -/
def walk (lib : Lib) (a : Args) (acc : AllSt) (p : Path) (name : String) (depth : Nat) : Entry → AllSt
  | .file c _ =>
    if depth > 0 && isHidden name then acc
    else if hasTypExt name then allFile lib a acc p c else acc
  | .symlink => acc
  | .dir es =>
    if depth > 0 && isHidden name then acc else walkL lib a acc p (depth + 1) es
def walkL (lib : Lib) (a : Args) (acc : AllSt) (p : Path) (depth : Nat) : List (String × Entry) → AllSt
  | [] => acc
  | (n, e) :: r => walkL lib a (walk lib a acc (p ++ [n]) n depth e) p depth r
end

def numFiles (n : Nat) : String := if n > 1 then s!"{n} files" else s!"{n} file"

def summaryMsg (a : Args) (formatted unchanged : Nat) : String :=
  if a.check then s!"{numFiles formatted} would be reformatted ({unchanged} already formatted), checked in <T>"
  else s!"Successfully formatted {numFiles formatted} ({unchanged} unchanged) in <T>"

/-- Exit status of `main` for `Ok(status)`. -/
def exitOf (a : Args) (changed : Bool) : Nat := if a.check && changed then 1 else 0

/-- File name of the entry the walk starts from. -/
def rootNameOf (p : Path) (rootName : String) : String :=
  match p.getLast? with
  | some n => n
  | none => rootName

/-- `format_all` and the end of `main`. `rootName`: name of the directory the walk starts from. -/
def runFormatAll (lib : Lib) (a : Args) (w : Entry) (dir : Option Path) (rootName : String) : Result :=
  let p := dir.getD []
  match w.get p with
  | none => -- walkdir reports an error entry, which is dropped
    { world := w, evs := infoEv a (summaryMsg a 0 0), exit := 0 }
  | some e =>
    let r := walk lib a { st := { world := w } } p (rootNameOf p rootName) 0 e
    let evs := r.st.evs ++ infoEv a (summaryMsg a r.formatted r.unchanged)
    if r.errors > 0 then { world := r.st.world, evs := evs ++ [.error], exit := 1 }
    else { world := r.st.world, evs := evs, exit := exitOf a r.changed }

def runStdin (lib : Lib) (a : Args) (w : Entry) (input : String) : Result :=
  match formatOne lib a none input { world := w } with
  | (st, some ch) => { world := st.world, evs := st.evs, exit := exitOf a ch }
  | (st, none) => { world := st.world, evs := st.evs ++ [.error], exit := 1 }

/-- `format_many` and the end of `main`. -/
def runFiles (lib : Lib) (a : Args) (w : Entry) (ps : List Path) : Result :=
  let r := ps.foldl (manyStep lib a) { st := { world := w } }
  if r.errors > 0 then { world := r.st.world, evs := r.st.evs ++ [.error], exit := 1 }
  else { world := r.st.world, evs := r.st.evs, exit := exitOf a r.changed }

def usageError (w : Entry) : Result := { world := w, evs := [], exit := 2 }

/-- `main` ∘ `execute`, after clap: `--inplace` conflicts with `--check`; `validate_input`. -/
def run (lib : Lib) (a : Args) (w : Entry) (rootName : String := "root") : Result :=
  if a.inplace && a.check then usageError w else
  match a.cmd with
  | .formatAll dir => runFormatAll lib a w dir rootName
  | .stdin input => if a.inplace then usageError w else runStdin lib a w input
  | .files [] => usageError w        -- not a `files` invocation (it would read stdin)
  | .files ps => runFiles lib a w ps

end Typstyle.Cli
