import TypstyleModel.Model.Env
/-! `pretty/comment.rs`. -/
namespace Typstyle
open Pretty

/-- `get_follow_leading`: minimum number of leading spaces over all lines but the first
(`usize::MAX` for a line of spaces only); `none` for a single line. -/
def followLeading (text : String) : Option Nat :=
  match (rlines text).drop 1 with
  | [] => none
  | ls => some <| ls.foldl (fun m l =>
      let p := (l.toList.takeWhile (· == ' ')).length
      min m (if p == l.length then 2 ^ 64 - 1 else p)) (2 ^ 64 - 1)

def alignStep (e : Env) (leading : Nat) (acc : Doc × Nat) (l : String) : Doc × Nat :=
  let (doc, i) := acc
  if i == 0 then (doc ++ e.cmt l, i + 1)
  else
    let doc := doc ++ hardline
    (if l.utf8ByteSize > leading then doc ++ e.cmt (String.ofList (l.toList.drop leading)) else doc, i + 1)

/-- `align_multiline` (without the final `.align()`, which `convComment` applies). `leading` ≤ number of leading ASCII spaces of every line, so dropping
`leading` chars is the byte slice `&line[leading..]`. -/
def alignMultiline (e : Env) (text : String) : M Doc :=
  match followLeading text with
  | none => reject (.panic "comment.rs:71 get_follow_leading(text).unwrap()")
  | some leading => pure ((rlines text).foldl (alignStep e leading) (Doc.nil, 0)).1

def alignSimpleStep (e : Env) (acc : Doc × Nat) (l : String) : Doc × Nat :=
  let (doc, i) := acc
  let doc := if i > 0 then doc ++ hardline else doc
  (doc ++ e.cmt (trimStart l), i + 1)

/-- `align_multiline_simple`. -/
def alignMultilineSimple (e : Env) (text : String) : Doc :=
  (((rlines text).foldl (alignSimpleStep e) (Doc.nil, 0)).1).hang 1

/-- A converted comment: a plain document without indentation steps outside `align` (its
continuation lines keep the indentation copied from the source — the exemption of C12). -/
structure CDoc where
  d : Doc
  closed : d.closed = true

/-- `comment` / `line_comment` / `block_comment`. -/
def convComment (e : Env) (n : ANode) : M CDoc :=
  if n.kind == .lineComment then pure ⟨e.cmt n.text, mkText_closed _ _ _⟩
  else if n.kind == .blockComment then
    let text := n.text
    if (rlines text).length == 0 then pure ⟨e.cmt text, mkText_closed _ _ _⟩
    else
      let bullet := ((rlines text).drop 1).all fun l => (trimStart l).startsWith "*"
      if bullet then pure ⟨alignMultilineSimple e text, rfl⟩
      else do
        let d ← alignMultiline e text
        pure ⟨d.alignD, rfl⟩
  else reject (.panic "comment.rs:24 unreachable!")

/-- The comment as a member of the printer's document family (the same at every unit). -/
def convCommentT (e : Env) (n : ANode) : M Twin.Doc := do
  let c ← convComment e n
  pure (Twin.Doc.ofClosed c.d c.closed)

end Typstyle
