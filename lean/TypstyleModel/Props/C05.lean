import TypstyleModel.Props.C11
import TypstyleModel.Model.Range
import TypstyleModel.Proofs.ChainSafe
/-! C05 — totality.  Every function of the model (attributes, printer, renderer, post-pass, range
entry point, CLI) is a total Lean function: termination is checked by the kernel (structural
recursion on fuel / trees, and the size measures of `fitting` and `best`). -/
namespace Typstyle
open Pretty

/-- The renderer terminates with a result for every document and width (no fuel). -/
theorem C05_renderer_total (w : Nat) (d : Doc) : ∃ s : String, pretty w d = s := ⟨_, rfl⟩

/-- The library pipeline after the syntax-error check returns for every tree and configuration:
either text or an explicit rejection value (never divergence). -/
theorem C05_format_total (cfg : Config) (wd : String → Nat) (root : Node) :
    (∃ out, format cfg wd root = .ok out) ∨ (∃ r, format cfg wd root = .error r) := by
  cases h : format cfg wd root with
  | ok o => exact Or.inl ⟨o, rfl⟩
  | error r => exact Or.inr ⟨r, rfl⟩

end Typstyle

namespace Typstyle
open Pretty

/-- A computation never fails at a panic site of the implementation. -/
def NoPanic {α : Type} (x : M α) : Prop := ∀ s site, x.run s ≠ .error (.panic site)

theorem NoPanic.pure {α : Type} (a : α) : NoPanic (pure a : M α) := by
  intro s site h; cases h

theorem NoPanic.bind {α β : Type} {x : M α} {f : α → M β} (hx : NoPanic x) (hf : ∀ a, NoPanic (f a)) :
    NoPanic (x >>= f) := by
  intro s site h
  have hb : (x >>= f).run s = (match x.run s with | .ok (a, s1) => (f a).run s1 | .error e => .error e) := rfl
  rw [hb] at h
  cases hxr : x.run s with
  | error e => rw [hxr] at h; simp only at h; cases h; exact hx s site hxr
  | ok p => obtain ⟨a, s1⟩ := p; rw [hxr] at h; exact hf a s1 site h

/-- `get_follow_leading(text).unwrap()` (comment.rs:71) cannot fail where it is called: the plain
alignment is only chosen when some continuation line does not start with `*`, so there is a
continuation line.  `unreachable!` (comment.rs:24) is not reached for a comment node.  Hence the
comment converter has no reachable panic site — for every comment text whatsoever (any Unicode, any
line-ending style, any indentation). -/
theorem C05_comment_conversion_never_panics (e : Env) (n : ANode) (hk : isCommentKind n.kind = true) :
    NoPanic (convComment e n) := by
  unfold convComment
  split
  · exact NoPanic.pure _
  · split
    · dsimp only
      split
      · exact NoPanic.pure _
      · split
        · exact NoPanic.pure _
        · rename_i hb
          refine NoPanic.bind ?_ (fun d => NoPanic.pure _)
          unfold alignMultiline
          split
          · rename_i hfl
            -- no continuation line ⇒ the bullet test is vacuously true: contradiction
            exfalso
            apply hb
            unfold followLeading at hfl
            split at hfl
            · rename_i hd
              simp [hd]
            · cases hfl
          · exact NoPanic.pure _
    · rename_i h1 h2
      exfalso
      simp only [isCommentKind, Bool.or_eq_true, beq_iff_eq] at hk
      rcases hk with h | h
      · exact h1 (by simp [h])
      · exact h2 (by simp [h])

/-- The byte slice `&line[leading..]` of `align_multiline` is on a character boundary: `leading`
is a minimum over counts of leading ASCII blanks, so the model's `drop leading` on characters removes
exactly `leading` one-byte characters whenever the line has at least that many leading blanks. -/
theorem C05_leading_blanks_are_single_bytes (l : List Char) :
    ((l.takeWhile (· == ' ')).map Char.utf8Size).sum = (l.takeWhile (· == ' ')).length := by
  induction l with
  | nil => rfl
  | cons c cs ih =>
    simp only [List.takeWhile_cons]
    split
    · rename_i h
      have hc : c = ' ' := by simpa using h
      subst hc
      simp only [List.map_cons, List.sum_cons, List.length_cons, ih]
      have : Char.utf8Size ' ' = 1 := by decide
      omega
    · rfl

/-! ### the chain stylist's `docs.remove(0)` (chain.rs:214) -/

/-- Whatever the operand predicate and the operator, operand and fallback converters do, the first
item `ChainStylist::process` records is never an attached comment (a comment is attached only once a
body has been seen) — for every list of chain nodes. -/
theorem C05_chain_first_item_is_not_an_attached_comment (e : Env) (ctx : Ctx) (nodes : List ANode) (operandPred : ANode → Bool)
    (opConv : Bool → ANode → M (Bool × Option Twin.Doc)) (rhsConv : Ctx → ANode → M (Option Twin.Doc))
    (fallback : Ctx → ANode → M (Option Twin.Doc)) :
    Post (CS.processM e {} ctx nodes operandPred opConv rhsConv fallback) (fun cs => headOK cs.items = true) :=
  processM_head e ctx nodes operandPred opConv rhsConv fallback {} rfl

/-- … and then `print_doc` has a first document to remove: the only partial operation of the chain
stylist is not reached for a chain that has any item at all (binary chains, dot chains; an *empty*
chain — no operand and no fallback — is the residual parser assumption). -/
theorem C05_chain_print_never_panics (e : Env) (cs : CS) (noBreakSingle spaceAroundOp : Bool)
    (hne : cs.items ≠ []) (hh : headOK cs.items = true) :
    ∀ s site, (cs.print e noBreakSingle spaceAroundOp).run s ≠ .error (.panic site) :=
  chain_print_no_panic e cs noBreakSingle spaceAroundOp hne hh

/-- The premises of `C05_chain_print_never_panics` are satisfiable (a chain with one body), and the
excluded case is exactly the one that would panic: an attached comment with nothing before it. -/
example (d : Twin.Doc) : ([CItem.body d] ≠ []) ∧ headOK [CItem.body d] = true := ⟨by simp, rfl⟩
example (d : Twin.Doc) : headOK [CItem.attached d] = false := rfl

end Typstyle
