import TypstyleModel.Props.C11
import TypstyleModel.Model.Range
/-! C05 — totality.  Every function of the model (attributes, printer, renderer, post-pass, range
entry point, CLI) is a total Lean function: termination is checked by the kernel (structural
recursion on fuel / trees, and the size measures of `fitting` and `best`). -/
namespace Typstyle
open Pretty

/-- The renderer terminates with a result for every document and width (no fuel). -/
theorem C05_renderer_total (w : Nat) (d : Doc) : ∃ s : String, pretty w d = s := ⟨_, rfl⟩

/-- The library pipeline after the syntax-error check returns for every tree and configuration:
either text or an explicit rejection value (never divergence). -/
theorem C05_format_total (cfg : Config) (wd : String → Nat) (root : Node) :
    (∃ out, format cfg wd root = .ok out) ∨ (∃ r, format cfg wd root = .error r) := by
  cases h : format cfg wd root with
  | ok o => exact Or.inl ⟨o, rfl⟩
  | error r => exact Or.inr ⟨r, rfl⟩

end Typstyle
