import TypstyleModel.Props.C01
import TypstyleModel.Model.Printer.Knot
import TypstyleModel.Proofs.Tokens
import TypstyleModel.Proofs.EndToEnd
import TypstyleModel.Props.RouteM
/-! C07 — the `@typstyle off` escape hatch reproduces the next node verbatim (printer side:
marking and verbatim emission are theorems; "the text occurs in the output" additionally needs that
the atom reaches the output, which every layout guarantees (R1), and the post-pass (S5), and is
searched on the implementation). -/
namespace Typstyle
open Pretty

/-- T7.1a: after a directive comment, white space and `#` keep the directive pending … -/
theorem C07_pending_skips_space_and_hash (cm : Bool) (y : Node) (rest : List Node)
    (hy : y.kind = .space ∨ y.kind = .hash) (hnc : isCommentKind y.kind = false) :
    annotateKids false true cm (y :: rest) =
      (annotate false y :: (annotateKids false true cm rest).1, (annotateKids false true cm rest).2) := by
  rw [annotateKids]
  rcases hy with h | h
  · have : isCommentKind Kind.space = false := by rw [← h]; exact hnc
    simp [h, this]
  · have : isCommentKind Kind.hash = false := by rw [← h]; exact hnc
    simp [h, this]

/-- T7.1b: … and the first following sibling that is neither is marked format-disabled (and the
directive is consumed: the siblings after it are annotated normally). -/
theorem C07_pending_marks_next_node (cm : Bool) (x : Node) (rest : List Node)
    (hx : x.kind ≠ .space ∧ x.kind ≠ .hash) (hnc : isCommentKind x.kind = false) :
    annotateKids false true cm (x :: rest) =
      ((annotate true x).setDisabled :: (annotateKids false false cm rest).1, (annotateKids false false cm rest).2) := by
  rw [annotateKids]
  simp [hnc, hx.1, hx.2]

/-- T7.1c: a comment containing `@typstyle off` is itself kept verbatim and makes the directive pending. -/
theorem C07_directive_comment_sets_pending (dn cm : Bool) (c : Node) (rest : List Node)
    (hc : isCommentKind c.kind = true) (hoff : containsOff c.text = true) :
    annotateKids false dn cm (c :: rest) =
      ((annotate true c).setDisabled :: (annotateKids false true true rest).1, (annotateKids false true true rest).2) := by
  rw [annotateKids]
  simp [hc, hoff]

theorem setDisabled_disabled (n : ANode) : n.setDisabled.attrs.disabled = true := by
  cases n <;> rfl

/-- Numbering the nodes does not touch the marks. -/
theorem C07_number_keeps_marks (n : ANode) (k : Nat) : (number n k).1.attrs.disabled = n.attrs.disabled := by
  cases n <;> simp [number, ANode.attrs]

/-- T7.2 (expressions): a marked expression is not converted: the entry point returns one verbatim
atom holding the node's source text, whatever the context. -/
theorem C07_disabled_expr_is_verbatim (e : Env) (r : Rec) (ctx : Ctx) (n : ANode) (h : n.attrs.disabled = true) :
    convExpr e r ctx n = (do enter .expr n.attrs.id; pure (e.verbNode n)) := by
  simp [convExpr, h]

/-- T7.2 (equation bodies). -/
theorem C07_disabled_math_is_verbatim (e : Env) (r : Rec) (ctx : Ctx) (n : ANode) (h : n.attrs.disabled = true) :
    convMath e r ctx n = (do enter .math n.attrs.id; pure (e.verb n.intoText)) := by
  simp [convMath, h]

/-- T7.2 (patterns). -/
theorem C07_disabled_pattern_is_verbatim (e : Env) (r : Rec) (es ps : Ctx → ANode → M Twin.Doc) (ctx : Ctx) (n : ANode)
    (h : n.attrs.disabled = true) :
    convPattern e r es ps ctx n = (do enter .pattern n.attrs.id; pure (e.verbNode n)) := by
  simp [convPattern, h]

/-- T7.2 (code bodies): a code block whose body is marked is emitted verbatim as a whole. -/
theorem C07_disabled_code_body_is_verbatim (e : Env) (r : Rec) (ctx : Ctx) (n body : ANode)
    (hb : n.children.find? (·.kind == .code) = some body) (h : body.attrs.disabled = true) :
    convCodeBlock e r ctx n = pure (e.verb n.intoText) := by
  simp [convCodeBlock, hb, h]

/-- `verbNode` is one text atom holding the node's whole source text (the tag only records the
stream a leaf's text feeds). -/
theorem C07_verbNode_is_source_text (e : Env) (n : ANode) :
    ∃ tag, e.verbNode n = Twin.mkText e.wd tag n.intoText := by
  unfold Env.verbNode
  split
  · exact ⟨_, rfl⟩
  · exact ⟨.verbatim, rfl⟩

/-- The verbatim document is a single text atom carrying exactly the source text — at every indent
unit, in every layout (so at every width): nothing inside it can be re-spaced, re-broken or re-indented. -/
theorem C07_verbatim_is_one_atom (e : Env) (s : String) (hs : s.isEmpty = false) (u : Nat) (m : Mode) (xs : List Atom)
    (h : Lay m ((e.verb s).fam u) xs) : xs = [.txt s .verbatim] := by
  simp only [Env.verb, Twin.fam_mkText, mkText, hs] at h
  cases h
  rfl

/-- T7.3 (verbatim regions are preserved, by construction): the printer's documents carry the text
of the atoms they copy for `@typstyle off` nodes — every character, blanks and line breaks included —
through every builder operation.  If the family printed for a tree passes the comparison with the
tree's own verbatim text (`verbatimCertified`: evaluated on every case of the correspondence run,
field `verb`), then at **every** width and indent unit the rendered layout contains the source text
of every marked node, complete, unchanged and in order (each as one atom: `C07_verbatim_is_one_atom`). -/
theorem C07_verbatim_preserved (root : Node) (d : Twin.Doc) (h : verbatimCertified root d = true) (u w : Nat) :
    verbText (best w 0 [⟨0, .brk, d.fam u⟩]) = (specVerb (prepare root)).toList :=
  certified_verbatim_best root d h u w

theorem C07_verbatim_preserved_all_layouts (root : Node) (d : Twin.Doc) (h : verbatimCertified root d = true)
    (u : Nat) (m : Mode) (xs : List Atom) (hl : Lay m (d.fam u) xs) :
    verbText xs = (specVerb (prepare root)).toList :=
  certified_verbatim root d h u m xs hl

/-- T7.4 (on the rendered text): the source text of a marked node — one verbatim atom in every
layout (`C07_verbatim_is_one_atom`) — occurs character for character, blanks and line breaks
included, in the text the renderer produces at any width.  (The post-pass then removes blanks at line
ends only: `C11`/`C10_strip_only_removes_line_end_blanks`; that it does so inside a verbatim region
too is finding F4.) -/
theorem C07_verbatim_text_occurs_in_rendered_output (w : Nat) (d : Doc) (s : String)
    (h : Atom.txt s .verbatim ∈ best w 0 [⟨0, .brk, d⟩]) :
    s.toList <:+: (pretty w d).toList :=
  render_infix _ _ h

/-- T7.4 without a certificate (route M): for every expression tree of the covered fragment — with
`@typstyle off` marks on any of its nodes — the rendered layout contains the source text of every
marked node, character for character and in order, at every width and unit. -/
theorem C07_fragment_verbatim_preserved (e : Env) (fuel : Nat) (ctx : Ctx) (hctx : NM ctx) (n : ANode) (hx : isExpr n = true) (hq : inFrag n = true)
    (d : Twin.Doc) (k k' : St) (h : ((knot e fuel).expr ctx n).run k = .ok (d, k')) (u w : Nat) :
    verbText (best w 0 [⟨0, .brk, d.fam u⟩]) = (specVerb n).toList :=
  (routeM_expr e fuel ctx hctx n hx hq d k k' h u w).2.2.2.2

/-- A mark on a **paragraph break** is inert (route M): the children of a `Markup` node are split into
lines before any of them is converted, and every `Parbreak` becomes a line boundary there — whether it
carries the `@typstyle off` mark or not.  So for children that are paragraph breaks (marked or unmarked)
or nodes of the covered fragment, what is printed carries exactly what the children prescribe; in
particular no white space of a marked paragraph break is emitted as verbatim text. -/
theorem C07_mark_on_paragraph_break_is_inert (e : Env) (fuel : Nat) (ctx : Ctx) (cs : List ANode) (a : Attrs) (scope : Scope)
    (hok : ∀ x ∈ cs, (x.kind = .parbreak ∧ ANode.tokensAreLeaves x = true) ∨
      (inFrag x = true ∧ (x.kind = .space ∨ x.kind = .text ∨ isExpr x = true ∨ isCommentKind x.kind = true ∨ x.kind.isPlainToken = true))) :
    Post (convMarkup e (knot e fuel) ctx (.inner .markup cs a) scope) (fun d => Carries d (specAllL cs)) :=
  convMarkup_carries_parbreak e _ (knot_frag e fuel).1 ctx .markup cs a scope
    (fun x hx => (hok x hx).elim (fun h => Or.inr h) (fun h => Or.inl ⟨inFrag_lex x h.1, fun _ => h.1, h.2⟩))

/-- The hypotheses are met by a paragraph with a marked paragraph break in it. -/
example : ∀ x ∈ [ANode.leaf .text "a" {}, ANode.leaf .parbreak "\n\n" { disabled := true }, ANode.leaf .text "b" {}],
    (x.kind = .parbreak ∧ ANode.tokensAreLeaves x = true) ∨
      (inFrag x = true ∧ (x.kind = .space ∨ x.kind = .text ∨ isExpr x = true ∨ isCommentKind x.kind = true ∨ x.kind.isPlainToken = true)) := by
  decide

end Typstyle
