import TypstyleModel.Proofs.Strip
import TypstyleModel.Model.Printer.Knot
/-! C11 — output hygiene: final newline, no trailing blanks.  Complete: the statement holds for
every string the post-pass is applied to, hence for every accepted input and configuration. -/
namespace Typstyle

theorem strip_toList (s : String) : (strip s).toList = stripL s.toList := by
  simp [strip]

/-- For every string whatsoever: the stripped text is non-empty, ends with a line feed, and each of
its lines is LF-terminated and is empty or ends in a character that is not Unicode white space. -/
theorem C11_strip_hygiene (x : String) :
    (strip x).toList ≠ [] ∧ (strip x).toList.getLast? = some '\n' ∧
    ∀ p ∈ splitNl (strip x).toList, p.2 = true ∧ ∀ c, p.1.getLast? = some c → isWs c = false := by
  rw [strip_toList]
  exact ⟨stripL_ne_nil _, stripL_getLast _, stripL_lines _⟩

/-- C11 for the formatter: whatever tree is accepted, under every configuration and display-width function. -/
theorem C11_output_hygiene (cfg : Config) (wd : String → Nat) (root : Node) (out : String) (h : format cfg wd root = .ok out) :
    out.toList ≠ [] ∧ out.toList.getLast? = some '\n' ∧
    ∀ p ∈ splitNl out.toList, p.2 = true ∧ ∀ c, p.1.getLast? = some c → isWs c = false := by
  unfold format at h
  split at h
  · cases h
    exact C11_strip_hygiene _
  · cases h

/-- The same for range formatting's building block and for any other caller: hygiene does not depend on the width. -/
theorem C11_all_widths (d : Pretty.Doc) (w : Nat) :
    (strip (Pretty.pretty w d)).toList.getLast? = some '\n' := (C11_strip_hygiene _).2.1

end Typstyle
