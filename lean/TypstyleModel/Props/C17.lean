import TypstyleModel.Model.Printer.Knot
/-! C17 — formatting is a pure function of text and configuration (partial; see DESIGN.md §4 C17). -/
namespace Typstyle

/-- The model is a function: equal tree, configuration and width function give equal results. -/
theorem C17_model_is_a_function (c₁ c₂ : Config) (wd₁ wd₂ : String → Nat) (t₁ t₂ : Node)
    (hc : c₁ = c₂) (hw : wd₁ = wd₂) (ht : t₁ = t₂) : format c₁ wd₁ t₁ = format c₂ wd₂ t₂ := by
  subst hc; subst hw; subst ht; rfl

end Typstyle
