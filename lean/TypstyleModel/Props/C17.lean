import TypstyleModel.Model.Printer.Knot
/-! C17 — formatting is a pure function of text and configuration (partial; see DESIGN.md §4 C17). -/
namespace Typstyle

/-- The model is a function: equal tree, configuration and width function give equal results. -/
theorem C17_model_is_a_function (e₁ e₂ : Env) (t₁ t₂ : Node) (he : e₁ = e₂) (ht : t₁ = t₂) :
    format e₁ t₁ = format e₂ t₂ := by subst he; subst ht; rfl

end Typstyle
