import TypstyleModel.Props.C01
import TypstyleModel.Model.Printer.Knot
import TypstyleModel.Proofs.Table
/-! C02 — formatting never changes what the document compiles to (partial: no model of the Typst
evaluator exists; proved here is the white-space decision table at the edges of a piece of markup,
which together with C01/C08/C09/C10 reduces C02 to "evaluation is invariant under tree equivalence and
under the edge changes this table permits" (A-eval), validated by the compile-and-compare oracle). -/
namespace Typstyle
open Pretty

/-- The document is white space (a blank, a line break, or the choice between the two). -/
def IsWs (d : Twin.Doc) : Prop := d = Twin.space ∨ d = Twin.hardline ∨ d = Twin.line

/-- T2.1a: in a content block or strong/emph body, an edge that had white space in the source
(possibly behind a comment) gets white space in the output — in the flat and in the broken layout. -/
theorem C02_edge_space_is_kept (scope : Scope) (isSym hasLB suppressed : Bool) (b : Bound)
    (hs : scope = .contentBlock ∨ scope = .strong)
    (hb : b = .spaceOrBreak ∨ b = .brk ∨ b = .weakSpaceOrBreak ∨ b = .weakBreak) :
    IsWs (getDelim scope isSym hasLB suppressed b) := by
  rcases hs with rfl | rfl <;> rcases hb with rfl | rfl | rfl | rfl <;>
    cases isSym <;> cases hasLB <;> cases suppressed <;> simp [getDelim, IsWs]

/-- T2.1b: an edge without white space gets none, in every scope. -/
theorem C02_edge_without_space_gets_none (scope : Scope) (isSym hasLB suppressed : Bool) :
    getDelim scope isSym hasLB suppressed .nil = Twin.Doc.nil := by
  cases scope <;> simp [getDelim]

/-- T2.1c: the only edge where white space may appear that was not in the source is next to a
list/enum/term item (`nilOrBreak`), and then only as a line break in the broken layout (never a blank). -/
theorem C02_edge_next_to_item (scope : Scope) (isSym hasLB suppressed : Bool) :
    getDelim scope isSym hasLB suppressed .nilOrBreak = Twin.Doc.nil ∨
    getDelim scope isSym hasLB suppressed .nilOrBreak = Twin.line_ := by
  cases scope <;> cases isSym <;> cases hasLB <;> cases suppressed <;> simp [getDelim]

/-- T2.1d: at the edges of the document and of item bodies (where Typst trims white space) the
printer emits at most a line break. -/
theorem C02_document_edges (scope : Scope) (isSym hasLB suppressed : Bool) (b : Bound)
    (hs : scope = .document ∨ scope = .item) :
    getDelim scope isSym hasLB suppressed b = Twin.Doc.nil ∨ getDelim scope isSym hasLB suppressed b = Twin.hardline := by
  rcases hs with rfl | rfl <;> cases b <;> simp [getDelim]

theorem C02_layout_sound (w : Nat) (d : Doc) : Lay .brk d (best w 0 [⟨0, .brk, d⟩]) := pretty_lay w d

/-- T2.2 (table reflow keeps the cells): `convert_table` distributes the positional arguments of a
`table`/`grid` call over rows; read row by row the cells are exactly the positional arguments in source
order — none lost, duplicated or moved, whatever the column count, headers and footers. -/
theorem C02_table_rows_keep_the_cells (columns : Nat) (posArgs : List ANode) :
    let rr := posArgs.foldl (tableRowStep columns) (([] : List (List ANode)), ([] : List ANode))
    (if !rr.2.isEmpty then rr.1 ++ [rr.2] else rr.1).flatten = posArgs := by
  intro rr
  have h := foldl_tableRowStep_flatten columns posArgs ([], [])
  simp only [List.flatten_nil, List.append_nil, List.nil_append] at h
  split
  · rw [List.flatten_append]; simpa using h
  · rename_i he
    have : rr.2 = [] := by simpa using he
    rw [this, List.append_nil] at h
    exact h

/-- … and no row is longer than the column count (so cells never move to another column). -/
theorem C02_table_rows_fit_the_columns (columns : Nat) (hc : 0 < columns) (posArgs : List ANode) :
    let rr := posArgs.foldl (tableRowStep columns) (([] : List (List ANode)), ([] : List ANode))
    ∀ r ∈ (if !rr.2.isEmpty then rr.1 ++ [rr.2] else rr.1), r.length ≤ columns := by
  intro rr r hr
  have h := foldl_tableRowStep_ok columns posArgs ([], []) ⟨by simp, by simpa using hc⟩
  split at hr
  · simp only [List.mem_append, List.mem_singleton] at hr
    rcases hr with hr | rfl
    · exact h.1 r hr
    · exact Nat.le_of_lt h.2
  · exact h.1 r hr

/-- Route M for calls, `table` and `grid` included (reflowed row by row by `convert_table`, or kept as a
plain list): for every call of the covered fragment, every fuel, non-math context and configuration,
whatever the printer returns renders at every width and indent unit to a layout that holds exactly the
tokens, the prose and the literals of the call — every named argument and every cell, in source order,
none lost, duplicated or moved across a row boundary.  No per-case certificate. -/
theorem C02_fragment_call_keeps_every_argument (e : Env) (fuel : Nat) (ctx : Ctx) (hctx : NM ctx) (n : ANode)
    (hk : n.kind = .funcCall) (hq : inFrag n = true)
    (d : Twin.Doc) (k k' : St) (h : ((knot e fuel).expr ctx n).run k = .ok (d, k')) (u w : Nat) :
    tokText (best w 0 [⟨0, .brk, d.fam u⟩]) = (specToks n).toList ∧
    proseText (best w 0 [⟨0, .brk, d.fam u⟩]) = (specProse n).toList ∧
    litText (best w 0 [⟨0, .brk, d.fam u⟩]) = (specLit n).toList := by
  have hx : isExpr n = true := by unfold isExpr; rw [hk]; rfl
  have := routeM_expr e fuel ctx hctx n hx hq d k k' h u w
  exact ⟨this.1, this.2.2.1, this.2.2.2.1⟩

end Typstyle
