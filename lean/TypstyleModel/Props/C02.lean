import TypstyleModel.Props.C01
/-! C02 — (partial) see DESIGN.md §4 C02. Foundation: layout soundness and the post-pass. -/
namespace Typstyle
open Pretty

theorem C02_layout_sound (w : Nat) (d : Doc) : Lay .brk d (best w 0 [⟨0, .brk, d⟩]) := pretty_lay w d

end Typstyle
