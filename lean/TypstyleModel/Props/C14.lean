import TypstyleModel.Proofs.Cli
/-! C14 — check mode is read-only and its exit status is truthful. Theorems hold for every
library function `lib`, every file tree and every invocation shape. -/
namespace Typstyle.Cli

/-- T14.1: `--check` leaves every file's content and modification mark unchanged. -/
theorem C14_check_is_read_only (lib : Lib) (a : Args) (w : Entry) (rootName : String) (hc : a.check = true) :
    (run lib a w rootName).world = w := run_check_world lib a w rootName hc

end Typstyle.Cli
