import TypstyleModel.Proofs.Cli
/-! C14 — check mode is read-only and its exit status is truthful.  Every theorem holds for every
library function `lib`, every file tree `w` and every invocation `a` (options, order of inputs). -/
namespace Typstyle.Cli

/-- T14.1: `--check` leaves every file's content and modification mark unchanged — single file,
several files, standard input and `format-all`, with any style options. -/
theorem C14_check_is_read_only (lib : Lib) (a : Args) (w : Entry) (rootName : String) (hc : a.check = true) :
    (run lib a w rootName).world = w := run_check_world lib a w rootName hc

/-- T14.2: with `--check` no library result (formatted text or echoed input) is ever printed. -/
theorem C14_check_prints_no_formatted_text (lib : Lib) (a : Args) (w : Entry) (rootName : String)
    (hc : a.check = true) : outsOf (run lib a w rootName).evs = [] := by
  unfold run
  split
  · rfl
  · rename_i h
    have hi : a.inplace = false := by cases h' : a.inplace <;> simp_all
    split
    · -- format-all
      rename_i dir _
      unfold runFormatAll
      simp only
      split
      · simp
      · rw [walk_eq_fold]
        split <;> simp only [outsOf_append, foldl_allStep_outs, outsOf_infoEv] <;> simp [outsOf]
    · split
      · rfl
      · rename_i input _ _
        unfold runStdin
        have := formatOne_check lib a hc hi none input { world := w } input (by simp [getInput])
        cases hf : formatOne lib a none input { world := w } with
        | mk st res =>
          rw [hf] at this
          cases res with
          | none => simp at this
          | some ch => simp only; simpa [outsOf] using this.2.1
    · rfl
    · rename_i ps _ _
      unfold runFiles
      have := (foldl_manyStep_check lib a hc hi w ps { st := { world := w } } rfl).2.1
      simp only
      split <;> simp only [outsOf_append, this] <;> simp [outsOf]

/-- T14.3 (file list): the exit status is 1 exactly when some readable input differs from its
formatted form (erroneous inputs never do) or some input is unreadable, and 0 otherwise. -/
theorem C14_check_exit_files (lib : Lib) (a : Args) (w : Entry) (ps : List Path)
    (hc : a.check = true) (hi : a.inplace = false) :
    (runFiles lib a w ps).exit =
      if (ps.any fun p => match readToString w p with
            | some x => decide (Differs lib a (.text x))
            | none => false) || (ps.any fun p => (readToString w p).isNone) then 1 else 0 := by
  unfold runFiles
  obtain ⟨_, _, hch, her⟩ := foldl_manyStep_check lib a hc hi w ps { st := { world := w } } rfl
  simp only [Bool.false_or, Nat.zero_add] at hch her
  simp only [her, hch]
  by_cases hb : (ps.filter fun p => (readToString w p).isNone).length > 0
  · have : ps.any (fun p => (readToString w p).isNone) = true := by
      obtain ⟨p, hp⟩ := List.length_pos_iff_exists_mem.mp hb
      simp only [List.mem_filter] at hp
      exact List.any_eq_true.mpr ⟨p, hp.1, hp.2⟩
    simp [hb, this]
  · have hnone : ps.any (fun p => (readToString w p).isNone) = false := by
      apply Bool.eq_false_iff.mpr
      intro h
      obtain ⟨p, hp, hpb⟩ := List.any_eq_true.mp h
      exact hb (List.length_pos_iff_exists_mem.mpr ⟨p, List.mem_filter.mpr ⟨hp, hpb⟩⟩)
    simp only [hb, if_false, hnone, Bool.or_false, exitOf, hc, Bool.true_and]
    rfl

/-- T14.3 (standard input). -/
theorem C14_check_exit_stdin (lib : Lib) (a : Args) (w : Entry) (input : String)
    (hc : a.check = true) (hi : a.inplace = false) :
    (runStdin lib a w input).exit = if Differs lib a (.text input) then 1 else 0 := by
  unfold runStdin
  have := formatOne_check lib a hc hi none input { world := w } input (by simp [getInput])
  cases hf : formatOne lib a none input { world := w } with
  | mk st res =>
    rw [hf] at this
    obtain ⟨_, _, hr⟩ := this
    simp only at hr
    subst hr
    simp [exitOf, hc]

/-- T14.3 (`format-all`): the exit status is 1 exactly when an eligible file (regular, extension
`typ`, not hidden, not below a hidden directory — the directory given may be called anything)
differs from its formatted form or is unreadable, and 0 otherwise; erroneous files count as unchanged. -/
theorem C14_check_exit_format_all (lib : Lib) (a : Args) (w : Entry) (dir : Option Path) (rootName : String)
    (hc : a.check = true) (e : Entry) (he : w.get (dir.getD []) = some e) :
    (runFormatAll lib a w dir rootName).exit =
      if ((eligibleFiles e (dir.getD []) (rootNameOf (dir.getD []) rootName) 0).any fun f => decide (Differs lib a f.2)) ||
         ((eligibleFiles e (dir.getD []) (rootNameOf (dir.getD []) rootName) 0).any fun f => decide (f.2 = .binary))
      then 1 else 0 :=
  runFormatAll_check_exit lib a w dir rootName hc e he _ rfl

end Typstyle.Cli
