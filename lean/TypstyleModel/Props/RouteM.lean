import TypstyleModel.Proofs.CarriesKnot
import TypstyleModel.Proofs.Tokens
/-! Route M: stream preservation **without a per-case certificate** — for every tree of the covered
fragment (`inFrag`, Proofs/CarriesKnot.lean), every fuel, context, configuration, width and indent unit.
The theorems below are cited by Props/C01, C06, C07, C10 (they share one proof). -/
namespace Typstyle
open Pretty

/-- (`NM ctx`: the context is not math mode; math mode has its own fragment `inFragM` and the theorems
`routeM_math_expr` / `routeM_math_body` below — inside equations a call's arguments are laid out by other
code.)  Whatever the printer returns for an expression of the fragment renders — at every width `w` and
indent unit `u` — to a layout whose code tokens, comments, prose, literals and verbatim text are
exactly those of the tree, in order. -/
theorem routeM_expr (e : Env) (fuel : Nat) (ctx : Ctx) (hctx : NM ctx) (n : ANode) (hx : isExpr n = true) (hq : inFrag n = true)
    (d : Twin.Doc) (k k' : St) (h : ((knot e fuel).expr ctx n).run k = .ok (d, k')) (u w : Nat) :
    tokText (best w 0 [⟨0, .brk, d.fam u⟩]) = (specToks n).toList ∧
    cmtText (best w 0 [⟨0, .brk, d.fam u⟩]) = (specCmts n).toList ∧
    proseText (best w 0 [⟨0, .brk, d.fam u⟩]) = (specProse n).toList ∧
    litText (best w 0 [⟨0, .brk, d.fam u⟩]) = (specLit n).toList ∧
    verbText (best w 0 [⟨0, .brk, d.fam u⟩]) = (specVerb n).toList := by
  have hc := (knot_frag e fuel).1.expr ctx n hctx hx hq k d k' h
  obtain ⟨hg, hs⟩ := hc
  have lay := pretty_lay w (d.fam u)
  have em := fun c => d.emits hg u c .brk _ lay
  have hs' : ∀ c, (d.ss.get c) = (specAll n).get c := fun c => by rw [hs]
  refine ⟨?_, ?_, ?_, ?_, ?_⟩
  · show streamText .tok _ = _; rw [em .tok, hs' .tok]; rfl
  · show streamText .cmt _ = _; rw [em .cmt, hs' .cmt]; rfl
  · show streamText .prose _ = _; rw [em .prose, hs' .prose]; rfl
  · show streamText .lit _ = _; rw [em .lit, hs' .lit]; rfl
  · show streamText .verb _ = _; rw [em .verb, hs' .verb]; rfl

/-- The same for every consistent layout (not only the renderer's choice). -/
theorem routeM_expr_all_layouts (e : Env) (fuel : Nat) (ctx : Ctx) (hctx : NM ctx) (n : ANode) (hx : isExpr n = true) (hq : inFrag n = true)
    (d : Twin.Doc) (k k' : St) (h : ((knot e fuel).expr ctx n).run k = .ok (d, k')) (u : Nat) (m : Mode) (xs : List Atom)
    (hl : Lay m (d.fam u) xs) :
    tokText xs = (specToks n).toList ∧ cmtText xs = (specCmts n).toList ∧ proseText xs = (specProse n).toList ∧
    litText xs = (specLit n).toList ∧ verbText xs = (specVerb n).toList := by
  have hc := (knot_frag e fuel).1.expr ctx n hctx hx hq k d k' h
  obtain ⟨hg, hs⟩ := hc
  have em := fun c => d.emits hg u c m xs hl
  have hs' : ∀ c, (d.ss.get c) = (specAll n).get c := fun c => by rw [hs]
  refine ⟨?_, ?_, ?_, ?_, ?_⟩
  · show streamText .tok _ = _; rw [em .tok, hs' .tok]; rfl
  · show streamText .cmt _ = _; rw [em .cmt, hs' .cmt]; rfl
  · show streamText .prose _ = _; rw [em .prose, hs' .prose]; rfl
  · show streamText .lit _ = _; rw [em .lit, hs' .lit]; rfl
  · show streamText .verb _ = _; rw [em .verb, hs' .verb]; rfl

/-- What `Carries` means for the rendered text: at every width and indent unit, the layout the renderer
chooses holds exactly the five streams. -/
theorem streams_of_carries (d : Twin.Doc) (n : ANode) (hc : Carries d (specAll n)) (u w : Nat) :
    tokText (best w 0 [⟨0, .brk, d.fam u⟩]) = (specToks n).toList ∧
    cmtText (best w 0 [⟨0, .brk, d.fam u⟩]) = (specCmts n).toList ∧
    proseText (best w 0 [⟨0, .brk, d.fam u⟩]) = (specProse n).toList ∧
    litText (best w 0 [⟨0, .brk, d.fam u⟩]) = (specLit n).toList ∧
    verbText (best w 0 [⟨0, .brk, d.fam u⟩]) = (specVerb n).toList := by
  obtain ⟨hg, hs⟩ := hc
  have lay := pretty_lay w (d.fam u)
  have em := fun c => d.emits hg u c .brk _ lay
  have hs' : ∀ c, (d.ss.get c) = (specAll n).get c := fun c => by rw [hs]
  refine ⟨?_, ?_, ?_, ?_, ?_⟩
  · show streamText .tok _ = _; rw [em .tok, hs' .tok]; rfl
  · show streamText .cmt _ = _; rw [em .cmt, hs' .cmt]; rfl
  · show streamText .prose _ = _; rw [em .prose, hs' .prose]; rfl
  · show streamText .lit _ = _; rw [em .lit, hs' .lit]; rfl
  · show streamText .verb _ = _; rw [em .verb, hs' .verb]; rfl

/-- **Math mode.**  Whatever the printer returns, in a math-mode context, for an expression of the math
fragment (`inFragM`: math text, identifiers, shorthands, strings, attachments, roots, fractions, primes,
delimited groups, nested bodies, calls with their one- or two-dimensional arguments, embedded `#` code
expressions of the code fragment) renders to a layout that holds exactly the tokens, comments, prose,
literals and verbatim text of the tree. -/
theorem routeM_math_expr (e : Env) (fuel : Nat) (ctx : Ctx) (hm : ctx.mode = .math) (n : ANode) (hx : isExpr n = true)
    (hq : inFragM n = true) (d : Twin.Doc) (k k' : St) (h : ((knot e fuel).expr ctx n).run k = .ok (d, k')) (u w : Nat) :
    tokText (best w 0 [⟨0, .brk, d.fam u⟩]) = (specToks n).toList ∧
    cmtText (best w 0 [⟨0, .brk, d.fam u⟩]) = (specCmts n).toList ∧
    proseText (best w 0 [⟨0, .brk, d.fam u⟩]) = (specProse n).toList ∧
    litText (best w 0 [⟨0, .brk, d.fam u⟩]) = (specLit n).toList ∧
    verbText (best w 0 [⟨0, .brk, d.fam u⟩]) = (specVerb n).toList :=
  streams_of_carries d n ((knot_frag e fuel).2.expr ctx n hm hx hq k d k' h) u w

/-- The same for a math body (`convert_math`). -/
theorem routeM_math_body (e : Env) (fuel : Nat) (ctx : Ctx) (hm : ctx.mode = .math) (n : ANode) (hk : n.kind = .math)
    (hq : inFragM n = true) (d : Twin.Doc) (k k' : St) (h : ((knot e fuel).math ctx n).run k = .ok (d, k')) (u w : Nat) :
    tokText (best w 0 [⟨0, .brk, d.fam u⟩]) = (specToks n).toList ∧
    cmtText (best w 0 [⟨0, .brk, d.fam u⟩]) = (specCmts n).toList ∧
    proseText (best w 0 [⟨0, .brk, d.fam u⟩]) = (specProse n).toList ∧
    litText (best w 0 [⟨0, .brk, d.fam u⟩]) = (specLit n).toList ∧
    verbText (best w 0 [⟨0, .brk, d.fam u⟩]) = (specVerb n).toList :=
  streams_of_carries d n ((knot_frag e fuel).2.math ctx n hm hk hq k d k' h) u w

/-- **Whole documents.**  If the (annotated) tree of a document lies in the covered fragment, every
certificate of the printed family holds — as a theorem, with nothing evaluated: whatever `printTwin`
returns for it is `good` and carries exactly the tokens, comments, verbatim text, prose and literals
the tree prescribes.  (`C01_tokens_preserved`, `C06_comments_preserved`, `C07_verbatim_preserved`,
`C08_prose_preserved`, `C10_literals_preserved` then apply with their hypothesis discharged.) -/
theorem routeM_document (e : Env) (root : Node) (hk : (prepare root).kind = .markup) (hq : inFrag (prepare root) = true)
    (d : Twin.Doc) (calls : Nat) (h : printTwin e root = .ok (d, calls)) :
    tokensCertified root d = true ∧ commentsCertified root d = true ∧ verbatimCertified root d = true ∧
    proseCertified root d = true ∧ literalsCertified root d = true := by
  unfold printTwin at h
  simp only at h
  split at h
  · rename_i d' s' hrun
    simp only [Except.ok.injEq, Prod.mk.injEq] at h
    obtain ⟨rfl, _⟩ := h
    have hc := (knot_frag e _).1.markup {} (prepare root) .document (by intro h; cases h) hk hq _ _ _ hrun
    obtain ⟨hg, hs⟩ := hc
    unfold tokensCertified commentsCertified verbatimCertified proseCertified literalsCertified
      Twin.Doc.toks Twin.Doc.cmts Twin.Doc.verbs Twin.Doc.prose Twin.Doc.lits
    rw [hg, hs]
    simp [specAll]
  · cases h

end Typstyle
