import TypstyleModel.Proofs.Strip
import TypstyleModel.Props.C11
import TypstyleModel.Proofs.Import
import TypstyleModel.Proofs.CommentStable
import TypstyleModel.Proofs.FitNever
/-! C03 — convergence (partial).  The end-to-end statement `format (format x) = format x` needs
the parser (`parse ∘ render`), which is not modelled (DESIGN.md §4 C03).  Proved here: the parts of
the pipeline whose fixed-point behaviour is parser-free. -/
namespace Typstyle

/-- T3.1: the post-pass is idempotent — a second pass never strips anything the first left. -/
theorem C03_strip_idempotent (x : String) : strip (strip x) = strip x := by
  apply String.ext
  rw [strip_toList, strip_toList, stripL_idem]

/-- T3.2 (import reordering converges): the sort key of an import item depends only on the item's
*words* (its text split at white space), so re-spacing an item — all the printer does to it — leaves
its key unchanged (finding F45 was that the key was the source text itself) … -/
theorem C03_import_key_ignores_spacing (a b : ANode)
    (h : wordsL a.intoText.toList = wordsL b.intoText.toList) : importSortKey a = importSortKey b := by
  unfold importSortKey
  rw [h]

/-- … and sorting a sorted list is the identity, so a second pass orders the items as the first did. -/
theorem C03_import_sort_is_idempotent (nodes : List ANode) :
    stableSort importSortKey (stableSort importSortKey nodes) = stableSort importSortKey nodes :=
  stableSort_idem importSortKey nodes

/-! ### T3.2: a list that did not fit is re-read as the list it was printed as

Every list-like construct (arguments, arrays, dictionaries, parameters, destructurings, import
items) is laid out by `ListStylist::print_doc`.  With `FoldStyle::Fit` the renderer decides whether
the list's group is flat or broken; when it is broken the output has a line break after the opening
delimiter, so the second pass sees a "multi-line flavoured" list and uses `FoldStyle::Never`
(`get_fold_style_untyped`).  `L d` is the set of broken-mode layouts of `d` (`Lay .brk d`). -/

/-- Between the delimiters, `Fit` (group broken) and `Never` have exactly the same layouts: the same
atoms in the same order with the same line breaks — for every list of items, every separator and
delimiter, every indent unit (style without `tight_delim`; with it the two differ, which is finding F15). -/
theorem C03_fit_broken_is_never (sty : ListStyle) (ht : sty.tightDelim = false) (count real : Nat) (trailing : Bool)
    (items : List LItem) (u : Nat) :
    let fitInner := (items.foldl (fitStep sty count real trailing) (Twin.line_, 0, 0)).1
    let neverInner := (items.foldl (neverStep sty count) (Twin.hardline, 0)).1
    L ((if !sty.noIndent then fitInner.nstTab else fitInner).fam u) = L ((if !sty.noIndent then neverInner.nstTab else neverInner).fam u) :=
  fit_body_eq_never_body sty ht count real trailing items u

/-- At the level of `print_doc`: whatever the `Never` document can be laid out as, the `Fit` document
can be laid out as too (with its group broken), delimiters included. -/
theorem C03_never_layouts_are_fit_layouts (e : Env) (s : LS) (sty : ListStyle) (ht : sty.tightDelim = false)
    (hs : (s.realCount == 1 && sty.omitDelimSingle) = false) (hlc : s.hasLineComment = false) (u : Nat) (xs : List Pretty.Atom)
    (h : Pretty.Lay .brk (({ s with fold := .never }).print e sty |>.fam u) xs) :
    Pretty.Lay .brk (({ s with fold := .fit }).print e sty |>.fam u) xs :=
  never_layouts_are_fit_layouts e s sty ht hs hlc u xs h

/-- The flavour is reproduced: in every layout of the `Never` body the first atom is a line break
(so `is_multiline_flavor` of the printed list is true again). -/
theorem C03_never_starts_with_a_break (sty : ListStyle) (count : Nat) (items : List LItem) (u : Nat) (xs : List Pretty.Atom)
    (h : Pretty.Lay .brk ((items.foldl (neverStep sty count) (Twin.hardline, 0)).1.fam u) xs) :
    ∃ k rest, xs = Pretty.Atom.nl k :: rest :=
  never_starts_with_break sty count items u xs h

/-! ### T3.4: block comments converge

A multi-line block comment is the one place where the printer *reads layout from the source*
(`get_follow_leading`: the common indentation of the continuation lines) and writes layout that
depends on where the comment lands (`align`: the column `col` of the comment).  The text of the
printed comment is `realigned col leading lines` — the first line as it is, every continuation line
with `leading` blanks cut off and `col` blanks put in front (nothing at all for a line that is cut
away entirely).  The theorems say that the second pass reads the printed comment exactly as the first
pass read the source: the same style, and the same document — for every comment text, every column,
every configuration. -/

/-- The aligned style: the indentation read from the printed comment is the comment's column, and
cutting it off again gives the same document. -/
theorem C03_aligned_comment_is_stable (e : Env) (col : Nat) (ls : List String) (leading : Nat)
    (h : followLeadingLines ls = some leading) (hlen : ∀ l ∈ ls, l.length < usizeMax) (hcol : col < usizeMax) :
    followLeadingLines (realigned col leading ls) = some (if leading = usizeMax then usizeMax else col) ∧
    alignLines e (if leading = usizeMax then usizeMax else col) (realigned col leading ls) = alignLines e leading ls :=
  alignLines_realigned e col ls leading h hlen hcol

/-- `alignLines`/`followLeadingLines` are what `align_multiline`/`get_follow_leading` compute. -/
theorem C03_aligned_comment_model (e : Env) (text : String) (leading : Nat) (h : followLeading text = some leading) :
    followLeadingLines (rlines text) = some leading ∧ alignMultiline e text = pure (alignLines e leading (rlines text)) :=
  ⟨(followLeading_eq text) ▸ h, alignMultiline_eq e text leading h⟩

/-- The bullet style (`align_multiline_simple`, continuation lines hang one column right of the
comment's column): the printed comment is converted to the same document. -/
theorem C03_bullet_comment_is_stable (e : Env) (col : Nat) (ls : List String) :
    (realignedSimple col ls).foldl (alignSimpleStep e) (Pretty.Doc.nil, 0) = ls.foldl (alignSimpleStep e) (Pretty.Doc.nil, 0) :=
  alignSimple_realigned e col ls

/-- The choice between the two styles is read the same way from the printed comment. -/
theorem C03_comment_style_is_stable (col : Nat) (ls : List String) :
    bulletStyle (realignedSimple col ls) = bulletStyle ls ∧
    (∀ leading, followLeadingLines ls = some leading → (∀ l ∈ ls, l.length < usizeMax) →
      bulletStyle (realigned col leading ls) = bulletStyle ls) :=
  ⟨bulletStyle_realignedSimple col ls, fun leading h hlen => bulletStyle_realigned col ls leading h hlen⟩

/-- The premises are satisfiable, and the second pass of a concrete comment at column 5 indeed reads
indentation 5. -/
example : followLeadingLines ["/* a", "    b", "", "  c */"] = some 2 ∧
    followLeadingLines (realigned 5 2 ["/* a", "    b", "", "  c */"]) = some 5 := by decide

/-- The hypotheses of T3.2 hold for the styles the printer uses for arguments, arrays, dictionaries,
parameters and destructurings (`parenStyle`: no `tight_delim`, no delimiter omission). -/
example (e : Env) : e.parenStyle.tightDelim = false ∧ e.parenStyle.omitDelimSingle = false := ⟨rfl, rfl⟩

end Typstyle
