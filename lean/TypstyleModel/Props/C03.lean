import TypstyleModel.Proofs.Strip
import TypstyleModel.Props.C11
import TypstyleModel.Proofs.Import
/-! C03 — convergence (partial).  The end-to-end statement `format (format x) = format x` needs
the parser (`parse ∘ render`), which is not modelled (DESIGN.md §4 C03).  Proved here: the parts of
the pipeline whose fixed-point behaviour is parser-free. -/
namespace Typstyle

/-- T3.1: the post-pass is idempotent — a second pass never strips anything the first left. -/
theorem C03_strip_idempotent (x : String) : strip (strip x) = strip x := by
  apply String.ext
  rw [strip_toList, strip_toList, stripL_idem]

/-- T3.2 (import reordering converges): the sort key of an import item depends only on the item's
*words* (its text split at white space), so re-spacing an item — all the printer does to it — leaves
its key unchanged (finding F45 was that the key was the source text itself) … -/
theorem C03_import_key_ignores_spacing (a b : ANode)
    (h : wordsL a.intoText.toList = wordsL b.intoText.toList) : importSortKey a = importSortKey b := by
  unfold importSortKey
  rw [h]

/-- … and sorting a sorted list is the identity, so a second pass orders the items as the first did. -/
theorem C03_import_sort_is_idempotent (nodes : List ANode) :
    stableSort importSortKey (stableSort importSortKey nodes) = stableSort importSortKey nodes :=
  stableSort_idem importSortKey nodes

end Typstyle
