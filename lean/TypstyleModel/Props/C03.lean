import TypstyleModel.Proofs.Strip
import TypstyleModel.Props.C11
/-! C03 — convergence (partial).  The end-to-end statement `format (format x) = format x` needs
the parser (`parse ∘ render`), which is not modelled (DESIGN.md §4 C03).  Proved here: the parts of
the pipeline whose fixed-point behaviour is parser-free. -/
namespace Typstyle

/-- T3.1: the post-pass is idempotent — a second pass never strips anything the first left. -/
theorem C03_strip_idempotent (x : String) : strip (strip x) = strip x := by
  apply String.ext
  rw [strip_toList, strip_toList, stripL_idem]

end Typstyle
