import TypstyleModel.Model.Printer.Knot
/-! C18 — work grows linearly with input size (cost model = the tick counter of the model). -/
namespace Typstyle

/-- Every entry into `convert_expr` costs exactly one tick before anything else happens. -/
theorem C18_tick_counts_one (k : Nat) : (tick.run k) = .ok ((), k + 1) := rfl

end Typstyle
