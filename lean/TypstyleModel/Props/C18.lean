import TypstyleModel.Proofs.Linear
/-! C18 — work grows linearly with input size, whatever the nesting.

The model's monad makes linearity a *typing* fact: the only operation that changes the state is
`enter`, which refuses a second entry of the same (entry point, node) pair, and every model
definition carries the kernel-checked proof that it preserves the invariant (`M.ok`).  The tie to the
code is exact: the hook counter of the implementation equals `calls` on every generated case, and the
model rejects no tree the parser produces (both counted in the evidence). -/
namespace Typstyle

/-- T18.1: each syntax node is converted at most once per entry point, independent of how deeply
it is nested: the number of node conversions is at most `4 · size`, for every tree, configuration
and width. -/
theorem C18_conversions_linear_in_size (cfg : Config) (wd : String → Nat) (root : Node) (d : Pretty.Doc) (calls : Nat)
    (h : printDoc cfg wd root = .ok (d, calls)) : calls ≤ 4 * (prepare root).size :=
  printDoc_linear cfg wd root d calls h

/-- The same for every sub-computation of the printer (range formatting, single converters):
whatever is run from a fresh state of a tree with `limit` nodes ends with at most `4 · limit` entries. -/
theorem C18_every_model_computation_linear {α : Type} (x : M α) (limit : Nat) (a : α) (s' : St)
    (h : x.run { limit := limit } = .ok (a, s')) : s'.calls ≤ 4 * limit :=
  M.calls_le x limit a s' h

/-- Numbering does not change the number of nodes (the bound is in terms of the annotated tree). -/
theorem C18_prepare_size (root : Node) : (prepare root).size = (annotate false root).size :=
  (number_size _ 0).1

/-- No hidden cost: a conversion entry is counted exactly once when it succeeds. -/
theorem C18_enter_counts_one (k : Entry) (id limit : Nat) (s' : St)
    (h : (enter k id).run { limit := limit } = .ok ((), s')) : s'.calls = 1 := by
  simp only [enter] at h
  split at h
  · cases h; rfl
  · cases h

end Typstyle
