import TypstyleModel.Props.C07
import TypstyleModel.Proofs.Monad
import TypstyleModel.Proofs.MathSeq
/-! C09 — white space in math is neither created, removed nor converted (printer side).
`convert_math` walks the children of a `Math` node in order; the theorems say what each kind of
child contributes, and that nothing is inserted between two children. -/
namespace Typstyle
open Pretty

/-- T9.1a: a white-space child of a `Math` node is printed as a hard line break if it contains a
line break (any newline Typst recognises), and as exactly one blank otherwise — never as a soft break
that a wide line could flatten, never as nothing. -/
theorem C09_math_space (e : Env) (r : Rec) (ctx : Ctx) (doc : Twin.Doc) (atHash : Bool) (node : ANode)
    (hx : isExpr node = false) (h : node.kind = .space) :
    mathStep e r ctx (doc, atHash) node =
      pure (doc ++ (if hasLinebreak node.text then Twin.hardline else Twin.space), false) := by
  simp [mathStep, hx, h]

/-- A hard line break is never flattened (R2), and a blank is a text atom: so the white space of
the output between two math atoms has a line break iff the source's had. -/
theorem C09_hard_break_survives_every_layout (m : Mode) (xs : List Atom) (h : Lay m Pretty.hardline xs) :
    ∃ k, xs = [.nl k] := by
  cases h
  exact ⟨_, rfl⟩

/-- T9.1b: an expression child contributes its own conversion and *nothing else*: no blank or break
is created between two adjacent atoms. -/
theorem C09_math_atom_adds_no_space (e : Env) (r : Rec) (ctx : Ctx) (doc : Twin.Doc) (atHash : Bool) (node : ANode)
    (hx : isExpr node = true) :
    mathStep e r ctx (doc, atHash) node =
      (do let d ← r.expr (ctx.withModeIf .code atHash) node; pure (doc ++ d, false)) := by
  simp [mathStep, hx]

/-- T9.1c: every other leaf (delimiters of a call, `#`) is copied. -/
theorem C09_math_other_leaf_is_copied (e : Env) (r : Rec) (ctx : Ctx) (doc : Twin.Doc) (atHash : Bool) (node : ANode)
    (hx : isExpr node = false) (h1 : node.kind ≠ .space) (h2 : node.kind ≠ .hash) (h3 : isCommentKind node.kind = false) :
    mathStep e r ctx (doc, atHash) node = pure (doc ++ e.tok node.text, false) := by
  simp [mathStep, hx, h1, h2, h3]

/-- Math is always converted with breaks suppressed (embedded code cannot introduce line breaks
between math atoms). -/
theorem C09_math_suppresses_breaks (e : Env) (r : Rec) (ctx : Ctx) (n : ANode) (h : n.attrs.disabled = false) :
    convMath e r ctx n =
      (do enter .math n.attrs.id
          let acc ← n.children.foldlM (mathStep e r ctx.suppress) (Twin.Doc.nil, false)
          pure acc.1) := by
  simp [convMath, h]

/-- T9.2: inside math delimiters, white space between the pieces is a blank, or a (soft) line break
where the source had a line break; a `Math` child is converted by the math entry point; nothing else
is emitted for other children. -/
theorem C09_delimited_space (r : Rec) (c : Ctx) (node : ANode) (hm : node.kind ≠ .math) (h : node.kind = .space) :
    delimitedProducer r () c node =
      pure ((), tight (if hasLinebreak node.text then Twin.line else Twin.space)) := by
  simp [delimitedProducer, hm, h]

/-- T9.4 (exemption): around sub/superscripts and roots, white space is dropped (Typst ignores it
there) — except before a subscript on a hashed identifier, where `#x _1` and `#x_1` differ: there the
producer remembers the base (state `true`) and T9.5 keeps one blank. -/
theorem C09_attach_drops_space (e : Env) (r : Rec) (st : Bool) (c : Ctx) (node : ANode) (hx : isExpr node = false) (h : node.kind = .space) :
    attachProducer e r st c node = pure (st, none) := by
  simp [attachProducer, hx, h]

/-- T9.5: a subscript mark after a hashed identifier is emitted with a blank allowed before it. -/
theorem C09_attach_keeps_space_after_hashed_ident (e : Env) (r : Rec) (c : Ctx) (node : ANode)
    (hx : isExpr node = false) (h : node.kind = .underscore) :
    attachProducer e r true c node = pure (false, some ⟨e.tok node.text, true, false⟩) := by
  simp [attachProducer, hx, h]

theorem C09_root_drops_space (e : Env) (r : Rec) (c : Ctx) (node : ANode) (hx : isExpr node = false) (h : node.kind = .space) :
    rootProducer e r () c node = pure ((), none) := by
  simp [rootProducer, hx, h]

/-- T9.1 (the whole `Math` node): the document `convert_math` returns is the concatenation, in source
order, of exactly one piece per child — nothing before, between or after them — and the piece of a
white-space child is one hard line break if the token held a line break and one blank otherwise
(`MathPiece`; comments, `#` and delimiters are copied; an expression child contributes its own
conversion).  So between two adjacent math atoms the document has white space iff the source had a
token there, and a line break iff that token had one — for every `Math` node, whatever its children. -/
theorem C09_math_document_is_the_sequence_of_its_children (e : Env) (r : Rec) (ctx : Ctx) (n : ANode)
    (h : n.attrs.disabled = false) :
    Post (convMath e r ctx n) (fun d => ∃ pieces, Pieces e n.children pieces ∧ pieces.length = n.children.length ∧
      d = Twin.concatDocs pieces) := by
  rw [C09_math_suppresses_breaks e r ctx n h]
  refine Post.bind (Q := fun _ => True) (fun _ _ _ _ => trivial) (fun _ _ => ?_)
  refine Post.bind (math_fold_pieces e r ctx.suppress n.children) (fun acc ⟨ps, hps, hacc⟩ => ?_)
  exact Post.pure ⟨ps, hps, hps.length, hacc⟩

end Typstyle
