import TypstyleModel.Proofs.Sat
/-! C12 — indentation is governed solely by the indent unit.  Route V: the check evaluates
`scale u d₁ = d_u` on the implementation's own documents (unit 1 and unit u); the theorems below turn
that equality into the statement of the property for every width from `Doc.bound` on. -/
namespace Pretty

/-- R4: from width `nsum + tlen` on, the layout does not depend on the width (no line needs wrapping). -/
theorem C12_nonwrapping_width_exists (w : Nat) (d : Doc) (h : d.bound ≤ w) :
    best w 0 [⟨0, .brk, d⟩] = bestInf 0 [⟨0, .brk, d⟩] := pretty_saturates w d h

/-- R3: at a non-wrapping width, scaling every indentation step by `u` leaves every text atom and
the line structure unchanged and multiplies the indentation of every line by exactly `u`. -/
theorem C12_indent_scales (u : Nat) (d : Doc) (h : NoAlign d) :
    bestInf 0 [⟨0, .brk, scale u d⟩] = (bestInf 0 [⟨0, .brk, d⟩]).map (scaleAtom u) := by
  have := bestInf_scale u 0 0 [⟨0, .brk, d⟩] (by intro c hc; simp at hc; subst hc; exact h)
  simpa [scaleCmd] using this

/-- Combined: for the two documents of one input (unit 1 and unit `u`), related by `scale`, and any
widths at which neither wraps, the outputs differ only in leading blanks, by the factor `u`. -/
theorem C12_units_differ_only_by_ratio (u w w' : Nat) (d : Doc) (h : NoAlign d)
    (hw : d.bound ≤ w) (hw' : (scale u d).bound ≤ w') :
    best w' 0 [⟨0, .brk, scale u d⟩] = (best w 0 [⟨0, .brk, d⟩]).map (scaleAtom u) := by
  rw [C12_nonwrapping_width_exists w' _ hw', C12_nonwrapping_width_exists w d hw, C12_indent_scales u d h]

end Pretty
