import TypstyleModel.Proofs.Sat
import TypstyleModel.Proofs.Shape
import TypstyleModel.Model.Printer.Knot
/-! C12 — indentation is governed solely by the configured indent unit.

The printer model cannot even *see* the unit: it is given the configuration without it
(`PConfig`) and builds, for every tree, the whole family `u ↦ document at unit u` (`Twin.Doc`), each
builder operation carrying the kernel-checked proof that the member at `u` is `scale u` of the member
at 1.  The unit is applied at the very end (`printDoc`).  `print_scale` therefore holds by
construction for every tree; the renderer theorems R3/R4 turn it into the statement about lines. -/
namespace Typstyle
open Pretty

/-- T12.1 (`print_scale`): for every tree, configuration and unit `u ≥ 1`, the document printed at
unit `u` is `scale u` of the document printed at unit 1 (every indentation step outside comment
alignment is multiplied by `u`, nothing else differs) — and the same trees are accepted. -/
theorem C12_print_scale (cfg : Config) (wd : String → Nat) (root : Node) (u : Nat) (hu : 0 < u) :
    printDoc { cfg with tab := u } wd root =
      (match printDoc { cfg with tab := 1 } wd root with
       | .ok (d, calls) => .ok (scale u d, calls)
       | .error r => .error r) := by
  unfold printDoc
  have hp : ({ cfg with tab := u } : Config).toP = ({ cfg with tab := 1 } : Config).toP := rfl
  rw [hp]
  cases h : printTwin { cfg := ({ cfg with tab := 1 } : Config).toP, wd := wd } root with
  | error r => rfl
  | ok p =>
    obtain ⟨d, calls⟩ := p
    simp only
    rw [d.rel u hu]

/-- R4: from width `nsum + tlen` on, the layout does not depend on the width (no line needs wrapping). -/
theorem C12_nonwrapping_width_exists (w : Nat) (d : Doc) (h : d.bound ≤ w) :
    best w 0 [⟨0, .brk, d⟩] = bestInf 0 [⟨0, .brk, d⟩] := pretty_saturates w d h

/-- R3 (exact): at a non-wrapping width, scaling every indentation step by `u` leaves every text atom
and the line structure unchanged and multiplies the indentation of every line by exactly `u`
(documents without `align`, i.e. without multi-line comments). -/
theorem C12_indent_scales (u : Nat) (d : Doc) (h : NoAlign d) :
    bestInf 0 [⟨0, .brk, scale u d⟩] = (bestInf 0 [⟨0, .brk, d⟩]).map (scaleAtom u) := by
  have := bestInf_scale u 0 0 [⟨0, .brk, d⟩] (by intro c hc; simp at hc; subst hc; exact h)
  simpa [scaleCmd] using this

/-- R3 (all documents, comments included): at non-wrapping widths the outputs for two units have the
same text atoms and the same line structure; only leading blanks can differ. -/
theorem C12_units_same_lines (u w w' : Nat) (d : Doc) (hw : d.bound ≤ w) (hw' : (scale u d).bound ≤ w') :
    (best w' 0 [⟨0, .brk, scale u d⟩]).map Atom.erase = (best w 0 [⟨0, .brk, d⟩]).map Atom.erase := by
  rw [C12_nonwrapping_width_exists w' _ hw', C12_nonwrapping_width_exists w d hw]
  exact bestInf_scale_same_lines u d

/-- Combined (exact form): for the documents of one input at unit 1 and at unit `u`, and any widths
at which neither wraps, the outputs differ only in leading blanks, by exactly the factor `u`. -/
theorem C12_units_differ_only_by_ratio (u w w' : Nat) (d : Doc) (h : NoAlign d)
    (hw : d.bound ≤ w) (hw' : (scale u d).bound ≤ w') :
    best w' 0 [⟨0, .brk, scale u d⟩] = (best w 0 [⟨0, .brk, d⟩]).map (scaleAtom u) := by
  rw [C12_nonwrapping_width_exists w' _ hw', C12_nonwrapping_width_exists w d hw, C12_indent_scales u d h]

/-- End to end on the model: for every accepted tree without multi-line comments, and widths at
which neither output wraps, the output at unit `u` is the output at unit 1 with the indentation of
every line multiplied by `u`. -/
theorem C12_outputs_differ_only_by_ratio (cfg : Config) (wd : String → Nat) (root : Node) (u w w' : Nat) (hu : 0 < u)
    (d : Doc) (calls : Nat) (h1 : printDoc { cfg with tab := 1 } wd root = .ok (d, calls)) (hna : NoAlign d)
    (hw : d.bound ≤ w) (hw' : (scale u d).bound ≤ w') :
    ∃ du, printDoc { cfg with tab := u } wd root = .ok (du, calls) ∧
      best w' 0 [⟨0, .brk, du⟩] = (best w 0 [⟨0, .brk, d⟩]).map (scaleAtom u) := by
  refine ⟨scale u d, ?_, C12_units_differ_only_by_ratio u w w' d hna hw hw'⟩
  rw [C12_print_scale cfg wd root u hu, h1]

end Typstyle
