import TypstyleModel.Props.C04
import TypstyleModel.Props.C11
import TypstyleModel.Model.Printer.Knot
import TypstyleModel.Proofs.Tokens
import TypstyleModel.Proofs.EndToEnd
import TypstyleModel.Proofs.Prepare
import TypstyleModel.Proofs.ParenKept
import TypstyleModel.Props.RouteM
/-! C01 — formatting preserves the syntax tree (partial: printer side; the re-parse is an assumption). -/
namespace Typstyle
open Pretty

/-- T1.1 (R1/R2): whatever the width, the output is one of the consistent layouts of the document. -/
theorem C01_layout_sound (w : Nat) (d : Doc) : Lay .brk d (best w 0 [⟨0, .brk, d⟩]) := pretty_lay w d

/-- The post-pass neither adds, drops nor reorders any character that is not white space (per line). -/
theorem C01_strip_keeps_tokens (l : List Char) :
    (trimEndL l).filter (fun c => !isWs c) = l.filter (fun c => !isWs c) := trimEndL_filter l

end Typstyle

namespace Typstyle
open Pretty

/-- T1.2: a node whose kind is not an expression is never converted by the expression dispatch: it is
rejected explicitly (the model is self-checking: nothing is dropped silently). -/
theorem C01_non_expression_is_rejected (e : Env) (r : Rec) (ctx : Ctx) (n : ANode) (h : n.kind.isExpr = false)
    (hs : n.kind ≠ .space) :
    convExprImpl e r ctx n = reject (.shape s!"convert_expr on a node of kind {n.kind.name}") := by
  unfold convExprImpl
  cases hk : n.kind <;> simp_all [Kind.isExpr]

/-- T1.4 (`is_paren_needed`): optional parentheses are only ever *added* around a body, never
removed from the source here; and they are added only around kinds that can span lines without them
being self-delimiting. -/
theorem C01_paren_not_added_around_self_delimiting (n : ANode)
    (h : n.kind = .parenthesized ∨ n.kind = .codeBlock ∨ n.kind = .contentBlock ∨ n.kind = .funcCall ∨
         n.kind = .array ∨ n.kind = .dict) : isParenNeeded n = false := by
  rcases h with h | h | h | h | h | h <;> simp [isParenNeeded, h]

/-- Each operator of a comparison chain is printed from its own tokens (repair F19): `not` followed
by `in` prints `not in`, a bare `in` prints `in`, whatever the outermost operator of the chain is. -/
theorem C01_not_in_from_own_tokens (e : Env) (c : ANode) (h : c.kind = .in_) (ht : c.text = "in") :
    binOpConv e true c = pure (false, some (e.syn "not in")) ∧
    binOpConv e false c = (do let d ← e.synLeaf c "in"; pure (false, some d)) := by
  constructor
  · simp [binOpConv, h, ht]
  · simp [binOpConv, h, binOpOfKind]


/-- T1.3 (tokens are preserved, by construction): the printer's documents carry, besides the
layout family, the text of their code tokens (everything except blanks and the delimiters and
separators `( ) { } , ; :` the formatter may add or drop); every builder operation maintains it, and
an alternative (`flatAlt`) is only admitted between documents with the same token text.  If the
family the printer produced for a tree passes the final comparison with the tree's own token text
(`tokensCertified`, evaluated by the correspondence run on every case; the printed document is at the
same time compared with the implementation's), then at **every** width and **every** indent unit
the rendered layout contains exactly the tree's code tokens, in order. -/
theorem C01_tokens_preserved (root : Node) (d : Twin.Doc) (h : tokensCertified root d = true) (u w : Nat) :
    tokText (best w 0 [⟨0, .brk, d.fam u⟩]) = (specToks (prepare root)).toList :=
  certified_tokens_best root d h u w

/-- … and so does every other consistent layout of the family (the renderer is free to choose). -/
theorem C01_tokens_preserved_all_layouts (root : Node) (d : Twin.Doc) (h : tokensCertified root d = true)
    (u : Nat) (m : Mode) (xs : List Atom) (hl : Lay m (d.fam u) xs) :
    tokText xs = (specToks (prepare root)).toList :=
  certified_tokens root d h u m xs hl

/-- T1.3r (with import reordering on): the same, with the items of every import statement in the
order `importOrder` gives them (`reorderTree`); with reordering off that tree is the tree itself
(`reorderTree_off`).  Certificate `tokensCertifiedR`, evaluated on every case run with the flag on. -/
theorem C01_tokens_preserved_reorder (cfg : PConfig) (root : Node) (d : Twin.Doc)
    (h : tokensCertifiedR cfg root d = true) (u w : Nat) :
    tokText (best w 0 [⟨0, .brk, d.fam u⟩]) = (specToks (reorderTree cfg (prepare root))).toList :=
  certified_tokensR cfg root d h u .brk _ (pretty_lay w _)

/-- For a tree without comments and without `@typstyle off` regions (whose Space/Parbreak leaves are blank, as the parser's are) the prescribed token text is
simply the kept characters of the source text. -/
theorem C01_specToks_is_source_text (t : ANode) (h : t.noCommentNoVerbatim = true) (hb : t.blankSpaces = true) :
    specToks t = Pretty.keepOf t.intoText :=
  specToks_plain_node t h hb

/-- T1.4 (end to end on the output *text*): for a source without comments and `@typstyle off`
regions whose printed family is certified, the formatted text — rendered at **any** width and indent
unit and passed through the post-pass — has exactly the kept characters of the source text, in order:
formatting changed nothing but blanks and the characters `( ) { } , ; :`. (Rendering adds only line
feeds and blanks, `renderAtoms_filter`; the post-pass removes only blanks, `stripL_filter`.) -/
theorem C01_output_text_keeps_source_text (root : Node) (d : Twin.Doc)
    (ht : tokensCertified root d = true) (hc : commentsCertified root d = true)
    (hplain : (prepare root).noCommentNoVerbatim = true) (hb : (prepare root).blankSpaces = true) (u w : Nat) :
    Pretty.keepOf (strip (pretty w (d.fam u))) = Pretty.keepOf (prepare root).intoText :=
  output_text_keeps_source_text root d ht hc hplain hb u w

/-- T1.4b: the same against the text of the raw syntax tree (the attribute and numbering passes do
not touch the text: `prepare_intoText`); for a lossless parser that text is the source text. -/
theorem C01_output_text_keeps_tree_text (root : Node) (d : Twin.Doc)
    (ht : tokensCertified root d = true) (hc : commentsCertified root d = true)
    (hplain : (prepare root).noCommentNoVerbatim = true) (hb : (prepare root).blankSpaces = true) (u w : Nat) :
    Pretty.keepOf (strip (pretty w (d.fam u))) = Pretty.keepOf root.intoText := by
  rw [← prepare_intoText root]
  exact output_text_keeps_source_text root d ht hc hplain hb u w

/-- T1.5: the post-pass keeps every non-blank character of the whole text, in order. -/
theorem C01_strip_keeps_text (s : List Char) :
    (stripL s).filter (fun c => !isWs c) = s.filter (fun c => !isWs c) := stripL_filter s

/-- T1.4 (list delimiters): a list-like construct prints both of its delimiters in **every** layout —
every width, both modes, every unit — unless its style permits leaving them out (`omit_delim_flat`,
`omit_delim_single`, `omit_delim_empty`).  For every list state and style. -/
theorem C01_delimiters_printed_in_every_layout (e : Env) (s : LS) (sty : ListStyle) (hF : sty.omitDelimFlat = false)
    (hS : sty.omitDelimSingle = false) (hE : sty.omitDelimEmpty = false) (u : Nat) (m : Mode) (xs : List Atom)
    (h : Lay m ((s.print e sty).fam u) xs) : Wrapped (sty.d0.fam u) (sty.d1.fam u) xs :=
  print_wrapped e s sty hF hS hE u m xs h

/-- T1.4 (parentheses are kept): the parentheses of `( expr )` are printed in every layout unless the
body is a literal, array, dictionary, destructuring or block (`parenOmittable`) *and* no comment sits
inside them, or the body is itself parenthesised without a comment (then one layer merges and the
inner one is judged the same way).  In particular never around an identifier, a unary or binary
expression, a field access or a call: `(-1).abs()` keeps its parentheses at every width. -/
theorem C01_parentheses_are_kept (e : Env) (r : Rec) (ctx : Ctx) (n : ANode)
    (hnest : ∀ p, n.children.find? isPattern = some p → (p.kind == .parenthesized && !hasCommentChildren n) = false)
    (hkeep : (parenOmittable n && !hasCommentChildren n) = false) :
    Post (convParenthesized e r ctx n) (fun d => ∀ u m xs, Lay m (d.fam u) xs →
      Wrapped ((e.soft "(").fam u) ((e.soft ")").fam u) xs) :=
  convParenthesized_keeps_parens e r ctx n hnest hkeep

/-- The premises of `C01_parentheses_are_kept` are satisfiable: `(x)`. -/
def exampleParenX : ANode := .inner .parenthesized [.leaf .leftParen "(" {}, .leaf .ident "x" {}, .leaf .rightParen ")" {}] {}
example : (∀ p, exampleParenX.children.find? isPattern = some p → (p.kind == .parenthesized && !hasCommentChildren exampleParenX) = false) ∧
    (parenOmittable exampleParenX && !hasCommentChildren exampleParenX) = false := by
  constructor
  · intro p hp
    have : p = .leaf .ident "x" {} := by
      simp [exampleParenX, ANode.children, isPattern, isExpr, ANode.kind, Kind.isExpr] at hp
      exact hp.symm
    subst this; rfl
  · decide
/-- … and `(1)` is a body whose parentheses may go (the theorem's hypothesis fails there, as it must). -/
example : parenOmittable (.inner .parenthesized [.leaf .leftParen "(" {}, .leaf .int "1" {}, .leaf .rightParen ")" {}] {}) = true := by decide

/-- T1.3 **without a certificate** (route M): for every expression tree of the covered fragment
(`inFrag`: literals, unary, let/destructuring assignment, show, context/if/while/return/include,
named/keyed/spread, arrays, dictionaries, parentheses, code blocks — comments, keywords and white space
anywhere, any node marked `@typstyle off`), every fuel, context and configuration: whatever the printer
returns renders at every width and indent unit to a layout whose code tokens are exactly the tree's.
Proved by induction over the knot from per-construct theorems (Proofs/Carries*.lean). -/
theorem C01_fragment_tokens_preserved (e : Env) (fuel : Nat) (ctx : Ctx) (hctx : NM ctx) (n : ANode) (hx : isExpr n = true) (hq : inFrag n = true)
    (d : Twin.Doc) (k k' : St) (h : ((knot e fuel).expr ctx n).run k = .ok (d, k')) (u w : Nat) :
    tokText (best w 0 [⟨0, .brk, d.fam u⟩]) = (specToks n).toList :=
  (routeM_expr e fuel ctx hctx n hx hq d k k' h u w).1

/-- The same inside equations: in a math-mode context, for every expression of the math fragment
(`inFragM`: attachments, roots, fractions, primes, delimited groups, calls with one- or two-dimensional
arguments, embedded `#` code of the code fragment …) the rendered layout holds exactly the tree's code
tokens, at every width and indent unit. -/
theorem C01_fragment_math_tokens_preserved (e : Env) (fuel : Nat) (ctx : Ctx) (hm : ctx.mode = .math) (n : ANode)
    (hx : isExpr n = true) (hq : inFragM n = true)
    (d : Twin.Doc) (k k' : St) (h : ((knot e fuel).expr ctx n).run k = .ok (d, k')) (u w : Nat) :
    tokText (best w 0 [⟨0, .brk, d.fam u⟩]) = (specToks n).toList :=
  (routeM_math_expr e fuel ctx hm n hx hq d k k' h u w).1

end Typstyle
