import TypstyleModel.Props.C04
import TypstyleModel.Props.C11
import TypstyleModel.Model.Printer.Knot
/-! C01 — formatting preserves the syntax tree (partial: printer side; the re-parse is an assumption). -/
namespace Typstyle
open Pretty

/-- T1.1 (R1/R2): whatever the width, the output is one of the consistent layouts of the document. -/
theorem C01_layout_sound (w : Nat) (d : Doc) : Lay .brk d (best w 0 [⟨0, .brk, d⟩]) := pretty_lay w d

/-- The post-pass neither adds, drops nor reorders any character that is not white space (per line). -/
theorem C01_strip_keeps_tokens (l : List Char) :
    (trimEndL l).filter (fun c => !isWs c) = l.filter (fun c => !isWs c) := trimEndL_filter l

end Typstyle

namespace Typstyle
open Pretty

/-- T1.2: a node whose kind is not an expression is never converted by the expression dispatch: it is
rejected explicitly (the model is self-checking: nothing is dropped silently). -/
theorem C01_non_expression_is_rejected (e : Env) (r : Rec) (ctx : Ctx) (n : ANode) (h : n.kind.isExpr = false)
    (hs : n.kind ≠ .space) :
    convExprImpl e r ctx n = reject (.shape s!"convert_expr on a node of kind {n.kind.name}") := by
  unfold convExprImpl
  cases hk : n.kind <;> simp_all [Kind.isExpr]

/-- T1.4 (`is_paren_needed`): optional parentheses are only ever *added* around a body, never
removed from the source here; and they are added only around kinds that can span lines without them
being self-delimiting. -/
theorem C01_paren_not_added_around_self_delimiting (n : ANode)
    (h : n.kind = .parenthesized ∨ n.kind = .codeBlock ∨ n.kind = .contentBlock ∨ n.kind = .funcCall ∨
         n.kind = .array ∨ n.kind = .dict) : isParenNeeded n = false := by
  rcases h with h | h | h | h | h | h <;> simp [isParenNeeded, h]

/-- Each operator of a comparison chain is printed from its own tokens (repair F19): `not` followed
by `in` prints `not in`, a bare `in` prints `in`, whatever the outermost operator of the chain is. -/
theorem C01_not_in_from_own_tokens (e : Env) (c : ANode) (h : c.kind = .in_) (ht : c.text = "in") :
    binOpConv e true c = pure (false, some (e.syn "not in")) ∧
    binOpConv e false c = (do let d ← e.synLeaf c "in"; pure (false, some d)) := by
  constructor
  · simp [binOpConv, h, ht]
  · simp [binOpConv, h, binOpOfKind]

end Typstyle
