import TypstyleModel.Props.C04
import TypstyleModel.Props.C11
/-! C01 — formatting preserves the syntax tree (partial: printer side; the re-parse is an assumption). -/
namespace Typstyle
open Pretty

/-- T1.1 (R1/R2): whatever the width, the output is one of the consistent layouts of the document. -/
theorem C01_layout_sound (w : Nat) (d : Doc) : Lay .brk d (best w 0 [⟨0, .brk, d⟩]) := pretty_lay w d

/-- The post-pass neither adds, drops nor reorders any character that is not white space (per line). -/
theorem C01_strip_keeps_tokens (l : List Char) :
    (trimEndL l).filter (fun c => !isWs c) = l.filter (fun c => !isWs c) := trimEndL_filter l

end Typstyle
