import TypstyleModel.Proofs.Cli
/-! C16 — all front-ends agree with the library. -/
namespace Typstyle.Cli

/-- Standard input without `--check`/`--inplace`: stdout is exactly the library result, or the
unchanged input when the library refuses it. -/
theorem C16_stdin_prints_library_result (lib : Lib) (a : Args) (w : Entry) (input : String)
    (hc : a.check = false) (hi : a.inplace = false) :
    (runStdin lib a w input).evs.filterMap (fun | .out s => some s | _ => none) = [(lib a.style input).getD input] := by
  unfold runStdin formatOne formatDebug
  simp only [hc, hi]
  cases h : lib a.style input with
  | none => cases hq : a.quiet <;> simp [warnEv, hq]
  | some r => by_cases hr : (r != input) = true <;> simp [hr]

end Typstyle.Cli
