import TypstyleModel.Proofs.Cli
import TypstyleModel.Model.Env
/-! C16 — all front-ends agree with the library.  `lib` is the library; theorems hold for every `lib`. -/
namespace Typstyle.Cli

/-- Standard input without `--check`/`--inplace`: stdout is exactly the library result, or the
unchanged input when the library refuses it. -/
theorem C16_stdin_prints_library_result (lib : Lib) (a : Args) (w : Entry) (input : String)
    (hc : a.check = false) (hi : a.inplace = false) :
    outsOf (runStdin lib a w input).evs = [(lib a.style input).getD input] := by
  unfold runStdin
  have := formatOne_plain lib a hc hi none input { world := w } input (by simp [getInput])
  cases hf : formatOne lib a none input { world := w } with
  | mk st res =>
    rw [hf] at this
    cases res with
    | none => simp at this
    | some ch => simpa [outsOf, plainOutput] using this.2.1

/-- T16.1: several files, no `--check`/`--inplace`: stdout is the concatenation, in argument
order, of the library result of every readable input (the input itself when the library refuses
it); nothing is added, removed or reordered, and no file is written. -/
theorem C16_files_print_library_results_in_order (lib : Lib) (a : Args) (w : Entry) (ps : List Path)
    (hc : a.check = false) (hi : a.inplace = false) :
    outsOf (runFiles lib a w ps).evs = ps.filterMap (fun p => (readToString w p).map fun x => (lib a.style x).getD x) ∧
    (runFiles lib a w ps).world = w := by
  unfold runFiles
  obtain ⟨h1, h2, _⟩ := foldl_manyStep_plain lib a hc hi w ps { st := { world := w } } rfl
  simp only
  split <;> simp only [outsOf_append, h1, h2] <;> simp [outsOf] <;> rfl

/-- T16.2: in place, what is written is the library result for the given options (and only when it differs). -/
theorem C16_inplace_writes_library_result (lib : Lib) (a : Args) (w : Entry) (p : Path) (x y : String)
    (hr : readToString w p = some x) (hl : lib a.style x = some y) (hne : y ≠ x) :
    readToString (inplaceStep lib a w p) p = some y := by
  unfold inplaceStep
  simp only [hr, hl, hne, if_false]
  exact readToString_write_same w p y x hr

/-- `StyleArgs::to_config`. -/
def toConfig (s : Style) : Typstyle.Config :=
  { tab := s.tab, maxWidth := s.column, blankUpper := 2, reorder := s.reorder }

/-- T16.3: the column, tab-width and reorder options select exactly the corresponding library
configuration fields, and the fourth field keeps its default. -/
theorem C16_options_select_configuration (s : Style) :
    (toConfig s).maxWidth = s.column ∧ (toConfig s).tab = s.tab ∧ (toConfig s).reorder = s.reorder ∧
    (toConfig s).blankUpper = ({} : Typstyle.Config).blankUpper := ⟨rfl, rfl, rfl, rfl⟩

/-- Different options give different configurations (nothing is collapsed). -/
theorem C16_toConfig_injective (s t : Style) (h : toConfig s = toConfig t) : s = t := by
  cases s; cases t
  simp only [toConfig, Typstyle.Config.mk.injEq] at h
  simp_all

/-- `format_with_width` (the function exported to WebAssembly): the library at the default
configuration with the given width, or the input unchanged when it is refused. -/
def formatWithWidth (lib : Lib) (content : String) (width : Nat) : String :=
  (lib { column := width } content).getD content

theorem C16_format_with_width_refusal (lib : Lib) (content : String) (width : Nat)
    (h : lib { column := width } content = none) : formatWithWidth lib content width = content := by
  simp [formatWithWidth, h]

end Typstyle.Cli
