import TypstyleModel.Props.C04
import TypstyleModel.Proofs.Emits
import TypstyleModel.Proofs.Tokens
import TypstyleModel.Props.RouteM
/-! C06 — no comment lost, duplicated, reordered or reworded (partial: printer side). -/
namespace Typstyle
open Pretty

/-- T6.3 = T4.1: no code ever ends up on the line of a line comment, at any width (certificate). -/
theorem C06_no_code_inside_line_comment (d : Doc) (h : lcSafe d = true) (w : Nat) :
    run false (best w 0 [⟨0, .brk, d⟩]) ≠ none := lcSafe_sound d h w

/-- T6.2 (first half): converting a comment emits only comment-tagged text (nothing rigid is
invented or absorbed), in every layout. -/
theorem C06_comment_emits_only_comment (e : Env) (n : ANode) : Post (convComment e n) (fun c => Soft c.d) :=
  convComment_soft e n

end Typstyle

namespace Typstyle
open Pretty

/-- T6.2a: a line comment is printed as one atom holding exactly its text (nothing is reworded,
nothing is absorbed into it). -/
theorem C06_line_comment_text (e : Env) (n : ANode) (h : n.kind = .lineComment) :
    convComment e n = pure ⟨e.cmt n.text, mkText_closed _ _ _⟩ := by
  simp [convComment, h]

/-- T6.2b: the document of a line comment is, in every layout, the single atom `n.text` tagged comment. -/
theorem C06_comment_atom (e : Env) (s : String) (hs : s.isEmpty = false) (m : Mode) (xs : List Atom)
    (h : Lay m (e.cmt s) xs) : xs = [.txt s .comment] := by
  simp only [Env.cmt, mkText, hs] at h
  cases h
  rfl

/-- T6.2c: every line of a multi-line block comment is emitted: the first unchanged, each
continuation line with the common indentation removed (`alignStep`) — only leading blanks of
continuation lines can change, never the text after them. -/
theorem C06_block_comment_line (e : Env) (leading : Nat) (doc : Doc) (i : Nat) (l : String) (hi : i ≠ 0)
    (hl : l.utf8ByteSize > leading) :
    alignStep e leading (doc, i) l = ((doc ++ Pretty.hardline) ++ e.cmt (String.ofList (l.toList.drop leading)), i + 1) := by
  have : (i == 0) = false := by simpa using hi
  simp [alignStep, this, hl]

theorem C06_block_comment_first_line (e : Env) (leading : Nat) (doc : Doc) (l : String) :
    alignStep e leading (doc, 0) l = (doc ++ e.cmt l, 1) := by
  simp [alignStep]

/-- A comment is converted where it stands in the flow of its parent: the flow stylist pushes the
comment's document at the comment's position among the children (no reordering inside a flow). -/
theorem C06_flow_keeps_comment_position {σ : Type} (e : Env) (ctx : Ctx)
    (producer : σ → Ctx → ANode → M (σ × Option FlowItem)) (acc : FSt σ) (child : ANode)
    (hk : isCommentKind child.kind = true) (hkw : child.kind.isKeyword = false) :
    flowStepM e ctx producer acc child =
      (do let d ← convCommentT e child
          pure { acc with flow := acc.flow.pushComment d (child.kind == .blockComment),
                          peekLC := child.kind == .lineComment, peekHash := false }) := by
  simp [flowStepM, hk, hkw]


/-- T6.1 (comments are preserved, by construction): the printer's documents carry the text of
their comments (all non-blank characters of comment atoms); every builder operation maintains it
and an alternative is only admitted between documents with the same comment text.  If the family
produced for a tree passes the comparison with the tree's own comment text (`commentsCertified`,
evaluated on every case of the correspondence run), then at **every** width and indent unit the
rendered layout contains every comment of the tree (outside verbatim regions, which are emitted
as they are), complete, exactly once and in source order — none dropped, duplicated, merged with
code or reordered. -/
theorem C06_comments_preserved (root : Node) (d : Twin.Doc) (h : commentsCertified root d = true) (u w : Nat) :
    cmtText (best w 0 [⟨0, .brk, d.fam u⟩]) = (specCmts (prepare root)).toList :=
  certified_comments_best root d h u w

theorem C06_comments_preserved_all_layouts (root : Node) (d : Twin.Doc) (h : commentsCertified root d = true)
    (u : Nat) (m : Mode) (xs : List Atom) (hl : Lay m (d.fam u) xs) :
    cmtText xs = (specCmts (prepare root)).toList :=
  certified_comments root d h u m xs hl

/-- T6.2 for **every comment**: the document `convert_comment` builds holds comment text only and
contains exactly the non-blank characters of the comment, in order — line comments, block comments in
the bullet style and in the re-aligned style, any indentation, any line endings (CR, CRLF, LF), any
characters.  No hypothesis. -/
theorem C06_comment_conversion_is_exact (e : Env) (n : ANode) :
    Post (convComment e n) (fun c => c.d.commentOnly = true ∧ c.d.allChars = nonws n.text.toList) :=
  convComment_ok e n

/-- T6.1 without a certificate (route M): for every expression tree of the covered fragment the
rendered layout, at every width and unit, contains exactly the tree's comments, complete and in order. -/
theorem C06_fragment_comments_preserved (e : Env) (fuel : Nat) (ctx : Ctx) (hctx : NM ctx) (n : ANode) (hx : isExpr n = true) (hq : inFrag n = true)
    (d : Twin.Doc) (k k' : St) (h : ((knot e fuel).expr ctx n).run k = .ok (d, k')) (u w : Nat) :
    cmtText (best w 0 [⟨0, .brk, d.fam u⟩]) = (specCmts n).toList :=
  (routeM_expr e fuel ctx hctx n hx hq d k k' h u w).2.1

end Typstyle
