import TypstyleModel.Props.C04
import TypstyleModel.Proofs.Emits
/-! C06 — no comment lost, duplicated, reordered or reworded (partial: printer side). -/
namespace Typstyle
open Pretty

/-- T6.3 = T4.1: no code ever ends up on the line of a line comment, at any width (certificate). -/
theorem C06_no_code_inside_line_comment (d : Doc) (h : lcSafe d = true) (w : Nat) :
    run false (best w 0 [⟨0, .brk, d⟩]) ≠ none := lcSafe_sound d h w

/-- T6.2 (first half): converting a comment emits only comment-tagged text (nothing rigid is
invented or absorbed), in every layout. -/
theorem C06_comment_emits_only_comment (e : Env) (n : ANode) : Post (convComment e n) (fun c => Soft c.d) :=
  convComment_soft e n

end Typstyle
