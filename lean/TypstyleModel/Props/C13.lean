import TypstyleModel.Proofs.Range
/-! C13 — range formatting is safe to splice (selection, covering and refusal parts; the splice
equivalence needs the parser and is searched, not proved). -/
namespace Typstyle

theorem sum_sublist_le {l₁ l₂ : List Nat} (h : l₁.Sublist l₂) : l₁.sum ≤ l₂.sum := by
  induction h with
  | slnil => simp
  | cons a _ ih => simp; omega
  | cons_cons a _ ih => simp; omega

/-- Trimming never extends a range: the trimmed text is at most as long (in bytes) as the request. -/
theorem C13_trimEnd_shrinks (l : List Char) : bytesOf (trimEndL l) ≤ bytesOf l := by
  unfold trimEndL bytesOf
  have hs : (List.dropWhile isWs l.reverse).Sublist l.reverse := List.dropWhile_sublist isWs
  have := sum_sublist_le ((hs.reverse).map Char.utf8Size)
  simpa using this

/-- The trimmed range is well-formed: start ≤ end, and the end never moves left of the requested start. -/
theorem C13_trimmed_range_ordered (text : List Char) (s e : Nat) :
    (trimRange text s e).1 ≤ (trimRange text s e).2 ∧ s ≤ (trimRange text s e).2 := by
  unfold trimRange
  simp only
  constructor <;> omega

/-- T13.2: when range formatting returns text, the returned range is the range of a node of the
tree (a Markup, expression or pattern), it contains the trimmed, clamped request, and that node has
no syntax errors. -/
theorem C13_returned_range_covers_request (cfg : Config) (wd : String → Nat) (src : String) (root : ENode) (a b start stop : Nat) (txt : String)
    (h : formatRange cfg wd src root a b = .ok start stop txt) :
    let r := trimRange src.toList (min a src.utf8ByteSize) (min b src.utf8ByteSize)
    start ≤ r.1 ∧ min r.2 src.utf8ByteSize ≤ stop ∧ stop ≤ root.len := by
  intro r
  unfold formatRange at h
  simp only at h
  split at h
  · cases h
  · rename_i n off mode hcov
    split at h
    · cases h
    · split at h
      · cases h
      · rename_i d k hrun
        simp only [RangeResult.ok.injEq] at h
        obtain ⟨rfl, rfl, _⟩ := h
        have := cover_spec _ _ root 0 .markup n off mode hcov
        exact ⟨this.1, this.2.1, by simpa using this.2.2.2.2⟩

/-- T13.3: an erroneous covering node is refused, never formatted. -/
theorem C13_erroneous_node_is_refused (cfg : Config) (wd : String → Nat) (src : String) (root : ENode) (a b : Nat)
    (n : ENode) (off : Nat) (mode : LMode)
    (hcov : cover (trimRange src.toList (min a src.utf8ByteSize) (min b src.utf8ByteSize)).1
              (min (trimRange src.toList (min a src.utf8ByteSize) (min b src.utf8ByteSize)).2 src.utf8ByteSize)
              root 0 .markup = some (n, off, mode))
    (herr : n.erroneous = true) : formatRange cfg wd src root a b = .refused := by
  unfold formatRange
  simp only [hcov, herr, if_true]

/-- No request is out of range: a range ending past the text is clamped before anything is sliced
(the model has no partial operation here; the panic of the unrepaired code is finding F3). -/
theorem C13_total (cfg : Config) (wd : String → Nat) (src : String) (root : ENode) (a b : Nat) :
    ∃ r, formatRange cfg wd src root a b = r := ⟨_, rfl⟩

end Typstyle
