import TypstyleModel.Proofs.Range
import TypstyleModel.Proofs.Tokens
import TypstyleModel.Props.RouteM
/-! C13 — range formatting is safe to splice (selection, covering and refusal parts; the splice
equivalence needs the parser and is searched, not proved). -/
namespace Typstyle
open Pretty

theorem sum_sublist_le {l₁ l₂ : List Nat} (h : l₁.Sublist l₂) : l₁.sum ≤ l₂.sum := by
  induction h with
  | slnil => simp
  | cons a _ ih => simp; omega
  | cons_cons a _ ih => simp; omega

/-- Trimming never extends a range: the trimmed text is at most as long (in bytes) as the request. -/
theorem C13_trimEnd_shrinks (l : List Char) : bytesOf (trimEndL l) ≤ bytesOf l := by
  unfold trimEndL bytesOf
  have hs : (List.dropWhile isWs l.reverse).Sublist l.reverse := List.dropWhile_sublist isWs
  have := sum_sublist_le ((hs.reverse).map Char.utf8Size)
  simpa using this

/-- The trimmed range is well-formed: start ≤ end, and the end never moves left of the requested start. -/
theorem C13_trimmed_range_ordered (text : List Char) (s e : Nat) :
    (trimRange text s e).1 ≤ (trimRange text s e).2 ∧ s ≤ (trimRange text s e).2 := by
  unfold trimRange
  simp only
  constructor <;> omega

/-- The conversion stage returns the covering node: its start offset, its length, and the family
printed for exactly that node (annotated). -/
theorem formatRangeDoc_ok (cfg : Config) (wd : String → Nat) (src : String) (root : ENode) (a b : Nat)
    (t : ANode) (off len : Nat) (d : Twin.Doc) (indent : Nat)
    (h : formatRangeDoc cfg wd src root a b = .ok t off len d indent) :
    ∃ n mode,
      cover (trimRange src.toList (min a src.utf8ByteSize) (min b src.utf8ByteSize)).1
        (min (trimRange src.toList (min a src.utf8ByteSize) (min b src.utf8ByteSize)).2 src.utf8ByteSize)
        root 0 .markup = some (n, off, mode)
      ∧ n.erroneous = false ∧ t = prepare n.toNode ∧ len = n.len := by
  unfold formatRangeDoc at h
  simp only at h
  split at h
  · cases h
  · rename_i n off' mode hcov
    split at h
    · cases h
    · rename_i herr
      split at h
      · cases h
      · rename_i d' k hrun
        simp only [RangeDoc.ok.injEq] at h
        obtain ⟨rfl, rfl, rfl, _, _⟩ := h
        exact ⟨n, mode, hcov, by simpa using herr, rfl, rfl⟩

/-- T13.2: when range formatting returns text, the returned range is the range of a node of the
tree (a Markup, expression or pattern), it contains the trimmed, clamped request, and that node has
no syntax errors. -/
theorem C13_returned_range_covers_request (cfg : Config) (wd : String → Nat) (src : String) (root : ENode) (a b start stop : Nat) (txt : String)
    (h : formatRange cfg wd src root a b = .ok start stop txt) :
    let r := trimRange src.toList (min a src.utf8ByteSize) (min b src.utf8ByteSize)
    start ≤ r.1 ∧ min r.2 src.utf8ByteSize ≤ stop ∧ stop ≤ root.len := by
  intro r
  unfold formatRange at h
  split at h
  · cases h
  · cases h
  · rename_i t off len d indent hdoc
    simp only [RangeResult.ok.injEq] at h
    obtain ⟨rfl, rfl, _⟩ := h
    obtain ⟨n, mode, hcov, _, _, rfl⟩ := formatRangeDoc_ok cfg wd src root a b t _ _ d indent hdoc
    have := cover_spec _ _ root 0 .markup n _ mode hcov
    exact ⟨this.1, this.2.1, by simpa using this.2.2.2.2⟩

/-- T13.2 (which node): the node that is formatted is a node *of the tree*, starting at the offset
that is returned — the replacement range is a node boundary, never the middle of a token. -/
theorem C13_covering_node_is_a_tree_node (s e : Nat) (root n : ENode) (off : Nat) (mode : LMode)
    (h : cover s e root 0 .markup = some (n, off, mode)) : Occurs root 0 n off :=
  cover_occurs s e root 0 .markup n off mode h

/-- T13.2 (innermost): no Markup, expression or pattern strictly inside the covering node contains the
request — range formatting touches the smallest unit it can. -/
theorem C13_covering_node_is_innermost (s e : Nat) (root n : ENode) (off : Nat) (mode : LMode)
    (h : cover s e root 0 .markup = some (n, off, mode)) :
    ∀ c pre post, n.children = pre ++ c :: post → ∀ m off', Occurs c (off + ENode.lenL pre) m off' →
      ¬ (off' ≤ s ∧ e ≤ off' + m.len ∧ isCoverKind m.kind = true) := by
  intro c pre post hc m off' ho
  have hn := cover_minimal s e root 0 .markup n off mode h .markup
  exact coverL_complete s e n.children off .markup hn pre c post hc m off' ho

/-- T13.3 (refusal is justified): the request is refused for want of a covering node only when no
Markup, expression or pattern of the tree contains the trimmed range at all. -/
theorem C13_no_cover_means_nothing_contains_the_range (s e : Nat) (root : ENode) (h : cover s e root 0 .markup = none) :
    ∀ m off', Occurs root 0 m off' → ¬ (off' ≤ s ∧ e ≤ off' + m.len ∧ isCoverKind m.kind = true) :=
  cover_complete s e root 0 .markup h

/-- T13.3: an erroneous covering node is refused, never formatted. -/
theorem C13_erroneous_node_is_refused (cfg : Config) (wd : String → Nat) (src : String) (root : ENode) (a b : Nat)
    (n : ENode) (off : Nat) (mode : LMode)
    (hcov : cover (trimRange src.toList (min a src.utf8ByteSize) (min b src.utf8ByteSize)).1
              (min (trimRange src.toList (min a src.utf8ByteSize) (min b src.utf8ByteSize)).2 src.utf8ByteSize)
              root 0 .markup = some (n, off, mode))
    (herr : n.erroneous = true) : formatRange cfg wd src root a b = .refused := by
  unfold formatRange formatRangeDoc
  simp only [hcov, herr, if_true]

/-- T13.4 (the replacement text carries what the replaced node carried, by construction): when the
family printed for the covering node is certified (`rangeCertified`, evaluated on every range case of
the correspondence run, field `rcert`), then every layout of the returned document — at any width,
any indent unit, and with the extra indentation of the line the range starts on — contains exactly the
code tokens, comments, prose, literals and verbatim text of that node, in order.  Splicing it in place
of the node therefore neither adds nor loses any of them in the whole document. -/
theorem C13_replacement_carries_the_node (reorder : Bool) (t : ANode) (d : Twin.Doc)
    (h : rangeCertified reorder t d = true) (u indent : Nat) (m : Mode) (xs : List Atom)
    (hl : Lay m ((d.fam u).nst indent) xs) :
    (reorder = false → tokText xs = (specToks t).toList) ∧ cmtText xs = (specCmts t).toList ∧
    proseText xs = (specProse t).toList ∧ (reorder = false → litText xs = (specLit t).toList) ∧
    verbText xs = (specVerb t).toList := by
  simp only [rangeCertified, Bool.and_eq_true, Bool.or_eq_true, beq_iff_eq] at h
  obtain ⟨⟨⟨⟨⟨hg, ht⟩, hc⟩, hp⟩, hli⟩, hv⟩ := h
  have e := fun c => Pretty.EmitsS.nst (n := indent) (d.emits hg u c) m xs hl
  refine ⟨fun hr => ?_, ?_, ?_, fun hr => ?_, ?_⟩
  · rcases ht with ht | ht
    · simp [hr] at ht
    · rw [← ht]; exact e .tok
  · rw [← hc]; exact e .cmt
  · rw [← hp]; exact e .prose
  · rcases hli with hli | hli
    · simp [hr] at hli
    · rw [← hli]; exact e .lit
  · rw [← hv]; exact e .verb

/-- No request is out of range: a range ending past the text is clamped before anything is sliced
(the model has no partial operation here; the panic of the unrepaired code is finding F3). -/
theorem C13_total (cfg : Config) (wd : String → Nat) (src : String) (root : ENode) (a b : Nat) :
    ∃ r, formatRange cfg wd src root a b = r := ⟨_, rfl⟩

/-- The premises are satisfiable: in `#(x)` (bytes 0–4) the request 2..3 is covered by the identifier
`x` at offset 2, a node of the tree, with nothing inside it. -/
def exampleRangeTree : ENode :=
  .inner .markup [.leaf .hash "#" false, .inner .parenthesized [.leaf .leftParen "(" false, .leaf .ident "x" false, .leaf .rightParen ")" false] false] false
example : ∃ n mode, cover 2 3 exampleRangeTree 0 .markup = some (n, 2, mode) ∧ n.kind = .ident := by
  refine ⟨.leaf .ident "x" false, .markup, ?_, rfl⟩
  have h1 : "#".utf8ByteSize = 1 := by decide
  have h2 : "(".utf8ByteSize = 1 := by decide
  have h3 : "x".utf8ByteSize = 1 := by decide
  simp [exampleRangeTree, cover, coverL, modeOfKind, isCoverKind, ENode.len, Kind.isExpr, h1, h2, h3]

theorem prepare_kind (root : Node) : (prepare root).kind = root.kind := by
  cases root <;> simp [prepare, annotate, number, ANode.kind, Node.kind]

theorem toNode_kind (n : ENode) : n.toNode.kind = n.kind := by
  cases n <;> simp [ENode.toNode, ENode.kind, Node.kind]

/-- T13.4 without a certificate (route M): when the covering node is an expression of the covered
fragment, the family range formatting prints for it **is** certified — for every source, request and
configuration; so `C13_replacement_carries_the_node` applies with no per-case check. -/
theorem C13_fragment_replacement_is_certified (cfg : Config) (wd : String → Nat) (src : String) (root : ENode) (a b : Nat)
    (t : ANode) (off len : Nat) (d : Twin.Doc) (indent : Nat)
    (h : formatRangeDoc cfg wd src root a b = .ok t off len d indent) (hx : isExpr t = true) (hq : inFrag t = true)
    (hmode : ∀ n off' mode, cover (trimRange src.toList (min a src.utf8ByteSize) (min b src.utf8ByteSize)).1
        (min (trimRange src.toList (min a src.utf8ByteSize) (min b src.utf8ByteSize)).2 src.utf8ByteSize) root 0 .markup = some (n, off', mode) → mode ≠ .math) :
    rangeCertified cfg.reorder t d = true := by
  unfold formatRangeDoc at h
  simp only at h
  split at h
  · cases h
  · rename_i n off' mode hcov
    split at h
    · cases h
    · split at h
      · cases h
      · rename_i d' k hrun
        simp only [RangeDoc.ok.injEq] at h
        obtain ⟨rfl, rfl, rfl, rfl, _⟩ := h
        have hkind : n.kind = (prepare n.toNode).kind := by rw [prepare_kind, toNode_kind]
        have hx' : n.kind.isExpr = true := by rw [hkind]; exact hx
        have hk : (n.kind == Kind.markup) = false := by
          have hne : n.kind ≠ .markup := by intro h; rw [h] at hx'; cases hx'
          simpa using hne
        rw [hk] at hrun
        simp only [Bool.false_eq_true, ↓reduceIte, hx'] at hrun
        have hc := (knot_frag _ _).1.expr _ _ (hmode _ _ _ hcov) hx hq _ _ _ hrun
        obtain ⟨hg, hs⟩ := hc
        unfold rangeCertified Twin.Doc.toks Twin.Doc.cmts Twin.Doc.prose Twin.Doc.lits Twin.Doc.verbs
        rw [hg, hs]
        simp [specAll]

/-- The same inside equations: when the covering node is converted in math mode and is an expression of
the math fragment, the family range formatting prints for it is certified. -/
theorem C13_fragment_math_replacement_is_certified (cfg : Config) (wd : String → Nat) (src : String) (root : ENode) (a b : Nat)
    (t : ANode) (off len : Nat) (d : Twin.Doc) (indent : Nat)
    (h : formatRangeDoc cfg wd src root a b = .ok t off len d indent) (hx : isExpr t = true) (hq : inFragM t = true)
    (hmode : ∀ n off' mode, cover (trimRange src.toList (min a src.utf8ByteSize) (min b src.utf8ByteSize)).1
        (min (trimRange src.toList (min a src.utf8ByteSize) (min b src.utf8ByteSize)).2 src.utf8ByteSize) root 0 .markup = some (n, off', mode) → mode = .math) :
    rangeCertified cfg.reorder t d = true := by
  unfold formatRangeDoc at h
  simp only at h
  split at h
  · cases h
  · rename_i n off' mode hcov
    split at h
    · cases h
    · split at h
      · cases h
      · rename_i d' k hrun
        simp only [RangeDoc.ok.injEq] at h
        obtain ⟨rfl, rfl, rfl, rfl, _⟩ := h
        have hkind : n.kind = (prepare n.toNode).kind := by rw [prepare_kind, toNode_kind]
        have hx' : n.kind.isExpr = true := by rw [hkind]; exact hx
        have hk : (n.kind == Kind.markup) = false := by
          have hne : n.kind ≠ .markup := by intro h; rw [h] at hx'; cases hx'
          simpa using hne
        rw [hk] at hrun
        simp only [Bool.false_eq_true, ↓reduceIte, hx'] at hrun
        have hc := (knot_frag _ _).2.expr _ _ (hmode _ _ _ hcov) hx hq _ _ _ hrun
        obtain ⟨hg, hs⟩ := hc
        unfold rangeCertified Twin.Doc.toks Twin.Doc.cmts Twin.Doc.prose Twin.Doc.lits Twin.Doc.verbs
        rw [hg, hs]
        simp [specAll]

/-- The same when the covering node is a markup body (the whole document, the body of a content block,
of a heading or list item …) of the covered fragment. -/
theorem C13_fragment_markup_replacement_is_certified (cfg : Config) (wd : String → Nat) (src : String) (root : ENode) (a b : Nat)
    (t : ANode) (off len : Nat) (d : Twin.Doc) (indent : Nat)
    (h : formatRangeDoc cfg wd src root a b = .ok t off len d indent) (hkm : t.kind = .markup) (hq : inFrag t = true)
    (hmode : ∀ n off' mode, cover (trimRange src.toList (min a src.utf8ByteSize) (min b src.utf8ByteSize)).1
        (min (trimRange src.toList (min a src.utf8ByteSize) (min b src.utf8ByteSize)).2 src.utf8ByteSize) root 0 .markup = some (n, off', mode) → mode ≠ .math) :
    rangeCertified cfg.reorder t d = true := by
  unfold formatRangeDoc at h
  simp only at h
  split at h
  · cases h
  · rename_i n off' mode hcov
    split at h
    · cases h
    · split at h
      · cases h
      · rename_i d' k hrun
        simp only [RangeDoc.ok.injEq] at h
        obtain ⟨rfl, rfl, rfl, rfl, _⟩ := h
        have hkind : n.kind = (prepare n.toNode).kind := by rw [prepare_kind, toNode_kind]
        have hk : (n.kind == Kind.markup) = true := by rw [hkind, hkm]; rfl
        rw [hk] at hrun
        simp only [↓reduceIte] at hrun
        have hc := (knot_frag _ _).1.markup _ _ .document (hmode _ _ _ hcov) hkm hq _ _ _ hrun
        obtain ⟨hg, hs⟩ := hc
        unfold rangeCertified Twin.Doc.toks Twin.Doc.cmts Twin.Doc.prose Twin.Doc.lits Twin.Doc.verbs
        rw [hg, hs]
        simp [specAll]

end Typstyle
