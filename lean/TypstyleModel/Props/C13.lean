import TypstyleModel.Model.Range
/-! C13 — range formatting is safe to splice (selection part). -/
namespace Typstyle

theorem sum_sublist_le {l₁ l₂ : List Nat} (h : l₁.Sublist l₂) : l₁.sum ≤ l₂.sum := by
  induction h with
  | slnil => simp
  | cons a _ ih => simp; omega
  | cons_cons a _ ih => simp; omega

/-- Trimming never extends a range: the trimmed text is at most as long (in bytes) as the request. -/
theorem C13_trimEnd_shrinks (l : List Char) : bytesOf (trimEndL l) ≤ bytesOf l := by
  unfold trimEndL bytesOf
  have hs : (List.dropWhile isWs l.reverse).Sublist l.reverse := List.dropWhile_sublist isWs
  have := sum_sublist_le ((hs.reverse).map Char.utf8Size)
  simpa using this

end Typstyle
