import TypstyleModel.Props.C07
import TypstyleModel.Proofs.Monad
import TypstyleModel.Proofs.Tokens
import TypstyleModel.Proofs.EndToEnd
import TypstyleModel.Proofs.MarkupSeq
import TypstyleModel.Proofs.Repr
/-! C08 — prose is left untouched (printer side).  The line representation of a piece of markup
loses, duplicates and reorders no node; inside a line a space is printed as one blank (never a break),
a line ends with exactly its number of line feeds, text leaves are copied, and an expression on a line
that also holds text is converted with breaks suppressed. -/
namespace Typstyle
open Pretty

/-- T8.1: `collect_markup_repr`'s main loop neither loses, duplicates nor reorders any node that is
not white space (white space becomes line structure: blanks inside a line, line feeds at its end). -/
theorem C08_repr_keeps_every_node (children : List ANode) (acc : List MLine × MLine × Bound) :
    (reprNodes (children.foldl reprStep acc)).filter (fun n => !isWsNode n) =
      (reprNodes acc).filter (fun n => !isWsNode n) ++ children.filter (fun n => !isWsNode n) :=
  repr_keeps_every_node children acc

/-- A paragraph break ends the line with exactly its number of line feeds. -/
theorem C08_parbreak_keeps_its_line_feeds (lines : List MLine) (cur : MLine) (sb : Bound) (node : ANode)
    (h : node.kind = .parbreak) :
    reprStep (lines, cur, sb) node = (lines ++ [{ cur with breaks := countLinebreaks node.text }], {}, sb) := by
  simp [reprStep, h]

/-- A line break inside a paragraph ends the line with one line feed (it is never turned into a blank). -/
theorem C08_line_break_ends_the_line (lines : List MLine) (cur : MLine) (sb : Bound) (node : ANode)
    (h : node.kind = .space) (hne : cur.nodes.isEmpty = false) (hlb : hasLinebreak node.text = true) :
    reprStep (lines, cur, sb) node = (lines ++ [{ cur with breaks := 1 }], {}, sb) := by
  simp [reprStep, h, hne, hlb]

/-- A blank between two pieces of one line stays a node of that line … -/
theorem C08_blank_stays_in_line (lines : List MLine) (cur : MLine) (sb : Bound) (node : ANode)
    (h : node.kind = .space) (hne : cur.nodes.isEmpty = false) (hlb : hasLinebreak node.text = false) :
    reprStep (lines, cur, sb) node = (lines, { cur with nodes := cur.nodes ++ [node] }, sb) := by
  simp [reprStep, h, hne, hlb, isBlockElem]

/-- T8.2a: … and is printed as exactly one blank — not a line break, not nothing — whatever the width. -/
theorem C08_blank_is_one_space (e : Env) (r : Rec) (ctx : Ctx) (mixed : Bool) (doc : Twin.Doc) (node : ANode)
    (h : node.kind = .space) : markupNodeStep e r ctx mixed doc node = pure (doc ++ Twin.space) := by
  simp [markupNodeStep, h]

/-- T8.4: a run of text is copied as one atom. -/
theorem C08_text_is_copied (e : Env) (r : Rec) (ctx : Ctx) (mixed : Bool) (doc : Twin.Doc) (node : ANode)
    (h : node.kind = .text) : markupNodeStep e r ctx mixed doc node = pure (doc ++ e.prose node.intoText) := by
  simp [markupNodeStep, h]

/-- T8.3: an expression on a line that also holds text/strong/emph/raw is converted with breaks
suppressed (so that the line is not re-wrapped around it). -/
theorem C08_mixed_line_suppresses_breaks (e : Env) (r : Rec) (ctx : Ctx) (doc : Twin.Doc) (node : ANode)
    (hk : node.kind ≠ .space ∧ node.kind ≠ .text) (he : isExpr node = true) :
    markupNodeStep e r ctx true doc node = (do let d ← r.expr ctx.suppress node; pure (doc ++ d)) := by
  simp [markupNodeStep, hk.1, hk.2, he]

/-- T8.2b: a line is followed by exactly `breaks` hard line breaks (a hard break is never flattened, R2). -/
theorem C08_line_ends_with_its_breaks (e : Env) (r : Rec) (ctx : Ctx) (doc : Twin.Doc) (l : MLine) :
    markupLineStep e r ctx doc l =
      (do let d ← l.nodes.foldlM (markupNodeStep e r ctx l.mixedText) doc
          pure (if l.breaks > 0 then d ++ Twin.repeatN Twin.hardline l.breaks else d)) := rfl

/-- T8.5 (prose is preserved, by construction): the printer's documents carry the text of their
prose atoms — every character of markup text, shorthands, smart quotes, escapes, links, labels and
reference targets — through every builder operation.  If the family printed for a tree passes the
comparison with the tree's own prose text (`proseCertified`: evaluated on every case of the
correspondence run, field `prose`), then at **every** width and indent unit the rendered layout
contains exactly the tree's prose, character for character and in order: no run of text is
reworded, dropped, duplicated or moved. -/
theorem C08_prose_preserved (root : Node) (d : Twin.Doc) (h : proseCertified root d = true) (u w : Nat) :
    proseText (best w 0 [⟨0, .brk, d.fam u⟩]) = (specProse (prepare root)).toList :=
  certified_prose_best root d h u w

theorem C08_prose_preserved_all_layouts (root : Node) (d : Twin.Doc) (h : proseCertified root d = true)
    (u : Nat) (m : Mode) (xs : List Atom) (hl : Lay m (d.fam u) xs) :
    proseText xs = (specProse (prepare root)).toList :=
  certified_prose root d h u m xs hl

/-- T8.6 (on the rendered text): a run of prose — one atom — occurs character for character in the text the renderer produces at any width. -/
theorem C08_prose_text_occurs_in_rendered_output (w : Nat) (d : Doc) (s : String) (t : Tag)
    (h : Atom.txt s t ∈ best w 0 [⟨0, .brk, d⟩]) :
    s.toList <:+: (pretty w d).toList :=
  render_infix _ _ h

/-- T8.2 (a whole line): the document of one markup line is what was there before, followed by
exactly one piece per node of the line in source order — a white-space node ↦ exactly one blank (never
a break, never nothing), a text node ↦ its text as one atom, every other token ↦ its text; an embedded
expression or comment ↦ its own conversion — followed by exactly `breaks` hard line breaks.  Nothing is
inserted between two pieces: the printer never re-wraps or re-joins prose.  For every line whatsoever. -/
theorem C08_line_is_the_sequence_of_its_nodes (e : Env) (r : Rec) (ctx : Ctx) (doc : Twin.Doc) (l : MLine) :
    Post (markupLineStep e r ctx doc l) (fun doc' => ∃ pieces, MPieces e l.nodes pieces ∧ pieces.length = l.nodes.length ∧
      doc' = (if l.breaks > 0 then (pieces.foldl (· ++ ·) doc) ++ Twin.repeatN Twin.hardline l.breaks else pieces.foldl (· ++ ·) doc)) :=
  Post.mono (markupLine_pieces e r ctx doc l) (fun _ ⟨ps, hps, h⟩ => ⟨ps, hps, hps.length, h⟩)

end Typstyle
