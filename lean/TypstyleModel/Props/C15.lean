import TypstyleModel.Proofs.Cli
/-! C15 — in-place modes write exactly the formatted text, only where they should.  Every
theorem holds for every library function `lib`, every file tree and every invocation. -/
namespace Typstyle.Cli

/-- Usage errors (`--inplace --check`) change nothing and exit with status 2. -/
theorem C15_usage_error_no_effect (lib : Lib) (a : Args) (w : Entry) (rootName : String)
    (h : a.inplace = true ∧ a.check = true) : (run lib a w rootName).world = w ∧ (run lib a w rootName).exit = 2 := by
  unfold run; simp [h.1, h.2, usageError]

/-- T15.1/T15.2 (`-i` with a file list): the final tree is the fold, in argument order, of the
per-file effect `inplaceStep`; an unreadable input contributes nothing and does not stop the
others; nothing is printed on standard output. -/
theorem C15_inplace_is_fold_of_per_file_effect (lib : Lib) (a : Args) (w : Entry) (ps : List Path) (hi : a.inplace = true) :
    (runFiles lib a w ps).world = ps.foldl (inplaceStep lib a) w ∧ outsOf (runFiles lib a w ps).evs = [] := by
  unfold runFiles
  obtain ⟨h1, h2⟩ := foldl_manyStep_inplace lib a hi ps { st := { world := w } }
  simp only
  split <;> simp only [outsOf_append, h1, h2] <;> simp [outsOf]

/-- The per-file effect: a file is rewritten if and only if it is readable, the library accepts it
(no syntax errors) and the formatted text differs from its content; what is written is exactly the
library result for the given options.  Otherwise the tree is returned untouched. -/
theorem C15_per_file_effect (lib : Lib) (a : Args) (w : Entry) (p : Path) :
    (∃ x y, readToString w p = some x ∧ lib a.style x = some y ∧ y ≠ x ∧ inplaceStep lib a w p = w.write p y) ∨
    inplaceStep lib a w p = w := by
  cases hr : readToString w p with
  | none => exact Or.inr (by simp [inplaceStep, hr])
  | some x =>
    cases hl : lib a.style x with
    | none => exact Or.inr (by simp [inplaceStep, hr, hl])
    | some y =>
      by_cases hy : y = x
      · exact Or.inr (by simp [inplaceStep, hr, hl, hy])
      · exact Or.inl ⟨x, y, rfl, hl, hy, by simp [inplaceStep, hr, hl, hy]⟩

/-- After a write the file holds exactly the written text. -/
theorem C15_written_bytes (w : Entry) (p : Path) (y x : String) (h : readToString w p = some x) :
    readToString (w.write p y) p = some y := readToString_write_same w p y x h

/-- T15.3 (a second run is a no-op): if the library returns its own output unchanged (C03), then
applying the per-file effect again changes nothing. -/
theorem C15_second_run_noop (lib : Lib) (a : Args) (w : Entry) (p : Path)
    (hidem : ∀ x y, lib a.style x = some y → lib a.style y = some y) :
    inplaceStep lib a (inplaceStep lib a w p) p = inplaceStep lib a w p := by
  rcases C15_per_file_effect lib a w p with ⟨x, y, hr, hl, hne, hw⟩ | h
  · rw [hw]
    unfold inplaceStep
    rw [readToString_write_same w p y x hr]
    simp [hidem x y hl]
  · rw [h]; exact h

/-- T15.1/T15.2 (`format-all`, no `--check`): the final tree is the fold over the eligible files
(see `eligibleFiles`) of the per-file effect `allWrite`; files that are not eligible are never
passed to it; nothing is printed except log lines. -/
theorem C15_format_all_is_fold_over_eligible (lib : Lib) (a : Args) (w : Entry) (dir : Option Path) (rootName : String)
    (hc : a.check = false) (e : Entry) (he : w.get (dir.getD []) = some e) :
    (runFormatAll lib a w dir rootName).world =
      (eligibleFiles e (dir.getD []) (rootNameOf (dir.getD []) rootName) 0).foldl (allWrite lib a) w := by
  unfold runFormatAll
  simp only [he]
  rw [walk_eq_fold]
  have := foldl_allStep_world lib a hc (eligibleFiles e (dir.getD []) (rootNameOf (dir.getD []) rootName) 0) { st := { world := w } }
  split <;> simpa using this

/-- The per-file effect of `format-all`: rewritten iff readable, accepted and different; with the library result. -/
theorem C15_format_all_per_file_effect (lib : Lib) (a : Args) (w : Entry) (f : Path × Content) :
    (∃ x y, f.2 = .text x ∧ lib a.style x = some y ∧ y ≠ x ∧ allWrite lib a w f = w.write f.1 y) ∨ allWrite lib a w f = w := by
  cases hc : f.2 with
  | binary => exact Or.inr (by simp [allWrite, hc])
  | text x =>
    cases hl : lib a.style x with
    | none => exact Or.inr (by simp [allWrite, hc, hl])
    | some y =>
      by_cases hy : y = x
      · exact Or.inr (by simp [allWrite, hc, hl, hy])
      · exact Or.inl ⟨x, y, rfl, hl, hy, by simp [allWrite, hc, hl, hy]⟩

/-- A directory that does not exist (or a path that is not in the tree) is not walked: nothing changes. -/
theorem C15_format_all_missing_dir (lib : Lib) (a : Args) (w : Entry) (dir : Option Path) (rootName : String)
    (he : w.get (dir.getD []) = none) : (runFormatAll lib a w dir rootName).world = w := by
  unfold runFormatAll; simp [he]

/-- T15.2 (`-i`): failures are reported: the exit status is non-zero exactly when some input was unreadable. -/
theorem C15_inplace_exit (lib : Lib) (a : Args) (w : Entry) (ps : List Path) (hc : a.check = false) :
    ((runFiles lib a w ps).exit = 0 ∨ (runFiles lib a w ps).exit = 1) ∧
    ((runFiles lib a w ps).exit = 1 ↔ (ps.foldl (manyStep lib a) { st := { world := w } }).errors > 0) := by
  unfold runFiles
  simp only
  split <;> simp_all [exitOf]

end Typstyle.Cli
