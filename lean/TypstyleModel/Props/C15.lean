import TypstyleModel.Proofs.Cli
/-! C15 — in-place modes write exactly the formatted text, only where they should. -/
namespace Typstyle.Cli

/-- Usage errors (`--inplace --check`, `--inplace` on standard input) change nothing. -/
theorem C15_usage_error_no_effect (lib : Lib) (a : Args) (w : Entry) (rootName : String)
    (h : a.inplace = true ∧ a.check = true) : (run lib a w rootName).world = w ∧ (run lib a w rootName).exit = 2 := by
  unfold run; simp [h.1, h.2, usageError]

end Typstyle.Cli
