import TypstyleModel.Model.Printer.Knot
/-! C19 — import items are reordered only on request, and then only permuted. -/
namespace Typstyle

end Typstyle
