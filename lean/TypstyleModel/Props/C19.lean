import TypstyleModel.Proofs.Import
import TypstyleModel.Proofs.Tokens
import TypstyleModel.Props.RouteM
/-! C19 — import items are reordered only on request, and then only permuted.  `importOrder` is
the order in which `convert_import_items` hands the (flattened) item nodes to the list stylist;
it is the only place of the model that reads `reorder`. -/
namespace Typstyle

/-- T19.1: with reordering off every import keeps its source order. -/
theorem C19_off_keeps_order (cfg : PConfig) (nodes : List ANode) (h : cfg.reorder = false) :
    importOrder cfg nodes = nodes := by
  simp [importOrder, h]

/-- T19.2a: whatever the setting, the items handed to the printer are a permutation of the
source's items — nothing is added, dropped or duplicated. -/
theorem C19_always_a_permutation (cfg : PConfig) (nodes : List ANode) : (importOrder cfg nodes).Perm nodes := by
  unfold importOrder
  split
  · exact stableSort_perm _ _
  · exact List.Perm.refl _

/-- T19.2b: with reordering on, and no comment and no name bound twice, the items are sorted by
their source text (code-point order = byte order of valid UTF-8). -/
theorem C19_on_sorted (cfg : PConfig) (nodes : List ANode) (h : cfg.reorder = true) (hs : importSortable nodes = true) :
    SortedBy importSortKey (importOrder cfg nodes) := by
  simp only [importOrder, h, hs, Bool.and_self, if_true]
  exact stableSort_sorted _ _

/-- T19.2c: an import that contains a comment keeps its order, reordering on or off. -/
theorem C19_comment_keeps_order (cfg : PConfig) (nodes : List ANode) (c : ANode) (hc : c ∈ nodes)
    (hk : isCommentKind c.kind = true) : importOrder cfg nodes = nodes := by
  have : importSortable nodes = false := by
    unfold importSortable
    have : nodes.all (fun n => !isCommentKind n.kind) = false := by
      apply Bool.eq_false_iff.mpr
      intro hall
      have := List.all_eq_true.mp hall c hc
      simp [hk] at this
    simp [this]
  simp [importOrder, this]

theorem noDupNames_sound (nodes : List ANode) (seen : List String) (h : noDupNames nodes seen = true) :
    (nodes.filterMap importBoundName).Nodup ∧ ∀ n ∈ nodes.filterMap importBoundName, n ∉ seen := by
  induction nodes generalizing seen with
  | nil => simp
  | cons n rest ih =>
    unfold noDupNames at h
    cases hb : importBoundName n with
    | none =>
      rw [hb] at h
      simpa [List.filterMap_cons, hb] using ih seen h
    | some name =>
      rw [hb] at h
      simp only at h
      by_cases hs : seen.contains name = true
      · exfalso
        have hm : name ∈ seen := by simpa using hs
        simp [hm] at h
      · simp only [hs, Bool.false_eq_true, if_false] at h
        obtain ⟨h1, h2⟩ := ih (name :: seen) h
        simp only [List.filterMap_cons, hb, List.nodup_cons, List.mem_cons, forall_eq_or_imp]
        refine ⟨⟨?_, h1⟩, ?_, ?_⟩
        · intro hm; exact (h2 name hm) (by simp)
        · simpa using hs
        · intro m hm hms; exact (h2 m hm) (by simp [hms])

/-- T19.2d: an import that binds the same name twice keeps its order, reordering on or off. -/
theorem C19_duplicate_keeps_order (cfg : PConfig) (nodes : List ANode)
    (hd : ¬ (nodes.filterMap importBoundName).Nodup) : importOrder cfg nodes = nodes := by
  have : importSortable nodes = false := by
    unfold importSortable
    cases h : noDupNames nodes [] with
    | false => simp
    | true => exact absurd (noDupNames_sound nodes [] h).1 hd
  simp [importOrder, this]

/-- T19.3: sorting is idempotent — sorting the sorted items again (a second run with reordering
on) changes nothing; in particular items with equal keys keep their order (stability). -/
theorem C19_sorting_is_idempotent (nodes : List ANode) :
    stableSort importSortKey (stableSort importSortKey nodes) = stableSort importSortKey nodes :=
  stableSort_idem importSortKey nodes

/-- T19.3b: items that are already in order are left exactly as they are. -/
theorem C19_sorted_items_are_kept (cfg : PConfig) (nodes : List ANode) (h : SortedBy importSortKey nodes) :
    importOrder cfg nodes = nodes := by
  unfold importOrder
  split
  · exact stableSort_id_of_sorted importSortKey nodes h
  · rfl

/-- T19.4 ("nothing else in the output differs", token side, by construction): whatever the flag,
the code tokens and the literals of the rendered output — at every width and indent unit — are those
of the source tree with only the children of sortable import item lists rearranged (`reorderTree`);
with the flag off that tree is the source tree (`reorderTree_off`).  Conditional on the per-case
certificates `tok` and `lit`, which are evaluated under both values of the flag. -/
theorem C19_only_import_items_move (cfg : PConfig) (root : Node) (d : Twin.Doc)
    (ht : tokensCertifiedR cfg root d = true) (hl : literalsCertifiedR cfg root d = true) (u w : Nat) :
    Pretty.tokText (Pretty.best w 0 [⟨0, .brk, d.fam u⟩]) = (specToks (reorderTree cfg (prepare root))).toList ∧
    Pretty.litText (Pretty.best w 0 [⟨0, .brk, d.fam u⟩]) = (specLit (reorderTree cfg (prepare root))).toList :=
  ⟨certified_tokensR cfg root d ht u .brk _ (Pretty.pretty_lay w _),
   certified_literalsR cfg root d hl u .brk _ (Pretty.pretty_lay w _)⟩

theorem C19_flag_off_tree_is_unchanged (cfg : PConfig) (h : cfg.reorder = false) (t : ANode) :
    reorderTree cfg t = t := reorderTree_off cfg h t

/-- The printer sorts the *flattened* node list of an import — parentheses, commas and white space
included.  **That orders the items among themselves exactly as sorting the items alone does**: for
every node list, the items of the sorted list are the sorted items (for any sub-family in fact). -/
theorem C19_sorting_the_flattened_list_sorts_the_items (nodes : List ANode) :
    (stableSort importSortKey nodes).filter isImportItem = stableSort importSortKey (nodes.filter isImportItem) :=
  filter_stableSort importSortKey isImportItem nodes

/-- The sorted list is in order (pairwise, by the sort key). -/
theorem C19_sorted_list_is_in_order (nodes : List ANode) :
    List.Pairwise (fun a b => importSortKey a ≤ importSortKey b) (stableSort importSortKey nodes) :=
  stableSort_psorted importSortKey nodes

/-- Route M for import statements, no certificate: for every import statement of the covered fragment
(items are paths or renamed items; separators, parentheses, white space, comments anywhere) whose items
are already in order — or which is not sorted because it holds a comment or binds a name twice — and for
**every configuration** (reordering on or off), whatever the printer returns renders, at every width and
indent unit, to a layout that holds exactly the tokens and literals of the statement, in source order:
no item is lost, duplicated or moved. -/
theorem C19_fragment_import_keeps_every_item (e : Env) (fuel : Nat) (ctx : Ctx) (hctx : NM ctx) (n : ANode)
    (hk : n.kind = .moduleImport) (hq : inFrag n = true)
    (d : Twin.Doc) (k k' : St) (h : ((knot e fuel).expr ctx n).run k = .ok (d, k')) (u w : Nat) :
    Pretty.tokText (Pretty.best w 0 [⟨0, .brk, d.fam u⟩]) = (specToks n).toList ∧
    Pretty.litText (Pretty.best w 0 [⟨0, .brk, d.fam u⟩]) = (specLit n).toList := by
  have hx : isExpr n = true := by unfold isExpr; rw [hk]; rfl
  have := routeM_expr e fuel ctx hctx n hx hq d k k' h u w
  exact ⟨this.1, this.2.2.2.1⟩

/-- **Every configuration, permuted lists included.**  For an import statement whose parts lie in the
covered fragment (items are paths or renamed items), whatever the printer returns carries — as tokens,
comments, prose, literals, verbatim text, in this order — the part before the items, then the items in
the order `importOrder` gives them: **sorted by key when reordering is on and the statement is sortable,
in source order otherwise**.  So reordering moves whole items and nothing else: no item is lost,
duplicated or altered, and the text before the items is untouched.  (`importPrinted`; no per-case
certificate; `Carries` is what `routeM`'s stream equalities at every width follow from.) -/
theorem C19_fragment_import_prints_items_in_import_order (e : Env) (fuel : Nat) (ctx : Ctx) (hctx : NM ctx)
    (cs : List ANode) (a : Attrs) (hd : a.disabled = false) (hq : inFragL cs = true)
    (hitems : (importFlattened cs).all (fun x => isImportItem x || isCommentKind x.kind || isIgnorable x) = true)
    (d : Twin.Doc) (k k' : St) (h : ((knot e (fuel + 1)).expr ctx (.inner .moduleImport cs a)).run k = .ok (d, k')) :
    Carries d ((specAllL (importPrefix cs)).app (specAllL (importPrinted e.cfg (importFlattened cs)))) := by
  have hr := (knot_frag e fuel).1
  have hp : Post (convExpr e (knot e fuel) ctx (.inner .moduleImport cs a))
      (fun d => Carries d ((specAllL (importPrefix cs)).app (specAllL (importPrinted e.cfg (importFlattened cs))))) := by
    unfold convExpr
    refine Post.bind (Q := fun _ => True) (fun _ _ _ _ => trivial) (fun _ _ => ?_)
    have hdis : (ANode.inner Kind.moduleImport cs a).attrs.disabled = false := hd
    simp only [hdis, Bool.false_eq_true, ↓reduceIte]
    show Post (convImport e (knot e fuel) ctx _) _
    refine convImport_carries_general e (knot e fuel) hr impQ_frag ctx hctx cs a (inFragL_lex cs hq)
      (fun c hc => inFragL_mem hq hc) ?_
    intro x hx
    have hqx := importFlattened_frag cs hq x hx
    have := List.all_eq_true.mp hitems x hx
    simp only [Bool.or_eq_true] at this
    refine ⟨inFrag_lex x hqx, hqx, ?_⟩
    rcases this with (h1 | h1) | h1
    · exact Or.inl h1
    · exact Or.inr (Or.inl h1)
    · exact Or.inr (Or.inr h1)
  exact hp k d k' h

end Typstyle
