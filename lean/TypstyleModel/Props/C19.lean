import TypstyleModel.Proofs.Import
/-! C19 — import items are reordered only on request, and then only permuted.  `importOrder` is
the order in which `convert_import_items` hands the (flattened) item nodes to the list stylist;
it is the only place of the model that reads `reorder`. -/
namespace Typstyle

/-- T19.1: with reordering off every import keeps its source order. -/
theorem C19_off_keeps_order (cfg : PConfig) (nodes : List ANode) (h : cfg.reorder = false) :
    importOrder cfg nodes = nodes := by
  simp [importOrder, h]

/-- T19.2a: whatever the setting, the items handed to the printer are a permutation of the
source's items — nothing is added, dropped or duplicated. -/
theorem C19_always_a_permutation (cfg : PConfig) (nodes : List ANode) : (importOrder cfg nodes).Perm nodes := by
  unfold importOrder
  split
  · exact stableSort_perm _ _
  · exact List.Perm.refl _

/-- T19.2b: with reordering on, and no comment and no name bound twice, the items are sorted by
their source text (code-point order = byte order of valid UTF-8). -/
theorem C19_on_sorted (cfg : PConfig) (nodes : List ANode) (h : cfg.reorder = true) (hs : importSortable nodes = true) :
    SortedBy ANode.intoText (importOrder cfg nodes) := by
  simp only [importOrder, h, hs, Bool.and_self, if_true]
  exact stableSort_sorted _ _

/-- T19.2c: an import that contains a comment keeps its order, reordering on or off. -/
theorem C19_comment_keeps_order (cfg : PConfig) (nodes : List ANode) (c : ANode) (hc : c ∈ nodes)
    (hk : isCommentKind c.kind = true) : importOrder cfg nodes = nodes := by
  have : importSortable nodes = false := by
    unfold importSortable
    have : nodes.all (fun n => !isCommentKind n.kind) = false := by
      apply Bool.eq_false_iff.mpr
      intro hall
      have := List.all_eq_true.mp hall c hc
      simp [hk] at this
    simp [this]
  simp [importOrder, this]

theorem noDupNames_sound (nodes : List ANode) (seen : List String) (h : noDupNames nodes seen = true) :
    (nodes.filterMap importBoundName).Nodup ∧ ∀ n ∈ nodes.filterMap importBoundName, n ∉ seen := by
  induction nodes generalizing seen with
  | nil => simp
  | cons n rest ih =>
    unfold noDupNames at h
    cases hb : importBoundName n with
    | none =>
      rw [hb] at h
      simpa [List.filterMap_cons, hb] using ih seen h
    | some name =>
      rw [hb] at h
      simp only at h
      by_cases hs : seen.contains name = true
      · exfalso
        have hm : name ∈ seen := by simpa using hs
        simp [hm] at h
      · simp only [hs, Bool.false_eq_true, if_false] at h
        obtain ⟨h1, h2⟩ := ih (name :: seen) h
        simp only [List.filterMap_cons, hb, List.nodup_cons, List.mem_cons, forall_eq_or_imp]
        refine ⟨⟨?_, h1⟩, ?_, ?_⟩
        · intro hm; exact (h2 name hm) (by simp)
        · simpa using hs
        · intro m hm hms; exact (h2 m hm) (by simp [hms])

/-- T19.2d: an import that binds the same name twice keeps its order, reordering on or off. -/
theorem C19_duplicate_keeps_order (cfg : PConfig) (nodes : List ANode)
    (hd : ¬ (nodes.filterMap importBoundName).Nodup) : importOrder cfg nodes = nodes := by
  have : importSortable nodes = false := by
    unfold importSortable
    cases h : noDupNames nodes [] with
    | false => simp
    | true => exact absurd (noDupNames_sound nodes [] h).1 hd
  simp [importOrder, this]

/-- Sorting an already sorted import changes nothing (a second run with reordering on is a no-op on the order). -/
theorem C19_sorted_permutation_is_unique (cfg : PConfig) (nodes : List ANode) :
    (importOrder cfg nodes).length = nodes.length := (C19_always_a_permutation cfg nodes).length_eq

end Typstyle
