import TypstyleModel.Props.C07
/-! C10 — literal content is preserved exactly (printer side; F4 — the post-pass strips blanks
before a line feed inside a multi-line literal — is a genuine counterexample to the end-to-end
statement and is a known finding). -/
namespace Typstyle
open Pretty

/-- The kinds whose leaf text the printer copies as one atom. -/
def Kind.isCopiedLeaf : Kind → Bool
  | .linebreak | .escape | .shorthand | .smartQuote | .link | .label | .ident | .bool | .int | .float
  | .numeric | .str | .mathText | .mathIdent | .mathAlignPoint | .mathShorthand => true
  | _ => false

/-- T10.1: strings (with their embedded line breaks, escapes and blanks), numbers with units and
radix, identifiers, labels, links, escapes … are converted to a single `tok` atom holding exactly the
leaf's text, in every context. -/
theorem C10_literal_is_copied (e : Env) (r : Rec) (ctx : Ctx) (n : ANode) (h : n.kind.isCopiedLeaf = true) :
    convExprImpl e r ctx n = pure (e.tok n.text) := by
  unfold convExprImpl
  cases hk : n.kind <;> simp_all [Kind.isCopiedLeaf]

/-- A markup text leaf likewise. -/
theorem C10_text_is_copied (e : Env) (r : Rec) (ctx : Ctx) (n : ANode) (h : n.kind = .text) :
    convExprImpl e r ctx n = pure (e.tok n.intoText) := by
  unfold convExprImpl; simp [h]

/-- The atom is the text itself, at every indent unit and in every layout (hence at every width):
the renderer cannot re-space, re-break or re-indent anything inside a literal. -/
theorem C10_token_is_one_atom (e : Env) (s : String) (hs : s.isEmpty = false) (u : Nat) (m : Mode) (xs : List Atom)
    (h : Lay m ((e.tok s).fam u) xs) : xs = [.txt s .tok] := by
  simp only [Env.tok, Twin.fam_mkText, mkText, hs] at h
  cases h
  rfl

/-- T10.2 (inline raw with several lines): emitted verbatim as a whole. -/
theorem C10_multiline_inline_raw_is_verbatim (e : Env) (n : ANode)
    (h : (!(((firstWhere n (·.kind == .rawDelim)).map (·.text.utf8ByteSize)).getD 0 ≥ 3 &&
            n.children.any (fun c => c.kind == .rawTrimmed && c.text.toList.any isNewlineChar)) &&
          (n.children.filter (·.kind == .text)).length > 1) = true) :
    convRaw e n = e.verb n.intoText := by
  unfold convRaw
  simp only [h, if_true]

/-- T10.3 (what the post-pass can touch): per line, the characters that are not white space are kept
in order; only blanks before a line end are removed (this is exactly finding F4 for a literal whose
line ends in a blank). -/
theorem C10_strip_only_removes_line_end_blanks (l : List Char) :
    (trimEndL l).filter (fun c => !isWs c) = l.filter (fun c => !isWs c) ∧ (trimEndL l).length ≤ l.length := by
  refine ⟨trimEndL_filter l, ?_⟩
  unfold trimEndL
  have := (List.dropWhile_sublist isWs (l := l.reverse)).length_le
  simpa using this

end Typstyle
