import TypstyleModel.Props.C07
import TypstyleModel.Proofs.Tokens
import TypstyleModel.Proofs.EndToEnd
import TypstyleModel.Props.RouteM
/-! C10 — literal content is preserved exactly (printer side; F4 — the post-pass strips blanks
before a line feed inside a multi-line literal — is a genuine counterexample to the end-to-end
statement and is a known finding). -/
namespace Typstyle
open Pretty

/-- The kinds whose leaf text the printer copies as one atom. -/
def Kind.isCopiedLeaf : Kind → Bool
  | .linebreak | .escape | .shorthand | .smartQuote | .link | .label | .ident | .bool | .int | .float
  | .numeric | .str | .mathText | .mathIdent | .mathAlignPoint | .mathShorthand => true
  | _ => false

/-- T10.1: strings (with their embedded line breaks, escapes and blanks), numbers with units and
radix, identifiers, labels, links, escapes … are converted to a single atom holding exactly the
leaf's text, in every context (the tag only records which stream the atom feeds). -/
theorem C10_literal_is_copied (e : Env) (r : Rec) (ctx : Ctx) (n : ANode) (h : n.kind.isCopiedLeaf = true) :
    ∃ tag, leafTag n.kind = some tag ∧ convExprImpl e r ctx n = pure (Twin.mkText e.wd tag n.text) := by
  unfold convExprImpl
  cases hk : n.kind <;> simp_all [Kind.isCopiedLeaf, leafTag, Env.lit, Env.plit, Env.prose, Env.tok]

/-- A markup text leaf likewise. -/
theorem C10_text_is_copied (e : Env) (r : Rec) (ctx : Ctx) (n : ANode) (h : n.kind = .text) :
    convExprImpl e r ctx n = pure (e.prose n.intoText) := by
  unfold convExprImpl; simp [h]

/-- The atom is the text itself, at every indent unit and in every layout (hence at every width):
the renderer cannot re-space, re-break or re-indent anything inside a literal. -/
theorem C10_token_is_one_atom (wd : String → Nat) (tag : Tag) (s : String) (hs : s.isEmpty = false) (u : Nat) (m : Mode) (xs : List Atom)
    (h : Lay m ((Twin.mkText wd tag s).fam u) xs) : xs = [.txt s tag] := by
  simp only [Twin.fam_mkText, mkText, hs] at h
  cases h
  rfl

/-- T10.2 (inline raw with several lines): emitted as a whole, as one literal atom. -/
theorem C10_multiline_inline_raw_is_verbatim (e : Env) (n : ANode) (h : rawIsVerbatim n = true) :
    convRaw e n = e.lit n.intoText := by
  unfold convRaw
  simp only [h, if_true]

/-- T10.4 (literals are preserved, by construction): the printer's documents carry the text of
their literal atoms — every character, blanks and line breaks inside strings and raw text included —
through every builder operation.  If the family printed for a tree passes the comparison with the
tree's own literal text (`literalsCertified`: evaluated on every case of the correspondence run,
field `lit`), then at **every** width and indent unit the rendered layout contains exactly the
tree's literals: strings, raw text (fence, language tag, text lines), numbers with their units,
booleans, identifiers, labels, links, escapes and reference targets, complete and in order. -/
theorem C10_literals_preserved (root : Node) (d : Twin.Doc) (h : literalsCertified root d = true) (u w : Nat) :
    litText (best w 0 [⟨0, .brk, d.fam u⟩]) = (specLit (prepare root)).toList :=
  certified_literals_best root d h u w

/-- T10.4r: with import reordering on, the literals are those of the tree with the import items in
the order `importOrder` gives them. -/
theorem C10_literals_preserved_reorder (cfg : PConfig) (root : Node) (d : Twin.Doc)
    (h : literalsCertifiedR cfg root d = true) (u w : Nat) :
    litText (best w 0 [⟨0, .brk, d.fam u⟩]) = (specLit (reorderTree cfg (prepare root))).toList :=
  certified_literalsR cfg root d h u .brk _ (pretty_lay w _)

theorem C10_literals_preserved_all_layouts (root : Node) (d : Twin.Doc) (h : literalsCertified root d = true)
    (u : Nat) (m : Mode) (xs : List Atom) (hl : Lay m (d.fam u) xs) :
    litText xs = (specLit (prepare root)).toList :=
  certified_literals root d h u m xs hl

/-- T10.3 (what the post-pass can touch): per line, the characters that are not white space are kept
in order; only blanks before a line end are removed (this is exactly finding F4 for a literal whose
line ends in a blank). -/
theorem C10_strip_only_removes_line_end_blanks (l : List Char) :
    (trimEndL l).filter (fun c => !isWs c) = l.filter (fun c => !isWs c) ∧ (trimEndL l).length ≤ l.length := by
  refine ⟨trimEndL_filter l, ?_⟩
  unfold trimEndL
  have := (List.dropWhile_sublist isWs (l := l.reverse)).length_le
  simpa using this

/-- T10.5 (on the rendered text): a literal atom — a string with its blanks and line breaks, a raw text line, a number with its unit — occurs character for character in the text the renderer produces at any width (the post-pass then touches blanks at line ends only: F4). -/
theorem C10_literal_text_occurs_in_rendered_output (w : Nat) (d : Doc) (s : String) (t : Tag)
    (h : Atom.txt s t ∈ best w 0 [⟨0, .brk, d⟩]) :
    s.toList <:+: (pretty w d).toList :=
  render_infix _ _ h

/-- T10.1 without a certificate (route M): for every expression tree of the covered fragment the
rendered layout contains every literal (strings with all their blanks and line breaks, numbers,
identifiers, booleans) character for character and in order, at every width and unit. -/
theorem C10_fragment_literals_preserved (e : Env) (fuel : Nat) (ctx : Ctx) (hctx : NM ctx) (n : ANode) (hx : isExpr n = true) (hq : inFrag n = true)
    (d : Twin.Doc) (k k' : St) (h : ((knot e fuel).expr ctx n).run k = .ok (d, k')) (u w : Nat) :
    litText (best w 0 [⟨0, .brk, d.fam u⟩]) = (specLit n).toList :=
  (routeM_expr e fuel ctx hctx n hx hq d k k' h u w).2.2.2.1

/-- The same for literals in math (strings, numbers, identifiers inside equations): in a math-mode
context, for every expression of the math fragment the rendered layout contains every literal character
for character and in order. -/
theorem C10_fragment_math_literals_preserved (e : Env) (fuel : Nat) (ctx : Ctx) (hm : ctx.mode = .math) (n : ANode)
    (hx : isExpr n = true) (hq : inFragM n = true)
    (d : Twin.Doc) (k k' : St) (h : ((knot e fuel).expr ctx n).run k = .ok (d, k')) (u w : Nat) :
    litText (best w 0 [⟨0, .brk, d.fam u⟩]) = (specLit n).toList :=
  (routeM_math_expr e fuel ctx hm n hx hq d k k' h u w).2.2.2.1

end Typstyle
