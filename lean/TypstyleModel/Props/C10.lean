import TypstyleModel.Props.C01
/-! C10 — (partial) see DESIGN.md §4 C10. Foundation: layout soundness and the post-pass. -/
namespace Typstyle
open Pretty

theorem C10_layout_sound (w : Nat) (d : Doc) : Lay .brk d (best w 0 [⟨0, .brk, d⟩]) := pretty_lay w d

end Typstyle
