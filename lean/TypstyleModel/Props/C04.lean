import TypstyleModel.Proofs.LcSafe
import TypstyleModel.Model.Printer.Base
/-! C04 — well-formed input never yields output with syntax errors (partial: printer side).
Proved: layout soundness of the renderer (R1/R2) and soundness of the `lcSafe` certificate, which the
check evaluates on the implementation's own document for every generated input: if it accepts, then at
*every* width no text follows an open line comment on its line (no delimiter is swallowed). -/
namespace Pretty

/-- R1/R2: for every width the renderer's output is a consistent layout: every group flat or
broken, flat inherited, and a flat region never contains a hard line break. -/
theorem C04_layout_sound (w : Nat) (d : Doc) : Lay .brk d (best w 0 [⟨0, .brk, d⟩]) := pretty_lay w d

/-- T4.1 (route V): certificate soundness, all widths. -/
theorem C04_line_comment_never_swallows (d : Doc) (h : lcSafe d = true) (w : Nat) :
    run false (best w 0 [⟨0, .brk, d⟩]) ≠ none := lcSafe_sound d h w

/-- A group that the renderer lays out flat contains no hard line break. -/
theorem C04_flat_group_has_no_break (w pos : Nat) (d : Doc) (rest : List Cmd)
    (h : fitting w pos [d] .flat rest = true) : FlatNoHard d :=
  (fitting_flat w pos [d] .flat rest rfl h).1

end Pretty

namespace Typstyle
open Pretty

theorem optParen_invert (d0 d1 : String) (l0 l1 : Nat) (B : Doc) (u : Nat) (m' : Mode) (ys : List Atom)
    (hy : Lay m' (.append
        (if u == 0 then .append (.flatAlt (.append (.text d0 l0 .soft) .hardline) .nil) B
         else .nest u (.append (.flatAlt (.append (.text d0 l0 .soft) .hardline) .nil) B))
        (.flatAlt (.append .hardline (.text d1 l1 .soft)) .nil)) ys) :
    (m' = .flat ∧ ∃ bx, Lay .flat B bx ∧ ys = bx) ∨
    (m' = .brk ∧ ∃ bx k1 k2, Lay .brk B bx ∧ ys = [.txt d0 .soft, .nl k1] ++ bx ++ [.nl k2, .txt d1 .soft]) := by
  have hinner : ∀ zs, Lay m' (.append (.flatAlt (.append (.text d0 l0 .soft) .hardline) .nil) B) zs →
      (m' = .flat ∧ ∃ bx, Lay .flat B bx ∧ zs = bx) ∨
      (m' = .brk ∧ ∃ bx k1, Lay .brk B bx ∧ zs = [.txt d0 .soft, .nl k1] ++ bx) := by
    intro zs hz
    cases hz with
    | append h1 h2 =>
      cases h1 with
      | flatAltB hh =>
        cases hh with
        | append ht hh2 =>
          cases ht; cases hh2
          exact Or.inr ⟨rfl, _, _, h2, rfl⟩
      | flatAltF hh =>
        cases hh
        exact Or.inl ⟨rfl, _, h2, rfl⟩
  cases hy with
  | append hA hB =>
    rename_i as bs
    have hA' : (m' = .flat ∧ ∃ bx, Lay .flat B bx ∧ as = bx) ∨
        (m' = .brk ∧ ∃ bx k1, Lay .brk B bx ∧ as = [.txt d0 .soft, .nl k1] ++ bx) := by
      split at hA
      · exact hinner _ hA
      · cases hA with
        | nest hh => exact hinner _ hh
    rcases hA' with ⟨hm, bx, hbx, hab⟩ | ⟨hm, bx, k1, hbx, hab⟩
    · subst hm
      cases hB with
      | flatAltF hh => cases hh; exact Or.inl ⟨rfl, bx, hbx, by simp [hab]⟩
    · subst hm
      cases hB with
      | flatAltB hh =>
        cases hh with
        | append hh1 hh2 =>
          cases hh1
          cases hh2
          rename_i k2
          exact Or.inr ⟨rfl, bx, k1, k2, hbx, by rw [hab]; rfl⟩

/-- T4.2 (`optional_paren`): the delimiters are printed exactly when the body is laid out broken.
In every layout of `optional_paren body` (at every indent unit): either the group is flat — then the
output is a flat layout of the body alone, which by R2 contains no hard line break, and no
delimiter is printed — or it is broken — then the output is the opening delimiter, a line break, a
layout of the body, a line break and the closing delimiter.  No layout has a delimiter on one side
only, and none breaks the body without delimiters. -/
theorem C04_optional_paren_layouts (e : Env) (body : Twin.Doc) (d0 d1 : String) (u : Nat) (m : Mode) (xs : List Atom)
    (h0 : d0.isEmpty = false) (h1 : d1.isEmpty = false) (hb : body.fam u ≠ .nil)
    (hl : Lay m ((optionalParen e body d0 d1).fam u) xs) :
    (∃ bx, Lay .flat (body.fam u) bx ∧ xs = bx) ∨
    (∃ bx k1 k2, Lay .brk (body.fam u) bx ∧
        xs = [.txt d0 .soft, .nl k1] ++ bx ++ [.nl k2, .txt d1 .soft]) := by
  obtain ⟨l0, hop⟩ : ∃ l0, (e.soft d0).fam u = .text d0 l0 .soft :=
    ⟨if isAscii d0 then d0.utf8ByteSize else e.wd d0, by simp [Env.soft, mkText, h0]⟩
  obtain ⟨l1, hcl⟩ : ∃ l1, (e.soft d1).fam u = .text d1 l1 .soft :=
    ⟨if isAscii d1 then d1.utf8ByteSize else e.wd d1, by simp [Env.soft, mkText, h1]⟩
  generalize hB : body.fam u = B at hb hl
  have hshape : (optionalParen e body d0 d1).fam u =
      .group (.append
        (if u == 0 then .append (.flatAlt (.append (.text d0 l0 .soft) .hardline) .nil) B
         else .nest u (.append (.flatAlt (.append (.text d0 l0 .soft) .hardline) .nil) B))
        (.flatAlt (.append .hardline (.text d1 l1 .soft)) .nil)) := by
    simp only [optionalParen, Twin.fam_grp, Twin.fam_app, Twin.fam_nstTab, Twin.fam_falt, Twin.fam_hardline, Twin.fam_nil]
    rw [hop, hcl, hB]
    have happ : (Doc.falt ((Doc.text d0 l0 Tag.soft : Doc) ++ Pretty.hardline) Doc.nil ++ B) =
        Doc.append (Doc.flatAlt (Doc.append (Doc.text d0 l0 Tag.soft) Doc.hardline) Doc.nil) B := by
      show Doc.app _ _ = _
      cases B <;> simp_all [Doc.app, Doc.falt, Pretty.hardline, HAppend.hAppend, Append.append]
    rw [happ]
    by_cases hu : u = 0
    · subst hu
      simp [Doc.nst, Doc.grp, Doc.falt, Pretty.hardline, HAppend.hAppend, Append.append, Doc.app]
    · have hu' : (u == 0) = false := by simpa using hu
      simp [Doc.nst, hu', Doc.grp, Doc.falt, Pretty.hardline, HAppend.hAppend, Append.append, Doc.app]
  rw [hshape] at hl
  cases hl with
  | groupSame hh =>
    rcases optParen_invert d0 d1 l0 l1 B u _ _ hh with ⟨_, r⟩ | ⟨_, r⟩
    · exact Or.inl r
    · exact Or.inr r
  | groupFlat hh =>
    rcases optParen_invert d0 d1 l0 l1 B u _ _ hh with ⟨_, r⟩ | ⟨h, _⟩
    · exact Or.inl r
    · cases h

end Typstyle
