import TypstyleModel.Proofs.LcSafe
/-! C04 — well-formed input never yields output with syntax errors (partial: printer side).
Proved: layout soundness of the renderer (R1/R2) and soundness of the `lcSafe` certificate, which the
check evaluates on the implementation's own document for every generated input: if it accepts, then at
*every* width no text follows an open line comment on its line (no delimiter is swallowed). -/
namespace Pretty

/-- R1/R2: for every width the renderer's output is a consistent layout: every group flat or
broken, flat inherited, and a flat region never contains a hard line break. -/
theorem C04_layout_sound (w : Nat) (d : Doc) : Lay .brk d (best w 0 [⟨0, .brk, d⟩]) := pretty_lay w d

/-- T4.1 (route V): certificate soundness, all widths. -/
theorem C04_line_comment_never_swallows (d : Doc) (h : lcSafe d = true) (w : Nat) :
    run false (best w 0 [⟨0, .brk, d⟩]) ≠ none := lcSafe_sound d h w

/-- A group that the renderer lays out flat contains no hard line break. -/
theorem C04_flat_group_has_no_break (w pos : Nat) (d : Doc) (rest : List Cmd)
    (h : fitting w pos [d] .flat rest = true) : FlatNoHard d :=
  (fitting_flat w pos [d] .flat rest rfl h).1

end Pretty
