import TypstyleModel.Proofs.Lay
import TypstyleModel.Proofs.Monad
import TypstyleModel.Model.Printer.Knot
/-! Token preservation ("emits"): generic lemmas for documents and for the flow stylist,
on the real model (tagged `Doc`, monad `M`). -/
namespace Typstyle
open Pretty

def _root_.Pretty.Tag.rigid : Tag → Bool
  | .tok | .syn | .verbatim | .prose | .lit | .plit => true
  | .soft | .comment => false

/-- Non-blank characters of the atoms that are real tokens. -/
def rigid : List Atom → List Char
  | [] => []
  | .txt s t :: r => (if t.rigid then s.toList.filter (fun c => !isWs c) else []) ++ rigid r
  | .nl _ :: r => rigid r

theorem rigid_append (xs ys : List Atom) : rigid (xs ++ ys) = rigid xs ++ rigid ys := by
  induction xs with
  | nil => rfl
  | cons x xs ih => cases x <;> simp [rigid, ih]

/-- Every layout of `d`, in either mode, carries exactly the token text `s`. -/
def Emits (d : Doc) (s : List Char) : Prop := ∀ m xs, Lay m d xs → rigid xs = s
abbrev Soft (d : Doc) : Prop := Emits d []

theorem lay_app {m a b xs} (h : Lay m (a ++ b) xs) : ∃ xa xb, xs = xa ++ xb ∧ Lay m a xa ∧ Lay m b xb := by
  change Lay m (Doc.app a b) xs at h
  unfold Doc.app at h
  split at h
  · exact ⟨[], xs, rfl, Lay.nil, h⟩
  · exact ⟨xs, [], by simp, h, Lay.nil⟩
  · cases h with
    | append h1 h2 => exact ⟨_, _, rfl, h1, h2⟩

theorem Emits.app {a b sa sb} (ha : Emits a sa) (hb : Emits b sb) : Emits (a ++ b) (sa ++ sb) := by
  intro m xs h
  obtain ⟨xa, xb, rfl, h1, h2⟩ := lay_app h
  rw [rigid_append, ha m xa h1, hb m xb h2]

theorem Emits.nil : Emits .nil [] := by
  intro m xs h; cases h; rfl

theorem Emits.hardline : Emits hardline [] := by
  intro m xs h; cases h; rfl

def nb (s : String) : List Char := s.toList.filter (fun c => !isWs c)

theorem Emits.mkText (wd : String → Nat) (t : Tag) (s : String) :
    Emits (mkText wd t s) (if t.rigid then nb s else []) := by
  intro m xs h
  unfold Pretty.mkText at h
  split at h
  · rename_i he
    cases h
    have : s = "" := by simpa using he
    subst this
    simp [rigid, nb]
  · cases h
    simp [rigid, nb]

theorem Emits.cmt (e : Env) (s : String) : Soft (e.cmt s) := by simpa [Tag.rigid, Env.cmt] using Emits.mkText e.wd .comment s

/-- Token text of a member of the printer's document family, at every unit. -/
def TEmits (d : Twin.Doc) (s : List Char) : Prop := ∀ u, Emits (d.fam u) s
abbrev TSoft (d : Twin.Doc) : Prop := TEmits d []

theorem TEmits.tok (e : Env) (s : String) : TEmits (e.tok s) (nb s) := by
  intro u; simpa [Tag.rigid, Env.tok] using Emits.mkText e.wd .tok s
theorem TEmits.syn (e : Env) (s : String) : TEmits (e.syn s) (nb s) := by
  intro u; simpa [Tag.rigid, Env.syn] using Emits.mkText e.wd .syn s
theorem TEmits.verb (e : Env) (s : String) : TEmits (e.verb s) (nb s) := by
  intro u; simpa [Tag.rigid, Env.verb] using Emits.mkText e.wd .verbatim s
theorem TEmits.soft (e : Env) (s : String) : TSoft (e.soft s) := by
  intro u; simpa [Tag.rigid, Env.soft] using Emits.mkText e.wd .soft s

theorem Emits.space : Soft space := by
  intro m xs h; cases h; simp [rigid, Tag.rigid]

theorem Emits.grp {d s} (h : Emits d s) : Emits d.grp s := by
  intro m xs hl
  unfold Doc.grp at hl
  split at hl
  · exact h m xs hl
  · exact h m xs hl
  · split at hl
    · exact h m xs hl
    · cases hl with
      | groupSame h' => exact h _ _ h'
      | groupFlat h' => exact h _ _ h'
  · cases hl with
    | groupSame h' => exact h _ _ h'
    | groupFlat h' => exact h _ _ h'

theorem Emits.nst {d s n} (h : Emits d s) : Emits (d.nst n) s := by
  intro m xs hl
  unfold Doc.nst at hl
  split at hl
  · exact h m xs hl
  · split at hl
    · exact h m xs hl
    · cases hl with
      | nest h' => exact h _ _ h'

theorem Emits.falt {b f s} (hb : Emits b s) (hf : Emits f s) : Emits (Doc.falt b f) s := by
  intro m xs hl
  cases hl with
  | flatAltB h' => exact hb _ _ h'
  | flatAltF h' => exact hf _ _ h'

theorem Emits.alignD {d s} (h : Emits d s) : Emits d.alignD s := by
  intro m xs hl
  cases hl with
  | align h' => exact h _ _ h'

theorem Emits.line : Soft line := Emits.falt Emits.hardline Emits.space
theorem Emits.line_ : Soft line_ := Emits.falt Emits.hardline Emits.nil

theorem Emits.enclose {d a b s sa sb} (hd : Emits d s) (ha : Emits a sa) (hb : Emits b sb) :
    Emits (d.enclose a b) (sa ++ s ++ sb) := (ha.app hd).app hb

theorem Emits.repeatN {d} (h : Soft d) (n : Nat) : Soft (repeatN d n) := by
  induction n with
  | zero => exact Emits.nil
  | succ n ih => simpa [Pretty.repeatN] using ih.app h

/-! ### comments are soft -/
theorem alignStep_soft (e : Env) (leading : Nat) (acc : Doc × Nat) (l : String) (h : Soft acc.1) :
    Soft (alignStep e leading acc l).1 := by
  obtain ⟨doc, i⟩ := acc
  simp only [alignStep]
  split
  · simpa using Emits.app h (Emits.cmt e l)
  · split
    · simpa using (Emits.app h Emits.hardline).app (Emits.cmt e _)
    · simpa using Emits.app h Emits.hardline

theorem foldl_alignStep_soft (e : Env) (leading : Nat) :
    ∀ (ls : List String) (acc : Doc × Nat), Soft acc.1 → Soft (ls.foldl (alignStep e leading) acc).1 := by
  intro ls
  induction ls with
  | nil => intro acc h; simpa using h
  | cons l ls ih => intro acc h; exact ih _ (alignStep_soft e leading acc l h)

theorem alignSimpleStep_soft (e : Env) (acc : Doc × Nat) (l : String) (h : Soft acc.1) :
    Soft (alignSimpleStep e acc l).1 := by
  obtain ⟨doc, i⟩ := acc
  simp only [alignSimpleStep]
  split
  · simpa using (Emits.app h Emits.hardline).app (Emits.cmt e _)
  · simpa using Emits.app h (Emits.cmt e _)

theorem foldl_alignSimpleStep_soft (e : Env) :
    ∀ (ls : List String) (acc : Doc × Nat), Soft acc.1 → Soft (ls.foldl (alignSimpleStep e) acc).1 := by
  intro ls
  induction ls with
  | nil => intro acc h; simpa using h
  | cons l ls ih => intro acc h; exact ih _ (alignSimpleStep_soft e acc l h)

/-- A converted comment carries no token text (comments are accounted for separately, C06). -/
theorem convComment_soft (e : Env) (n : ANode) : Post (convComment e n) (fun c => Soft c.d) := by
  unfold convComment
  split
  · exact Post.pure (Emits.cmt e _)
  · split
    · dsimp only
      split
      · exact Post.pure (Emits.cmt e _)
      · split
        · refine Post.pure ?_
          unfold alignMultilineSimple Doc.hang
          exact Emits.alignD (Emits.nst (foldl_alignSimpleStep_soft e _ _ Emits.nil))
        · refine Post.bind (Q := Soft) ?_ (fun d hd => Post.pure (Emits.alignD hd))
          unfold alignMultiline
          split
          · exact Post.rejected _
          · exact Post.pure (foldl_alignStep_soft e _ _ _ Emits.nil)
    · exact Post.rejected _

theorem convCommentT_soft (e : Env) (n : ANode) : Post (convCommentT e n) TSoft := by
  unfold convCommentT
  exact Post.bind (convComment_soft e n) (fun c hc => Post.pure (fun _ => hc))

/-! ### lifted to the document family -/
theorem TEmits.app {a b sa sb} (ha : TEmits a sa) (hb : TEmits b sb) : TEmits (a ++ b) (sa ++ sb) :=
  fun u => by simpa using Emits.app (ha u) (hb u)
theorem TEmits.nil : TEmits .nil [] := fun _ => Emits.nil
theorem TEmits.hardline : TEmits Twin.hardline [] := fun _ => Emits.hardline
theorem TEmits.space : TSoft Twin.space := fun _ => Emits.space
theorem TEmits.grp {d s} (h : TEmits d s) : TEmits d.grp s := fun u => by simpa using Emits.grp (h u)
theorem TEmits.nstTab {d s} (h : TEmits d s) : TEmits d.nstTab s := fun u => by simpa using Emits.nst (h u)
theorem TEmits.falt {b f s} (hb : TEmits b s) (hf : TEmits f s) : TEmits (Twin.Doc.falt b f) s :=
  fun u => by simpa using Emits.falt (hb u) (hf u)

/-! ### flow stylist -/
theorem Flow.push_emits {f : Flow} {d s t before after} (hf : TEmits f.doc s) (hd : TEmits d t) :
    TEmits (f.push d before after).doc (s ++ t) := by
  unfold Flow.push
  simp only
  split
  · simpa using (hf.app TEmits.space).app hd
  · exact hf.app hd

theorem Flow.pushComment_emits {f : Flow} {d s isBlock} (hf : TEmits f.doc s) (hd : TSoft d) :
    TEmits (f.pushComment d isBlock).doc s := by
  unfold Flow.pushComment
  split
  · simpa using Flow.push_emits hf hd
  · split
    · have : TEmits ({ f with spaceAfter := true } : Flow).doc s := hf
      simpa using Flow.push_emits this hd
    · simpa using Flow.push_emits hf hd

/-- What one child of a flow-like node contributes; `sem` is the contribution of a converted child. -/
def flowContrib (sem : ANode → List Char) (c : ANode) : List Char :=
  let k := c.kind
  if k.isKeyword && !(k == .none_ || k == .auto_) then nb c.text
  else if isCommentKind k then []
  else if k == .hash then nb "#"
  else sem c

/-- Contract of a construct's producer closure. -/
def ProducerOK {σ} (producer : σ → Ctx → ANode → M (σ × Option FlowItem)) (sem : ANode → List Char) : Prop :=
  ∀ st c child, Post (producer st c child) fun r =>
    match r.2 with
    | some it => TEmits it.doc (sem child)
    | none => sem child = []

theorem flowStepM_emits {σ} {e : Env} {ctx : Ctx} {producer : σ → Ctx → ANode → M (σ × Option FlowItem)} {sem}
    (hp : ProducerOK producer sem) (hsp : ∀ c : ANode, c.kind = .space → sem c = [])
    (acc : FSt σ) (s : List Char) (c : ANode) (h : TEmits acc.flow.doc s) :
    Post (flowStepM e ctx producer acc c) (fun acc' => TEmits acc'.flow.doc (s ++ flowContrib sem c)) := by
  unfold flowStepM flowContrib
  simp only
  split
  · exact Post.pure (Flow.push_emits h (TEmits.tok e _))
  · split
    · exact Post.bind (convCommentT_soft e c) (fun d hd => Post.pure (by simpa using Flow.pushComment_emits h hd))
    · split
      · rename_i hk
        have hks : c.kind = .space := by
          simp only [Bool.and_eq_true, beq_iff_eq] at hk; exact hk.1.2
        have h3 : (c.kind == Kind.hash) = false := by simp [hks]
        simp only [h3, Bool.false_eq_true, if_false, hsp c hks]
        exact Post.pure (by simpa using Flow.push_emits h TEmits.hardline)
      · split
        · split
          · exact Post.pure (by simpa using Flow.push_emits h (TEmits.syn e "#"))
          · exact Post.rejected _
        · refine Post.bind (hp _ _ _) (fun r hr => ?_)
          split
          · rename_i it heq
            simp only [heq] at hr
            exact Post.pure (Flow.push_emits h hr)
          · rename_i heq
            simp only [heq] at hr
            exact Post.pure (by simpa [hr] using h)

theorem flowM_emits {σ} {e : Env} {ctx : Ctx} {producer : σ → Ctx → ANode → M (σ × Option FlowItem)} {sem}
    (hp : ProducerOK producer sem) (hsp : ∀ c : ANode, c.kind = .space → sem c = [])
    (children : List ANode) (st : σ) :
    Post (flowM e ctx children st producer) (fun d => TEmits d (children.flatMap (flowContrib sem))) := by
  unfold flowM
  refine Post.bind (Q := fun acc => TEmits acc.flow.doc (children.flatMap (flowContrib sem))) ?_ (fun acc hacc => Post.pure hacc)
  have := Post.foldlM_idx (step := flowStepM e ctx producer)
    (Inv := fun pre (acc : FSt σ) => TEmits acc.flow.doc (pre.flatMap (flowContrib sem)))
    children [] ({ st := st } : FSt σ) (by simpa using TEmits.nil)
    (fun pre acc x hinv => by
      have := flowStepM_emits (e := e) (ctx := ctx) hp hsp acc _ x hinv
      simpa [List.flatMap_append] using this)
  simpa using this

end Typstyle
