import TypstyleModel.Model.Stylist.Chain
import TypstyleModel.Proofs.Monad
/-! C05: the only partial operation of the chain stylist, `docs.remove(0)` (chain.rs:214), cannot
fail on a chain that has any item at all: the first item of a processed chain is never an *attached*
comment (a comment is only attached after a body), and every other kind of item opens a document. -/
namespace Typstyle
open Twin

def headOK : List CItem → Bool
  | .attached _ :: _ => false
  | _ => true

/-- Invariant of `ChainStylist::process`: the first item is not an attached comment, and
`can_attach` is only set once there is an item. -/
def CInv (cs : CS) (canAttach : Bool) : Prop := headOK cs.items = true ∧ (canAttach = true → cs.items ≠ [])

theorem headOK_append (items : List CItem) (x : CItem) (h : headOK items = true)
    (hx : items = [] → ∀ d, x ≠ .attached d) : headOK (items ++ [x]) = true := by
  cases items with
  | nil =>
    cases x with
    | attached d => exact absurd rfl (hx rfl d)
    | _ => rfl
  | cons a as => cases a <;> simp_all [headOK]

theorem childStepM_inv (e : Env) (ctx : Ctx) (opConv : Bool → ANode → M (Bool × Option Doc)) (rhsConv : Ctx → ANode → M (Option Doc))
    (acc : CS × Bool × Bool) (child : ANode) (h : CInv acc.1 acc.2.1) :
    Post (CS.childStepM e ctx opConv rhsConv acc child) (fun r => CInv r.1 r.2.1) := by
  obtain ⟨cs, ca, so⟩ := acc
  obtain ⟨h1, h2⟩ := h
  simp only at h1 h2
  unfold CS.childStepM
  simp only
  refine Post.bind (Q := fun _ => True) (fun _ _ _ _ => trivial) ?_
  rintro ⟨ost, op?⟩ _
  cases op? with
  | some op =>
    refine Post.pure ⟨headOK_append _ _ h1 (fun _ d hd => by cases hd), fun _ => by simp⟩
  | none =>
    simp only
    split
    · refine Post.bind (Q := fun _ => True) (fun _ _ _ _ => trivial) ?_
      intro d _
      refine Post.pure ⟨?_, fun _ => by simp⟩
      refine headOK_append _ _ h1 (fun hn d' hd => ?_)
      cases hca : ca
      · simp [hca] at hd
      · exact h2 hca hn
    · split
      · split
        · refine Post.pure ⟨?_, fun h => by cases h⟩
          simp only
          split
          · exact headOK_append _ _ h1 (fun _ d hd => by cases hd)
          · exact h1
        · exact Post.pure ⟨h1, h2⟩
      · split
        · refine Post.bind (Q := fun _ => True) (fun _ _ _ _ => trivial) ?_
          intro r _
          cases r with
          | some rhs => exact Post.pure ⟨headOK_append _ _ h1 (fun _ d hd => by cases hd), fun _ => by simp⟩
          | none => exact Post.pure ⟨h1, h2⟩
        · exact Post.pure ⟨h1, h2⟩

theorem headOK_dropLast_body (items : List CItem) (b : Doc) (h : headOK items = true) :
    headOK (items.dropLast ++ [.body b]) = true := by
  cases hd : items.dropLast with
  | nil => rfl
  | cons a as =>
    cases items with
    | nil => simp at hd
    | cons x xs =>
      cases xs with
      | nil => simp at hd
      | cons y ys =>
        simp only [List.dropLast_cons₂, List.cons.injEq] at hd
        obtain ⟨rfl, _⟩ := hd
        cases x <;> simp_all [headOK]

theorem nodeStepM_inv (e : Env) (ctx : Ctx) (operandPred : ANode → Bool) (opConv : Bool → ANode → M (Bool × Option Doc))
    (rhsConv : Ctx → ANode → M (Option Doc)) (fallback : Ctx → ANode → M (Option Doc))
    (acc : CS × Bool) (node : ANode) (h : CInv acc.1 acc.2) :
    Post (CS.nodeStepM e ctx operandPred opConv rhsConv fallback acc node) (fun r => CInv r.1 r.2) := by
  obtain ⟨cs, ca⟩ := acc
  obtain ⟨h1, h2⟩ := h
  simp only at h1 h2
  unfold CS.nodeStepM
  simp only
  split
  · refine Post.bind (Q := fun r => CInv r.1 r.2.1) ?_ (fun r hr => Post.pure hr)
    exact Post.foldlM (Inv := fun r => CInv r.1 r.2.1) node.children ({ cs with opNum := cs.opNum + 1 }, ca, false) ⟨h1, h2⟩
      (fun acc x hacc => childStepM_inv e ctx opConv rhsConv acc x hacc)
  · refine Post.bind (Q := fun _ => True) (fun _ _ _ _ => trivial) ?_
    intro r _
    cases r with
    | none => exact Post.pure ⟨h1, h2⟩
    | some fb =>
      simp only
      split
      · exact Post.pure ⟨headOK_dropLast_body _ _ h1, fun _ => by simp⟩
      · exact Post.pure ⟨headOK_append _ _ h1 (fun _ d hd => by cases hd), fun _ => by simp⟩

/-- `ChainStylist::process` from an empty stylist: the first item is never an attached comment. -/
theorem processM_head (e : Env) (ctx : Ctx) (nodes : List ANode) (operandPred : ANode → Bool)
    (opConv : Bool → ANode → M (Bool × Option Doc)) (rhsConv : Ctx → ANode → M (Option Doc))
    (fallback : Ctx → ANode → M (Option Doc)) (cs0 : CS) (h0 : cs0.items = []) :
    Post (CS.processM e cs0 ctx nodes operandPred opConv rhsConv fallback) (fun cs => headOK cs.items = true) := by
  unfold CS.processM
  refine Post.bind (Q := fun r => CInv r.1 r.2) ?_ (fun r hr => Post.pure hr.1)
  exact Post.foldlM (Inv := fun r => CInv r.1 r.2) nodes (cs0, false) ⟨by show headOK cs0.items = true; rw [h0]; rfl, fun h => by cases h⟩
    (fun acc x hacc => nodeStepM_inv e ctx operandPred opConv rhsConv fallback acc x hacc)

/-! ### `print_doc` -/

theorem appendLast_ne_nil (docs : List Doc) (d : Doc) (h : docs ≠ []) : appendLast docs d ≠ [] := by
  unfold appendLast
  cases hl : docs.getLast? with
  | none => exact h
  | some l => simp

theorem printStep_ne_nil (opSep : Doc) (simple sp : Bool) (acc : List Doc × Bool × Bool × Bool) (item : CItem)
    (h : acc.1 ≠ []) : (CS.printStep opSep simple sp acc item).1 ≠ [] := by
  obtain ⟨docs, hb, ld, sa⟩ := acc
  simp only at h
  cases item <;> simp only [CS.printStep]
  · split
    · simp
    · exact appendLast_ne_nil _ _ h
  · split <;> split <;> simp
  · split
    · simp
    · exact appendLast_ne_nil _ _ h
  · exact appendLast_ne_nil _ _ h
  · simp

theorem foldl_printStep_ne_nil (opSep : Doc) (simple sp : Bool) (items : List CItem) (acc : List Doc × Bool × Bool × Bool)
    (h : acc.1 ≠ []) : (items.foldl (CS.printStep opSep simple sp) acc).1 ≠ [] := by
  induction items generalizing acc with
  | nil => exact h
  | cons x xs ih => exact ih _ (printStep_ne_nil opSep simple sp acc x h)

/-- The first step from the initial state (`leading = true`) opens a document unless the item is an
attached comment. -/
theorem printStep_first (opSep : Doc) (simple sp : Bool) (item : CItem) (h : headOK [item] = true) :
    (CS.printStep opSep simple sp ([], false, true, true) item).1 ≠ [] := by
  cases item <;> simp only [CS.printStep]
  · simp
  · split <;> split <;> simp
  · simp
  · simp [headOK] at h
  · simp

/-- **`docs.remove(0)` does not panic** on a chain with at least one item whose first item is not an
attached comment. -/
theorem chain_print_no_panic (e : Env) (cs : CS) (nbs sp : Bool) (hne : cs.items ≠ []) (hh : headOK cs.items = true) :
    ∀ s site, (cs.print e nbs sp).run s ≠ .error (.panic site) := by
  intro s site
  unfold CS.print
  simp only
  cases hi : cs.items with
  | nil => exact absurd hi hne
  | cons x xs =>
    have hx : headOK [x] = true := by rw [hi] at hh; cases x <;> simp_all [headOK]
    rw [List.foldl_cons]
    have := foldl_printStep_ne_nil (if sp then line else line_) (cs.opNum == 1 && nbs && !cs.hasComment) sp xs _
      (printStep_first (if sp then line else line_) (cs.opNum == 1 && nbs && !cs.hasComment) sp x hx)
    split
    · rename_i hnil; exact absurd hnil this
    · split <;> (intro h; cases h)

end Typstyle
