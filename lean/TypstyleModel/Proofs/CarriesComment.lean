import TypstyleModel.Proofs.CarriesFlow
import TypstyleModel.Proofs.CommentStable
/-! T6.2 (C06), for every comment: the document `convert_comment` builds consists of comment text
only and contains exactly the non-blank characters of the comment, in order — whatever the comment's
style (line, block, bullet-aligned, re-aligned), indentation, line endings or characters.  This is the
`CommentOK` premise of the flow and list theorems. -/
namespace Typstyle
open Pretty

def nonws (cs : List Char) : List Char := cs.filter fun c => !isWs c

theorem nonws_append (a b : List Char) : nonws (a ++ b) = nonws a ++ nonws b := by simp [nonws]

/-! ### `str::lines` loses only line terminators -/

theorem nonws_dropLastCr (l : List Char) : nonws (dropLastCr l) = nonws l := by
  unfold dropLastCr
  split
  · rename_i r h
    have : l = r.reverse ++ ['\r'] := by
      have := congrArg List.reverse h
      simpa using this
    rw [this, nonws_append]
    have hcr : nonws ['\r'] = [] := by decide
    simp [hcr]
  · rfl

theorem nonws_splitNl (s : List Char) :
    ((splitNl s).map fun p => if p.2 then dropLastCr p.1 else p.1).flatMap nonws = nonws s := by
  induction s with
  | nil => rfl
  | cons c cs ih =>
    unfold splitNl
    split
    · rename_i hc
      subst hc
      have hnl : nonws ('\n' :: cs) = nonws cs := by
        have : isWs '\n' = true := by decide
        simp [nonws, this]
      rw [hnl, ← ih]
      simp [dropLastCr, nonws]
    · rename_i hc
      cases hsp : splitNl cs with
      | nil =>
        rw [hsp] at ih
        simp only [List.map_nil, List.flatMap_nil] at ih
        simp only [List.map_cons, List.map_nil, List.flatMap_cons, List.flatMap_nil, List.append_nil, Bool.false_eq_true,
          ↓reduceIte]
        show nonws [c] = nonws (c :: cs)
        have : nonws (c :: cs) = nonws [c] ++ nonws cs := by rw [← nonws_append]; rfl
        rw [this, ← ih]; simp
      | cons p rest =>
        obtain ⟨l, t⟩ := p
        rw [hsp] at ih
        simp only [List.map_cons, List.flatMap_cons] at ih ⊢
        have hsplit : nonws (c :: cs) = nonws [c] ++ nonws cs := by rw [← nonws_append]; rfl
        rw [hsplit, ← ih, ← List.append_assoc]
        congr 1
        cases t
        · simp only [Bool.false_eq_true, ↓reduceIte]; rw [← nonws_append]; rfl
        · simp only [↓reduceIte]
          rw [nonws_dropLastCr, nonws_dropLastCr, ← nonws_append]; rfl

/-- The non-blank characters of the lines of a text are the non-blank characters of the text. -/
theorem nonws_rlines (text : String) : (rlines text).flatMap (fun l => nonws l.toList) = nonws text.toList := by
  unfold rlines linesL
  rw [← nonws_splitNl text.toList, List.flatMap_map, List.flatMap_map, List.flatMap_map]
  simp only [String.toList_ofList]

/-! ### documents that hold comment text only -/

theorem commentOnly_app (a b : Doc) (ha : a.commentOnly = true) (hb : b.commentOnly = true) : (a ++ b).commentOnly = true := by
  show (Doc.app a b).commentOnly = true
  unfold Doc.app
  split
  · exact hb
  · exact ha
  · simp [Doc.commentOnly, ha, hb]

theorem allChars_app (a b : Doc) : (a ++ b).allChars = a.allChars ++ b.allChars := by
  show (Doc.app a b).allChars = _
  unfold Doc.app
  split
  · simp [Doc.allChars]
  · simp [Doc.allChars]
  · rfl

theorem commentOnly_cmt (e : Env) (s : String) : (e.cmt s).commentOnly = true := by
  unfold Env.cmt Pretty.mkText; split <;> simp [Doc.commentOnly]

theorem allChars_cmt (e : Env) (s : String) : (e.cmt s).allChars = nonws s.toList := by
  unfold Env.cmt Pretty.mkText
  split
  · rename_i h
    have : s = "" := by simpa using h
    subst this; rfl
  · rfl

theorem commentOnly_nst (d : Doc) (n : Nat) (h : d.commentOnly = true) : (d.nst n).commentOnly = true := by
  unfold Doc.nst; split
  · exact h
  · split
    · exact h
    · simpa [Doc.commentOnly] using h

theorem allChars_nst (d : Doc) (n : Nat) : (d.nst n).allChars = d.allChars := by
  unfold Doc.nst; split
  · rfl
  · split <;> rfl

/-! ### the two alignment folds -/

/-- Cutting `leading` blanks off a continuation line loses no non-blank character. -/
theorem nonws_cut (leading : Nat) (l : String) (hk : leading ≤ lineKey l) :
    nonws (if l.utf8ByteSize > leading then l.toList.drop leading else []) = nonws l.toList := by
  by_cases hbl : lead l = l.length
  · have hb := blank_toList l hbl
    have hsp : ∀ n, nonws (List.replicate n ' ') = [] := by
      intro n; induction n with
      | zero => rfl
      | succ n ih => rw [List.replicate_succ]; show nonws ([' '] ++ _) = []; rw [nonws_append, ih]; decide
    rw [hb]
    split
    · rw [List.drop_replicate, hsp, hsp]
    · rw [hsp]; rfl
  · obtain ⟨c, rest, hc, hsh⟩ := nonblank_shape l hbl
    have hkey : lineKey l = lead l := by unfold lineKey; simp [hbl]
    rw [hkey] at hk
    have hbytes : l.utf8ByteSize > leading := by
      have : l = String.ofList (List.replicate (lead l) ' ' ++ c :: rest) := by rw [← hsh, String.ofList_toList]
      rw [this, utf8_replicate_space]
      have := bytes_pos_of_ne_nil (c :: rest) (by simp)
      omega
    have hsp : ∀ n, nonws (List.replicate n ' ') = [] := by
      intro n; induction n with
      | zero => rfl
      | succ n ih => rw [List.replicate_succ]; show nonws ([' '] ++ _) = []; rw [nonws_append, ih]; decide
    simp only [hbytes, ↓reduceIte]
    rw [hsh, List.drop_append, List.drop_replicate, List.length_replicate]
    have h0 : leading - lead l = 0 := by omega
    rw [h0, List.drop_zero, nonws_append, nonws_append, hsp, hsp]

theorem alignStep_ok (e : Env) (leading : Nat) (acc : Doc × Nat) (l : String)
    (hk : acc.2 ≠ 0 → leading ≤ lineKey l) (h1 : acc.1.commentOnly = true) :
    (alignStep e leading acc l).1.commentOnly = true ∧
    (alignStep e leading acc l).1.allChars = acc.1.allChars ++ nonws l.toList ∧ (alignStep e leading acc l).2 ≠ 0 := by
  obtain ⟨doc, i⟩ := acc
  simp only at hk h1
  unfold alignStep
  simp only
  split
  · exact ⟨commentOnly_app _ _ h1 (commentOnly_cmt e l), by rw [allChars_app, allChars_cmt], by simp⟩
  · rename_i hi
    have hi' : i ≠ 0 := by simpa using hi
    have hcut := nonws_cut leading l (hk hi')
    have hh : (doc ++ hardline).commentOnly = true := commentOnly_app _ _ h1 rfl
    have ha : (doc ++ hardline).allChars = doc.allChars := by rw [allChars_app]; simp [Doc.allChars]
    split
    · rename_i hb
      simp only [hb, ↓reduceIte] at hcut
      refine ⟨commentOnly_app _ _ hh (commentOnly_cmt e _), ?_, by simp⟩
      rw [allChars_app, allChars_cmt, ha, String.toList_ofList, hcut]
    · rename_i hb
      simp only [hb, ↓reduceIte] at hcut
      refine ⟨hh, ?_, by simp⟩
      rw [ha, ← hcut]; simp [nonws]

theorem foldl_alignStep_ok (e : Env) (leading : Nat) (ls : List String) (acc : Doc × Nat)
    (hk : ∀ l ∈ ls, leading ≤ lineKey l) (h1 : acc.1.commentOnly = true) :
    (ls.foldl (alignStep e leading) acc).1.commentOnly = true ∧
    (ls.foldl (alignStep e leading) acc).1.allChars = acc.1.allChars ++ ls.flatMap (fun l => nonws l.toList) := by
  induction ls generalizing acc with
  | nil => simp [h1]
  | cons x xs ih =>
    rw [List.foldl_cons]
    have hs := alignStep_ok e leading acc x (fun _ => hk x List.mem_cons_self) h1
    have := ih (alignStep e leading acc x) (fun l h => hk l (List.mem_cons_of_mem _ h)) hs.1
    refine ⟨this.1, ?_⟩
    rw [this.2, hs.2.1]; simp

theorem alignSimpleStep_ok (e : Env) (acc : Doc × Nat) (l : String) (h1 : acc.1.commentOnly = true) :
    (alignSimpleStep e acc l).1.commentOnly = true ∧
    (alignSimpleStep e acc l).1.allChars = acc.1.allChars ++ nonws l.toList := by
  obtain ⟨doc, i⟩ := acc
  simp only at h1
  unfold alignSimpleStep
  simp only
  have htrim : nonws (trimStart l).toList = nonws l.toList := by
    unfold trimStart trimStartL
    rw [String.toList_ofList]
    induction l.toList with
    | nil => rfl
    | cons c cs ih =>
      rw [List.dropWhile_cons]
      split
      · rename_i hc
        rw [ih]; simp [nonws, hc]
      · rfl
  split
  · refine ⟨commentOnly_app _ _ (commentOnly_app _ _ h1 rfl) (commentOnly_cmt e _), ?_⟩
    rw [allChars_app, allChars_app, allChars_cmt, htrim]; simp [Doc.allChars]
  · refine ⟨commentOnly_app _ _ h1 (commentOnly_cmt e _), ?_⟩
    rw [allChars_app, allChars_cmt, htrim]

theorem foldl_alignSimpleStep_ok (e : Env) (ls : List String) (acc : Doc × Nat) (h1 : acc.1.commentOnly = true) :
    (ls.foldl (alignSimpleStep e) acc).1.commentOnly = true ∧
    (ls.foldl (alignSimpleStep e) acc).1.allChars = acc.1.allChars ++ ls.flatMap (fun l => nonws l.toList) := by
  induction ls generalizing acc with
  | nil => simp [h1]
  | cons x xs ih =>
    rw [List.foldl_cons]
    have hs := alignSimpleStep_ok e acc x h1
    have := ih (alignSimpleStep e acc x) hs.1
    refine ⟨this.1, ?_⟩
    rw [this.2, hs.2]; simp

/-! ### the comment converter -/

/-- **Every comment is converted to a document of comment text only that holds exactly the comment's
non-blank characters, in order.** -/
theorem convComment_ok (e : Env) (n : ANode) :
    Post (convComment e n) (fun c => c.d.commentOnly = true ∧ c.d.allChars = nonws n.text.toList) := by
  unfold convComment
  split
  · exact Post.pure ⟨commentOnly_cmt e _, allChars_cmt e _⟩
  · split
    · dsimp only
      split
      · exact Post.pure ⟨commentOnly_cmt e _, allChars_cmt e _⟩
      · split
        · -- bullet style
          refine Post.pure ?_
          have h := foldl_alignSimpleStep_ok e (rlines n.text) (Doc.nil, 0) rfl
          show (Doc.align _).commentOnly = true ∧ (Doc.align _).allChars = _
          refine ⟨?_, ?_⟩
          · simpa [Doc.commentOnly] using commentOnly_nst _ 1 h.1
          · show (Doc.nst _ 1).allChars = _
            rw [allChars_nst, h.2, nonws_rlines]; rfl
        · -- aligned style
          unfold alignMultiline
          cases hfl : followLeading n.text with
          | none => exact Post.rejected _
          | some leading =>
            simp only
            refine Post.bind (Q := fun d => d.commentOnly = true ∧ d.allChars = nonws n.text.toList) (Post.pure ?_)
              (fun d hd => Post.pure ⟨by simpa [Doc.alignD, Doc.commentOnly] using hd.1, by simpa [Doc.alignD, Doc.allChars] using hd.2⟩)
            rw [followLeading_eq] at hfl
            cases hls : rlines n.text with
            | nil => rw [hls] at hfl; simp [followLeadingLines] at hfl
            | cons first rest =>
              rw [hls] at hfl
              have hlead : minKey rest usizeMax = leading := by
                cases rest with
                | nil => simp [followLeadingLines] at hfl
                | cons a b => simpa [followLeadingLines] using hfl
              rw [List.foldl_cons]
              have h0 := alignStep_ok e leading (Doc.nil, 0) first (fun h => absurd rfl h) rfl
              have h1 := foldl_alignStep_ok e leading rest _ (fun l hl => hlead ▸ minKey_le_mem rest _ l hl) h0.1
              refine ⟨h1.1, ?_⟩
              rw [h1.2, h0.2.1, ← nonws_rlines n.text, hls]
              simp [Doc.allChars]
    · exact Post.rejected _

theorem commentOK (e : Env) : CommentOK e := by
  intro n _
  unfold convCommentT
  refine Post.bind (convComment_ok e n) (fun c hc => Post.pure ⟨hc.1, ?_⟩)
  show ({ cmt := String.ofList c.d.allChars } : Twin.Streams) = commentS n.text
  rw [hc.2]; rfl

end Typstyle
