import TypstyleModel.Model.Range
/-! Range selection (`get_node_cover_range`): what `cover` returns. -/
namespace Typstyle

mutual
theorem cover_spec (s e : Nat) : (n : ENode) → (off : Nat) → (mode : LMode) → (m : ENode) → (off' : Nat) → (mode' : LMode) →
    cover s e n off mode = some (m, off', mode') →
    off' ≤ s ∧ e ≤ off' + m.len ∧ isCoverKind m.kind = true ∧ off ≤ off' ∧ off' + m.len ≤ off + n.len
  | .leaf k t err, off, mode, m, off', mode', h => by
    unfold cover at h
    simp only at h
    split at h
    · rename_i hc
      simp only [Option.some.injEq, Prod.mk.injEq] at h
      obtain ⟨rfl, rfl, _⟩ := h
      simp only [Bool.and_eq_true, decide_eq_true_eq] at hc
      exact ⟨hc.1.1, by simpa [ENode.len] using hc.1.2, hc.2, Nat.le_refl _, Nat.le_refl _⟩
    · cases h
  | .inner k cs err, off, mode, m, off', mode', h => by
    unfold cover at h
    simp only at h
    split at h
    · rename_i r hr
      cases h
      have := coverL_spec s e cs off (modeOfKind k mode) m off' mode' hr
      exact ⟨this.1, this.2.1, this.2.2.1, this.2.2.2.1, by simpa [ENode.len] using this.2.2.2.2⟩
    · split at h
      · rename_i hc
        simp only [Option.some.injEq, Prod.mk.injEq] at h
        obtain ⟨rfl, rfl, _⟩ := h
        simp only [Bool.and_eq_true, decide_eq_true_eq] at hc
        exact ⟨hc.1.1, by simpa [ENode.len] using hc.1.2, hc.2, Nat.le_refl _, Nat.le_refl _⟩
      · cases h
theorem coverL_spec (s e : Nat) : (cs : List ENode) → (off : Nat) → (mode : LMode) → (m : ENode) → (off' : Nat) → (mode' : LMode) →
    coverL s e cs off mode = some (m, off', mode') →
    off' ≤ s ∧ e ≤ off' + m.len ∧ isCoverKind m.kind = true ∧ off ≤ off' ∧ off' + m.len ≤ off + ENode.lenL cs
  | [], off, mode, m, off', mode', h => by unfold coverL at h; cases h
  | c :: cs, off, mode, m, off', mode', h => by
    unfold coverL at h
    split at h
    · rename_i r hr
      cases h
      have := cover_spec s e c off mode m off' mode' hr
      exact ⟨this.1, this.2.1, this.2.2.1, this.2.2.2.1, by simp only [ENode.lenL]; omega⟩
    · have := coverL_spec s e cs (off + c.len) mode m off' mode' h
      exact ⟨this.1, this.2.1, this.2.2.1, by omega, by simp only [ENode.lenL]; omega⟩
end

end Typstyle

namespace Typstyle

def ENode.children : ENode → List ENode
  | .leaf _ _ _ => []
  | .inner _ cs _ => cs

/-! ### whether a covering node is found does not depend on the mode that is threaded through -/
mutual
theorem cover_none_mode (s e : Nat) : (n : ENode) → (off : Nat) → (m m' : LMode) →
    cover s e n off m = none → cover s e n off m' = none
  | .leaf k t err, off, m, m', h => by
    unfold cover at h ⊢
    simp only at h ⊢
    split at h
    · cases h
    · rename_i hc; simp [hc]
  | .inner k cs err, off, m, m', h => by
    unfold cover at h ⊢
    simp only at h ⊢
    split at h
    · cases h
    · rename_i hn
      rw [coverL_none_mode s e cs off _ (modeOfKind k m') hn]
      split at h
      · cases h
      · rename_i hc; simp [hc]
theorem coverL_none_mode (s e : Nat) : (cs : List ENode) → (off : Nat) → (m m' : LMode) →
    coverL s e cs off m = none → coverL s e cs off m' = none
  | [], _, _, _, _ => by unfold coverL; rfl
  | c :: cs, off, m, m', h => by
    unfold coverL at h ⊢
    split at h
    · cases h
    · rename_i hn
      rw [cover_none_mode s e c off m m' hn]
      exact coverL_none_mode s e cs _ m m' h
end

/-! ### the covering node is the innermost one -/
mutual
theorem cover_minimal (s e : Nat) : (n : ENode) → (off : Nat) → (mode : LMode) → (m : ENode) → (off' : Nat) → (mode' : LMode) →
    cover s e n off mode = some (m, off', mode') → ∀ md, coverL s e m.children off' md = none
  | .leaf k t err, off, mode, m, off', mode', h, md => by
    unfold cover at h
    simp only at h
    split at h
    · simp only [Option.some.injEq, Prod.mk.injEq] at h
      obtain ⟨rfl, rfl, _⟩ := h
      unfold ENode.children coverL; rfl
    · cases h
  | .inner k cs err, off, mode, m, off', mode', h, md => by
    unfold cover at h
    simp only at h
    split at h
    · rename_i r hr
      cases h
      exact coverL_minimal s e cs off _ m off' mode' hr md
    · rename_i hn
      split at h
      · simp only [Option.some.injEq, Prod.mk.injEq] at h
        obtain ⟨rfl, rfl, _⟩ := h
        exact coverL_none_mode s e cs off _ md hn
      · cases h
theorem coverL_minimal (s e : Nat) : (cs : List ENode) → (off : Nat) → (mode : LMode) → (m : ENode) → (off' : Nat) → (mode' : LMode) →
    coverL s e cs off mode = some (m, off', mode') → ∀ md, coverL s e m.children off' md = none
  | [], off, mode, m, off', mode', h, md => by unfold coverL at h; cases h
  | c :: cs, off, mode, m, off', mode', h, md => by
    unfold coverL at h
    split at h
    · rename_i r hr
      cases h
      exact cover_minimal s e c off mode m off' mode' hr md
    · exact coverL_minimal s e cs _ mode m off' mode' h md
end

/-! ### the covering node is a node of the tree, at the offset that is returned -/

/-- `Occurs root off m off'`: `m` is a node of the tree `root` (which starts at byte `off`) and starts at byte `off'`. -/
inductive Occurs : ENode → Nat → ENode → Nat → Prop
  | here {n off} : Occurs n off n off
  | child {k err pre c post off m off'} : Occurs c (off + ENode.lenL pre) m off' → Occurs (.inner k (pre ++ c :: post) err) off m off'

theorem lenL_append (a b : List ENode) : ENode.lenL (a ++ b) = ENode.lenL a + ENode.lenL b := by
  induction a with
  | nil => simp [ENode.lenL]
  | cons x xs ih => simp only [List.cons_append, ENode.lenL, ih]; omega

mutual
theorem cover_occurs (s e : Nat) : (n : ENode) → (off : Nat) → (mode : LMode) → (m : ENode) → (off' : Nat) → (mode' : LMode) →
    cover s e n off mode = some (m, off', mode') → Occurs n off m off'
  | .leaf k t err, off, mode, m, off', mode', h => by
    unfold cover at h
    simp only at h
    split at h
    · simp only [Option.some.injEq, Prod.mk.injEq] at h
      obtain ⟨rfl, rfl, _⟩ := h
      exact Occurs.here
    · cases h
  | .inner k cs err, off, mode, m, off', mode', h => by
    unfold cover at h
    simp only at h
    split at h
    · rename_i r hr
      cases h
      obtain ⟨pre, c, post, rfl, ho⟩ := coverL_occurs s e cs off _ m off' mode' hr
      exact Occurs.child ho
    · split at h
      · simp only [Option.some.injEq, Prod.mk.injEq] at h
        obtain ⟨rfl, rfl, _⟩ := h
        exact Occurs.here
      · cases h
theorem coverL_occurs (s e : Nat) : (cs : List ENode) → (off : Nat) → (mode : LMode) → (m : ENode) → (off' : Nat) → (mode' : LMode) →
    coverL s e cs off mode = some (m, off', mode') → ∃ pre c post, cs = pre ++ c :: post ∧ Occurs c (off + ENode.lenL pre) m off'
  | [], off, mode, m, off', mode', h => by unfold coverL at h; cases h
  | c :: cs, off, mode, m, off', mode', h => by
    unfold coverL at h
    split at h
    · rename_i r hr
      cases h
      exact ⟨[], c, cs, rfl, by simpa [ENode.lenL] using cover_occurs s e c off mode m off' mode' hr⟩
    · obtain ⟨pre, c', post, rfl, ho⟩ := coverL_occurs s e cs _ mode m off' mode' h
      refine ⟨c :: pre, c', post, rfl, ?_⟩
      simp only [ENode.lenL]
      rw [← Nat.add_assoc]; exact ho
end

/-! ### refusal is justified: nothing is found only when no Markup/expression/pattern contains the range -/
mutual
theorem cover_complete (s e : Nat) : (n : ENode) → (off : Nat) → (mode : LMode) →
    cover s e n off mode = none → ∀ m off', Occurs n off m off' → ¬ (off' ≤ s ∧ e ≤ off' + m.len ∧ isCoverKind m.kind = true)
  | .leaf k t err, off, mode, h, m, off', ho => by
    cases ho
    unfold cover at h
    simp only at h
    split at h
    · cases h
    · rename_i hc
      intro ⟨h1, h2, h3⟩
      apply hc
      simp only [Bool.and_eq_true, decide_eq_true_eq]
      exact ⟨⟨h1, by simpa [ENode.len] using h2⟩, h3⟩
  | .inner k cs err, off, mode, h, m, off', ho => by
    unfold cover at h
    simp only at h
    split at h
    · cases h
    · rename_i hn
      split at h
      · cases h
      · rename_i hc
        cases ho with
        | here =>
          intro ⟨h1, h2, h3⟩
          apply hc
          simp only [Bool.and_eq_true, decide_eq_true_eq]
          exact ⟨⟨h1, by simpa [ENode.len] using h2⟩, h3⟩
        | child ho' => exact coverL_complete s e _ off _ hn _ _ _ rfl _ _ ho'
theorem coverL_complete (s e : Nat) : (cs : List ENode) → (off : Nat) → (mode : LMode) →
    coverL s e cs off mode = none → ∀ pre c post, cs = pre ++ c :: post → ∀ m off', Occurs c (off + ENode.lenL pre) m off' →
      ¬ (off' ≤ s ∧ e ≤ off' + m.len ∧ isCoverKind m.kind = true)
  | [], off, mode, h, pre, c, post, hcs, m, off', ho => by simp at hcs
  | x :: xs, off, mode, h, pre, c, post, hcs, m, off', ho => by
    unfold coverL at h
    split at h
    · cases h
    · rename_i hn
      cases pre with
      | nil =>
        simp only [List.nil_append, List.cons.injEq] at hcs
        obtain ⟨rfl, rfl⟩ := hcs
        simp only [ENode.lenL, Nat.add_zero] at ho
        exact cover_complete s e x off mode hn m off' ho
      | cons p pre =>
        simp only [List.cons_append, List.cons.injEq] at hcs
        obtain ⟨rfl, rfl⟩ := hcs
        simp only [ENode.lenL] at ho
        rw [← Nat.add_assoc] at ho
        exact coverL_complete s e _ _ mode h pre c post rfl m off' ho
end

end Typstyle
