import TypstyleModel.Model.Range
/-! Range selection (`get_node_cover_range`): what `cover` returns. -/
namespace Typstyle

mutual
theorem cover_spec (s e : Nat) : (n : ENode) → (off : Nat) → (mode : LMode) → (m : ENode) → (off' : Nat) → (mode' : LMode) →
    cover s e n off mode = some (m, off', mode') →
    off' ≤ s ∧ e ≤ off' + m.len ∧ isCoverKind m.kind = true ∧ off ≤ off' ∧ off' + m.len ≤ off + n.len
  | .leaf k t err, off, mode, m, off', mode', h => by
    unfold cover at h
    simp only at h
    split at h
    · rename_i hc
      simp only [Option.some.injEq, Prod.mk.injEq] at h
      obtain ⟨rfl, rfl, _⟩ := h
      simp only [Bool.and_eq_true, decide_eq_true_eq] at hc
      exact ⟨hc.1.1, by simpa [ENode.len] using hc.1.2, hc.2, Nat.le_refl _, Nat.le_refl _⟩
    · cases h
  | .inner k cs err, off, mode, m, off', mode', h => by
    unfold cover at h
    simp only at h
    split at h
    · rename_i r hr
      cases h
      have := coverL_spec s e cs off (modeOfKind k mode) m off' mode' hr
      exact ⟨this.1, this.2.1, this.2.2.1, this.2.2.2.1, by simpa [ENode.len] using this.2.2.2.2⟩
    · split at h
      · rename_i hc
        simp only [Option.some.injEq, Prod.mk.injEq] at h
        obtain ⟨rfl, rfl, _⟩ := h
        simp only [Bool.and_eq_true, decide_eq_true_eq] at hc
        exact ⟨hc.1.1, by simpa [ENode.len] using hc.1.2, hc.2, Nat.le_refl _, Nat.le_refl _⟩
      · cases h
theorem coverL_spec (s e : Nat) : (cs : List ENode) → (off : Nat) → (mode : LMode) → (m : ENode) → (off' : Nat) → (mode' : LMode) →
    coverL s e cs off mode = some (m, off', mode') →
    off' ≤ s ∧ e ≤ off' + m.len ∧ isCoverKind m.kind = true ∧ off ≤ off' ∧ off' + m.len ≤ off + ENode.lenL cs
  | [], off, mode, m, off', mode', h => by unfold coverL at h; cases h
  | c :: cs, off, mode, m, off', mode', h => by
    unfold coverL at h
    split at h
    · rename_i r hr
      cases h
      have := cover_spec s e c off mode m off' mode' hr
      exact ⟨this.1, this.2.1, this.2.2.1, this.2.2.2.1, by simp only [ENode.lenL]; omega⟩
    · have := coverL_spec s e cs (off + c.len) mode m off' mode' h
      exact ⟨this.1, this.2.1, this.2.2.1, by omega, by simp only [ENode.lenL]; omega⟩
end

end Typstyle
