import TypstyleModel.Model.Text
/-! Theorems about `utils::strip_trailing_whitespace` (stage 5), for all strings. -/
namespace Typstyle

theorem splitNl_ne_nil {s : List Char} (h : s ≠ []) : splitNl s ≠ [] := by
  cases s with
  | nil => exact absurd rfl h
  | cons c cs =>
    simp only [splitNl]
    split
    · simp
    · split <;> simp

/-- S1: the result is never empty. -/
theorem stripL_ne_nil (s : List Char) : stripL s ≠ [] := by
  unfold stripL
  split
  · simp
  · rename_i h
    have := splitNl_ne_nil h
    unfold linesL
    cases hs : splitNl s with
    | nil => exact absurd hs this
    | cons p ps => simp

/-- S2: the result ends with a line feed. -/
theorem stripL_getLast (s : List Char) : (stripL s).getLast? = some '\n' := by
  unfold stripL
  split
  · rfl
  · rename_i h
    have := splitNl_ne_nil h
    unfold linesL
    generalize splitNl s = ps at this
    induction ps with
    | nil => exact absurd rfl this
    | cons p ps ih =>
      cases ps with
      | nil => simp [List.getLast?_append]
      | cons q qs =>
        have := ih (by simp)
        simp only [List.map_cons, List.flatMap_cons] at this ⊢
        rw [List.getLast?_append, this]
        simp

theorem trimEndL_last (l : List Char) (c : Char) (hc : (trimEndL l).getLast? = some c) : isWs c = false := by
  unfold trimEndL at hc
  rw [List.getLast?_reverse] at hc
  have := List.head?_dropWhile_not isWs l.reverse
  rw [hc] at this
  simpa using this

/-- Pieces of `splitNl` contain no line feed. -/
theorem splitNl_noNl (s : List Char) : ∀ p ∈ splitNl s, '\n' ∉ p.1 := by
  induction s with
  | nil => simp [splitNl]
  | cons c cs ih =>
    simp only [splitNl]
    split
    · intro p hp
      simp only [List.mem_cons] at hp
      rcases hp with rfl | hp
      · simp
      · exact ih p hp
    · rename_i hne
      split
      · intro p hp
        simp only [List.mem_cons, List.not_mem_nil, or_false] at hp
        subst hp
        simpa using fun h => hne h.symm
      · rename_i l t rest heq
        intro p hp
        simp only [List.mem_cons] at hp
        rcases hp with rfl | hp
        · have := ih (l, t) (by rw [heq]; simp)
          simp only [List.mem_cons, not_or]
          exact ⟨fun h => hne h.symm, this⟩
        · exact ih p (by rw [heq]; simp [hp])

theorem splitNl_append_nl (l rest : List Char) (h : '\n' ∉ l) :
    splitNl (l ++ '\n' :: rest) = (l, true) :: splitNl rest := by
  induction l with
  | nil => simp [splitNl]
  | cons c cs ih =>
    simp only [List.mem_cons, not_or] at h
    have hc : c ≠ '\n' := fun e => h.1 e.symm
    simp only [List.cons_append, splitNl, hc, if_false]
    rw [ih h.2]

theorem mem_dropLastCr {l : List Char} {c : Char} (h : c ∈ dropLastCr l) : c ∈ l := by
  unfold dropLastCr at h
  split at h
  · rename_i r heq
    have : l = (r.reverse ++ ['\r']) := by
      have := congrArg List.reverse heq
      simpa using this
    rw [this]; simp [h]
  · exact h

theorem mem_trimEndL {l : List Char} {c : Char} (h : c ∈ trimEndL l) : c ∈ l := by
  unfold trimEndL at h
  have := (List.dropWhile_sublist isWs (l := l.reverse)).subset (List.mem_reverse.mp h)
  simpa using this

theorem linesL_noNl (s : List Char) : ∀ l ∈ linesL s, '\n' ∉ l := by
  intro l hl
  unfold linesL at hl
  simp only [List.mem_map] at hl
  obtain ⟨p, hp, rfl⟩ := hl
  have := splitNl_noNl s p hp
  split
  · exact fun h => this (mem_dropLastCr h)
  · exact this

/-- The lines of a concatenation of LF-terminated, LF-free lines are these lines. -/
theorem splitNl_flatMap (ls : List (List Char)) (f : List Char → List Char) (h : ∀ l ∈ ls, '\n' ∉ f l) :
    splitNl (ls.flatMap fun l => f l ++ ['\n']) = ls.map fun l => (f l, true) := by
  induction ls with
  | nil => simp [splitNl]
  | cons l ls ih =>
    simp only [List.flatMap_cons, List.map_cons, List.append_assoc, List.singleton_append]
    rw [splitNl_append_nl _ _ (h l (by simp)), ih (fun l' hl' => h l' (by simp [hl']))]

/-- S3: every line of the result is LF-terminated and is empty or ends in a non-blank. -/
theorem stripL_lines (s : List Char) :
    ∀ p ∈ splitNl (stripL s), p.2 = true ∧ ∀ c, p.1.getLast? = some c → isWs c = false := by
  unfold stripL
  split
  · simp [splitNl]
  · rw [splitNl_flatMap _ trimEndL (fun l hl h => linesL_noNl s l hl (mem_trimEndL h))]
    intro p hp
    simp only [List.mem_map] at hp
    obtain ⟨l, _, rfl⟩ := hp
    exact ⟨rfl, fun c hc => trimEndL_last l c hc⟩

theorem trimEndL_idem (l : List Char) : trimEndL (trimEndL l) = trimEndL l := by
  unfold trimEndL
  simp only [List.reverse_reverse]
  congr 1
  cases h : List.dropWhile isWs l.reverse with
  | nil => rfl
  | cons c cs =>
    have := List.head?_dropWhile_not isWs l.reverse
    rw [h] at this
    simp only [List.head?_cons, Option.all_some] at this
    simp only [List.dropWhile_cons]
    simp_all

theorem dropLastCr_trimEndL (l : List Char) : dropLastCr (trimEndL l) = trimEndL l := by
  unfold dropLastCr
  split
  · rename_i r heq
    have hlast : (trimEndL l).getLast? = some '\r' := by
      rw [← List.head?_reverse, heq]; rfl
    have := trimEndL_last l '\r' hlast
    simp [isWs] at this
  · rfl

theorem stripL_of_ne {t : List Char} (h : t ≠ []) :
    stripL t = (linesL t).flatMap fun l => trimEndL l ++ ['\n'] := by
  simp [stripL, h]

/-- S4: stripping is idempotent. -/
theorem stripL_idem (s : List Char) : stripL (stripL s) = stripL s := by
  have hne := stripL_ne_nil s
  rw [stripL_of_ne hne]
  unfold linesL
  by_cases hs : s = []
  · subst hs
    simp [stripL, splitNl, dropLastCr, trimEndL]
  · have hform := stripL_of_ne hs
    rw [hform, splitNl_flatMap _ trimEndL (fun l hl h => linesL_noNl s l hl (mem_trimEndL h))]
    simp only [List.map_map, List.flatMap_map]
    generalize linesL s = ls
    induction ls with
    | nil => rfl
    | cons l ls ih => simp [List.flatMap_cons, dropLastCr_trimEndL, trimEndL_idem, ih]

/-- S5a: characters that are not white space are neither added, dropped nor reordered. -/
theorem trimEndL_filter (l : List Char) : (trimEndL l).filter (fun c => !isWs c) = l.filter (fun c => !isWs c) := by
  unfold trimEndL
  have key : ∀ r : List Char, (r.dropWhile isWs).filter (fun c => !isWs c) = r.filter (fun c => !isWs c) := by
    intro r
    induction r with
    | nil => rfl
    | cons c cs ih =>
      simp only [List.dropWhile_cons]
      split
      · rename_i h; simp [List.filter_cons, h, ih]
      · rfl
  have := key l.reverse
  rw [List.filter_reverse] at this ⊢
  rw [this]
  simp

end Typstyle
