import TypstyleModel.Model.Printer.Markup
/-! `collect_markup_repr`: the line representation keeps every node that is not white space. -/
namespace Typstyle

def isWsNode (n : ANode) : Bool := n.kind == .space || n.kind == .parbreak

/-- All nodes of the representation so far, in order. -/
def reprNodes (acc : List MLine × MLine × Bound) : List ANode := acc.1.flatMap (·.nodes) ++ acc.2.1.nodes

theorem reprStep_keeps (acc : List MLine × MLine × Bound) (node : ANode) :
    (reprNodes (reprStep acc node)).filter (fun n => !isWsNode n) =
      (reprNodes acc).filter (fun n => !isWsNode n) ++ (if isWsNode node then [] else [node]) := by
  obtain ⟨lines, cur, sb⟩ := acc
  unfold reprStep reprNodes
  simp only
  split
  · rename_i h
    have : isWsNode node = true := by simp [isWsNode, h]
    simp [this, List.flatMap_append]
  · split
    · rename_i h
      have : isWsNode node = true := by
        simp only [Bool.and_eq_true] at h; simp [isWsNode, h.1]
      simp [this]
    · split
      · rename_i h
        have : isWsNode node = true := by
          simp only [Bool.and_eq_true] at h; simp [isWsNode, h.1]
        simp [this, List.flatMap_append]
      · by_cases hw : isWsNode node = true
        · simp [hw, List.filter_append]
          split <;> rfl
        · simp [hw, List.filter_append]
          split <;> rfl

theorem repr_keeps_every_node (children : List ANode) (acc : List MLine × MLine × Bound) :
    (reprNodes (children.foldl reprStep acc)).filter (fun n => !isWsNode n) =
      (reprNodes acc).filter (fun n => !isWsNode n) ++ children.filter (fun n => !isWsNode n) := by
  induction children generalizing acc with
  | nil => simp
  | cons c cs ih =>
    simp only [List.foldl_cons]
    rw [ih, reprStep_keeps, List.append_assoc]
    congr 1
    by_cases h : isWsNode c = true <;> simp [h]

end Typstyle
