import TypstyleModel.Model.Printer.Math
import TypstyleModel.Proofs.Monad
/-! C09: the document `convert_math` builds for a `Math` node is the concatenation, in source order,
of exactly one piece per child; the piece of every child that is not an expression is determined by
that child alone (white space ↦ one hard break or one blank, according to whether it held a line break). -/
namespace Typstyle
open Twin

/-- The piece `convert_math` appends for `node`. An expression child contributes whatever its own
conversion returns (`True` here: nothing is claimed about it); every other child is determined. -/
def MathPiece (e : Env) (node : ANode) (d : Doc) : Prop :=
  isExpr node = false →
    (node.kind = .space → d = (if hasLinebreak node.text then Twin.hardline else Twin.space)) ∧
    (node.kind ≠ .space → node.kind = .hash → d = e.syn "#") ∧
    (node.kind ≠ .space → node.kind ≠ .hash → isCommentKind node.kind = true → d = e.cmtT node.text) ∧
    (node.kind ≠ .space → node.kind ≠ .hash → isCommentKind node.kind = false → d = e.tok node.text)

/-- `pieces` are the pieces of `nodes`, one each, in order. -/
inductive Pieces (e : Env) : List ANode → List Doc → Prop
  | nil : Pieces e [] []
  | cons {n d ns ds} : MathPiece e n d → Pieces e ns ds → Pieces e (n :: ns) (d :: ds)

theorem Pieces.snoc {e : Env} {ns : List ANode} {ds : List Doc} {n : ANode} {d : Doc}
    (h : Pieces e ns ds) (hp : MathPiece e n d) : Pieces e (ns ++ [n]) (ds ++ [d]) := by
  induction h with
  | nil => exact Pieces.cons hp Pieces.nil
  | cons h1 _ ih => exact Pieces.cons h1 ih

theorem Pieces.length {e : Env} {ns : List ANode} {ds : List Doc} (h : Pieces e ns ds) : ds.length = ns.length := by
  induction h with
  | nil => rfl
  | cons _ _ ih => simp [ih]

theorem concatDocs_snoc (ds : List Doc) (d : Doc) : concatDocs (ds ++ [d]) = concatDocs ds ++ d := by
  unfold concatDocs; rw [List.foldl_append]; rfl

/-- One step: the accumulated document grows by exactly one piece. -/
theorem mathStep_piece (e : Env) (r : Rec) (ctx : Ctx) (acc : Doc × Bool) (node : ANode) :
    Post (mathStep e r ctx acc node) (fun acc' => ∃ d, MathPiece e node d ∧ acc'.1 = acc.1 ++ d) := by
  obtain ⟨doc, atHash⟩ := acc
  unfold mathStep
  simp only
  split
  · rename_i hx
    refine Post.bind (Q := fun _ => True) (fun _ _ _ _ => trivial) (fun d _ => Post.pure ⟨d, ?_, rfl⟩)
    intro hne; rw [hx] at hne; cases hne
  · split
    · rename_i hs
      have hs' : node.kind = .space := by simpa using hs
      exact Post.pure ⟨_, fun _ => ⟨fun _ => rfl, fun h => absurd hs' h, fun h => absurd hs' h, fun h => absurd hs' h⟩, rfl⟩
    · rename_i hs
      have hs' : node.kind ≠ .space := by simpa using hs
      split
      · rename_i hh
        have hh' : node.kind = .hash := by simpa using hh
        exact Post.pure ⟨_, fun _ => ⟨fun h => absurd h hs', fun _ _ => rfl, fun _ h => absurd hh' h, fun _ h => absurd hh' h⟩, rfl⟩
      · rename_i hh
        have hh' : node.kind ≠ .hash := by simpa using hh
        split
        · rename_i hc
          exact Post.pure ⟨_, fun _ => ⟨fun h => absurd h hs', fun _ h => absurd h hh', fun _ _ _ => rfl,
            fun _ _ h => by rw [hc] at h; cases h⟩, rfl⟩
        · rename_i hc
          exact Post.pure ⟨_, fun _ => ⟨fun h => absurd h hs', fun _ h => absurd h hh',
            fun _ _ h => absurd h hc, fun _ _ _ => rfl⟩, rfl⟩

/-- **The math document is the sequence of its children's pieces.** -/
theorem math_fold_pieces (e : Env) (r : Rec) (ctx : Ctx) (cs : List ANode) :
    Post (cs.foldlM (mathStep e r ctx) (Doc.nil, false))
      (fun acc => ∃ pieces, Pieces e cs pieces ∧ acc.1 = concatDocs pieces) := by
  have := Post.foldlM_idx (step := mathStep e r ctx)
    (Inv := fun pre acc => ∃ pieces, Pieces e pre pieces ∧ acc.1 = concatDocs pieces) cs [] (Doc.nil, false)
    ⟨[], Pieces.nil, rfl⟩
    (fun pre acc x ⟨ps, hps, hacc⟩ =>
      Post.mono (mathStep_piece e r ctx acc x) (fun acc' ⟨d, hd, heq⟩ =>
        ⟨ps ++ [d], hps.snoc hd, by rw [heq, hacc, concatDocs_snoc]⟩))
  simpa using this

end Typstyle
