import TypstyleModel.Proofs.CarriesLists
import TypstyleModel.Proofs.ChainSafe
/-! The chain stylist (`ChainStylist`, binary-operator chains and dot chains) carries, in order, what the
operands, operators and comments of the chain contribute. -/
namespace Typstyle
open Twin

def citemS : CItem → Streams
  | .body d | .op d | .comment d | .attached d => d.ss
  | .linebreak => {}
def citemGood : CItem → Bool
  | .body d | .op d | .comment d | .attached d => d.good
  | .linebreak => true
def citemsS : List CItem → Streams
  | [] => {}
  | it :: rest => (citemS it).app (citemsS rest)
def citemsGood : List CItem → Bool
  | [] => true
  | it :: rest => citemGood it && citemsGood rest

theorem citemsS_append (a b : List CItem) : citemsS (a ++ b) = (citemsS a).app (citemsS b) := by
  induction a with
  | nil => simp [citemsS]
  | cons x xs ih => simp only [List.cons_append, citemsS, ih, Streams.app_assoc]

theorem citemsGood_append (a b : List CItem) : citemsGood (a ++ b) = (citemsGood a && citemsGood b) := by
  induction a with
  | nil => simp [citemsGood]
  | cons x xs ih => simp only [List.cons_append, citemsGood, ih, Bool.and_assoc]

/-- Invariant of the chain stylist while it processes: the items are good and carry `sp`; the first
item is not an attached comment; `can_attach` only once there is an item; no `not` is pending. -/
structure CInvS (cs : CS) (canAttach : Bool) (sp : Streams) : Prop where
  good : citemsGood cs.items = true
  eq : citemsS cs.items = sp
  head : headOK cs.items = true
  att : canAttach = true → cs.items ≠ []
  st : cs.opState = false

theorem CInvS.push {cs : CS} {ca : Bool} {sp : Streams} (h : CInvS cs ca sp) (it : CItem) (hg : citemGood it = true)
    (hna : cs.items = [] → ∀ d, it ≠ .attached d) (cs' : CS) (hi : cs'.items = cs.items ++ [it]) (hs : cs'.opState = false) (ca' : Bool) :
    CInvS cs' ca' (sp.app (citemS it)) := by
  refine ⟨?_, ?_, ?_, fun _ => by rw [hi]; simp, hs⟩
  · rw [hi, citemsGood_append, h.good]; simp [citemsGood, hg]
  · rw [hi, citemsS_append, h.eq]; simp [citemsS]
  · rw [hi]; exact headOK_append _ _ h.head hna

/-! ### printing -/

def cdocsS : List Doc → Streams
  | [] => {}
  | d :: rest => d.ss.app (cdocsS rest)
def cdocsGood : List Doc → Bool
  | [] => true
  | d :: rest => d.good && cdocsGood rest

theorem cdocsS_append (a b : List Doc) : cdocsS (a ++ b) = (cdocsS a).app (cdocsS b) := by
  induction a with
  | nil => simp [cdocsS]
  | cons x xs ih => simp only [List.cons_append, cdocsS, ih, Streams.app_assoc]

theorem cdocsGood_append (a b : List Doc) : cdocsGood (a ++ b) = (cdocsGood a && cdocsGood b) := by
  induction a with
  | nil => simp [cdocsGood]
  | cons x xs ih => simp only [List.cons_append, cdocsGood, ih, Bool.and_assoc]

theorem appendLast_S (docs : List Doc) (d : Doc) (hd : d.good = true) (hg : cdocsGood docs = true) (hne : docs ≠ []) :
    cdocsS (appendLast docs d) = (cdocsS docs).app d.ss ∧ cdocsGood (appendLast docs d) = true ∧ appendLast docs d ≠ [] := by
  unfold appendLast
  cases hl : docs.getLast? with
  | none => exact absurd (List.getLast?_eq_none_iff.mp hl) hne
  | some l =>
    have hdec := dropLast_getLast docs l hl
    have hg' := hg
    rw [hdec, cdocsGood_append] at hg'
    simp only [cdocsGood, Bool.and_true, Bool.and_eq_true] at hg'
    refine ⟨?_, ?_, by simp⟩
    · conv => rhs; rw [hdec]
      rw [cdocsS_append, cdocsS_append]
      simp only [cdocsS, Streams.app_empty, Streams.app_assoc]
      rfl
    · rw [cdocsGood_append, hg'.1]
      simp only [cdocsGood, Bool.and_true, Bool.true_and]
      show (l.good && d.good) = true
      rw [hg'.2, hd]; rfl

theorem concatDocs_cdocs (docs : List Doc) (hg : cdocsGood docs = true) : Carries (concatDocs docs) (cdocsS docs) := by
  unfold concatDocs
  suffices ∀ (acc : Doc) (sa : Streams), Carries acc sa → Carries (docs.foldl (· ++ ·) acc) (sa.app (cdocsS docs)) by
    simpa using this Doc.nil {} Carries.nil
  induction docs with
  | nil => intro acc sa ha; simpa [cdocsS] using ha
  | cons d rest ih =>
    intro acc sa ha
    simp only [cdocsGood, Bool.and_eq_true] at hg
    rw [List.foldl_cons]
    have := ih hg.2 (acc ++ d) (sa.app d.ss) (ha.app ⟨hg.1, rfl⟩)
    simpa [cdocsS, Streams.app_assoc] using this

/-- Invariant of the loop of `print_doc`. -/
structure PInv (acc : List Doc × Bool × Bool × Bool) (sp : Streams) : Prop where
  good : cdocsGood acc.1 = true
  eq : cdocsS acc.1 = sp
  lead : acc.1 = [] → acc.2.2.1 = true

theorem printStep_inv (opSep : Doc) (hsep : Carries opSep {}) (simple sp' : Bool) (acc : List Doc × Bool × Bool × Bool) (sp : Streams)
    (h : PInv acc sp) (it : CItem) (hg : citemGood it = true) (hna : acc.1 = [] → ∀ d, it ≠ .attached d) :
    PInv (CS.printStep opSep simple sp' acc it) (sp.app (citemS it)) := by
  obtain ⟨docs, hb, ld, sa⟩ := acc
  obtain ⟨h1, h2, h3⟩ := h
  simp only at h1 h2 h3 hna
  have snoc : ∀ (d : Doc) (s : Streams), Carries d s → cdocsGood (docs ++ [d]) = true ∧ cdocsS (docs ++ [d]) = sp.app s := by
    intro d s hd
    refine ⟨by rw [cdocsGood_append, h1]; simp [cdocsGood, hd.1], ?_⟩
    rw [cdocsS_append, h2]; simp [cdocsS, hd.2]
  cases it with
  | body b =>
    have hbc : Carries b b.ss := ⟨hg, rfl⟩
    simp only [CS.printStep, citemS]
    by_cases hl : ld = true
    · simp only [hl, ↓reduceIte]
      exact ⟨(snoc b _ hbc).1, (snoc b _ hbc).2, fun h => by simp at h⟩
    · have hne : docs ≠ [] := fun hd => hl (h3 hd)
      simp only [hl, Bool.false_eq_true, ↓reduceIte]
      have := appendLast_S docs b hg h1 hne
      exact ⟨this.2.1, by rw [this.1, h2], fun h => absurd h this.2.2⟩
  | op o =>
    have hoc : Carries o o.ss := ⟨hg, rfl⟩
    simp only [CS.printStep, citemS]
    have step1 : cdocsGood (if !((hb && ld) || simple) then docs ++ [opSep] else docs) = true ∧
        cdocsS (if !((hb && ld) || simple) then docs ++ [opSep] else docs) = sp := by
      split
      · have := snoc opSep {} hsep
        exact ⟨this.1, by simpa using this.2⟩
      · exact ⟨h1, h2⟩
    split
    · refine ⟨?_, ?_, fun h => by simp at h⟩
      · rw [cdocsGood_append, step1.1]; simp [cdocsGood, (hoc.app Carries.space).1]
      · rw [cdocsS_append, step1.2]; simp [cdocsS, (hoc.app Carries.space).2]
    · refine ⟨?_, ?_, fun h => by simp at h⟩
      · rw [cdocsGood_append, step1.1]; simp [cdocsGood, hoc.1]
      · rw [cdocsS_append, step1.2]; simp [cdocsS]
  | comment c =>
    have hcc : Carries c c.ss := ⟨hg, rfl⟩
    simp only [CS.printStep, citemS]
    by_cases hl : ld = true
    · simp only [hl, ↓reduceIte]
      exact ⟨(snoc c _ hcc).1, (snoc c _ hcc).2, fun h => by simp at h⟩
    · have hne : docs ≠ [] := fun hd => hl (h3 hd)
      simp only [hl, Bool.false_eq_true, ↓reduceIte]
      have hx : Carries (if sa then Twin.space ++ c else c) c.ss := by
        split
        · simpa using Carries.space.app hcc
        · exact hcc
      have := appendLast_S docs _ hx.1 h1 hne
      exact ⟨this.2.1, by rw [this.1, h2, hx.2], fun h => absurd h this.2.2⟩
  | attached c =>
    have hcc : Carries c c.ss := ⟨hg, rfl⟩
    simp only [CS.printStep, citemS]
    have hne : docs ≠ [] := fun hd => hna hd c rfl
    have hx : Carries (if sa then Twin.space ++ c else c) c.ss := by
      split
      · simpa using Carries.space.app hcc
      · exact hcc
    have := appendLast_S docs _ hx.1 h1 hne
    exact ⟨this.2.1, by rw [this.1, h2, hx.2], fun h => absurd h this.2.2⟩
  | linebreak =>
    simp only [CS.printStep, citemS]
    have := snoc Twin.hardline {} Carries.hardline
    exact ⟨this.1, by simpa using this.2, fun h => by simp at h⟩

theorem foldl_printStep_inv (opSep : Doc) (hsep : Carries opSep {}) (simple sp' : Bool) (items : List CItem)
    (acc : List Doc × Bool × Bool × Bool) (sp : Streams) (h : PInv acc sp) (hg : citemsGood items = true)
    (hhead : acc.1 = [] → headOK items = true) :
    PInv (items.foldl (CS.printStep opSep simple sp') acc) (sp.app (citemsS items)) := by
  induction items generalizing acc sp with
  | nil => simpa [citemsS] using h
  | cons it rest ih =>
    simp only [citemsGood, Bool.and_eq_true] at hg
    rw [List.foldl_cons]
    have hstep := printStep_inv opSep hsep simple sp' acc sp h it hg.1 (fun he d hd => by
      have := hhead he; rw [hd] at this; simp [headOK] at this)
    have hne : (CS.printStep opSep simple sp' acc it).1 ≠ [] := by
      by_cases he : acc.1 = []
      · have hh := hhead he
        have : headOK [it] = true := by cases it <;> simp_all [headOK]
        obtain ⟨docs, hb, ld, sa⟩ := acc
        simp only at he; subst he
        have hl := h.lead rfl
        simp only at hl; subst hl
        cases it <;> simp [CS.printStep, headOK] at this ⊢
        · split <;> split <;> simp
      · exact printStep_ne_nil opSep simple sp' acc it he
    have := ih _ _ hstep hg.2 (fun he => absurd he hne)
    simpa [citemsS, Streams.app_assoc] using this

/-- **`print_doc` of the chain stylist carries exactly the items**, in order. -/
theorem chain_print_carries (e : Env) (cs : CS) (nbs sp' : Bool) (hg : citemsGood cs.items = true) (hh : headOK cs.items = true) :
    Post (cs.print e nbs sp') (fun d => Carries d (citemsS cs.items)) := by
  unfold CS.print
  simp only
  have hsep : Carries (if sp' then Twin.line else Twin.line_) {} := by split; exact Carries.line; exact Carries.line_
  have hf := foldl_printStep_inv (if sp' then Twin.line else Twin.line_) hsep (cs.opNum == 1 && nbs && !cs.hasComment) sp' cs.items
    ([], false, true, true) {} ⟨rfl, rfl, fun _ => rfl⟩ hg (fun _ => hh)
  simp only [Streams.empty_app] at hf
  split
  · exact Post.rejected _
  · rename_i first rest hdocs
    have hgd := hf.good
    have heq := hf.eq
    rw [hdocs] at hgd heq
    simp only [cdocsGood, Bool.and_eq_true] at hgd
    simp only [cdocsS] at heq
    have hfirst : Carries first first.ss := ⟨hgd.1, rfl⟩
    have hfollow := concatDocs_cdocs rest hgd.2
    rw [← heq]
    split
    · exact Post.pure ((hfirst.app hfollow).grp)
    · exact Post.pure ((hfirst.app hfollow.nstTab).grp)

theorem optionalParen_carries (e : Env) (body : Doc) (sb : Streams) (hb : Carries body sb) (d0 d1 : String)
    (h0 : d0.toList.filter Pretty.keepChar = []) (h1 : d1.toList.filter Pretty.keepChar = []) :
    Carries (optionalParen e body d0 d1) sb := by
  unfold optionalParen
  have hop : Carries (Doc.falt (e.soft d0 ++ Twin.hardline) Doc.nil) {} :=
    Carries.falt (by simpa using (Carries.soft e d0 h0).app Carries.hardline) Carries.nil
  have hcl : Carries (Doc.falt (Twin.hardline ++ e.soft d1) Doc.nil) {} :=
    Carries.falt (by simpa using Carries.hardline.app (Carries.soft e d1 h1)) Carries.nil
  simpa using (((hop.app hb).nstTab).app hcl).grp

end Typstyle
