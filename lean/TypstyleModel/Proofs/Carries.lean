import TypstyleModel.Model.Printer.Knot
import TypstyleModel.Proofs.Monad
/-! Stream preservation *for every tree* (route M), built compositionally.

`Carries d s`: the document family `d` is `good` (its dynamic side conditions held) and carries the
five stream texts `s` — by `Twin.Doc.emits` every consistent layout of every member of the family then
contains exactly these texts.  This file: the algebra of `Carries` over the builder operations, and
the streams a tree prescribes (`specAll`).  The per-construct theorems are in `Proofs/CarriesFlow.lean`. -/
namespace Typstyle
open Twin

theorem Streams.ext' {a b : Streams} (h1 : a.tok = b.tok) (h2 : a.cmt = b.cmt) (h3 : a.prose = b.prose)
    (h4 : a.lit = b.lit) (h5 : a.verb = b.verb) : a = b := by
  cases a; cases b; simp_all

@[simp] theorem Streams.app_empty (s : Streams) : s.app {} = s := by
  apply Streams.ext' <;> simp [Streams.app]

@[simp] theorem Streams.empty_app (s : Streams) : Streams.app {} s = s := by
  apply Streams.ext' <;> simp [Streams.app]

theorem Streams.app_assoc (a b c : Streams) : (a.app b).app c = a.app (b.app c) := by
  apply Streams.ext' <;> simp [Streams.app, String.append_assoc]

/-- The family is good and carries the streams `s`. -/
def Carries (d : Doc) (s : Streams) : Prop := d.good = true ∧ d.ss = s

theorem Carries.app {a b : Doc} {sa sb : Streams} (ha : Carries a sa) (hb : Carries b sb) : Carries (a ++ b) (sa.app sb) := by
  obtain ⟨ga, rfl⟩ := ha
  obtain ⟨gb, rfl⟩ := hb
  exact ⟨by show (a.good && b.good) = true; simp [ga, gb], rfl⟩

theorem Carries.grp {d : Doc} {s : Streams} (h : Carries d s) : Carries d.grp s := h
theorem Carries.nstTab {d : Doc} {s : Streams} (h : Carries d s) : Carries d.nstTab s := h

theorem Carries.falt {b f : Doc} {s : Streams} (hb : Carries b s) (hf : Carries f s) : Carries (Doc.falt b f) s := by
  obtain ⟨gb, rfl⟩ := hb
  obtain ⟨gf, hfs⟩ := hf
  exact ⟨by show (b.good && f.good && b.ss == f.ss) = true; simp [gb, gf, hfs], rfl⟩

/-- The streams of a text with ghost tag `tag`. -/
def tagS (tag : Pretty.Tag) (s : String) : Streams :=
  ⟨String.ofList (Pretty.charsOf .tok tag s), String.ofList (Pretty.charsOf .cmt tag s),
   String.ofList (Pretty.charsOf .prose tag s), String.ofList (Pretty.charsOf .lit tag s),
   String.ofList (Pretty.charsOf .verb tag s)⟩

theorem Carries.mkText (wd : String → Nat) (tag : Pretty.Tag) (s : String) : Carries (Twin.mkText wd tag s) (tagS tag s) :=
  ⟨rfl, rfl⟩

theorem Carries.nil : Carries Doc.nil {} := ⟨rfl, rfl⟩
theorem Carries.space : Carries Twin.space {} := ⟨rfl, rfl⟩
theorem Carries.hardline : Carries Twin.hardline {} := ⟨rfl, rfl⟩
theorem Carries.line : Carries Twin.line {} := Carries.falt Carries.hardline Carries.space
theorem Carries.line_ : Carries Twin.line_ {} := Carries.falt Carries.hardline Carries.nil

theorem Carries.enclose {d a b : Doc} {s sa sb : Streams} (hd : Carries d s) (ha : Carries a sa) (hb : Carries b sb) :
    Carries (d.enclose a b) ((sa.app s).app sb) := (ha.app hd).app hb

theorem Carries.repeatN {d : Doc} (h : Carries d {}) (n : Nat) : Carries (Twin.repeatN d n) {} := by
  induction n with
  | zero => exact Carries.nil
  | succ n ih =>
    show Carries (Twin.repeatN d n ++ d) {}
    simpa using ih.app h

theorem Carries.congr {d : Doc} {s t : Streams} (h : Carries d s) (e : s = t) : Carries d t := e ▸ h

/-- A re-synthesised delimiter or separator carries nothing: its characters are blanks or the
delimiter characters `( ) { } , ; :`, which no stream accounts for. -/
theorem tagS_soft_of_noKeep (s : String) (h : s.toList.filter Pretty.keepChar = []) : tagS .soft s = {} := by
  apply Streams.ext' <;> simp [tagS, Pretty.charsOf, h]

theorem tagS_syn_of_noKeep (s : String) (h : s.toList.filter Pretty.keepChar = []) : tagS .syn s = {} := by
  apply Streams.ext' <;> simp [tagS, Pretty.charsOf, h]

theorem Carries.soft (e : Env) (s : String) (h : s.toList.filter Pretty.keepChar = []) : Carries (e.soft s) {} :=
  (Carries.mkText e.wd .soft s).congr (tagS_soft_of_noKeep s h)

/-! ### the streams a tree prescribes -/

def specAll (n : ANode) : Streams := ⟨specToks n, specCmts n, specProse n, specLit n, specVerb n⟩
def specAllL (cs : List ANode) : Streams := ⟨specToksL cs, specCmtsL cs, specProseL cs, specLitL cs, specVerbL cs⟩

@[simp] theorem specAllL_nil : specAllL [] = {} := by
  simp [specAllL, specToksL, specCmtsL, specProseL, specLitL, specVerbL]

theorem specAllL_cons (c : ANode) (cs : List ANode) : specAllL (c :: cs) = (specAll c).app (specAllL cs) := by
  simp [specAllL, specAll, Streams.app, specToksL, specCmtsL, specProseL, specLitL, specVerbL]

theorem specAllL_append (a b : List ANode) : specAllL (a ++ b) = (specAllL a).app (specAllL b) := by
  induction a with
  | nil => simp
  | cons c cs ih => rw [List.cons_append, specAllL_cons, specAllL_cons, ih, Streams.app_assoc]

theorem specAllL_snoc (a : List ANode) (c : ANode) : specAllL (a ++ [c]) = (specAllL a).app (specAll c) := by
  rw [specAllL_append, specAllL_cons, specAllL_nil, Streams.app_empty]

/-- An inner node that is not emitted verbatim and is not a raw element prescribes the
concatenation of what its children prescribe. -/
theorem specAll_inner (k : Kind) (cs : List ANode) (a : Attrs) (hv : isVerbatimNode k cs a = false) (hr : k ≠ .raw) :
    specAll (.inner k cs a) = specAllL cs := by
  have hr' : (k == Kind.raw) = false := by simpa using hr
  simp [specAll, specAllL, specToks, specCmts, specProse, specLit, specVerb, hv, hr']

end Typstyle
