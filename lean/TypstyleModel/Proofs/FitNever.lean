import TypstyleModel.Model.Stylist.List
import TypstyleModel.Model.Twin
/-! T3.2 (C03): a list laid out with `FoldStyle::Fit` whose group is *broken* is, atom for atom,
the list laid out with `FoldStyle::Never`.

This is the printer's half of convergence for every list-like construct (arguments, arrays,
dictionaries, parameters, destructurings, import items): a list that did not fit is printed with a
line break after the opening delimiter; the second pass therefore reads it as "multi-line
flavoured" and converts it with `Never` (`get_fold_style_untyped`) — and by this theorem the `Never`
document has exactly the layouts the `Fit` document has when its group is broken.

Stated on the languages of broken-mode layouts: `L d = { xs | Lay .brk d xs }`. -/
namespace Typstyle
open Pretty (Lay Atom Mode)

/-- The broken-mode layouts of a document. -/
def L (d : Pretty.Doc) : List Atom → Prop := fun xs => Lay .brk d xs

/-- Concatenation of layout languages. -/
def cat (A B : List Atom → Prop) : List Atom → Prop := fun xs => ∃ xa xb, xs = xa ++ xb ∧ A xa ∧ B xb

def unit : List Atom → Prop := fun xs => xs = []

theorem cat_assoc (A B C : List Atom → Prop) : cat (cat A B) C = cat A (cat B C) := by
  funext xs; apply propext; constructor
  · rintro ⟨xab, xc, rfl, ⟨xa, xb, rfl, ha, hb⟩, hc⟩
    exact ⟨xa, xb ++ xc, by simp, ha, xb, xc, rfl, hb, hc⟩
  · rintro ⟨xa, xbc, rfl, ha, xb, xc, rfl, hb, hc⟩
    exact ⟨xa ++ xb, xc, by simp, ⟨xa, xb, rfl, ha, hb⟩, hc⟩

theorem cat_unit_right (A : List Atom → Prop) : cat A unit = A := by
  funext xs; apply propext; constructor
  · rintro ⟨xa, xb, rfl, ha, hb⟩; rw [hb]; simpa using ha
  · intro h; exact ⟨xs, [], by simp, h, rfl⟩

theorem cat_unit_left (A : List Atom → Prop) : cat unit A = A := by
  funext xs; apply propext; constructor
  · rintro ⟨xa, xb, rfl, ha, hb⟩; rw [ha]; simpa using hb
  · intro h; exact ⟨[], xs, by simp, rfl, h⟩

theorem L_nil : L .nil = unit := by
  funext xs; apply propext; constructor
  · intro h; cases h; rfl
  · intro h; rw [h]; exact Lay.nil

theorem lay_app_intro {m : Mode} {a b : Pretty.Doc} {xa xb : List Atom} (ha : Lay m a xa) (hb : Lay m b xb) :
    Lay m (a ++ b) (xa ++ xb) := by
  show Lay m (Pretty.Doc.app a b) (xa ++ xb)
  unfold Pretty.Doc.app
  split
  · cases ha; simpa using hb
  · cases hb; simpa using ha
  · exact Lay.append ha hb

theorem L_app (a b : Pretty.Doc) : L (a ++ b) = cat (L a) (L b) := by
  funext xs; apply propext; constructor
  · intro h; exact Pretty.lay_app' h
  · rintro ⟨xa, xb, rfl, ha, hb⟩; exact lay_app_intro ha hb

theorem L_falt (b f : Pretty.Doc) : L (Pretty.Doc.falt b f) = L b := by
  funext xs; apply propext; constructor
  · intro h; cases h with | flatAltB h' => exact h'
  · intro h; exact Lay.flatAltB h

theorem L_line : L Pretty.line = L Pretty.hardline := L_falt _ _
theorem L_line_ : L Pretty.line_ = L Pretty.hardline := L_falt _ _

theorem L_nst (d : Pretty.Doc) (n : Nat) : L (d.nst n) = L d := by
  funext xs; apply propext
  unfold Pretty.Doc.nst
  split
  · exact Iff.rfl
  · split
    · exact Iff.rfl
    · constructor
      · intro h; cases h with | nest h' => exact h'
      · intro h; exact Lay.nest h

/-- A group may always stay broken: the layouts of `d` are layouts of `group d`. -/
theorem L_grp_of (d : Pretty.Doc) (xs : List Atom) (h : L d xs) : L d.grp xs := by
  unfold Pretty.Doc.grp
  split
  · exact h
  · exact h
  · split
    · exact h
    · exact Lay.groupSame h
  · exact Lay.groupSame h

/-! ### members of the family -/

theorem fam_repeatN (d : Twin.Doc) (n u : Nat) : (Twin.repeatN d n).fam u = Pretty.repeatN (d.fam u) n := by
  induction n with
  | zero => rfl
  | succ n ih => show (Twin.repeatN d n ++ d).fam u = _; rw [Twin.fam_app, ih]; rfl

theorem L_repeatN_congr (a b : Pretty.Doc) (h : L a = L b) (n : Nat) : L (Pretty.repeatN a n) = L (Pretty.repeatN b n) := by
  induction n with
  | zero => rfl
  | succ n ih =>
    show L (Pretty.repeatN a n ++ a) = L (Pretty.repeatN b n ++ b)
    rw [L_app, L_app, ih, h]

theorem fam_line (u : Nat) : Twin.line.fam u = Pretty.line := rfl
theorem fam_line_ (u : Nat) : Twin.line_.fam u = Pretty.line_ := rfl
theorem fam_optDoc_none (u : Nat) : (optDoc none).fam u = .nil := rfl

/-! ### one item -/

/-- One step of the `Fit` fold and one step of the `Never` fold add the same broken-mode layouts
(for a style without `tight_delim`). -/
theorem fitStep_neverStep (sty : ListStyle) (ht : sty.tightDelim = false) (count real : Nat) (trailing : Bool) (u : Nat)
    (fa : Twin.Doc × Nat × Nat) (na : Twin.Doc × Nat) (hL : L (fa.1.fam u) = L (na.1.fam u)) (hi : fa.2.1 = na.2) (item : LItem) :
    L ((fitStep sty count real trailing fa item).1.fam u) = L ((neverStep sty count na item).1.fam u) ∧
    (fitStep sty count real trailing fa item).2.1 = (neverStep sty count na item).2 := by
  obtain ⟨fi, i, seen⟩ := fa
  obtain ⟨ni, j⟩ := na
  simp only at hL hi
  subst hi
  cases item with
  | comment c =>
    simp only [fitStep, neverStep, ht, Bool.and_false, Bool.false_eq_true, ↓reduceIte, Twin.fam_app, L_app, hL, and_self]
  | linebreak n =>
    simp only [fitStep, neverStep, Twin.fam_app, L_app, hL, fam_repeatN, and_true]
    have h1 : L (Twin.line.fam u) = L (Twin.hardline.fam u) := by
      rw [fam_line, Twin.fam_hardline]; exact L_line
    rw [L_repeatN_congr _ _ h1 n]
  | commented body after =>
    simp only [fitStep, neverStep, ht, Bool.not_false, Bool.true_or, ↓reduceIte, Bool.and_false, Bool.false_eq_true,
      Twin.fam_app, L_app, hL, and_true]
    have hln : L ((if !(seen + 1 == real) then Twin.line else Twin.line_).fam u) = L (Twin.hardline.fam u) := by
      split
      · rw [fam_line, Twin.fam_hardline]; exact L_line
      · rw [fam_line_, Twin.fam_hardline]; exact L_line_
    rw [hln]
    cases after with
    | some a =>
      simp only [Twin.fam_falt, L_falt, Twin.fam_app, L_app, optDoc, cat_assoc]
    | none =>
      have hfol : L ((if (!(seen + 1 == real) || trailing) = true then sty.sep else Twin.Doc.falt sty.sep Twin.Doc.nil).fam u)
          = L (sty.sep.fam u) := by
        split
        · rfl
        · rw [Twin.fam_falt, L_falt]
      rw [hfol, fam_optDoc_none, L_nil, cat_unit_right]
      simp only [cat_assoc]

/-- The folds over all items. -/
theorem foldl_fit_never (sty : ListStyle) (ht : sty.tightDelim = false) (count real : Nat) (trailing : Bool) (u : Nat)
    (items : List LItem) (fa : Twin.Doc × Nat × Nat) (na : Twin.Doc × Nat)
    (hL : L (fa.1.fam u) = L (na.1.fam u)) (hi : fa.2.1 = na.2) :
    L ((items.foldl (fitStep sty count real trailing) fa).1.fam u) = L ((items.foldl (neverStep sty count) na).1.fam u) := by
  induction items generalizing fa na with
  | nil => exact hL
  | cons item items ih =>
    rw [List.foldl_cons, List.foldl_cons]
    have := fitStep_neverStep sty ht count real trailing u fa na hL hi item
    exact ih _ _ this.1 this.2

theorem L_enclose (d a b : Pretty.Doc) : L (d.enclose a b) = cat (cat (L a) (L d)) (L b) := by
  unfold Pretty.Doc.enclose; rw [L_app, L_app]

theorem fam_enclose (d a b : Twin.Doc) (u : Nat) : (d.enclose a b).fam u = (d.fam u).enclose (a.fam u) (b.fam u) := rfl

theorem cat_mono {A A' B B' : List Atom → Prop} (ha : ∀ xs, A xs → A' xs) (hb : ∀ xs, B xs → B' xs) :
    ∀ xs, cat A B xs → cat A' B' xs := by
  rintro xs ⟨xa, xb, rfl, h1, h2⟩; exact ⟨xa, xb, rfl, ha _ h1, hb _ h2⟩

/-- The body of the list (everything between the delimiters, indentation included) has the same
broken-mode layouts under `Fit` and under `Never`. -/
theorem fit_body_eq_never_body (sty : ListStyle) (ht : sty.tightDelim = false) (count real : Nat) (trailing : Bool)
    (items : List LItem) (u : Nat) :
    let fitInner := (items.foldl (fitStep sty count real trailing) (Twin.line_, 0, 0)).1
    let neverInner := (items.foldl (neverStep sty count) (Twin.hardline, 0)).1
    L ((if !sty.noIndent then fitInner.nstTab else fitInner).fam u) = L ((if !sty.noIndent then neverInner.nstTab else neverInner).fam u) := by
  intro fitInner neverInner
  have h : L (fitInner.fam u) = L (neverInner.fam u) :=
    foldl_fit_never sty ht count real trailing u items _ _ (by rw [fam_line_, Twin.fam_hardline]; exact L_line_) rfl
  split
  · rw [Twin.fam_nstTab, Twin.fam_nstTab, L_nst, L_nst, h]
  · exact h

/-- **Every layout of the `Never` document is a layout of the `Fit` document** (the one in which the
list's group is broken) — for every list state, every style without `tight_delim`, every unit; the
single-item form that drops its delimiters (`omit_delim_single`) excepted. -/
theorem never_layouts_are_fit_layouts (e : Env) (s : LS) (sty : ListStyle) (ht : sty.tightDelim = false)
    (hs : (s.realCount == 1 && sty.omitDelimSingle) = false) (hlc : s.hasLineComment = false) (u : Nat) (xs : List Atom)
    (h : L (({ s with fold := .never }).print e sty |>.fam u) xs) : L (({ s with fold := .fit }).print e sty |>.fam u) xs := by
  unfold LS.print at h ⊢
  simp only [hlc, Bool.false_eq_true, ↓reduceIte] at h ⊢
  split
  · rename_i he; simp only [he, ↓reduceIte] at h; exact h
  · rename_i he
    simp only [he, Bool.false_eq_true, ↓reduceIte, ht, hs] at h ⊢
    have hb := fit_body_eq_never_body sty ht s.items.length s.realCount
      (sty.addTrailingSepAlways || (s.realCount == 1 && sty.addTrailingSepSingle)) s.items u
    simp only [ht, Bool.false_eq_true, ↓reduceIte] at hb
    rw [fam_enclose, L_enclose, ← hb] at h
    split
    · apply L_grp_of
      rw [fam_enclose, L_enclose, Twin.fam_falt, Twin.fam_falt, L_falt, L_falt]
      exact h
    · split
      · apply L_grp_of
        rw [fam_enclose, L_enclose, Twin.fam_falt, Twin.fam_falt, L_falt, L_falt]
        exact h
      · rw [fam_enclose, L_enclose, Twin.fam_grp]
        exact cat_mono (cat_mono (fun _ h => h) (L_grp_of _)) (fun _ h => h) xs h

/-- The `Never` fold only ever appends to what it has. -/
theorem neverStep_appends (sty : ListStyle) (count : Nat) (u : Nat) (acc : Twin.Doc × Nat) (item : LItem) :
    ∃ D, L ((neverStep sty count acc item).1.fam u) = cat (L (acc.1.fam u)) D := by
  obtain ⟨inner, i⟩ := acc
  cases item with
  | comment c => exact ⟨_, by simp only [neverStep, Twin.fam_app, L_app]; rfl⟩
  | linebreak n => exact ⟨_, by simp only [neverStep, Twin.fam_app, L_app]; rfl⟩
  | commented body after =>
    unfold neverStep
    simp only
    split
    · exact ⟨_, by simp only [Twin.fam_app, L_app, cat_assoc]; rfl⟩
    · exact ⟨_, by simp only [Twin.fam_app, L_app]; rfl⟩

theorem foldl_never_prefix (sty : ListStyle) (count : Nat) (u : Nat) (items : List LItem) (acc : Twin.Doc × Nat)
    (P : List Atom → Prop) (h : ∃ R, L (acc.1.fam u) = cat P R) :
    ∃ R, L ((items.foldl (neverStep sty count) acc).1.fam u) = cat P R := by
  induction items generalizing acc with
  | nil => exact h
  | cons item items ih =>
    rw [List.foldl_cons]
    apply ih
    obtain ⟨R, hR⟩ := h
    obtain ⟨D, hD⟩ := neverStep_appends sty count u acc item
    exact ⟨cat R D, by rw [hD, hR, cat_assoc]⟩

/-- Every layout of the `Never` body starts with a line break. -/
theorem never_starts_with_break (sty : ListStyle) (count : Nat) (items : List LItem) (u : Nat) (xs : List Atom)
    (h : L ((items.foldl (neverStep sty count) (Twin.hardline, 0)).1.fam u) xs) : ∃ k rest, xs = Atom.nl k :: rest := by
  obtain ⟨R, hR⟩ := foldl_never_prefix sty count u items (Twin.hardline, 0) (L Pretty.hardline)
    ⟨unit, by rw [cat_unit_right]; rfl⟩
  rw [hR] at h
  obtain ⟨xa, xb, rfl, ha, _⟩ := h
  cases ha
  exact ⟨_, xb, rfl⟩

end Typstyle
