import TypstyleModel.Proofs.CarriesFlowH
import TypstyleModel.Proofs.CarriesConstructs
import TypstyleModel.Proofs.CarriesComment
import TypstyleModel.Proofs.CarriesLists
import TypstyleModel.Proofs.CarriesBinary
import TypstyleModel.Proofs.CarriesListH
import TypstyleModel.Proofs.CarriesDot
/-! Equations and math (`math.rs`): the math-mode entry points carry exactly what the tree prescribes.
`Q` is the fragment for contexts that are not in math mode, `QM` the fragment for math mode; the child
after a `#` is converted in code mode, hence must satisfy `Q`. -/
namespace Typstyle
open Twin

/-- The math-mode induction hypothesis of the knot. -/
structure RecOKM (r : Rec) (QM : ANode → Prop) : Prop where
  expr : ∀ ctx c, ctx.mode = .math → isExpr c = true → QM c → Post (r.expr ctx c) (fun d => Carries d (specAll c))
  math : ∀ ctx c, ctx.mode = .math → c.kind = .math → QM c → Post (r.math ctx c) (fun d => Carries d (specAll c))

theorem tagS_comment (t : String) : tagS .comment t = commentS t := by
  apply Streams.ext' <;> simp [tagS, Pretty.charsOf, commentS]

theorem withModeIf_true_NM (ctx : Ctx) : NM (ctx.withModeIf .code true) := by
  unfold NM Ctx.withModeIf; simp

theorem specAll_underscore_leaf' (t : String) (a : Attrs) : specAll (.leaf .underscore t a) = tagS .tok t := by
  apply Streams.ext' <;> simp [specAll, specToks, specCmts, specProse, specLit, specVerb, isCommentKind, tagS, Pretty.charsOf,
    Pretty.keepOf, leafTag, Kind.isExpr]

/-- A token leaf printed from its own text. -/
theorem tokLike_carries (e : Env) (c : ANode) (h : ANode.tokensAreLeaves c = true)
    (hp : c.kind.isPlainToken = true ∨ c.kind = .underscore) : Carries (e.tok c.text) (specAll c) := by
  rcases hp with hp | hp
  · exact tok_carries e c h hp
  · obtain ⟨t, a, hc⟩ := leaf_of_token h (by rw [hp]; rfl)
    refine (Carries.mkText e.wd .tok c.text).congr ?_
    rw [hc, hp, specAll_underscore_leaf']; rfl

variable {Q QM : ANode → Prop}

/-- The children of a `Math` node, converted in math mode (`hh`: the previous sibling is `#`). -/
def MathSeqOK (Q QM : ANode → Prop) : Bool → List ANode → Prop
  | _, [] => True
  | hh, c :: cs =>
    ANode.tokensAreLeaves c = true ∧
    (if isExpr c = true then (if hh = true then Q c else QM c)
     else c.kind = .space ∨ c.kind = .hash ∨ isCommentKind c.kind = true ∨ c.kind.isPlainToken = true ∨ c.kind = .underscore) ∧
    MathSeqOK Q QM (c.kind == .hash) cs

theorem specAll_hash_node (c : ANode) (h : ANode.tokensAreLeaves c = true) (hk : c.kind = .hash) :
    specAll c = tagS .syn "#" := by
  obtain ⟨t, a, hc⟩ := leaf_of_token h (by rw [hk]; rfl)
  have ht : t = "#" := leaf_tok_fixed (k := .hash) (a := a) (by rw [hc, hk] at h; exact h) rfl
  rw [hc, hk, specAll_hash_leaf, tagS_syn_eq_tok, ht]

theorem mathStep_carries (e : Env) (r : Rec) (hr : RecOK r Q) (hrM : RecOKM r QM) (ctx : Ctx) (hm : ctx.mode = .math)
    (acc : Doc × Bool) (s : Streams) (ha : Carries acc.1 s) (c : ANode) (hlex : ANode.tokensAreLeaves c = true)
    (hc : if isExpr c = true then (if acc.2 = true then Q c else QM c)
     else c.kind = .space ∨ c.kind = .hash ∨ isCommentKind c.kind = true ∨ c.kind.isPlainToken = true ∨ c.kind = .underscore) :
    Post (mathStep e r ctx acc c) (fun r' => Carries r'.1 (s.app (specAll c)) ∧ r'.2 = (c.kind == .hash)) := by
  obtain ⟨doc, atHash⟩ := acc
  simp only at ha hc
  unfold mathStep
  simp only
  split
  · rename_i hx
    simp only [hx, ↓reduceIte] at hc
    have hnh : (c.kind == .hash) = false := by
      have : c.kind.isExpr = true := hx
      cases hk : c.kind <;> simp_all [Kind.isExpr]
    cases atHash with
    | true =>
      simp only [↓reduceIte] at hc
      exact Post.bind (hr.expr _ c (withModeIf_true_NM ctx) hx hc) (fun d hd => Post.pure ⟨ha.app hd, hnh.symm⟩)
    | false =>
      simp only [Bool.false_eq_true, ↓reduceIte] at hc
      exact Post.bind (hrM.expr _ c hm hx hc) (fun d hd => Post.pure ⟨ha.app hd, hnh.symm⟩)
  · rename_i hx
    simp only [hx, Bool.false_eq_true, ↓reduceIte] at hc
    split
    · rename_i hk
      have hk' : c.kind = .space := by simpa using hk
      refine Post.pure ⟨?_, by rw [hk']; rfl⟩
      rw [specAll_space c hlex hk', Streams.app_empty]
      split
      · simpa using ha.app Carries.hardline
      · simpa using ha.app Carries.space
    · rename_i hks
      split
      · rename_i hk
        have hk' : c.kind = .hash := by simpa using hk
        refine Post.pure ⟨?_, by rw [hk']; rfl⟩
        rw [specAll_hash_node c hlex hk']
        exact ha.app (Carries.mkText e.wd .syn "#")
      · rename_i hkh
        have hkh' : (c.kind == .hash) = false := by simpa using hkh
        split
        · rename_i hk
          refine Post.pure ⟨?_, hkh'.symm⟩
          rw [specAll_comment_node c hlex hk, ← tagS_comment]
          exact ha.app (Carries.mkText e.wd .comment c.text)
        · rename_i hkc
          refine Post.pure ⟨?_, hkh'.symm⟩
          have hp : c.kind.isPlainToken = true ∨ c.kind = .underscore := by
            rcases hc with h | h | h | h
            · exact absurd (by simpa using h) hks
            · exact absurd (by simpa using h) hkh
            · exact absurd h hkc
            · exact h
          exact ha.app (tokLike_carries e c hlex hp)

theorem mathFold_carries (e : Env) (r : Rec) (hr : RecOK r Q) (hrM : RecOKM r QM) (ctx : Ctx) (hm : ctx.mode = .math) :
    ∀ (cs : List ANode) (acc : Doc × Bool) (s : Streams), Carries acc.1 s → MathSeqOK Q QM acc.2 cs →
      Post (cs.foldlM (mathStep e r ctx) acc) (fun r' => Carries r'.1 (s.app (specAllL cs))) := by
  intro cs
  induction cs with
  | nil => intro acc s ha _; exact Post.pure (by simpa using ha)
  | cons c cs ih =>
    intro acc s ha hok
    simp only [MathSeqOK] at hok
    rw [List.foldlM_cons]
    refine Post.bind (mathStep_carries e r hr hrM ctx hm acc s ha c hok.1 hok.2.1) ?_
    rintro acc' ⟨h1, h2⟩
    have := ih acc' _ h1 (by rw [h2]; exact hok.2.2)
    rw [specAllL_cons, ← Streams.app_assoc]
    exact this

theorem specAll_empty_math_leaf (a : Attrs) : specAll (.leaf .math "" a) = {} := by
  apply Streams.ext' <;> simp [specAll, specToks, specCmts, specProse, specLit, specVerb, isCommentKind, Pretty.keepOf]

/-- `convert_math` on an empty body. -/
theorem convMath_leaf_carries (e : Env) (r : Rec) (ctx : Ctx) (a : Attrs) :
    Post (convMath e r ctx (.leaf .math "" a)) (fun d => Carries d (specAll (.leaf .math "" a))) := by
  rw [specAll_empty_math_leaf]
  unfold convMath
  refine Post.bind (Q := fun _ => True) (fun _ _ _ _ => trivial) (fun _ _ => ?_)
  split
  · refine Post.pure ((Carries.mkText e.wd .verbatim _).congr ?_)
    apply Streams.ext' <;> simp [tagS, Pretty.charsOf, ANode.intoText]
  · simp only [ANode.children, List.foldlM_nil, pure_bind]
    exact Post.pure Carries.nil

/-- **`convert_math`**: a math body carries exactly what it prescribes. -/
theorem convMath_carries (e : Env) (r : Rec) (hr : RecOK r Q) (hrM : RecOKM r QM) (ctx : Ctx) (hm : ctx.mode = .math)
    (cs : List ANode) (a : Attrs) (hseq : MathSeqOK Q QM false cs) :
    Post (convMath e r ctx (.inner .math cs a)) (fun d => Carries d (specAll (.inner .math cs a))) := by
  unfold convMath
  refine Post.bind (Q := fun _ => True) (fun _ _ _ _ => trivial) (fun _ _ => ?_)
  split
  · rename_i hd
    exact Post.pure (verb_inner_carries e .math cs a (by simpa [ANode.attrs] using hd) rfl)
  · rename_i hd
    have hd' : a.disabled = false := by simpa [ANode.attrs] using hd
    have hv : isVerbatimNode .math cs a = false := by simp [isVerbatimNode, hd']
    rw [specAll_inner .math cs a hv (by decide)]
    simp only [ANode.children]
    refine Post.bind (mathFold_carries e r hr hrM ctx.suppress hm cs (Doc.nil, false) {} Carries.nil hseq) ?_
    intro acc hacc
    exact Post.pure (by simpa using hacc)

end Typstyle

namespace Typstyle
open Twin
variable {Q QM : ANode → Prop}

/-! ### equations -/

/-- What the list stylist of an equation is told each child contributes: the `$` delimiters are
printed by the style, not as items. -/
def semEq (x : ANode) : Streams := if x.kind == .dollar then {} else specAll x

def semEqL : List ANode → Streams
  | [] => {}
  | c :: cs => (semEq c).app (semEqL cs)

theorem foldl_semEq (cs : List ANode) (acc : Streams) :
    cs.foldl (fun acc x => acc.app (semEq x)) acc = acc.app (semEqL cs) := by
  induction cs generalizing acc with
  | nil => simp [semEqL]
  | cons c cs ih => rw [List.foldl_cons, ih, semEqL, Streams.app_assoc]

/-- The children of an equation after the opening `$`: the body, white space, comments, then the
closing `$`. -/
def EqRest (QM : ANode → Prop) : List ANode → Prop
  | [] => False
  | c :: cs =>
    ANode.tokensAreLeaves c = true ∧
    ((cs = [] ∧ c.kind = .dollar) ∨
     (cs ≠ [] ∧ ((c.kind = .math ∧ ((∃ mcs a, c = .inner .math mcs a) ∨ (∃ a, c = .leaf .math "" a)) ∧ QM c) ∨ c.kind = .space ∨ isCommentKind c.kind = true) ∧ EqRest QM cs))

def eqChildOK (QM : ANode → Prop) (x : ANode) : Prop :=
  ANode.tokensAreLeaves x = true ∧
  ((x.kind = .math ∧ ((∃ mcs a, x = .inner .math mcs a) ∨ (∃ a, x = .leaf .math "" a)) ∧ QM x) ∨ x.kind = .dollar ∨ x.kind = .space ∨ isCommentKind x.kind = true)

theorem specAll_dollar_node (c : ANode) (h : ANode.tokensAreLeaves c = true) (hk : c.kind = .dollar) :
    specAll c = tagS .syn "$" := by
  obtain ⟨t, a, hc⟩ := leaf_of_token h (by rw [hk]; rfl)
  have ht : t = "$" := leaf_tok_fixed (k := .dollar) (a := a) (by rw [hc, hk] at h; exact h) rfl
  rw [hc, hk, specAll_plain_leaf .dollar t a rfl, tagS_syn_eq_tok, ht]

theorem eqRest_facts (rest : List ANode) (h : EqRest QM rest) :
    (∀ x ∈ rest, eqChildOK QM x) ∧ specAllL rest = (semEqL rest).app (tagS .syn "$") := by
  induction rest with
  | nil => exact absurd h (by simp [EqRest])
  | cons c cs ih =>
    simp only [EqRest] at h
    obtain ⟨hlex, hcase⟩ := h
    rcases hcase with ⟨hnil, hk⟩ | ⟨hne, hk, hrest⟩
    · subst hnil
      refine ⟨?_, ?_⟩
      · intro x hx
        have : x = c := by simpa using hx
        subst this
        exact ⟨hlex, Or.inr (Or.inl hk)⟩
      · have hs : semEq c = {} := by unfold semEq; simp [hk]
        rw [specAllL_cons, specAllL_nil, Streams.app_empty, semEqL, semEqL, hs, specAll_dollar_node c hlex hk]
        simp
    · obtain ⟨h1, h2⟩ := ih hrest
      refine ⟨?_, ?_⟩
      · intro x hx
        rcases List.mem_cons.mp hx with rfl | hx'
        · refine ⟨hlex, ?_⟩
          rcases hk with hk | hk | hk
          · exact Or.inl hk
          · exact Or.inr (Or.inr (Or.inl hk))
          · exact Or.inr (Or.inr (Or.inr hk))
        · exact h1 x hx'
      · have hs : semEq c = specAll c := by
          unfold semEq
          have : (c.kind == .dollar) = false := by
            rcases hk with hk | hk | hk
            · rw [hk.1]; rfl
            · rw [hk]; rfl
            · cases hkk : c.kind <;> simp_all [isCommentKind]
          simp [this]
        rw [specAllL_cons, h2, semEqL, hs, Streams.app_assoc]

theorem specAll_empty_math (a : Attrs) : specAll (.inner .math [] a) = {} := by
  apply Streams.ext' <;>
    simp [specAll, specToks, specCmts, specProse, specLit, specVerb, isVerbatimNode, ANode.intoTextL, Pretty.keepOf,
      specToksL, specCmtsL, specProseL, specLitL, specVerbL]

theorem equationItem_ok (e : Env) (r : Rec) (hrM : RecOKM r QM) (cs : List ANode) (isBlock : Bool) :
    CheckerS (equationItem e r cs isBlock) semEq (eqChildOK QM) (fun c => c.mode = .math) := by
  intro c x hm hok
  unfold equationItem
  obtain ⟨hlex, hcase⟩ := hok
  by_cases hk : x.kind = .math
  · have hne : (x.kind != .math) = false := by simp [hk]
    simp only [hne, Bool.false_eq_true, ↓reduceIte]
    have hqm : ((∃ mcs a, x = .inner .math mcs a) ∨ (∃ a, x = .leaf .math "" a)) ∧ QM x := by
      rcases hcase with h | h | h | h
      · exact h.2
      · rw [hk] at h; cases h
      · rw [hk] at h; cases h
      · rw [hk] at h; cases h
    have hs : semEq x = specAll x := by unfold semEq; simp [hk]
    split
    · rename_i hlen
      refine Post.pure ?_
      rcases hqm.1 with ⟨mcs, a, rfl⟩ | ⟨a, rfl⟩
      · have : mcs = [] := by simpa [ANode.children] using hlen
        subst this
        show semEq _ = triviaS _
        rw [hs, specAll_empty_math]; rfl
      · show semEq _ = triviaS _
        rw [hs, specAll_empty_math_leaf]; rfl
    · refine Post.bind (hrM.math c x hm hk hqm.2) (fun body hb => Post.pure ?_)
      show Carries _ (semEq x)
      rw [hs]
      split
      · simpa using hb.app (Carries.soft e " " (by decide))
      · exact hb
  · have hne : (x.kind != .math) = true := by simpa using hk
    simp only [hne, ↓reduceIte]
    refine Post.pure ?_
    show semEq x = triviaS x
    rcases hcase with h | h | h | h
    · exact absurd h.1 hk
    · unfold semEq triviaS; simp [h, isCommentKind]
    · unfold semEq triviaS
      have : (x.kind == .dollar) = false := by rw [h]; rfl
      simp only [this, Bool.false_eq_true, ↓reduceIte, h]
      rw [specAll_space x hlex h]; rfl
    · unfold semEq triviaS
      have : (x.kind == .dollar) = false := by cases hkk : x.kind <;> simp_all [isCommentKind]
      simp only [this, Bool.false_eq_true, ↓reduceIte, h]
      exact specAll_comment_node x hlex h

/-- **`convert_equation`** carries exactly what the equation prescribes. -/
theorem convEquation_carries (e : Env) (r : Rec) (hrM : RecOKM r QM) (ctx : Ctx)
    (d0 : ANode) (rest : List ANode) (a : Attrs) (hda : a.disabled = false)
    (hl0 : ANode.tokensAreLeaves d0 = true) (hk0 : d0.kind = .dollar) (hrest : EqRest QM rest) :
    Post (convEquation e r ctx (.inner .equation (d0 :: rest) a))
      (fun d => Carries d (specAll (.inner .equation (d0 :: rest) a))) := by
  have hv : isVerbatimNode .equation (d0 :: rest) a = false := by simp [isVerbatimNode, hda]
  rw [specAll_inner .equation (d0 :: rest) a hv (by decide)]
  obtain ⟨hall, hspec⟩ := eqRest_facts rest hrest
  unfold convEquation
  simp only [ANode.children]
  have hok : ∀ x ∈ d0 :: rest, eqChildOK QM x := by
    intro x hx
    rcases List.mem_cons.mp hx with rfl | hx'
    · exact ⟨hl0, Or.inr (Or.inl hk0)⟩
    · exact hall x hx'
  have hnh : ∀ x ∈ d0 :: rest, x.kind ≠ .hash := by
    intro x hx hh
    obtain ⟨_, hc⟩ := hok x hx
    rcases hc with h | h | h | h
    · rw [hh] at h; cases h.1
    · rw [hh] at h; cases h
    · rw [hh] at h; cases h
    · rw [hh] at h; simp [isCommentKind] at h
  have key : ∀ (ib : Bool) (f : Fold),
      Post (do let ls ← (({} : LS).withFold f).processM e (ctx.withMode .math) (d0 :: rest) (equationItem e r (d0 :: rest) ib)
               pure (ls.print e { sep := Doc.nil, d0 := e.syn "$", d1 := e.syn "$", addDelimSpace := ib, tightDelim := !ib }))
        (fun d => Carries d (specAllL (d0 :: rest))) := by
    intro ib f
    have := list_construct_carries_delims e (ctx.withMode .math) (equationItem e r (d0 :: rest) ib) (eqChildOK QM)
      (equationItem_ok e r hrM (d0 :: rest) ib) rfl (({} : LS).withFold f) ⟨rfl, rfl, rfl⟩
      { sep := Doc.nil, d0 := e.syn "$", d1 := e.syn "$", addDelimSpace := ib, tightDelim := !ib }
      Carries.nil (Carries.mkText e.wd .syn "$") (Carries.mkText e.wd .syn "$") rfl rfl rfl (d0 :: rest) hok hnh
    refine Post.mono this ?_
    intro d hd
    refine hd.congr ?_
    rw [foldl_semEq, Streams.empty_app, semEqL, specAllL_cons, specAll_dollar_node d0 hl0 hk0, hspec]
    have hs : semEq d0 = {} := by unfold semEq; simp [hk0]
    rw [hs, Streams.empty_app, Streams.app_assoc]
  exact key _ _

end Typstyle

namespace Typstyle
open Twin
variable {Q QM : ANode → Prop}

/-! ### attachments, roots, fractions, primes -/

/-- What a math-mode flow may assume of a child it hands to its producer, in context `c`. -/
def okM (Q QM : ANode → Prop) (c : Ctx) (child : ANode) : Prop :=
  ANode.tokensAreLeaves child = true ∧
  (if isExpr child = true then ((c.mode = .math → QM child) ∧ (NM c → Q child))
   else child.kind = .space ∨ child.kind.isPlainToken = true ∨ child.kind = .underscore)

theorem mathSeq_okSeq (ctx : Ctx) (hm : ctx.mode = .math) (cs : List ANode) :
    ∀ hh, MathSeqOK Q QM hh cs → okSeq (okM Q QM) ctx hh cs := by
  induction cs with
  | nil => intro _ _; trivial
  | cons c cs ih =>
    intro hh h
    simp only [MathSeqOK] at h
    refine ⟨?_, ih _ h.2.2⟩
    by_cases hx : isExpr c = true
    · right
      refine ⟨h.1, ?_⟩
      have h2 := h.2.1
      simp only [hx, ↓reduceIte] at h2 ⊢
      cases hh with
      | true =>
        simp only [↓reduceIte] at h2
        refine ⟨fun hmm => ?_, fun _ => h2⟩
        simp [Ctx.withModeIf] at hmm
      | false =>
        simp only [Bool.false_eq_true, ↓reduceIte] at h2
        refine ⟨fun _ => h2, fun hnm => ?_⟩
        exact absurd hm hnm
    · have h2 := h.2.1
      simp only [hx, Bool.false_eq_true, ↓reduceIte] at h2
      rcases h2 with h2 | h2 | h2 | h2 | h2
      · right; refine ⟨h.1, ?_⟩; simp only [hx, Bool.false_eq_true, ↓reduceIte]; exact Or.inl h2
      · left; exact Or.inr (Or.inr h2)
      · left; exact Or.inr (Or.inl h2)
      · right; refine ⟨h.1, ?_⟩; simp only [hx, Bool.false_eq_true, ↓reduceIte]; exact Or.inr (Or.inl h2)
      · right; refine ⟨h.1, ?_⟩; simp only [hx, Bool.false_eq_true, ↓reduceIte]; exact Or.inr (Or.inr h2)

theorem okM_expr (r : Rec) (hr : RecOK r Q) (hrM : RecOKM r QM) (c : Ctx) (child : ANode) (hok : okM Q QM c child)
    (hx : isExpr child = true) : Post (r.expr c child) (fun d => Carries d (specAll child)) := by
  have h2 := hok.2
  simp only [hx, ↓reduceIte] at h2
  by_cases hm : c.mode = .math
  · exact hrM.expr c child hm hx (h2.1 hm)
  · exact hr.expr c child hm hx (h2.2 hm)

theorem okM_tok (e : Env) (c : Ctx) (child : ANode) (hok : okM Q QM c child) (hx : ¬ isExpr child = true)
    (hs : child.kind ≠ .space) : Carries (e.tok child.text) (specAll child) := by
  have h2 := hok.2
  simp only [hx, Bool.false_eq_true, ↓reduceIte] at h2
  rcases h2 with h2 | h2
  · exact absurd h2 hs
  · exact tokLike_carries e child hok.1 h2

theorem okM_space (c : Ctx) (child : ANode) (hok : okM Q QM c child) (hs : child.kind = .space) : specAll child = {} :=
  specAll_space child hok.1 hs

theorem attachProducer_ok (e : Env) (r : Rec) (hr : RecOK r Q) (hrM : RecOKM r QM) :
    ProducerH (attachProducer e r) specAll (okM Q QM) := by
  intro st c child hok
  unfold attachProducer
  split
  · rename_i hx
    exact Post.bind (okM_expr r hr hrM c child hok hx) (fun d hd => Post.pure hd)
  · rename_i hx
    split
    · rename_i hk
      exact Post.pure (okM_space c child hok (by simpa using hk))
    · rename_i hk
      have hs : child.kind ≠ .space := by simpa using hk
      split
      · exact Post.pure (okM_tok e c child hok hx hs)
      · exact Post.pure (okM_tok e c child hok hx hs)

theorem rootProducer_ok (e : Env) (r : Rec) (hr : RecOK r Q) (hrM : RecOKM r QM) :
    ProducerH (rootProducer e r) specAll (okM Q QM) := by
  intro st c child hok
  unfold rootProducer
  split
  · rename_i hx
    exact Post.bind (okM_expr r hr hrM c child hok hx) (fun d hd => Post.pure hd)
  · rename_i hx
    split
    · rename_i hk
      exact Post.pure (okM_space c child hok (by simpa using hk))
    · rename_i hk
      exact Post.pure (okM_tok e c child hok hx (by simpa using hk))

theorem fracProducer_ok (e : Env) (r : Rec) (hr : RecOK r Q) (hrM : RecOKM r QM) :
    ProducerH (fracProducer e r) specAll (okM Q QM) := by
  intro st c child hok
  unfold fracProducer
  split
  · rename_i hx
    exact Post.bind (okM_expr r hr hrM c child hok hx) (fun d hd => Post.pure hd)
  · rename_i hx
    split
    · rename_i hk
      have hk' : child.kind = .semicolon := by simpa using hk
      exact Post.pure (okM_tok e c child hok hx (by rw [hk']; decide))
    · split
      · rename_i hk
        exact Post.pure (okM_tok e c child hok hx (by simpa using hk))
      · rename_i hk
        exact Post.pure (okM_space c child hok (by simpa using hk))

/-- A math construct laid out by the flow stylist. -/
theorem mathFlow_carries {σ : Type} (e : Env) (ctx : Ctx) (hm : ctx.mode = .math) (k : Kind) (cs : List ANode) (a : Attrs)
    (st : σ) (producer : σ → Ctx → ANode → M (σ × Option FlowItem)) (hp : ProducerH producer specAll (okM Q QM))
    (hv : isVerbatimNode k cs a = false) (hraw : k ≠ .raw)
    (hlex : ANode.tokensAreLeavesL cs = true) (hseq : MathSeqOK Q QM false cs) :
    Post (flowM e ctx cs st producer) (fun d => Carries d (specAll (.inner k cs a))) := by
  rw [specAll_inner k cs a hv hraw, ← contribL_specAll cs hlex]
  exact flowM_carriesH (commentOK e) hp (fun cc c hok hk => okM_space cc c hok hk) cs (mathSeq_okSeq ctx hm cs false hseq) st

theorem mathSeq_lex (cs : List ANode) : ∀ hh, MathSeqOK Q QM hh cs → ANode.tokensAreLeavesL cs = true := by
  induction cs with
  | nil => intro _ _; rfl
  | cons c cs ih =>
    intro hh h
    simp only [MathSeqOK] at h
    simp only [ANode.tokensAreLeavesL, Bool.and_eq_true]
    exact ⟨h.1, ih _ h.2.2⟩

theorem tagS_syn_append (a b : String) : tagS .syn (a ++ b) = (tagS .syn a).app (tagS .syn b) := by
  apply Streams.ext' <;> simp [tagS, Pretty.charsOf, Streams.app, String.toList_append, List.filter_append, String.ofList_append]

/-- `convert_math_primes`. -/
theorem convMathPrimes_carries (e : Env) (cs : List ANode) (a : Attrs) (hda : a.disabled = false)
    (hlex : ANode.tokensAreLeavesL cs = true) :
    Post (convMathPrimes e (.inner .mathPrimes cs a)) (fun d => Carries d (specAll (.inner .mathPrimes cs a))) := by
  have hv : isVerbatimNode .mathPrimes cs a = false := by simp [isVerbatimNode, hda]
  rw [specAll_inner .mathPrimes cs a hv (by decide)]
  unfold convMathPrimes
  split
  · rename_i hall
    simp only [ANode.children] at hall ⊢
    refine Post.pure ((Carries.mkText e.wd .syn _).congr ?_)
    clear hv
    induction cs with
    | nil => apply Streams.ext' <;> simp [tagS, Pretty.charsOf]
    | cons c cs ih =>
      simp only [List.all_cons, Bool.and_eq_true, beq_iff_eq] at hall
      simp only [ANode.tokensAreLeavesL, Bool.and_eq_true] at hlex
      obtain ⟨t, a', hc⟩ := leaf_of_token hlex.1 (by rw [hall.1.1]; rfl)
      have ht : t = "'" := by have := hall.1.2; rw [hc] at this; exact this
      rw [specAllL_cons, ← ih hlex.2 hall.2, hc, hall.1.1, specAll_plain_leaf .prime t a' rfl, ht, ← tagS_syn_eq_tok,
        ← tagS_syn_append]
      congr 1
      rw [List.length_cons, List.replicate_succ]
      show String.ofList (['\''] ++ List.replicate cs.length '\'') = _
      rw [String.ofList_append]
  · exact Post.rejected _

end Typstyle

namespace Typstyle
open Twin
variable {Q QM : ANode → Prop}

/-! ### delimited math -/

/-- A child between the delimiters of a `MathDelimited`. -/
def midOK (QM : ANode → Prop) (c : ANode) : Prop :=
  ANode.tokensAreLeaves c = true ∧ ((c.kind = .math ∧ QM c) ∨ c.kind = .space ∨ isCommentKind c.kind = true)

def okD (QM : ANode → Prop) (c : Ctx) (child : ANode) : Prop :=
  ANode.tokensAreLeaves child = true ∧ ((child.kind = .math ∧ c.mode = .math ∧ QM child) ∨ child.kind = .space)

theorem delimitedProducer_ok (r : Rec) (hrM : RecOKM r QM) : ProducerH (delimitedProducer r) specAll (okD QM) := by
  intro st c child hok
  unfold delimitedProducer
  split
  · rename_i hk
    have hk' : child.kind = .math := by simpa using hk
    rcases hok.2 with h | h
    · exact Post.bind (hrM.math c child h.2.1 hk' h.2.2) (fun d hd => Post.pure hd)
    · rw [hk'] at h; cases h
  · rename_i hk
    split
    · rename_i hs
      refine Post.pure ?_
      show Carries _ (specAll child)
      rw [specAll_space child hok.1 (by simpa using hs)]
      split
      · exact Carries.line
      · exact Carries.space
    · rename_i hs
      rcases hok.2 with h | h
      · exact absurd (by simpa using h.1) hk
      · exact absurd (by simpa using h) hs

theorem mid_okSeq (ctx : Ctx) (hm : ctx.mode = .math) (l : List ANode) (h : ∀ c ∈ l, midOK QM c) :
    okSeq (okD QM) ctx false l := by
  induction l with
  | nil => trivial
  | cons c cs ih =>
    have hc := h c List.mem_cons_self
    have hnh : (c.kind == .hash) = false := by
      rcases hc.2 with h1 | h1 | h1
      · rw [h1.1]; rfl
      · rw [h1]; rfl
      · exact comment_not_hash _ h1
    refine ⟨?_, by rw [hnh]; exact ih (fun x hx => h x (List.mem_cons_of_mem _ hx))⟩
    rcases hc.2 with h1 | h1 | h1
    · exact Or.inr ⟨hc.1, Or.inl ⟨h1.1, hm, h1.2⟩⟩
    · exact Or.inr ⟨hc.1, Or.inr h1⟩
    · exact Or.inl (Or.inr (Or.inl h1))

theorem mid_lex (l : List ANode) (h : ∀ c ∈ l, midOK QM c) : ANode.tokensAreLeavesL l = true := by
  induction l with
  | nil => rfl
  | cons c cs ih =>
    simp only [ANode.tokensAreLeavesL, Bool.and_eq_true]
    exact ⟨(h c List.mem_cons_self).1, ih (fun x hx => h x (List.mem_cons_of_mem _ hx))⟩

/-- **`convert_math_delimited`**. -/
theorem convMathDelimited_carries (e : Env) (r : Rec) (hrM : RecOKM r QM) (ctx : Ctx) (hm : ctx.mode = .math)
    (c0 c1 : ANode) (mid : List ANode) (a : Attrs) (hda : a.disabled = false)
    (hx0 : isExpr c0 = true) (hx1 : isExpr c1 = true) (hq0 : QM c0) (hq1 : QM c1)
    (hmid : ∀ c ∈ mid, midOK QM c) :
    Post (convMathDelimited e r ctx (.inner .mathDelimited (c0 :: (mid ++ [c1])) a))
      (fun d => Carries d (specAll (.inner .mathDelimited (c0 :: (mid ++ [c1])) a))) := by
  have hv : isVerbatimNode .mathDelimited (c0 :: (mid ++ [c1])) a = false := by simp [isVerbatimNode, hda]
  rw [specAll_inner .mathDelimited _ a hv (by decide), specAllL_cons, specAllL_append, specAllL_cons, specAllL_nil,
    Streams.app_empty]
  -- the general statement, for any way of stripping the boundary spaces
  have key : ∀ (pa pb : Doc × List ANode), Carries pa.1 {} → Carries pb.1 {} →
      (pa.2 = mid ∨ ∃ f, mid = f :: pa.2 ∧ f.kind = .space) →
      (pb.2 = pa.2 ∨ ∃ l, pa.2 = pb.2 ++ [l] ∧ l.kind = .space) →
      Post (do
        let body ← flowM e ctx pb.2 () (delimitedProducer r)
        let op ← r.expr ctx c0
        let cl ← r.expr ctx c1
        pure ((((pa.1 ++ body).nstTab) ++ pb.1).enclose op cl))
        (fun d => Carries d ((specAll c0).app ((specAllL mid).app (specAll c1)))) := by
    intro pa pb ha hb hpa hpb
    have hA : specAllL pa.2 = specAllL mid ∧ ∀ c ∈ pa.2, midOK QM c := by
      rcases hpa with h | ⟨f, h, hk⟩
      · rw [h]; exact ⟨rfl, hmid⟩
      · refine ⟨?_, fun c hc => hmid c (by rw [h]; exact List.mem_cons_of_mem _ hc)⟩
        rw [h, specAllL_cons, specAll_space f (hmid f (by rw [h]; exact List.mem_cons_self)).1 hk, Streams.empty_app]
    have hB : specAllL pb.2 = specAllL mid ∧ ∀ c ∈ pb.2, midOK QM c := by
      rcases hpb with h | ⟨l, h, hk⟩
      · rw [h]; exact hA
      · have hl := hA.2 l (by rw [h]; simp)
        refine ⟨?_, fun c hc => hA.2 c (by rw [h]; exact List.mem_append_left _ hc)⟩
        rw [← hA.1, h, specAllL_append, specAllL_cons, specAllL_nil, specAll_space l hl.1 hk]
        simp
    have hs := hB.1
    have hall := hB.2
    have hflow := flowM_carriesH (sem := specAll) (commentOK e) (delimitedProducer_ok r hrM)
      (fun cc c hok hk => specAll_space c hok.1 hk) pb.2 (mid_okSeq ctx hm pb.2 hall) ()
    rw [contribL_specAll _ (mid_lex pb.2 hall), hs] at hflow
    refine Post.bind hflow (fun body hbody => ?_)
    refine Post.bind (hrM.expr ctx c0 hm hx0 hq0) (fun op hop => ?_)
    refine Post.bind (hrM.expr ctx c1 hm hx1 hq1) (fun cl hcl => Post.pure ?_)
    have h1 : Carries (((pa.1 ++ body).nstTab) ++ pb.1) (specAllL mid) := by
      simpa using ((ha.app hbody).nstTab).app hb
    simpa [Streams.app_assoc] using h1.enclose hop hcl
  unfold convMathDelimited
  simp only [ANode.children]
  have hlen : ¬ ((c0 :: (mid ++ [c1])).length < 2) := by simp
  simp only [hlen, ↓reduceIte]
  have hinner : ((c0 :: (mid ++ [c1])).drop 1).dropLast = mid := by simp
  have hf : firstWhere (.inner .mathDelimited (c0 :: (mid ++ [c1])) a) isExpr = some c0 := by
    simp [firstWhere, ANode.children, hx0]
  have hl : lastWhere (.inner .mathDelimited (c0 :: (mid ++ [c1])) a) isExpr = some c1 := by
    simp [lastWhere, ANode.children, hx1]
  simp only [hinner, hf, hl, childOr, M.pure_bind]
  refine key _ _ ?_ ?_ ?_ ?_
  · -- leading space
    cases mid with
    | nil => exact Carries.nil
    | cons f rest =>
      simp only
      split
      · split
        · exact Carries.hardline
        · exact Carries.space
      · exact Carries.nil
  · -- trailing space
    split
    · split
      · split
        · exact Carries.hardline
        · exact Carries.space
      · exact Carries.nil
    · exact Carries.nil
  · -- what the leading strip leaves
    cases mid with
    | nil => exact Or.inl rfl
    | cons f rest =>
      simp only
      split
      · rename_i hk
        exact Or.inr ⟨f, rfl, by simpa using hk⟩
      · exact Or.inl rfl
  · -- what the trailing strip leaves
    split
    · rename_i l hl
      split
      · rename_i hk
        exact Or.inr ⟨l, dropLast_getLast _ l hl, by simpa using hk⟩
      · exact Or.inl rfl
    · exact Or.inl rfl

end Typstyle

namespace Typstyle
open Twin
variable {Q QM : ANode → Prop}

/-! ### calls in math mode -/

theorem mathArgProducer_ok (e : Env) (r : Rec) (hr : RecOK r Q) (hrM : RecOKM r QM) :
    ProducerH (mathArgProducer e r) specAll (okM Q QM) := by
  intro st c child hok
  unfold mathArgProducer
  split
  · rename_i hk
    exact Post.bind (synLeaf_carries e child "," hok.1 (by rw [hk]; decide)) (fun d hd => Post.pure hd)
  · rename_i hk
    exact Post.bind (synLeaf_carries e child ";" hok.1 (by rw [hk]; decide)) (fun d hd => Post.pure hd)
  · rename_i hk
    split
    · refine Post.pure ?_
      show Carries Twin.hardline (specAll child)
      rw [okM_space c child hok hk]; exact Carries.hardline
    · exact Post.pure (okM_space c child hok hk)
  · rename_i h1 h2 h3
    split
    · rename_i harg
      by_cases hx : isExpr child = true
      · unfold convArg
        have hn1 : child.kind ≠ .named := by intro hk; unfold isExpr at hx; rw [hk] at hx; cases hx
        have hn2 : child.kind ≠ .spread := by intro hk; unfold isExpr at hx; rw [hk] at hx; cases hx
        split
        · rename_i hk; exact absurd hk hn1
        · rename_i hk; exact absurd hk hn2
        · exact Post.bind (okM_expr r hr hrM c child hok hx) (fun d hd => Post.pure hd)
      · -- a named or spread argument: not in the math fragment
        exfalso
        have h2' := hok.2
        simp only [hx, Bool.false_eq_true, ↓reduceIte] at h2'
        unfold isArg at harg
        simp only [hx, Bool.or_false, Bool.or_eq_true, beq_iff_eq] at harg
        rcases h2' with hk | hk | hk
        · exact h3 hk
        · rcases harg with hn | hn <;> (rw [hn] at hk; cases hk)
        · rcases harg with hn | hn <;> (rw [hn] at hk; cases hk)
    · exact Post.rejected _

theorem syn_paren (e : Env) : Carries (e.syn "(") {} ∧ Carries (e.syn ")") {} := by
  constructor
  · refine (Carries.mkText e.wd .syn "(").congr ?_
    apply Streams.ext' <;> simp [tagS, Pretty.charsOf] <;> decide
  · refine (Carries.mkText e.wd .syn ")").congr ?_
    apply Streams.ext' <;> simp [tagS, Pretty.charsOf] <;> decide

theorem specAll_delim (c : ANode) (h : ANode.tokensAreLeaves c = true) (hk : c.kind.fixedText.isSome = true) : specAll c = {} :=
  specAll_ignorable c h (by unfold isIgnorable; simp [hk])

/-- **`convert_args_in_math`** on `( … )` whose content neither starts nor ends with white space. -/
theorem convArgsInMath_carries (e : Env) (r : Rec) (hr : RecOK r Q) (hrM : RecOKM r QM) (ctx : Ctx) (hm : ctx.mode = .math)
    (lp rp : ANode) (mid : List ANode) (a : Attrs)
    (hlp : lp.kind = .leftParen) (hrp : rp.kind = .rightParen) (hl0 : ANode.tokensAreLeaves lp = true) (hl1 : ANode.tokensAreLeaves rp = true)
    (hhead : ∀ c, mid.head? = some c → (c.kind == .leftParen || c.kind == .space) = false)
    (hlast : ∀ c, mid.getLast? = some c → (c.kind == .rightParen || c.kind == .space) = false)
    (hseq : MathSeqOK Q QM false mid) :
    Post (convArgsInMath e r ctx (.inner .args (lp :: (mid ++ [rp])) a))
      (fun d => Carries d (specAll (.inner .args (lp :: (mid ++ [rp])) a))) := by
  have hv : isVerbatimNode .args (lp :: (mid ++ [rp])) a = false := by simp [isVerbatimNode, Kind.isExpr]
  rw [specAll_inner .args _ a hv (by decide), specAllL_cons, specAllL_append, specAllL_cons, specAllL_nil,
    specAll_delim lp hl0 (by rw [hlp]; rfl), specAll_delim rp hl1 (by rw [hrp]; rfl)]
  simp only [Streams.empty_app, Streams.app_empty]
  have hi : (lp :: (mid ++ [rp])).findIdx? (fun c => !(c.kind == .leftParen || c.kind == .space)) = some 1 := by
    rw [List.findIdx?_cons]
    simp only [hlp, beq_self_eq_true, Bool.true_or, Bool.not_true, Bool.false_eq_true, ↓reduceIte]
    cases mid with
    | nil => simp [List.findIdx?_cons, hrp]
    | cons m0 ms =>
      have := hhead m0 rfl
      simp only [Bool.or_eq_false_iff, beq_eq_false_iff_ne, ne_eq] at this
      simp [List.findIdx?_cons, this]
  have hj : (lp :: (mid ++ [rp])).reverse.findIdx? (fun c => !(c.kind == .rightParen || c.kind == .space)) = some 1 := by
    rw [List.reverse_cons, List.reverse_append, List.reverse_cons, List.reverse_nil, List.nil_append, List.singleton_append,
      List.cons_append, List.findIdx?_cons]
    simp only [hrp, beq_self_eq_true, Bool.true_or, Bool.not_true, Bool.false_eq_true, ↓reduceIte]
    cases hml : mid.reverse with
    | nil => simp [List.findIdx?_cons, hlp]
    | cons ml ms =>
      have hgl : mid.getLast? = some ml := by
        rw [← List.head?_reverse, hml]; rfl
      have := hlast ml hgl
      simp only [Bool.or_eq_false_iff, beq_eq_false_iff_ne, ne_eq] at this
      simp [List.findIdx?_cons, this]
  unfold convArgsInMath
  simp only [ANode.children, hi, hj, Option.getD_some]
  have hslice : (if (decide (1 > (lp :: (mid ++ [rp])).length - 1 - 1 + 1) ||
        decide ((lp :: (mid ++ [rp])).length - 1 - 1 ≥ (lp :: (mid ++ [rp])).length)) = true then []
      else List.take ((lp :: (mid ++ [rp])).length - 1 - 1 + 1 - 1) (List.drop 1 (lp :: (mid ++ [rp])))) = mid := by
    have hlen : (lp :: (mid ++ [rp])).length = mid.length + 2 := by simp
    rw [hlen]
    have h1 : (decide (1 > mid.length + 2 - 1 - 1 + 1) || decide (mid.length + 2 - 1 - 1 ≥ mid.length + 2)) = false := by
      simp only [Bool.or_eq_false_iff, decide_eq_false_iff_not]
      omega
    rw [h1]
    simp only [Bool.false_eq_true, ↓reduceIte]
    have h2 : mid.length + 2 - 1 - 1 + 1 - 1 = mid.length := by omega
    rw [h2, List.drop_one, List.tail_cons, List.take_left']
    rfl
  simp only [hslice]
  have hflow := flowM_carriesH (sem := specAll) (commentOK e) (mathArgProducer_ok e r hr hrM)
    (fun cc c hok hk => okM_space cc c hok hk) mid (mathSeq_okSeq ctx hm mid false hseq) false
  rw [contribL_specAll _ (mathSeq_lex mid false hseq)] at hflow
  refine Post.bind hflow (fun inner hin => ?_)
  have hp := syn_paren e
  split
  · have key : ∀ cl : Doc, Carries cl {} →
        Carries ((((Twin.line_ ++ inner).nstTab ++ cl).grp).enclose (e.syn "(") (e.syn ")")) (specAllL mid) := by
      intro cl hcl
      have := ((((Carries.line_.app hin).nstTab).app hcl).grp).enclose hp.1 hp.2
      simpa using this
    refine Post.pure (key _ ?_)
    split
    · split
      · exact Carries.hardline
      · exact Carries.line_
    · exact Carries.line_
  · exact Post.pure (by simpa using hin.enclose hp.1 hp.2)

end Typstyle

namespace Typstyle
open Twin
variable {Q QM : ANode → Prop}

theorem mathSeq_prefix (l1 l2 : List ANode) : ∀ hh, MathSeqOK Q QM hh (l1 ++ l2) → MathSeqOK Q QM hh l1 := by
  induction l1 with
  | nil => intro _ _; trivial
  | cons c cs ih =>
    intro hh h
    simp only [List.cons_append, MathSeqOK] at h ⊢
    exact ⟨h.1, h.2.1, ih _ h.2.2⟩

/-- **`convert_func_call` in math mode** (callee not a field access). -/
theorem convFuncCallM_carries (e : Env) (r : Rec) (hrM : RecOKM r QM) (ctx : Ctx) (hm : ctx.mode = .math)
    (callee args : ANode) (a : Attrs) (hda : a.disabled = false)
    (hxc : isExpr callee = true) (hnf : callee.kind ≠ .fieldAccess) (hqc : QM callee) (hak : args.kind = .args)
    (hargs : Post (convArgsInMath e r ctx args) (fun d => Carries d (specAll args))) :
    Post (convFuncCall e r ctx (.inner .funcCall [callee, args] a))
      (fun d => Carries d (specAll (.inner .funcCall [callee, args] a))) := by
  have hv : isVerbatimNode .funcCall [callee, args] a = false := by simp [isVerbatimNode, hda]
  rw [specAll_inner .funcCall _ a hv (by decide)]
  unfold convFuncCall firstWhere lastWhere
  have hf1 : ([callee, args] : List ANode).find? isExpr = some callee := by rw [List.find?_cons, hxc]
  have hf2 : ([callee, args] : List ANode).reverse.find? (fun x => x.kind == .args) = some args := by
    show ([args, callee] : List ANode).find? _ = _
    rw [List.find?_cons]; simp [hak]
  have hcf : (callee.kind == .fieldAccess) = false := by simpa using hnf
  simp only [ANode.children, hf1, hf2, childOr, M.pure_bind, hcf, Bool.false_eq_true, ↓reduceIte]
  refine Post.bind (hrM.expr ctx callee hm hxc hqc) (fun dc hdc => ?_)
  have heqa : convFuncCallArgs e r ctx (.inner .funcCall [callee, args] a) args = convArgsInMath e r ctx args := by
    unfold convFuncCallArgs
    simp [hm]
  rw [heqa]
  refine Post.bind hargs (fun da hda' => Post.pure ?_)
  simpa [specAllL_cons] using hdc.app hda'

end Typstyle

namespace Typstyle
open Twin
variable {Q QM : ANode → Prop}

/-! ### a row of two-dimensional math arguments (implicit array) -/

def rowChildOK (QM : ANode → Prop) (x : ANode) : Prop :=
  ANode.tokensAreLeaves x = true ∧ ((isExpr x = true ∧ QM x) ∨ isCommentKind x.kind = true ∨ isIgnorable x = true)

theorem convArrayItem_okM (e : Env) (r : Rec) (hrM : RecOKM r QM) :
    CheckerS (convArrayItem e r) specAll (rowChildOK QM) (fun c => c.mode = .math) := by
  intro c x hm hok
  unfold convArrayItem
  have hns : (x.kind == .spread) = false := by
    rcases hok.2 with h | h | h
    · have : x.kind.isExpr = true := h.1
      cases hk : x.kind <;> simp_all [Kind.isExpr]
    · cases hk : x.kind <;> simp_all [isCommentKind]
    · unfold isIgnorable at h
      cases hk : x.kind <;> simp_all [Kind.fixedText]
  simp only [hns, Bool.false_eq_true, ↓reduceIte]
  split
  · rename_i hx
    rcases hok.2 with h | h | h
    · exact Post.bind (hrM.expr c x hm hx h.2) (fun d hd => Post.pure hd)
    · exfalso
      have : x.kind.isExpr = true := hx
      cases hk : x.kind <;> simp_all [Kind.isExpr, isCommentKind]
    · exfalso
      have : x.kind.isExpr = true := hx
      unfold isIgnorable at h
      cases hk : x.kind <;> simp_all [Kind.isExpr, Kind.fixedText]
  · rename_i hx
    refine Post.pure ?_
    show specAll x = triviaS x
    rcases hok.2 with h | h | h
    · exact absurd h.1 hx
    · exact triviaS_comment x hok.1 h
    · exact triviaS_ignorable x hok.1 h

/-- **`convert_array` on a row of math arguments** (no parentheses): in math mode. -/
theorem convArrayM_carries (e : Env) (r : Rec) (hrM : RecOKM r QM) (ctx : Ctx) (hm : ctx.mode = .math)
    (cs : List ANode) (a : Attrs) (hda : a.disabled = false)
    (himp : (cs.head?.map (·.kind == .leftParen)).getD false = false)
    (hall : ∀ x ∈ cs, rowChildOK QM x) :
    Post (convArray e r ctx (.inner .array cs a)) (fun d => Carries d (specAll (.inner .array cs a))) := by
  have hv : isVerbatimNode .array cs a = false := by simp [isVerbatimNode, hda]
  rw [specAll_inner .array cs a hv (by decide)]
  unfold convArray
  simp only [ANode.children, himp, Bool.false_eq_true, ↓reduceIte, Bool.not_false, Bool.true_and]
  have hnh : ∀ x ∈ cs, x.kind ≠ .hash := by
    intro x hx hh
    rcases (hall x hx).2 with h | h | h
    · have : x.kind.isExpr = true := h.1
      rw [hh] at this; cases this
    · rw [hh] at h; cases h
    · unfold isIgnorable at h; rw [hh] at h; cases h
  have hp := soft_paren e
  exact list_construct_carries e ctx (convArrayItem e r) (rowChildOK QM) (convArrayItem_okM e r hrM) hm _ ⟨rfl, rfl, rfl⟩
    id (fun _ => rfl) _ hp.2.2.1 Carries.nil Carries.nil cs hall hnh

end Typstyle

namespace Typstyle
open Twin
variable {Q QM : ANode → Prop}

/-! ### math arguments with white space inside the parentheses -/

theorem tokensAreLeavesL_of_mem {l : List ANode} (h : ∀ x ∈ l, ANode.tokensAreLeaves x = true) :
    ANode.tokensAreLeavesL l = true := by
  induction l with
  | nil => rfl
  | cons c cs ih =>
    simp only [ANode.tokensAreLeavesL, Bool.and_eq_true]
    exact ⟨h c List.mem_cons_self, ih (fun x hx => h x (List.mem_cons_of_mem _ hx))⟩

theorem specAllL_spaces (sp : List ANode) (hlex : ANode.tokensAreLeavesL sp = true) (h : ∀ x ∈ sp, x.kind = .space) :
    specAllL sp = {} := by
  induction sp with
  | nil => rfl
  | cons c cs ih =>
    simp only [ANode.tokensAreLeavesL, Bool.and_eq_true] at hlex
    rw [specAllL_cons, specAll_space c hlex.1 (h c List.mem_cons_self), ih hlex.2 (fun x hx => h x (List.mem_cons_of_mem _ hx))]
    rfl

theorem findIdx?_spaces_left (sp : List ANode) (h : ∀ x ∈ sp, x.kind = .space) :
    sp.findIdx? (fun c => !(c.kind == .leftParen || c.kind == .space)) = none := by
  rw [List.findIdx?_eq_none_iff]
  intro x hx; simp [h x hx]

theorem findIdx?_spaces_right (sp : List ANode) (h : ∀ x ∈ sp, x.kind = .space) :
    sp.findIdx? (fun c => !(c.kind == .rightParen || c.kind == .space)) = none := by
  rw [List.findIdx?_eq_none_iff]
  intro x hx; simp [h x hx]

/-- **`convert_args_in_math`**: `(`, white space, content, white space, `)`. -/
theorem convArgsInMath_carries_gen (e : Env) (r : Rec) (ctx : Ctx)
    {okc : Ctx → ANode → Prop} (hprod : ProducerH (mathArgProducer e r) specAll okc)
    (hspc : ∀ cc (c : ANode), okc cc c → c.kind = .space → specAll c = {})
    (lp rp : ANode) (sp1 mid sp2 : List ANode) (a : Attrs)
    (hlp : lp.kind = .leftParen) (hrp : rp.kind = .rightParen)
    (hlex : ANode.tokensAreLeavesL (lp :: (sp1 ++ (mid ++ (sp2 ++ [rp])))) = true)
    (hs1 : ∀ x ∈ sp1, x.kind = .space) (hs2 : ∀ x ∈ sp2, x.kind = .space)
    (hhead : ∀ c, mid.head? = some c → (c.kind == .leftParen || c.kind == .space) = false)
    (hlast : ∀ c, mid.getLast? = some c → (c.kind == .rightParen || c.kind == .space) = false)
    (hempty : mid = [] → sp2 = [])
    (hseq : okSeq okc ctx false mid) :
    Post (convArgsInMath e r ctx (.inner .args (lp :: (sp1 ++ (mid ++ (sp2 ++ [rp])))) a))
      (fun d => Carries d (specAll (.inner .args (lp :: (sp1 ++ (mid ++ (sp2 ++ [rp])))) a))) := by
  have hv : isVerbatimNode .args (lp :: (sp1 ++ (mid ++ (sp2 ++ [rp])))) a = false := by simp [isVerbatimNode, Kind.isExpr]
  have hlex' := hlex
  simp only [ANode.tokensAreLeavesL, Bool.and_eq_true] at hlex'
  have hlexparts : ANode.tokensAreLeavesL sp1 = true ∧ ANode.tokensAreLeavesL sp2 = true ∧ ANode.tokensAreLeaves rp = true := by
    refine ⟨?_, ?_, ?_⟩
    · exact tokensAreLeavesL_of_mem (fun x hx => tokensAreLeavesL_mem hlex'.2 (by simp [hx]))
    · exact tokensAreLeavesL_of_mem (fun x hx => tokensAreLeavesL_mem hlex'.2 (by simp [hx]))
    · exact tokensAreLeavesL_mem hlex'.2 (by simp)
  rw [specAll_inner .args _ a hv (by decide), specAllL_cons, specAllL_append, specAllL_append, specAllL_append, specAllL_cons,
    specAllL_nil, specAll_delim lp hlex'.1 (by rw [hlp]; rfl), specAll_delim rp hlexparts.2.2 (by rw [hrp]; rfl),
    specAllL_spaces sp1 hlexparts.1 hs1, specAllL_spaces sp2 hlexparts.2.1 hs2]
  simp only [Streams.empty_app, Streams.app_empty]
  -- the slice `children[i..=j]` is the content
  have hslice : ∀ (i j : Nat),
      (lp :: (sp1 ++ (mid ++ (sp2 ++ [rp])))).findIdx? (fun c => !(c.kind == .leftParen || c.kind == .space)) = some i →
      (lp :: (sp1 ++ (mid ++ (sp2 ++ [rp])))).reverse.findIdx? (fun c => !(c.kind == .rightParen || c.kind == .space)) = some j →
      (if (decide (i > (lp :: (sp1 ++ (mid ++ (sp2 ++ [rp])))).length - 1 - j + 1) ||
          decide ((lp :: (sp1 ++ (mid ++ (sp2 ++ [rp])))).length - 1 - j ≥ (lp :: (sp1 ++ (mid ++ (sp2 ++ [rp])))).length)) = true then []
        else List.take ((lp :: (sp1 ++ (mid ++ (sp2 ++ [rp])))).length - 1 - j + 1 - i) (List.drop i (lp :: (sp1 ++ (mid ++ (sp2 ++ [rp])))))) = mid := by
    intro i j hi hj
    have hlen : (lp :: (sp1 ++ (mid ++ (sp2 ++ [rp])))).length = sp1.length + mid.length + sp2.length + 2 := by
      simp only [List.length_cons, List.length_append, List.length_nil]; omega
    by_cases hmid : mid = []
    · -- nothing but white space between the parentheses
      have hsp2 := hempty hmid
      subst hmid; subst hsp2
      have hi' : i = sp1.length + 1 := by
        rw [List.findIdx?_cons] at hi
        simp only [hlp, beq_self_eq_true, Bool.true_or, Bool.not_true, Bool.false_eq_true, ↓reduceIte, List.nil_append,
          List.findIdx?_append, findIdx?_spaces_left sp1 hs1, Option.none_or] at hi
        simp [List.findIdx?_cons, hrp] at hi
        omega
      have hj' : j = sp1.length + 1 := by
        simp only [List.nil_append, List.reverse_cons, List.reverse_append, List.reverse_nil, List.singleton_append,
          List.cons_append] at hj
        rw [List.findIdx?_cons] at hj
        simp only [hrp, beq_self_eq_true, Bool.true_or, Bool.not_true, Bool.false_eq_true, ↓reduceIte,
          List.findIdx?_append, findIdx?_spaces_right sp1.reverse (fun x hx => hs1 x (List.mem_reverse.mp hx)), Option.none_or] at hj
        simp [List.findIdx?_cons, hlp] at hj
        omega
      subst hi'; subst hj'
      rw [hlen]
      simp only [List.length_nil, Nat.add_zero]
      by_cases h0 : sp1.length = 0
      · have : sp1 = [] := List.length_eq_zero_iff.mp h0
        subst this
        simp
      · have : (decide (sp1.length + 1 > sp1.length + 2 - 1 - (sp1.length + 1) + 1) ||
            decide (sp1.length + 2 - 1 - (sp1.length + 1) ≥ sp1.length + 2)) = true := by
          simp only [Bool.or_eq_true, decide_eq_true_eq]; omega
        rw [this]; rfl
    · obtain ⟨m0, ms, hm0⟩ : ∃ m0 ms, mid = m0 :: ms := by
        cases mid with
        | nil => exact absurd rfl hmid
        | cons m0 ms => exact ⟨m0, ms, rfl⟩
      have hh := hhead m0 (by rw [hm0]; rfl)
      simp only [Bool.or_eq_false_iff, beq_eq_false_iff_ne, ne_eq] at hh
      have hi' : i = sp1.length + 1 := by
        rw [List.findIdx?_cons] at hi
        simp only [hlp, beq_self_eq_true, Bool.true_or, Bool.not_true, Bool.false_eq_true, ↓reduceIte,
          List.findIdx?_append, findIdx?_spaces_left sp1 hs1, Option.none_or] at hi
        rw [hm0] at hi
        simp [List.findIdx?_cons, hh] at hi
        omega
      obtain ⟨ml, mr, hml⟩ : ∃ ml mr, mid.reverse = ml :: mr := by
        cases hr' : mid.reverse with
        | nil => exact absurd (List.reverse_eq_nil_iff.mp hr') hmid
        | cons ml mr => exact ⟨ml, mr, rfl⟩
      have hgl : mid.getLast? = some ml := by rw [← List.head?_reverse, hml]; rfl
      have hl := hlast ml hgl
      simp only [Bool.or_eq_false_iff, beq_eq_false_iff_ne, ne_eq] at hl
      have hj' : j = sp2.length + 1 := by
        simp only [List.reverse_cons, List.reverse_append, List.reverse_nil, List.nil_append, List.singleton_append,
          List.cons_append, List.append_assoc] at hj
        rw [List.findIdx?_cons] at hj
        simp only [hrp, beq_self_eq_true, Bool.true_or, Bool.not_true, Bool.false_eq_true, ↓reduceIte,
          List.findIdx?_append, findIdx?_spaces_right sp2.reverse (fun x hx => hs2 x (List.mem_reverse.mp hx)), Option.none_or] at hj
        rw [hml] at hj
        simp [List.findIdx?_cons, hl] at hj
        omega
      subst hi'; subst hj'
      rw [hlen]
      have h1 : (decide (sp1.length + 1 > sp1.length + mid.length + sp2.length + 2 - 1 - (sp2.length + 1) + 1) ||
          decide (sp1.length + mid.length + sp2.length + 2 - 1 - (sp2.length + 1) ≥ sp1.length + mid.length + sp2.length + 2)) = false := by
        simp only [Bool.or_eq_false_iff, decide_eq_false_iff_not]; omega
      rw [h1]
      simp only [Bool.false_eq_true, ↓reduceIte]
      have h2 : sp1.length + mid.length + sp2.length + 2 - 1 - (sp2.length + 1) + 1 - (sp1.length + 1) = mid.length := by omega
      rw [h2]
      have h3 : List.drop (sp1.length + 1) (lp :: (sp1 ++ (mid ++ (sp2 ++ [rp])))) = mid ++ (sp2 ++ [rp]) := by
        rw [List.drop_succ_cons, List.drop_left' rfl]
      rw [h3, List.take_left' rfl]
  unfold convArgsInMath
  simp only [ANode.children]
  -- both searches succeed
  have hi : ∃ i, (lp :: (sp1 ++ (mid ++ (sp2 ++ [rp])))).findIdx? (fun c => !(c.kind == .leftParen || c.kind == .space)) = some i := by
    cases h : (lp :: (sp1 ++ (mid ++ (sp2 ++ [rp])))).findIdx? (fun c => !(c.kind == .leftParen || c.kind == .space)) with
    | some i => exact ⟨i, rfl⟩
    | none =>
      rw [List.findIdx?_eq_none_iff] at h
      have := h rp (by simp)
      simp [hrp] at this
  have hj : ∃ j, (lp :: (sp1 ++ (mid ++ (sp2 ++ [rp])))).reverse.findIdx? (fun c => !(c.kind == .rightParen || c.kind == .space)) = some j := by
    cases h : (lp :: (sp1 ++ (mid ++ (sp2 ++ [rp])))).reverse.findIdx? (fun c => !(c.kind == .rightParen || c.kind == .space)) with
    | some j => exact ⟨j, rfl⟩
    | none =>
      rw [List.findIdx?_eq_none_iff] at h
      have := h lp (by simp)
      simp [hlp] at this
  obtain ⟨i, hi⟩ := hi
  obtain ⟨j, hj⟩ := hj
  simp only [hi, hj, Option.getD_some, hslice i j hi hj]
  have hlexmid : ANode.tokensAreLeavesL mid = true :=
    tokensAreLeavesL_of_mem (fun x hx => tokensAreLeavesL_mem hlex'.2 (by simp [hx]))
  have hflow := flowM_carriesH (sem := specAll) (commentOK e) hprod hspc mid hseq false
  rw [contribL_specAll _ hlexmid] at hflow
  refine Post.bind hflow (fun inner hin => ?_)
  have hp := syn_paren e
  split
  · have key : ∀ cl : Doc, Carries cl {} →
        Carries ((((Twin.line_ ++ inner).nstTab ++ cl).grp).enclose (e.syn "(") (e.syn ")")) (specAllL mid) := by
      intro cl hcl
      have := ((((Carries.line_.app hin).nstTab).app hcl).grp).enclose hp.1 hp.2
      simpa using this
    refine Post.pure (key _ ?_)
    split
    · split
      · exact Carries.hardline
      · exact Carries.line_
    · exact Carries.line_
  · exact Post.pure (by simpa using hin.enclose hp.1 hp.2)

/-- The same for content without named or spread arguments. -/
theorem convArgsInMath_carries_sp (e : Env) (r : Rec) (hr : RecOK r Q) (hrM : RecOKM r QM) (ctx : Ctx) (hm : ctx.mode = .math)
    (lp rp : ANode) (sp1 mid sp2 : List ANode) (a : Attrs)
    (hlp : lp.kind = .leftParen) (hrp : rp.kind = .rightParen)
    (hlex : ANode.tokensAreLeavesL (lp :: (sp1 ++ (mid ++ (sp2 ++ [rp])))) = true)
    (hs1 : ∀ x ∈ sp1, x.kind = .space) (hs2 : ∀ x ∈ sp2, x.kind = .space)
    (hhead : ∀ c, mid.head? = some c → (c.kind == .leftParen || c.kind == .space) = false)
    (hlast : ∀ c, mid.getLast? = some c → (c.kind == .rightParen || c.kind == .space) = false)
    (hempty : mid = [] → sp2 = [])
    (hseq : MathSeqOK Q QM false mid) :
    Post (convArgsInMath e r ctx (.inner .args (lp :: (sp1 ++ (mid ++ (sp2 ++ [rp])))) a))
      (fun d => Carries d (specAll (.inner .args (lp :: (sp1 ++ (mid ++ (sp2 ++ [rp])))) a))) :=
  convArgsInMath_carries_gen e r ctx (mathArgProducer_ok e r hr hrM) (fun cc c hok hk => okM_space cc c hok hk)
    lp rp sp1 mid sp2 a hlp hrp hlex hs1 hs2 hhead hlast hempty (mathSeq_okSeq ctx hm mid false hseq)

end Typstyle

namespace Typstyle
variable {Q QM : ANode → Prop}

theorem mathSeq_drop_spaces (sp l : List ANode) (hs : ∀ x ∈ sp, x.kind = .space) :
    ∀ hh, MathSeqOK Q QM hh (sp ++ l) → MathSeqOK Q QM (if sp.isEmpty then hh else false) l := by
  induction sp with
  | nil => intro hh h; simpa using h
  | cons c cs ih =>
    intro hh h
    simp only [List.cons_append, MathSeqOK] at h
    have hk : (c.kind == .hash) = false := by rw [hs c List.mem_cons_self]; rfl
    rw [hk] at h
    have := ih (fun x hx => hs x (List.mem_cons_of_mem _ hx)) false h.2.2
    simpa using this

end Typstyle

namespace Typstyle
open Twin
variable {Q QM : ANode → Prop}

/-! ### rows of math arguments with embedded code (`mat(#a, b; c, d)`) -/

/-- Where `#` may stand in a row: not after another `#`, followed by an expression, not last. -/
def hashSeqB : Bool → List ANode → Bool
  | p, [] => !p
  | p, x :: xs => (if x.kind == .hash then !p else (!p || isExpr x)) && hashSeqB (x.kind == .hash) xs

def okRow (Q QM : ANode → Prop) (c : Ctx) (x : ANode) : Prop :=
  ANode.tokensAreLeaves x = true ∧
  (if isExpr x = true then ((c.mode = .math → QM x) ∧ (NM c → Q x))
   else isCommentKind x.kind = true ∨ isIgnorable x = true)

theorem convArrayItem_okRow (e : Env) (r : Rec) (hr : RecOK r Q) (hrM : RecOKM r QM) :
    CheckerH (convArrayItem e r) specAll (okRow Q QM) := by
  intro c x hok
  unfold convArrayItem
  by_cases hx : isExpr x = true
  · have hns : (x.kind == .spread) = false := by
      have : x.kind.isExpr = true := hx
      cases hk : x.kind <;> simp_all [Kind.isExpr]
    simp only [hns, Bool.false_eq_true, ↓reduceIte, hx]
    have h2 := hok.2
    simp only [hx, ↓reduceIte] at h2
    by_cases hm : c.mode = .math
    · exact Post.bind (hrM.expr c x hm hx (h2.1 hm)) (fun d hd => Post.pure hd)
    · exact Post.bind (hr.expr c x hm hx (h2.2 hm)) (fun d hd => Post.pure hd)
  · have h2 := hok.2
    simp only [hx, Bool.false_eq_true, ↓reduceIte] at h2
    have hns : (x.kind == .spread) = false := by
      rcases h2 with h | h
      · cases hk : x.kind <;> simp_all [isCommentKind]
      · unfold isIgnorable at h
        cases hk : x.kind <;> simp_all [Kind.fixedText]
    simp only [hns, Bool.false_eq_true, ↓reduceIte, hx]
    refine Post.pure ?_
    show specAll x = triviaS x
    rcases h2 with h | h
    · exact triviaS_comment x hok.1 h
    · exact triviaS_ignorable x hok.1 h

theorem rowSeq_HSeq (ctx : Ctx) (hm : ctx.mode = .math) (cs : List ANode) :
    ∀ p, MathSeqOK Q QM p cs →
      (∀ x ∈ cs, isExpr x = true ∨ isCommentKind x.kind = true ∨ isIgnorable x = true ∨ x.kind = .hash) →
      hashSeqB p cs = true → HSeq (okRow Q QM) (fun x => isExpr x = true) ctx p cs := by
  induction cs with
  | nil => intro p _ _ h; show p = false; simpa [hashSeqB] using h
  | cons x xs ih =>
    intro p hseq hkinds hh
    simp only [MathSeqOK] at hseq
    simp only [hashSeqB, Bool.and_eq_true] at hh
    have hdec : decide (x.kind = .hash) = (x.kind == .hash) := by
      by_cases hk : x.kind = .hash <;> simp [hk]
    refine ⟨?_, by rw [hdec]; exact ih _ hseq.2.2 (fun y hy => hkinds y (List.mem_cons_of_mem _ hy)) hh.2⟩
    by_cases hk : x.kind = .hash
    · simp only [hk, ↓reduceIte]
      have h1 := hh.1
      simp only [hk, beq_self_eq_true, ↓reduceIte, Bool.not_eq_true'] at h1
      exact ⟨h1, hseq.1⟩
    · simp only [hk, ↓reduceIte]
      have hkb : (x.kind == .hash) = false := by simpa using hk
      have h1 := hh.1
      simp only [hkb, Bool.false_eq_true, ↓reduceIte, Bool.or_eq_true, Bool.not_eq_true'] at h1
      refine ⟨⟨hseq.1, ?_⟩, ?_⟩
      · by_cases hx : isExpr x = true
        · simp only [hx, ↓reduceIte]
          have h2 := hseq.2.1
          simp only [hx, ↓reduceIte] at h2
          cases p with
          | true =>
            simp only [↓reduceIte] at h2
            refine ⟨fun hmm => ?_, fun _ => h2⟩
            simp [Ctx.withModeIf] at hmm
          | false =>
            simp only [Bool.false_eq_true, ↓reduceIte] at h2
            exact ⟨fun _ => h2, fun hnm => absurd hm hnm⟩
        · simp only [hx, Bool.false_eq_true, ↓reduceIte]
          rcases hkinds x List.mem_cons_self with h | h | h | h
          · exact absurd h hx
          · exact Or.inl h
          · exact Or.inr h
          · exact absurd h hk
      · intro hp
        rcases h1 with h | h
        · rw [hp] at h; cases h
        · exact h

/-- **`convert_array` on a row of math arguments, `#` allowed.** -/
theorem convArrayMH_carries (e : Env) (r : Rec) (hr : RecOK r Q) (hrM : RecOKM r QM) (ctx : Ctx) (hm : ctx.mode = .math)
    (cs : List ANode) (a : Attrs) (hda : a.disabled = false)
    (himp : (cs.head?.map (·.kind == .leftParen)).getD false = false)
    (hseq : MathSeqOK Q QM false cs)
    (hkinds : ∀ x ∈ cs, isExpr x = true ∨ isCommentKind x.kind = true ∨ isIgnorable x = true ∨ x.kind = .hash)
    (hh : hashSeqB false cs = true) :
    Post (convArray e r ctx (.inner .array cs a)) (fun d => Carries d (specAll (.inner .array cs a))) := by
  have hv : isVerbatimNode .array cs a = false := by simp [isVerbatimNode, hda]
  rw [specAll_inner .array cs a hv (by decide)]
  unfold convArray
  simp only [ANode.children, himp, Bool.false_eq_true, ↓reduceIte, Bool.not_false, Bool.true_and]
  have hp := soft_paren e
  refine list_construct_carriesH e ctx (convArrayItem e r) (convArrayItem_okRow e r hr hrM) ?_ ?_
    (fun x hl hk => specAll_hash_node x hl hk) _ ⟨rfl, rfl, rfl⟩ id (fun _ => rfl) _ hp.2.2.1 Carries.nil Carries.nil cs
    (rowSeq_HSeq ctx hm cs false hseq hkinds hh)
  · intro c x hk
    unfold convArrayItem
    have h1 : (x.kind == .spread) = false := by rw [hk]; rfl
    have h2 : isExpr x = false := by unfold isExpr; rw [hk]; rfl
    simp [h1, h2]
  · intro c x hx
    unfold convArrayItem
    have hns : (x.kind == .spread) = false := by
      have : x.kind.isExpr = true := hx
      cases hk : x.kind <;> simp_all [Kind.isExpr]
    simp only [hns, Bool.false_eq_true, ↓reduceIte, hx]
    exact Post.bind (Q := fun _ => True) (fun _ _ _ _ => trivial) (fun d _ => Post.pure rfl)

end Typstyle

namespace Typstyle
open Twin
variable {Q QM : ANode → Prop}

/-! ### field access in math (`arrow.r`, `angle.l`) -/

/-- In math mode a field access never takes a chain layout. -/
theorem tryDotChain_math_none (e : Env) (r : Rec) (ctx : Ctx) (hm : ctx.mode = .math) (n : ANode) (hk : n.kind = .fieldAccess) :
    Post (tryDotChain e r ctx n) (fun o => o = none) := by
  unfold tryDotChain
  split
  · exact Post.pure rfl
  · simp only [pure_bind]
    have hmk : (ctx.mode == LMode.markup) = false := by rw [hm]; rfl
    have hc1 : (ctx.mode == LMode.code) = false := by rw [hm]; rfl
    have hc2 : (ctx.mode == LMode.codeCont) = false := by rw [hm]; rfl
    have hplain : Post (tryDotChainPlain e r ctx (resolveDotChain n.depth n)) (fun o => o = none) := by
      obtain ⟨fuel, hfuel⟩ : ∃ f, n.depth = f + 1 := ⟨n.depth - 1, by have := depth_pos n; omega⟩
      rw [hfuel]
      obtain ⟨xs, hxs⟩ := resolveDotChain_cons (fuel + 1) n
      unfold tryDotChainPlain
      simp only
      rw [hxs]
      have hgl : (n :: xs).reverse.getLast? = some n := by simp
      rw [hgl]
      cases (n :: xs).reverse.head? with
      | none => exact Post.pure rfl
      | some id =>
        simp only
        have : (n.kind != Kind.funcCall || id.kind != Kind.ident) = true := by simp [hk]
        simp only [this, ↓reduceIte]
        exact Post.pure rfl
    split
    · refine Post.bind hplain ?_
      intro o ho
      subst ho
      simp only [hmk, hc1, hc2, Bool.false_and, Bool.or_self, Bool.false_eq_true, ↓reduceIte]
      exact Post.pure rfl
    · simp only [hmk, hc1, hc2, Bool.false_and, Bool.or_self, Bool.false_eq_true, ↓reduceIte]
      exact Post.pure rfl

/-- **`convert_field_access` in math mode** (no comment among the children). -/
theorem convFieldAccessM_carries (e : Env) (r : Rec) (hrM : RecOKM r QM) (ctx : Ctx) (hm : ctx.mode = .math)
    (t : ANode) (rest : List ANode) (a : Attrs) (hda : a.disabled = false)
    (hxt : isExpr t = true) (hqt : QM t) (hrest : faRest 0 rest = true)
    (hlex : ANode.tokensAreLeavesL (t :: rest) = true)
    (hnc : (t :: rest).any (fun c => isCommentKind c.kind) = false) :
    Post (convFieldAccess e r ctx (.inner .fieldAccess (t :: rest) a))
      (fun d => Carries d (specAll (.inner .fieldAccess (t :: rest) a))) := by
  unfold convFieldAccess
  refine Post.bind (tryDotChain_math_none e r ctx hm _ rfl) ?_
  intro o ho
  subst ho
  simp only
  have hv : isVerbatimNode .fieldAccess (t :: rest) a = false := by simp [isVerbatimNode, hda]
  rw [specAll_inner .fieldAccess (t :: rest) a hv (by decide)]
  unfold convFieldAccessPlain
  have hcm : hasCommentChildren (.inner .fieldAccess (t :: rest) a) = false := by
    simpa [hasCommentChildren, ANode.children] using hnc
  simp only [hcm, Bool.false_eq_true, ↓reduceIte]
  simp only [List.any_cons, Bool.or_eq_false_iff] at hnc
  simp only [ANode.tokensAreLeavesL, Bool.and_eq_true] at hlex
  obtain ⟨f, hf, hs⟩ := faRest0 rest hrest hlex.2 hnc.2
  have hfind : firstWhere (.inner .fieldAccess (t :: rest) a) isExpr = some t := by
    simp [firstWhere, ANode.children, hxt]
  have hlast : lastWhere (.inner .fieldAccess (t :: rest) a) (fun c => c.kind == .ident) = some f := by
    show (t :: rest).reverse.find? _ = _
    rw [List.reverse_cons, List.find?_append, hf]; rfl
  simp only [hfind, hlast, childOr, M.pure_bind]
  refine Post.bind (hrM.expr ctx t hm hxt hqt) (fun d hd => Post.pure ?_)
  rw [specAllL_cons, hs]
  have := (hd.app (Carries.mkText e.wd .syn ".")).app (Carries.mkText e.wd .lit f.text)
  simpa [Streams.app_assoc, Env.syn, Env.lit] using this

end Typstyle
