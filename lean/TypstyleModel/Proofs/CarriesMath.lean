import TypstyleModel.Proofs.CarriesFlowH
import TypstyleModel.Proofs.CarriesConstructs
import TypstyleModel.Proofs.CarriesComment
import TypstyleModel.Proofs.CarriesLists
import TypstyleModel.Proofs.CarriesBinary
/-! Equations and math (`math.rs`): the math-mode entry points carry exactly what the tree prescribes.
`Q` is the fragment for contexts that are not in math mode, `QM` the fragment for math mode; the child
after a `#` is converted in code mode, hence must satisfy `Q`. -/
namespace Typstyle
open Twin

/-- The math-mode induction hypothesis of the knot. -/
structure RecOKM (r : Rec) (QM : ANode → Prop) : Prop where
  expr : ∀ ctx c, ctx.mode = .math → isExpr c = true → QM c → Post (r.expr ctx c) (fun d => Carries d (specAll c))
  math : ∀ ctx c, ctx.mode = .math → c.kind = .math → QM c → Post (r.math ctx c) (fun d => Carries d (specAll c))

theorem tagS_comment (t : String) : tagS .comment t = commentS t := by
  apply Streams.ext' <;> simp [tagS, Pretty.charsOf, commentS]

theorem withModeIf_true_NM (ctx : Ctx) : NM (ctx.withModeIf .code true) := by
  unfold NM Ctx.withModeIf; simp

theorem specAll_underscore_leaf' (t : String) (a : Attrs) : specAll (.leaf .underscore t a) = tagS .tok t := by
  apply Streams.ext' <;> simp [specAll, specToks, specCmts, specProse, specLit, specVerb, isCommentKind, tagS, Pretty.charsOf,
    Pretty.keepOf, leafTag, Kind.isExpr]

/-- A token leaf printed from its own text. -/
theorem tokLike_carries (e : Env) (c : ANode) (h : ANode.tokensAreLeaves c = true)
    (hp : c.kind.isPlainToken = true ∨ c.kind = .underscore) : Carries (e.tok c.text) (specAll c) := by
  rcases hp with hp | hp
  · exact tok_carries e c h hp
  · obtain ⟨t, a, hc⟩ := leaf_of_token h (by rw [hp]; rfl)
    refine (Carries.mkText e.wd .tok c.text).congr ?_
    rw [hc, hp, specAll_underscore_leaf']; rfl

variable {Q QM : ANode → Prop}

/-- The children of a `Math` node, converted in math mode (`hh`: the previous sibling is `#`). -/
def MathSeqOK (Q QM : ANode → Prop) : Bool → List ANode → Prop
  | _, [] => True
  | hh, c :: cs =>
    ANode.tokensAreLeaves c = true ∧
    (if isExpr c = true then (if hh = true then Q c else QM c)
     else c.kind = .space ∨ c.kind = .hash ∨ isCommentKind c.kind = true ∨ c.kind.isPlainToken = true ∨ c.kind = .underscore) ∧
    MathSeqOK Q QM (c.kind == .hash) cs

theorem specAll_hash_node (c : ANode) (h : ANode.tokensAreLeaves c = true) (hk : c.kind = .hash) :
    specAll c = tagS .syn "#" := by
  obtain ⟨t, a, hc⟩ := leaf_of_token h (by rw [hk]; rfl)
  have ht : t = "#" := leaf_tok_fixed (k := .hash) (a := a) (by rw [hc, hk] at h; exact h) rfl
  rw [hc, hk, specAll_hash_leaf, tagS_syn_eq_tok, ht]

theorem mathStep_carries (e : Env) (r : Rec) (hr : RecOK r Q) (hrM : RecOKM r QM) (ctx : Ctx) (hm : ctx.mode = .math)
    (acc : Doc × Bool) (s : Streams) (ha : Carries acc.1 s) (c : ANode) (hlex : ANode.tokensAreLeaves c = true)
    (hc : if isExpr c = true then (if acc.2 = true then Q c else QM c)
     else c.kind = .space ∨ c.kind = .hash ∨ isCommentKind c.kind = true ∨ c.kind.isPlainToken = true ∨ c.kind = .underscore) :
    Post (mathStep e r ctx acc c) (fun r' => Carries r'.1 (s.app (specAll c)) ∧ r'.2 = (c.kind == .hash)) := by
  obtain ⟨doc, atHash⟩ := acc
  simp only at ha hc
  unfold mathStep
  simp only
  split
  · rename_i hx
    simp only [hx, ↓reduceIte] at hc
    have hnh : (c.kind == .hash) = false := by
      have : c.kind.isExpr = true := hx
      cases hk : c.kind <;> simp_all [Kind.isExpr]
    cases atHash with
    | true =>
      simp only [↓reduceIte] at hc
      exact Post.bind (hr.expr _ c (withModeIf_true_NM ctx) hx hc) (fun d hd => Post.pure ⟨ha.app hd, hnh.symm⟩)
    | false =>
      simp only [Bool.false_eq_true, ↓reduceIte] at hc
      exact Post.bind (hrM.expr _ c hm hx hc) (fun d hd => Post.pure ⟨ha.app hd, hnh.symm⟩)
  · rename_i hx
    simp only [hx, Bool.false_eq_true, ↓reduceIte] at hc
    split
    · rename_i hk
      have hk' : c.kind = .space := by simpa using hk
      refine Post.pure ⟨?_, by rw [hk']; rfl⟩
      rw [specAll_space c hlex hk', Streams.app_empty]
      split
      · simpa using ha.app Carries.hardline
      · simpa using ha.app Carries.space
    · rename_i hks
      split
      · rename_i hk
        have hk' : c.kind = .hash := by simpa using hk
        refine Post.pure ⟨?_, by rw [hk']; rfl⟩
        rw [specAll_hash_node c hlex hk']
        exact ha.app (Carries.mkText e.wd .syn "#")
      · rename_i hkh
        have hkh' : (c.kind == .hash) = false := by simpa using hkh
        split
        · rename_i hk
          refine Post.pure ⟨?_, hkh'.symm⟩
          rw [specAll_comment_node c hlex hk, ← tagS_comment]
          exact ha.app (Carries.mkText e.wd .comment c.text)
        · rename_i hkc
          refine Post.pure ⟨?_, hkh'.symm⟩
          have hp : c.kind.isPlainToken = true ∨ c.kind = .underscore := by
            rcases hc with h | h | h | h
            · exact absurd (by simpa using h) hks
            · exact absurd (by simpa using h) hkh
            · exact absurd h hkc
            · exact h
          exact ha.app (tokLike_carries e c hlex hp)

theorem mathFold_carries (e : Env) (r : Rec) (hr : RecOK r Q) (hrM : RecOKM r QM) (ctx : Ctx) (hm : ctx.mode = .math) :
    ∀ (cs : List ANode) (acc : Doc × Bool) (s : Streams), Carries acc.1 s → MathSeqOK Q QM acc.2 cs →
      Post (cs.foldlM (mathStep e r ctx) acc) (fun r' => Carries r'.1 (s.app (specAllL cs))) := by
  intro cs
  induction cs with
  | nil => intro acc s ha _; exact Post.pure (by simpa using ha)
  | cons c cs ih =>
    intro acc s ha hok
    simp only [MathSeqOK] at hok
    rw [List.foldlM_cons]
    refine Post.bind (mathStep_carries e r hr hrM ctx hm acc s ha c hok.1 hok.2.1) ?_
    rintro acc' ⟨h1, h2⟩
    have := ih acc' _ h1 (by rw [h2]; exact hok.2.2)
    rw [specAllL_cons, ← Streams.app_assoc]
    exact this

/-- **`convert_math`**: a math body carries exactly what it prescribes. -/
theorem convMath_carries (e : Env) (r : Rec) (hr : RecOK r Q) (hrM : RecOKM r QM) (ctx : Ctx) (hm : ctx.mode = .math)
    (cs : List ANode) (a : Attrs) (hseq : MathSeqOK Q QM false cs) :
    Post (convMath e r ctx (.inner .math cs a)) (fun d => Carries d (specAll (.inner .math cs a))) := by
  unfold convMath
  refine Post.bind (Q := fun _ => True) (fun _ _ _ _ => trivial) (fun _ _ => ?_)
  split
  · rename_i hd
    exact Post.pure (verb_inner_carries e .math cs a (by simpa [ANode.attrs] using hd) rfl)
  · rename_i hd
    have hd' : a.disabled = false := by simpa [ANode.attrs] using hd
    have hv : isVerbatimNode .math cs a = false := by simp [isVerbatimNode, hd']
    rw [specAll_inner .math cs a hv (by decide)]
    simp only [ANode.children]
    refine Post.bind (mathFold_carries e r hr hrM ctx.suppress hm cs (Doc.nil, false) {} Carries.nil hseq) ?_
    intro acc hacc
    exact Post.pure (by simpa using hacc)

end Typstyle

namespace Typstyle
open Twin
variable {Q QM : ANode → Prop}

/-! ### equations -/

/-- What the list stylist of an equation is told each child contributes: the `$` delimiters are
printed by the style, not as items. -/
def semEq (x : ANode) : Streams := if x.kind == .dollar then {} else specAll x

def semEqL : List ANode → Streams
  | [] => {}
  | c :: cs => (semEq c).app (semEqL cs)

theorem foldl_semEq (cs : List ANode) (acc : Streams) :
    cs.foldl (fun acc x => acc.app (semEq x)) acc = acc.app (semEqL cs) := by
  induction cs generalizing acc with
  | nil => simp [semEqL]
  | cons c cs ih => rw [List.foldl_cons, ih, semEqL, Streams.app_assoc]

/-- The children of an equation after the opening `$`: the body, white space, comments, then the
closing `$`. -/
def EqRest (QM : ANode → Prop) : List ANode → Prop
  | [] => False
  | c :: cs =>
    ANode.tokensAreLeaves c = true ∧
    ((cs = [] ∧ c.kind = .dollar) ∨
     (cs ≠ [] ∧ ((c.kind = .math ∧ (∃ mcs a, c = .inner .math mcs a) ∧ QM c) ∨ c.kind = .space ∨ isCommentKind c.kind = true) ∧ EqRest QM cs))

def eqChildOK (QM : ANode → Prop) (x : ANode) : Prop :=
  ANode.tokensAreLeaves x = true ∧
  ((x.kind = .math ∧ (∃ mcs a, x = .inner .math mcs a) ∧ QM x) ∨ x.kind = .dollar ∨ x.kind = .space ∨ isCommentKind x.kind = true)

theorem specAll_dollar_node (c : ANode) (h : ANode.tokensAreLeaves c = true) (hk : c.kind = .dollar) :
    specAll c = tagS .syn "$" := by
  obtain ⟨t, a, hc⟩ := leaf_of_token h (by rw [hk]; rfl)
  have ht : t = "$" := leaf_tok_fixed (k := .dollar) (a := a) (by rw [hc, hk] at h; exact h) rfl
  rw [hc, hk, specAll_plain_leaf .dollar t a rfl, tagS_syn_eq_tok, ht]

theorem eqRest_facts (rest : List ANode) (h : EqRest QM rest) :
    (∀ x ∈ rest, eqChildOK QM x) ∧ specAllL rest = (semEqL rest).app (tagS .syn "$") := by
  induction rest with
  | nil => exact absurd h (by simp [EqRest])
  | cons c cs ih =>
    simp only [EqRest] at h
    obtain ⟨hlex, hcase⟩ := h
    rcases hcase with ⟨hnil, hk⟩ | ⟨hne, hk, hrest⟩
    · subst hnil
      refine ⟨?_, ?_⟩
      · intro x hx
        have : x = c := by simpa using hx
        subst this
        exact ⟨hlex, Or.inr (Or.inl hk)⟩
      · have hs : semEq c = {} := by unfold semEq; simp [hk]
        rw [specAllL_cons, specAllL_nil, Streams.app_empty, semEqL, semEqL, hs, specAll_dollar_node c hlex hk]
        simp
    · obtain ⟨h1, h2⟩ := ih hrest
      refine ⟨?_, ?_⟩
      · intro x hx
        rcases List.mem_cons.mp hx with rfl | hx'
        · refine ⟨hlex, ?_⟩
          rcases hk with hk | hk | hk
          · exact Or.inl hk
          · exact Or.inr (Or.inr (Or.inl hk))
          · exact Or.inr (Or.inr (Or.inr hk))
        · exact h1 x hx'
      · have hs : semEq c = specAll c := by
          unfold semEq
          have : (c.kind == .dollar) = false := by
            rcases hk with hk | hk | hk
            · rw [hk.1]; rfl
            · rw [hk]; rfl
            · cases hkk : c.kind <;> simp_all [isCommentKind]
          simp [this]
        rw [specAllL_cons, h2, semEqL, hs, Streams.app_assoc]

theorem specAll_empty_math (a : Attrs) : specAll (.inner .math [] a) = {} := by
  apply Streams.ext' <;>
    simp [specAll, specToks, specCmts, specProse, specLit, specVerb, isVerbatimNode, ANode.intoTextL, Pretty.keepOf,
      specToksL, specCmtsL, specProseL, specLitL, specVerbL]

theorem equationItem_ok (e : Env) (r : Rec) (hrM : RecOKM r QM) (cs : List ANode) (isBlock : Bool) :
    CheckerS (equationItem e r cs isBlock) semEq (eqChildOK QM) (fun c => c.mode = .math) := by
  intro c x hm hok
  unfold equationItem
  obtain ⟨hlex, hcase⟩ := hok
  by_cases hk : x.kind = .math
  · have hne : (x.kind != .math) = false := by simp [hk]
    simp only [hne, Bool.false_eq_true, ↓reduceIte]
    have hqm : (∃ mcs a, x = .inner .math mcs a) ∧ QM x := by
      rcases hcase with h | h | h | h
      · exact h.2
      · rw [hk] at h; cases h
      · rw [hk] at h; cases h
      · rw [hk] at h; cases h
    have hs : semEq x = specAll x := by unfold semEq; simp [hk]
    split
    · rename_i hlen
      refine Post.pure ?_
      obtain ⟨⟨mcs, a, rfl⟩, _⟩ := hqm
      have : mcs = [] := by simpa [ANode.children] using hlen
      subst this
      show semEq _ = triviaS _
      rw [hs, specAll_empty_math]; rfl
    · refine Post.bind (hrM.math c x hm hk hqm.2) (fun body hb => Post.pure ?_)
      show Carries _ (semEq x)
      rw [hs]
      split
      · simpa using hb.app (Carries.soft e " " (by decide))
      · exact hb
  · have hne : (x.kind != .math) = true := by simpa using hk
    simp only [hne, ↓reduceIte]
    refine Post.pure ?_
    show semEq x = triviaS x
    rcases hcase with h | h | h | h
    · exact absurd h.1 hk
    · unfold semEq triviaS; simp [h, isCommentKind]
    · unfold semEq triviaS
      have : (x.kind == .dollar) = false := by rw [h]; rfl
      simp only [this, Bool.false_eq_true, ↓reduceIte, h]
      rw [specAll_space x hlex h]; rfl
    · unfold semEq triviaS
      have : (x.kind == .dollar) = false := by cases hkk : x.kind <;> simp_all [isCommentKind]
      simp only [this, Bool.false_eq_true, ↓reduceIte, h]
      exact specAll_comment_node x hlex h

/-- **`convert_equation`** carries exactly what the equation prescribes. -/
theorem convEquation_carries (e : Env) (r : Rec) (hrM : RecOKM r QM) (ctx : Ctx)
    (d0 : ANode) (rest : List ANode) (a : Attrs) (hda : a.disabled = false)
    (hl0 : ANode.tokensAreLeaves d0 = true) (hk0 : d0.kind = .dollar) (hrest : EqRest QM rest) :
    Post (convEquation e r ctx (.inner .equation (d0 :: rest) a))
      (fun d => Carries d (specAll (.inner .equation (d0 :: rest) a))) := by
  have hv : isVerbatimNode .equation (d0 :: rest) a = false := by simp [isVerbatimNode, hda]
  rw [specAll_inner .equation (d0 :: rest) a hv (by decide)]
  obtain ⟨hall, hspec⟩ := eqRest_facts rest hrest
  unfold convEquation
  simp only [ANode.children]
  have hok : ∀ x ∈ d0 :: rest, eqChildOK QM x := by
    intro x hx
    rcases List.mem_cons.mp hx with rfl | hx'
    · exact ⟨hl0, Or.inr (Or.inl hk0)⟩
    · exact hall x hx'
  have hnh : ∀ x ∈ d0 :: rest, x.kind ≠ .hash := by
    intro x hx hh
    obtain ⟨_, hc⟩ := hok x hx
    rcases hc with h | h | h | h
    · rw [hh] at h; cases h.1
    · rw [hh] at h; cases h
    · rw [hh] at h; cases h
    · rw [hh] at h; simp [isCommentKind] at h
  have key : ∀ (ib : Bool) (f : Fold),
      Post (do let ls ← (({} : LS).withFold f).processM e (ctx.withMode .math) (d0 :: rest) (equationItem e r (d0 :: rest) ib)
               pure (ls.print e { sep := Doc.nil, d0 := e.syn "$", d1 := e.syn "$", addDelimSpace := ib, tightDelim := !ib }))
        (fun d => Carries d (specAllL (d0 :: rest))) := by
    intro ib f
    have := list_construct_carries_delims e (ctx.withMode .math) (equationItem e r (d0 :: rest) ib) (eqChildOK QM)
      (equationItem_ok e r hrM (d0 :: rest) ib) rfl (({} : LS).withFold f) ⟨rfl, rfl, rfl⟩
      { sep := Doc.nil, d0 := e.syn "$", d1 := e.syn "$", addDelimSpace := ib, tightDelim := !ib }
      Carries.nil (Carries.mkText e.wd .syn "$") (Carries.mkText e.wd .syn "$") rfl rfl rfl (d0 :: rest) hok hnh
    refine Post.mono this ?_
    intro d hd
    refine hd.congr ?_
    rw [foldl_semEq, Streams.empty_app, semEqL, specAllL_cons, specAll_dollar_node d0 hl0 hk0, hspec]
    have hs : semEq d0 = {} := by unfold semEq; simp [hk0]
    rw [hs, Streams.empty_app, Streams.app_assoc]
  exact key _ _

end Typstyle

namespace Typstyle
open Twin
variable {Q QM : ANode → Prop}

/-! ### attachments, roots, fractions, primes -/

/-- What a math-mode flow may assume of a child it hands to its producer, in context `c`. -/
def okM (Q QM : ANode → Prop) (c : Ctx) (child : ANode) : Prop :=
  ANode.tokensAreLeaves child = true ∧
  (if isExpr child = true then ((c.mode = .math → QM child) ∧ (NM c → Q child))
   else child.kind = .space ∨ child.kind.isPlainToken = true ∨ child.kind = .underscore)

theorem mathSeq_okSeq (ctx : Ctx) (hm : ctx.mode = .math) (cs : List ANode) :
    ∀ hh, MathSeqOK Q QM hh cs → okSeq (okM Q QM) ctx hh cs := by
  induction cs with
  | nil => intro _ _; trivial
  | cons c cs ih =>
    intro hh h
    simp only [MathSeqOK] at h
    refine ⟨?_, ih _ h.2.2⟩
    by_cases hx : isExpr c = true
    · right
      refine ⟨h.1, ?_⟩
      have h2 := h.2.1
      simp only [hx, ↓reduceIte] at h2 ⊢
      cases hh with
      | true =>
        simp only [↓reduceIte] at h2
        refine ⟨fun hmm => ?_, fun _ => h2⟩
        simp [Ctx.withModeIf] at hmm
      | false =>
        simp only [Bool.false_eq_true, ↓reduceIte] at h2
        refine ⟨fun _ => h2, fun hnm => ?_⟩
        exact absurd hm hnm
    · have h2 := h.2.1
      simp only [hx, Bool.false_eq_true, ↓reduceIte] at h2
      rcases h2 with h2 | h2 | h2 | h2 | h2
      · right; refine ⟨h.1, ?_⟩; simp only [hx, Bool.false_eq_true, ↓reduceIte]; exact Or.inl h2
      · left; exact Or.inr (Or.inr h2)
      · left; exact Or.inr (Or.inl h2)
      · right; refine ⟨h.1, ?_⟩; simp only [hx, Bool.false_eq_true, ↓reduceIte]; exact Or.inr (Or.inl h2)
      · right; refine ⟨h.1, ?_⟩; simp only [hx, Bool.false_eq_true, ↓reduceIte]; exact Or.inr (Or.inr h2)

theorem okM_expr (r : Rec) (hr : RecOK r Q) (hrM : RecOKM r QM) (c : Ctx) (child : ANode) (hok : okM Q QM c child)
    (hx : isExpr child = true) : Post (r.expr c child) (fun d => Carries d (specAll child)) := by
  have h2 := hok.2
  simp only [hx, ↓reduceIte] at h2
  by_cases hm : c.mode = .math
  · exact hrM.expr c child hm hx (h2.1 hm)
  · exact hr.expr c child hm hx (h2.2 hm)

theorem okM_tok (e : Env) (c : Ctx) (child : ANode) (hok : okM Q QM c child) (hx : ¬ isExpr child = true)
    (hs : child.kind ≠ .space) : Carries (e.tok child.text) (specAll child) := by
  have h2 := hok.2
  simp only [hx, Bool.false_eq_true, ↓reduceIte] at h2
  rcases h2 with h2 | h2
  · exact absurd h2 hs
  · exact tokLike_carries e child hok.1 h2

theorem okM_space (c : Ctx) (child : ANode) (hok : okM Q QM c child) (hs : child.kind = .space) : specAll child = {} :=
  specAll_space child hok.1 hs

theorem attachProducer_ok (e : Env) (r : Rec) (hr : RecOK r Q) (hrM : RecOKM r QM) :
    ProducerH (attachProducer e r) specAll (okM Q QM) := by
  intro st c child hok
  unfold attachProducer
  split
  · rename_i hx
    exact Post.bind (okM_expr r hr hrM c child hok hx) (fun d hd => Post.pure hd)
  · rename_i hx
    split
    · rename_i hk
      exact Post.pure (okM_space c child hok (by simpa using hk))
    · rename_i hk
      have hs : child.kind ≠ .space := by simpa using hk
      split
      · exact Post.pure (okM_tok e c child hok hx hs)
      · exact Post.pure (okM_tok e c child hok hx hs)

theorem rootProducer_ok (e : Env) (r : Rec) (hr : RecOK r Q) (hrM : RecOKM r QM) :
    ProducerH (rootProducer e r) specAll (okM Q QM) := by
  intro st c child hok
  unfold rootProducer
  split
  · rename_i hx
    exact Post.bind (okM_expr r hr hrM c child hok hx) (fun d hd => Post.pure hd)
  · rename_i hx
    split
    · rename_i hk
      exact Post.pure (okM_space c child hok (by simpa using hk))
    · rename_i hk
      exact Post.pure (okM_tok e c child hok hx (by simpa using hk))

theorem fracProducer_ok (e : Env) (r : Rec) (hr : RecOK r Q) (hrM : RecOKM r QM) :
    ProducerH (fracProducer e r) specAll (okM Q QM) := by
  intro st c child hok
  unfold fracProducer
  split
  · rename_i hx
    exact Post.bind (okM_expr r hr hrM c child hok hx) (fun d hd => Post.pure hd)
  · rename_i hx
    split
    · rename_i hk
      have hk' : child.kind = .semicolon := by simpa using hk
      exact Post.pure (okM_tok e c child hok hx (by rw [hk']; decide))
    · split
      · rename_i hk
        exact Post.pure (okM_tok e c child hok hx (by simpa using hk))
      · rename_i hk
        exact Post.pure (okM_space c child hok (by simpa using hk))

/-- A math construct laid out by the flow stylist. -/
theorem mathFlow_carries {σ : Type} (e : Env) (ctx : Ctx) (hm : ctx.mode = .math) (k : Kind) (cs : List ANode) (a : Attrs)
    (st : σ) (producer : σ → Ctx → ANode → M (σ × Option FlowItem)) (hp : ProducerH producer specAll (okM Q QM))
    (hv : isVerbatimNode k cs a = false) (hraw : k ≠ .raw)
    (hlex : ANode.tokensAreLeavesL cs = true) (hseq : MathSeqOK Q QM false cs) :
    Post (flowM e ctx cs st producer) (fun d => Carries d (specAll (.inner k cs a))) := by
  rw [specAll_inner k cs a hv hraw, ← contribL_specAll cs hlex]
  exact flowM_carriesH (commentOK e) hp (fun cc c hok hk => okM_space cc c hok hk) cs (mathSeq_okSeq ctx hm cs false hseq) st

theorem mathSeq_lex (cs : List ANode) : ∀ hh, MathSeqOK Q QM hh cs → ANode.tokensAreLeavesL cs = true := by
  induction cs with
  | nil => intro _ _; rfl
  | cons c cs ih =>
    intro hh h
    simp only [MathSeqOK] at h
    simp only [ANode.tokensAreLeavesL, Bool.and_eq_true]
    exact ⟨h.1, ih _ h.2.2⟩

theorem tagS_syn_append (a b : String) : tagS .syn (a ++ b) = (tagS .syn a).app (tagS .syn b) := by
  apply Streams.ext' <;> simp [tagS, Pretty.charsOf, Streams.app, String.toList_append, List.filter_append, String.ofList_append]

/-- `convert_math_primes`. -/
theorem convMathPrimes_carries (e : Env) (cs : List ANode) (a : Attrs) (hda : a.disabled = false)
    (hlex : ANode.tokensAreLeavesL cs = true) :
    Post (convMathPrimes e (.inner .mathPrimes cs a)) (fun d => Carries d (specAll (.inner .mathPrimes cs a))) := by
  have hv : isVerbatimNode .mathPrimes cs a = false := by simp [isVerbatimNode, hda]
  rw [specAll_inner .mathPrimes cs a hv (by decide)]
  unfold convMathPrimes
  split
  · rename_i hall
    simp only [ANode.children] at hall ⊢
    refine Post.pure ((Carries.mkText e.wd .syn _).congr ?_)
    clear hv
    induction cs with
    | nil => apply Streams.ext' <;> simp [tagS, Pretty.charsOf]
    | cons c cs ih =>
      simp only [List.all_cons, Bool.and_eq_true, beq_iff_eq] at hall
      simp only [ANode.tokensAreLeavesL, Bool.and_eq_true] at hlex
      obtain ⟨t, a', hc⟩ := leaf_of_token hlex.1 (by rw [hall.1.1]; rfl)
      have ht : t = "'" := by have := hall.1.2; rw [hc] at this; exact this
      rw [specAllL_cons, ← ih hlex.2 hall.2, hc, hall.1.1, specAll_plain_leaf .prime t a' rfl, ht, ← tagS_syn_eq_tok,
        ← tagS_syn_append]
      congr 1
      rw [List.length_cons, List.replicate_succ]
      show String.ofList (['\''] ++ List.replicate cs.length '\'') = _
      rw [String.ofList_append]
  · exact Post.rejected _

end Typstyle
