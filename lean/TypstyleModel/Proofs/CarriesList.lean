import TypstyleModel.Proofs.CarriesConstructs
/-! The list stylist (`ListStylist`) carries, in order, what the children of the list contribute:
the items the checker accepts, and the comments between them — whether a comment ends up in front of
an item, attached behind one, or on a line of its own; for all three fold styles; for every list of
children without a `#` (code-mode lists: arrays, dictionaries, parameters, destructurings,
parentheses, arguments, code blocks). -/
namespace Typstyle
open Twin

def optS : Option Doc → Streams
  | some d => d.ss
  | none => {}
def optGood : Option Doc → Bool
  | some d => d.good
  | none => true

def itemS : LItem → Streams
  | .comment d => d.ss
  | .commented body after => body.ss.app (optS after)
  | .linebreak _ => {}
def itemGood : LItem → Bool
  | .comment d => d.good
  | .commented body after => body.good && optGood after
  | .linebreak _ => true

def itemsS : List LItem → Streams
  | [] => {}
  | it :: rest => (itemS it).app (itemsS rest)
def itemsGood : List LItem → Bool
  | [] => true
  | it :: rest => itemGood it && itemsGood rest

def docsS : List Doc → Streams
  | [] => {}
  | d :: rest => d.ss.app (docsS rest)
def docsGood : List Doc → Bool
  | [] => true
  | d :: rest => d.good && docsGood rest

theorem itemsS_append (a b : List LItem) : itemsS (a ++ b) = (itemsS a).app (itemsS b) := by
  induction a with
  | nil => simp [itemsS]
  | cons x xs ih => simp only [List.cons_append, itemsS, ih, Streams.app_assoc]

theorem itemsGood_append (a b : List LItem) : itemsGood (a ++ b) = (itemsGood a && itemsGood b) := by
  induction a with
  | nil => simp [itemsGood]
  | cons x xs ih => simp only [List.cons_append, itemsGood, ih, Bool.and_assoc]

theorem docsS_append (a b : List Doc) : docsS (a ++ b) = (docsS a).app (docsS b) := by
  induction a with
  | nil => simp [docsS]
  | cons x xs ih => simp only [List.cons_append, docsS, ih, Streams.app_assoc]

theorem docsGood_append (a b : List Doc) : docsGood (a ++ b) = (docsGood a && docsGood b) := by
  induction a with
  | nil => simp [docsGood]
  | cons x xs ih => simp only [List.cons_append, docsGood, ih, Bool.and_assoc]

theorem itemsS_comments (ds : List Doc) : itemsS (ds.map LItem.comment) = docsS ds := by
  induction ds with
  | nil => rfl
  | cons d ds ih => simp only [List.map_cons, itemsS, itemS, docsS, ih]

theorem itemsGood_comments (ds : List Doc) : itemsGood (ds.map LItem.comment) = docsGood ds := by
  induction ds with
  | nil => rfl
  | cons d ds ih => simp only [List.map_cons, itemsGood, itemGood, docsGood, ih]

theorem carries_self (d : Doc) (h : d.good = true) : Carries d d.ss := ⟨h, rfl⟩

theorem intersperse_fold_carries (sep : Doc) (hs : Carries sep {}) (rest : List Doc) (acc : Doc) (sa : Streams)
    (ha : Carries acc sa) (hr : docsGood rest = true) :
    Carries (rest.foldl (fun acc x => (acc ++ sep) ++ x) acc) (sa.app (docsS rest)) := by
  induction rest generalizing acc sa with
  | nil => simpa [docsS] using ha
  | cons x xs ih =>
    simp only [docsGood, Bool.and_eq_true] at hr
    rw [List.foldl_cons]
    have := ih ((acc ++ sep) ++ x) (sa.app x.ss) (by simpa using (ha.app hs).app (carries_self x hr.1)) hr.2
    simpa [docsS, Streams.app_assoc] using this

/-- `intersperse` with a separator that carries nothing. -/
theorem intersperse_carries (ds : List Doc) (sep : Doc) (hs : Carries sep {}) (hg : docsGood ds = true) :
    Carries (intersperse ds sep) (docsS ds) := by
  cases ds with
  | nil => exact Carries.nil
  | cons d rest =>
    simp only [docsGood, Bool.and_eq_true] at hg
    unfold intersperse
    have h0 : Carries (Doc.nil ++ d) d.ss := by simpa using Carries.nil.app (carries_self d hg.1)
    simpa [docsS] using intersperse_fold_carries sep hs rest _ _ h0 hg.2

/-- Invariant of `ListStylist` while it processes children: everything seen so far is, in order, in
the items and then in the pending comments; all documents are good; no `#` is pending. -/
structure LInv (s : LS) (sp : Streams) : Prop where
  ig : itemsGood s.items = true
  fg : docsGood s.free = true
  eq : (itemsS s.items).app (docsS s.free) = sp
  nh : s.peekHash = false

theorem LInv.congr' {s : LS} {sp sq : Streams} (h : LInv s sp) (e : sp = sq) : LInv s sq := e ▸ h

theorem LInv.detach {s : LS} {sp : Streams} (h : LInv s sp) : LInv s.detach sp := by
  refine ⟨?_, rfl, ?_, h.nh⟩
  · show itemsGood (s.items ++ s.free.map LItem.comment) = true
    rw [itemsGood_append, itemsGood_comments, h.ig, h.fg]; rfl
  · show (itemsS (s.items ++ s.free.map LItem.comment)).app (docsS []) = sp
    rw [itemsS_append, itemsS_comments]; simpa [docsS] using h.eq

theorem dropLast_getLast {α : Type} (l : List α) (x : α) (h : l.getLast? = some x) : l = l.dropLast ++ [x] := by
  induction l with
  | nil => simp at h
  | cons a as ih =>
    cases as with
    | nil => simp at h; simp [h]
    | cons b bs =>
      have : (b :: bs).getLast? = some x := by simpa [List.getLast?_cons_cons] using h
      simp only [List.dropLast_cons_cons, List.cons_append]
      rw [← ih this]

theorem LInv.tryAttach {s : LS} {sp : Streams} (h : LInv s sp) : LInv s.tryAttach.1 sp := by
  unfold LS.tryAttach
  split
  · cases hl : s.items.getLast? with
    | none => exact h
    | some last =>
      cases last with
      | comment d => exact h
      | linebreak n => exact h
      | commented body after =>
        have hdec := dropLast_getLast s.items _ hl
        have hig := h.ig
        rw [hdec, itemsGood_append] at hig
        simp only [itemsGood, itemGood, Bool.and_true, Bool.and_eq_true] at hig
        have heq := h.eq
        rw [hdec, itemsS_append] at heq
        simp only [itemsS, itemS, Streams.app_empty] at heq
        have hadd : Carries (Twin.space ++ intersperse s.free Twin.space) (docsS s.free) := by
          simpa using Carries.space.app (intersperse_carries s.free Twin.space Carries.space h.fg)
        refine ⟨?_, rfl, ?_, h.nh⟩
        · show itemsGood (s.items.dropLast ++ [LItem.commented body _]) = true
          rw [itemsGood_append]
          simp only [itemsGood, itemGood, Bool.and_true, Bool.and_eq_true]
          refine ⟨hig.1, hig.2.1, ?_⟩
          cases after with
          | none => exact hadd.1
          | some c =>
            simp only [optGood] at hig ⊢
            show (c.good && _) = true
            rw [hig.2.2, hadd.1]; rfl
        · show (itemsS (s.items.dropLast ++ [LItem.commented body _])).app (docsS []) = sp
          rw [itemsS_append]
          simp only [itemsS, itemS, docsS, Streams.app_empty]
          rw [← heq]
          cases after with
          | none => simp only [optS, hadd.2, Streams.app_empty, Streams.app_assoc]
          | some c =>
            simp only [optS]
            show _ = _
            have : (c ++ (Twin.space ++ intersperse s.free Twin.space)).ss = c.ss.app (docsS s.free) := by
              show c.ss.app (Twin.space ++ intersperse s.free Twin.space).ss = _
              rw [hadd.2]
            rw [this]; simp only [Streams.app_assoc]
  · exact h

theorem LInv.attachOrDetach {s : LS} {sp : Streams} (h : LInv s sp) : LInv s.attachOrDetach sp := by
  unfold LS.attachOrDetach
  simp only
  split
  · exact h.tryAttach
  · exact h.detach

theorem LInv.snocItem {s : LS} {sp : Streams} (h : LInv s sp) (hf : s.free = []) (it : LItem) (hg : itemGood it = true)
    (s' : LS) (hi : s'.items = s.items ++ [it]) (hfree : s'.free = []) (hh : s'.peekHash = false) : LInv s' (sp.app (itemS it)) := by
  refine ⟨?_, by rw [hfree]; rfl, ?_, hh⟩
  · rw [hi, itemsGood_append, h.ig]; simp [itemsGood, hg]
  · rw [hi, hfree, itemsS_append]
    have := h.eq
    rw [hf] at this
    simp only [docsS, Streams.app_empty] at this ⊢
    simp only [itemsS, Streams.app_empty, this]

/-- The invariant after an item with body `b` was appended to `items0` and `free` was emptied. -/
theorem LInv.mkItem {sp sq : Streams} (items0 : List LItem) (b : Doc) (s' : LS)
    (hig : itemsGood items0 = true) (heq : itemsS items0 = sp) (hb : Carries b sq)
    (hi : s'.items = items0 ++ [.commented b none]) (hf : s'.free = []) (hh : s'.peekHash = false) : LInv s' (sp.app sq) := by
  refine ⟨?_, by rw [hf]; rfl, ?_, hh⟩
  · rw [hi, itemsGood_append, hig]; simp [itemsGood, itemGood, optGood, hb.1]
  · rw [hi, hf, itemsS_append]
    simp only [itemsS, itemS, optS, docsS, Streams.app_empty, heq, hb.2]

/-- `add_item`: the pending comments go in front of the body (or onto lines of their own), then the body. -/
theorem LInv.addItem (e : Env) {s : LS} {sp sb : Streams} (h : LInv s sp) (body : Doc) (hb : Carries body sb) :
    LInv (s.addItem e body) (sp.app sb) := by
  have hnh := h.nh
  by_cases hdf : s.disallowFront = true
  · -- disallow_front: the pending comments become items of their own, then the item
    have hd := h.detach
    refine LInv.mkItem (s.items ++ s.free.map LItem.comment) ((Doc.nil ++ Doc.nil) ++ body) _ ?_ ?_ ?_ ?_ ?_ ?_
    · rw [itemsGood_append, itemsGood_comments, h.ig, h.fg]; rfl
    · rw [itemsS_append, itemsS_comments]; exact h.eq
    · simpa using (Carries.nil.app Carries.nil).app hb
    · simp [LS.addItem, hdf, hnh, LS.detach]
    · simp [LS.addItem, hdf, hnh, LS.detach]
    · simp [LS.addItem, hdf, hnh, LS.detach]
  · by_cases hfe : s.free.isEmpty = true
    · have hfe' : s.free = [] := by simpa using hfe
      refine LInv.mkItem s.items ((Doc.nil ++ Doc.nil) ++ body) _ h.ig ?_ ?_ ?_ ?_ ?_
      · have := h.eq; rw [hfe'] at this; simpa [docsS] using this
      · simpa using (Carries.nil.app Carries.nil).app hb
      · simp [LS.addItem, hdf, hfe, hnh]
      · simp [LS.addItem, hdf, hfe, hnh, hfe']
      · simp [LS.addItem, hdf, hfe, hnh]
    · cases hdd : s.disallowDetach
      · -- comments in front of the body, separated by soft line breaks, grouped
        have hdoc : Carries ((intersperse s.free Twin.line ++ Twin.line).grp) (docsS s.free) := by
          simpa using ((intersperse_carries s.free _ Carries.line h.fg).app Carries.line).grp
        have := LInv.mkItem s.items (((intersperse s.free Twin.line ++ Twin.line).grp ++ Doc.nil) ++ body)
          (s.addItem e body) h.ig rfl (by simpa using (hdoc.app Carries.nil).app hb)
          (by simp [LS.addItem, hdf, hfe, hnh, hdd]) (by simp [LS.addItem, hdf, hfe, hnh, hdd]) (by simp [LS.addItem, hdf, hfe, hnh, hdd])
        rw [← h.eq, Streams.app_assoc]; exact this
      · have hdoc : Carries (intersperse s.free Twin.space ++ Twin.space) (docsS s.free) := by
          simpa using (intersperse_carries s.free _ Carries.space h.fg).app Carries.space
        have := LInv.mkItem s.items (((intersperse s.free Twin.space ++ Twin.space) ++ Doc.nil) ++ body)
          (s.addItem e body) h.ig rfl (by simpa using (hdoc.app Carries.nil).app hb)
          (by simp [LS.addItem, hdf, hfe, hnh, hdd]) (by simp [LS.addItem, hdf, hfe, hnh, hdd]) (by simp [LS.addItem, hdf, hfe, hnh, hdd])
        rw [← h.eq, Streams.app_assoc]; exact this

/-- What a child that the checker does not accept contributes: a comment its text, anything else nothing. -/
def triviaS (x : ANode) : Streams := if isCommentKind x.kind then commentS x.text else {}

theorem LInv.withItems {s : LS} {sp : Streams} (h : LInv s sp) (s' : LS) (hi : s'.items = s.items) (hf : s'.free = s.free)
    (hh : s'.peekHash = false) : LInv s' sp :=
  ⟨by rw [hi]; exact h.ig, by rw [hf]; exact h.fg, by rw [hi, hf]; exact h.eq, hh⟩

theorem LInv.addLinebreak {s : LS} {sp : Streams} (h : LInv s sp) (n : Nat) (s' : LS)
    (hi : s'.items = s.items ++ [.linebreak n]) (hf : s'.free = s.free) (hfe : s.free = []) (hh : s'.peekHash = false) : LInv s' sp := by
  refine ⟨?_, by rw [hf]; exact h.fg, ?_, hh⟩
  · rw [hi, itemsGood_append, h.ig]; rfl
  · rw [hi, hf, itemsS_append]
    have := h.eq
    rw [hfe] at this ⊢
    simpa [itemsS, itemS, docsS] using this

theorem attachOrDetach_free (s : LS) : s.attachOrDetach.free = [] := by
  unfold LS.attachOrDetach LS.tryAttach LS.detach
  simp only
  split
  · split
    · split <;> simp_all
    · simp_all
  · rfl

/-- `process_trivia` on a child that is not `#`. -/
theorem LInv.trivia (e : Env) {s : LS} {sp : Streams} (h : LInv s sp) (x : ANode) (hx : x.kind ≠ .hash) :
    Post (s.trivia e x) (fun s' => LInv s' (sp.app (triviaS x))) := by
  unfold LS.trivia triviaS
  simp only
  split
  · rename_i hc
    refine Post.bind (commentOK e x hc) (fun d hd => Post.pure ?_)
    refine ⟨?_, ?_, ?_, ?_⟩
    · split <;> exact h.ig
    · split
      all_goals (show docsGood (s.free ++ [d]) = true; rw [docsGood_append, h.fg]; simp [docsGood, hd.1])
    · split
      all_goals (show (itemsS s.items).app (docsS (s.free ++ [d])) = _
                 rw [docsS_append, ← Streams.app_assoc, h.eq]; simp [docsS, hd.2])
    · split <;> exact h.nh
  · rename_i hc
    have hc' : isCommentKind x.kind = false := by simpa using hc
    simp only [Streams.app_empty]
    split
    · exact Post.pure h.tryAttach
    · split
      · split
        · have ha := h.attachOrDetach
          have hfree := attachOrDetach_free s
          split
          · rename_i nl hk
            refine Post.pure ?_
            split
            · exact LInv.addLinebreak ha _ _ rfl rfl hfree ha.nh
            · exact LInv.withItems ha _ rfl rfl ha.nh
          · exact Post.pure (LInv.withItems ha _ rfl rfl ha.nh)
        · exact Post.pure h
      · split
        · rename_i hk
          exact absurd (by simpa using hk) hx
        · exact Post.pure h

theorem dropWhile_rev_S (p : LItem → Bool) (hp : ∀ x, p x = true → itemS x = {}) (r : List LItem) :
    itemsS (r.dropWhile p).reverse = itemsS r.reverse ∧
    (itemsGood r.reverse = true → itemsGood (r.dropWhile p).reverse = true) := by
  induction r with
  | nil => simp
  | cons x xs ih =>
    rw [List.dropWhile_cons]
    split
    · rename_i hx
      simp only [List.reverse_cons, itemsS_append, itemsGood_append]
      refine ⟨by rw [ih.1]; simp [itemsS, hp x hx], fun hg => ih.2 (by simp only [Bool.and_eq_true] at hg; exact hg.1)⟩
    · exact ⟨rfl, fun h => h⟩

theorem dropTrailing_S (items : List LItem) : itemsS (dropTrailingLinebreaks items) = itemsS items ∧
    (itemsGood items = true → itemsGood (dropTrailingLinebreaks items) = true) := by
  unfold dropTrailingLinebreaks
  have key := fun p hp => dropWhile_rev_S p hp items.reverse
  simp only [List.reverse_reverse] at key
  exact key _ (by intro x hx; cases x <;> simp_all [itemS])

/-- `process_windup`. -/
theorem LInv.windup {s : LS} {sp : Streams} (h : LInv s sp) : LInv s.windup sp ∧ s.windup.free = [] := by
  have ha := h.attachOrDetach
  have hf := attachOrDetach_free s
  have hd := dropTrailing_S s.attachOrDetach.items
  refine ⟨⟨?_, ?_, ?_, ha.nh⟩, hf⟩
  · exact hd.2 ha.ig
  · show docsGood s.attachOrDetach.free = true; exact ha.fg
  · show (itemsS (dropTrailingLinebreaks s.attachOrDetach.items)).app (docsS s.attachOrDetach.free) = sp
    rw [hd.1]; exact ha.eq

/-- Contract of the item checker of a list-like construct. -/
def CheckerS (checker : Ctx → ANode → M (Option Doc)) (sem : ANode → Streams) (ok : ANode → Prop)
    (P : Ctx → Prop := NM) : Prop :=
  ∀ c x, P c → ok x → Post (checker c x) fun r =>
    match r with
    | some body => Carries body (sem x)
    | none => sem x = triviaS x

theorem LInv.stepM (e : Env) (ctx : Ctx) (checker : Ctx → ANode → M (Option Doc)) {sem : ANode → Streams} {ok : ANode → Prop}
    {P : Ctx → Prop} (hc : CheckerS checker sem ok P) (hctx : P ctx) {s : LS} {sp : Streams} (h : LInv s sp) (x : ANode) (hok : ok x) (hx : x.kind ≠ .hash) :
    Post (LS.stepM e ctx checker s x) (fun s' => LInv s' (sp.app (sem x))) := by
  unfold LS.stepM
  have hctx' : P (ctx.withModeIf .code s.peekHash) := by
    rw [h.nh]; exact hctx
  refine Post.bind (hc _ x hctx' hok) (fun r hr => ?_)
  cases r with
  | some body =>
    simp only at hr
    refine Post.pure ?_
    have := h.addItem e body hr
    exact LInv.withItems this _ rfl rfl rfl
  | none =>
    simp only at hr
    rw [hr]
    exact LInv.trivia e (LInv.withItems h ({ s with peekHash := false } : LS) rfl rfl rfl) x hx

/-- **`ListStylist::process` carries the children's contributions, in order**, and leaves no comment pending. -/
theorem processM_carries (e : Env) (ctx : Ctx) (checker : Ctx → ANode → M (Option Doc)) {sem : ANode → Streams} {ok : ANode → Prop}
    {P : Ctx → Prop} (hc : CheckerS checker sem ok P) (hctx : P ctx) (s0 : LS) (h0 : LInv s0 {}) (nodes : List ANode) (hok : ∀ x ∈ nodes, ok x)
    (hnh : ∀ x ∈ nodes, x.kind ≠ .hash) :
    Post (s0.processM e ctx nodes checker) (fun s => LInv s (nodes.foldl (fun acc x => acc.app (sem x)) {}) ∧ s.free = []) := by
  unfold LS.processM
  have key : ∀ (l : List ANode) (s : LS) (sp : Streams), (∀ x ∈ l, ok x) → (∀ x ∈ l, x.kind ≠ .hash) → LInv s sp →
      Post (l.foldlM (LS.stepM e ctx checker) s) (fun s' => LInv s' (l.foldl (fun acc x => acc.app (sem x)) sp)) := by
    intro l
    induction l with
    | nil => intro s sp _ _ hi; exact Post.pure hi
    | cons x xs ih =>
      intro s sp h1 h2 hi
      simp only [List.foldlM_cons, List.foldl_cons]
      exact Post.bind (LInv.stepM e ctx checker hc hctx hi x (h1 x List.mem_cons_self) (h2 x List.mem_cons_self))
        (fun s' hs' => ih s' _ (fun y hy => h1 y (List.mem_cons_of_mem _ hy)) (fun y hy => h2 y (List.mem_cons_of_mem _ hy)) hs')
  exact Post.bind (key nodes s0 {} hok hnh h0) (fun s hs => Post.pure hs.windup)

/-! ### `print_doc` -/

theorem optDoc_carries (o : Option Doc) (h : optGood o = true) : Carries (optDoc o) (optS o) := by
  cases o with
  | none => exact Carries.nil
  | some d => exact ⟨h, rfl⟩

theorem neverStep_carries (sty : ListStyle) (hsep : Carries sty.sep {}) (count : Nat) (acc : Doc × Nat) (sa : Streams)
    (ha : Carries acc.1 sa) (it : LItem) (hg : itemGood it = true) :
    Carries (neverStep sty count acc it).1 (sa.app (itemS it)) := by
  obtain ⟨inner, i⟩ := acc
  simp only at ha
  cases it with
  | comment c =>
    simpa [neverStep, itemS] using ha.app ((carries_self c hg).app Carries.hardline)
  | linebreak n =>
    simpa [neverStep, itemS] using ha.app (Carries.repeatN Carries.hardline n)
  | commented body after =>
    simp only [itemGood, Bool.and_eq_true] at hg
    have hb := ((carries_self body hg.1).app hsep).app (optDoc_carries after hg.2)
    simp only [neverStep, itemS]
    split
    · simpa [Streams.app_assoc] using (ha.app hb).app Carries.hardline
    · simpa [Streams.app_assoc] using ha.app hb

theorem alwaysStep_carries (sty : ListStyle) (hsep : Carries sty.sep {}) (count real : Nat) (trailing : Bool)
    (acc : Doc × Nat × Nat) (sa : Streams) (ha : Carries acc.1 sa) (it : LItem) (hg : itemGood it = true) :
    Carries (alwaysStep sty count real trailing acc it).1 (sa.app (itemS it)) := by
  obtain ⟨inner, i, seen⟩ := acc
  simp only at ha
  cases it with
  | comment c =>
    simp only [alwaysStep, itemS]
    split
    · exact ha.app (carries_self c hg)
    · simpa using ha.app ((carries_self c hg).app Carries.space)
  | linebreak n => simpa [alwaysStep, itemS] using ha
  | commented body after =>
    simp only [itemGood, Bool.and_eq_true] at hg
    have hb := (carries_self body hg.1).app (optDoc_carries after hg.2)
    simp only [alwaysStep, itemS]
    split
    · simpa [Streams.app_assoc] using (ha.app hb).app (hsep.app Carries.space)
    · split
      · simpa [Streams.app_assoc] using (ha.app hb).app hsep
      · exact ha.app hb

theorem fitStep_carries (sty : ListStyle) (hsep : Carries sty.sep {}) (count real : Nat) (trailing : Bool)
    (acc : Doc × Nat × Nat) (sa : Streams) (ha : Carries acc.1 sa) (it : LItem) (hg : itemGood it = true) :
    Carries (fitStep sty count real trailing acc it).1 (sa.app (itemS it)) := by
  obtain ⟨inner, i, seen⟩ := acc
  simp only at ha
  cases it with
  | comment c =>
    simp only [fitStep, itemS]
    split
    · exact ha.app (carries_self c hg)
    · simpa using ha.app ((carries_self c hg).app Carries.hardline)
  | linebreak n => simpa [fitStep, itemS] using ha.app (Carries.repeatN Carries.line n)
  | commented body after =>
    simp only [itemGood, Bool.and_eq_true] at hg
    have hbody := carries_self body hg.1
    have hln : Carries (if !(seen + 1 == real) then Twin.line else if sty.tightDelim then Doc.nil else Twin.line_) {} := by
      split
      · exact Carries.line
      · split
        · exact Carries.nil
        · exact Carries.line_
    simp only [fitStep, itemS]
    cases after with
    | some a =>
      simp only [optGood] at hg
      have haft := carries_self a hg.2
      have hfollow : Carries (Doc.falt (sty.sep ++ a) (if (!(seen + 1 == real) || trailing) = true then a ++ sty.sep else a)) a.ss := by
        refine Carries.falt (by simpa using hsep.app haft) ?_
        split
        · simpa using haft.app hsep
        · exact haft
      simpa [optS, Streams.app_assoc] using ha.app ((hbody.app hfollow).app hln)
    | none =>
      have hfollow : Carries (if (seen + 1 == real && sty.tightDelim) = true then Doc.nil
          else if (!(seen + 1 == real) || trailing) = true then sty.sep else Doc.falt sty.sep Doc.nil) {} := by
        split
        · exact Carries.nil
        · split
          · exact hsep
          · exact Carries.falt hsep Carries.nil
      simpa [optS, Streams.app_assoc] using ha.app ((hbody.app hfollow).app hln)

theorem foldl_carries {β : Type} (step : Doc × β → LItem → Doc × β)
    (hstep : ∀ acc sa it, Carries acc.1 sa → itemGood it = true → Carries (step acc it).1 (sa.app (itemS it)))
    (items : List LItem) (acc : Doc × β) (sa : Streams) (ha : Carries acc.1 sa) (hg : itemsGood items = true) :
    Carries (items.foldl step acc).1 (sa.app (itemsS items)) := by
  induction items generalizing acc sa with
  | nil => simpa [itemsS] using ha
  | cons it rest ih =>
    simp only [itemsGood, Bool.and_eq_true] at hg
    rw [List.foldl_cons]
    have := ih (step acc it) _ (hstep acc sa it ha hg.1) hg.2
    simpa [itemsS, Streams.app_assoc] using this

/-- **`print_doc` carries exactly the items**, in order, in every branch (all three fold styles, with or
without delimiters), when separator and delimiters are re-synthesised characters. -/
theorem print_carries (e : Env) (s : LS) (sty : ListStyle) (hsep : Carries sty.sep {}) (hd0 : Carries sty.d0 {})
    (hd1 : Carries sty.d1 {}) (hig : itemsGood s.items = true) : Carries (s.print e sty) (itemsS s.items) := by
  unfold LS.print
  split
  · rename_i he
    have : s.items = [] := by simpa using he
    rw [this]
    split
    · exact Carries.nil
    · split
      · simpa [itemsS] using (hd0.app Carries.space).app hd1
      · simpa [itemsS] using hd0.app hd1
  · simp only
    split
    · -- never
      have hinit : Carries (if sty.tightDelim then Doc.nil else Twin.hardline) {} := by
        split
        · exact Carries.nil
        · exact Carries.hardline
      have hf := foldl_carries (neverStep sty s.items.length) (fun acc sa it h1 h2 => neverStep_carries sty hsep _ acc sa h1 it h2)
        s.items (if sty.tightDelim then Doc.nil else Twin.hardline, 0) {} hinit hig
      have hf' : Carries (if !sty.noIndent then (s.items.foldl (neverStep sty s.items.length) (if sty.tightDelim then Doc.nil else Twin.hardline, 0)).1.nstTab
          else (s.items.foldl (neverStep sty s.items.length) (if sty.tightDelim then Doc.nil else Twin.hardline, 0)).1) (itemsS s.items) := by
        split
        · simpa using hf.nstTab
        · simpa using hf
      simpa using hf'.enclose hd0 hd1
    · -- always
      have hf := foldl_carries (alwaysStep sty s.items.length s.realCount (sty.addTrailingSepAlways || (s.realCount == 1 && sty.addTrailingSepSingle)))
        (fun acc sa it h1 h2 => alwaysStep_carries sty hsep _ _ _ acc sa h1 it h2) s.items (Doc.nil, 0, 0) {} Carries.nil hig
      have hg := hf.grp
      split
      · simpa using hg
      · split
        · simpa using ((hg.enclose Carries.space Carries.space)).enclose hd0 hd1
        · simpa using hg.enclose hd0 hd1
    · -- fit
      have hinit : Carries (if sty.tightDelim then Doc.nil else Twin.line_) {} := by
        split
        · exact Carries.nil
        · exact Carries.line_
      have hf := foldl_carries (fitStep sty s.items.length s.realCount (sty.addTrailingSepAlways || (s.realCount == 1 && sty.addTrailingSepSingle)))
        (fun acc sa it h1 h2 => fitStep_carries sty hsep _ _ _ acc sa h1 it h2) s.items (if sty.tightDelim then Doc.nil else Twin.line_, 0, 0) {} hinit hig
      have hf' : Carries (if !sty.noIndent then (s.items.foldl (fitStep sty s.items.length s.realCount
            (sty.addTrailingSepAlways || (s.realCount == 1 && sty.addTrailingSepSingle))) (if sty.tightDelim then Doc.nil else Twin.line_, 0, 0)).1.nstTab
          else (s.items.foldl (fitStep sty s.items.length s.realCount
            (sty.addTrailingSepAlways || (s.realCount == 1 && sty.addTrailingSepSingle))) (if sty.tightDelim then Doc.nil else Twin.line_, 0, 0)).1) (itemsS s.items) := by
        split
        · simpa using hf.nstTab
        · simpa using hf
      split
      · exact hf'.grp
      · split
        · have h0 : Carries (Doc.falt sty.d0 Doc.nil) {} := Carries.falt hd0 Carries.nil
          have h1 : Carries (Doc.falt sty.d1 Doc.nil) {} := Carries.falt hd1 Carries.nil
          simpa using (hf'.enclose h0 h1).grp
        · split
          · have h0 : Carries (Doc.falt sty.d0 (sty.d0 ++ Twin.space)) {} := Carries.falt hd0 (by simpa using hd0.app Carries.space)
            have h1 : Carries (Doc.falt sty.d1 (Twin.space ++ sty.d1)) {} := Carries.falt hd1 (by simpa using Carries.space.app hd1)
            simpa using (hf'.enclose h0 h1).grp
          · simpa using hf'.grp.enclose hd0 hd1

/-- `print_doc` with delimiters that are tokens of their own (an equation's `$`): for a style that never
omits its delimiters, the result carries opening delimiter, items, closing delimiter. -/
theorem print_carries_delims (e : Env) (s : LS) (sty : ListStyle) (hsep : Carries sty.sep {}) {s0 s1 : Streams}
    (hd0 : Carries sty.d0 s0) (hd1 : Carries sty.d1 s1)
    (ho1 : sty.omitDelimSingle = false) (ho2 : sty.omitDelimFlat = false) (ho3 : sty.omitDelimEmpty = false)
    (hig : itemsGood s.items = true) : Carries (s.print e sty) ((s0.app (itemsS s.items)).app s1) := by
  unfold LS.print
  simp only [ho1, ho2, ho3, Bool.and_false, Bool.or_false, Bool.false_eq_true, ↓reduceIte]
  split
  · rename_i he
    have : s.items = [] := by simpa using he
    rw [this]
    split
    · simpa [itemsS] using (hd0.app Carries.space).app hd1
    · simpa [itemsS] using hd0.app hd1
  · split
    · -- never
      have hinit : Carries (if sty.tightDelim then Doc.nil else Twin.hardline) {} := by
        split
        · exact Carries.nil
        · exact Carries.hardline
      have hf := foldl_carries (neverStep sty s.items.length) (fun acc sa it h1 h2 => neverStep_carries sty hsep _ acc sa h1 it h2)
        s.items (if sty.tightDelim then Doc.nil else Twin.hardline, 0) {} hinit hig
      have hf' : Carries (if !sty.noIndent then (s.items.foldl (neverStep sty s.items.length) (if sty.tightDelim then Doc.nil else Twin.hardline, 0)).1.nstTab
          else (s.items.foldl (neverStep sty s.items.length) (if sty.tightDelim then Doc.nil else Twin.hardline, 0)).1) (itemsS s.items) := by
        split
        · simpa using hf.nstTab
        · simpa using hf
      exact hf'.enclose hd0 hd1
    · -- always
      have hf := foldl_carries (alwaysStep sty s.items.length s.realCount (sty.addTrailingSepAlways || (s.realCount == 1 && sty.addTrailingSepSingle)))
        (fun acc sa it h1 h2 => alwaysStep_carries sty hsep _ _ _ acc sa h1 it h2) s.items (Doc.nil, 0, 0) {} Carries.nil hig
      have hg := hf.grp
      split
      · have := ((hg.enclose Carries.space Carries.space)).enclose hd0 hd1
        simpa using this
      · simpa using hg.enclose hd0 hd1
    · -- fit
      have hinit : Carries (if sty.tightDelim then Doc.nil else Twin.line_) {} := by
        split
        · exact Carries.nil
        · exact Carries.line_
      have hf := foldl_carries (fitStep sty s.items.length s.realCount (sty.addTrailingSepAlways || (s.realCount == 1 && sty.addTrailingSepSingle)))
        (fun acc sa it h1 h2 => fitStep_carries sty hsep _ _ _ acc sa h1 it h2) s.items (if sty.tightDelim then Doc.nil else Twin.line_, 0, 0) {} hinit hig
      have hf' : Carries (if !sty.noIndent then (s.items.foldl (fitStep sty s.items.length s.realCount
            (sty.addTrailingSepAlways || (s.realCount == 1 && sty.addTrailingSepSingle))) (if sty.tightDelim then Doc.nil else Twin.line_, 0, 0)).1.nstTab
          else (s.items.foldl (fitStep sty s.items.length s.realCount
            (sty.addTrailingSepAlways || (s.realCount == 1 && sty.addTrailingSepSingle))) (if sty.tightDelim then Doc.nil else Twin.line_, 0, 0)).1) (itemsS s.items) := by
        split
        · simpa using hf.nstTab
        · simpa using hf
      split
      · have h0 : Carries (Doc.falt sty.d0 (sty.d0 ++ Twin.space)) s0 := Carries.falt hd0 (by simpa using hd0.app Carries.space)
        have h1 : Carries (Doc.falt sty.d1 (Twin.space ++ sty.d1)) s1 := Carries.falt hd1 (by simpa using Carries.space.app hd1)
        exact (hf'.enclose h0 h1).grp
      · exact hf'.grp.enclose hd0 hd1

end Typstyle
