import TypstyleModel.Proofs.CarriesFlow
/-! The flow stylist again, now tracking `#`: the child after a `#` is converted in code mode, every
other child in the mode of the construct.  (Needed for math, where the two modes lay out calls
differently.) -/
namespace Typstyle
open Twin

/-- Contract of a producer whose obligations depend on the context the flow calls it in. -/
def ProducerH {σ : Type} (producer : σ → Ctx → ANode → M (σ × Option FlowItem)) (sem : ANode → Streams)
    (okc : Ctx → ANode → Prop) : Prop :=
  ∀ st c child, okc c child → Post (producer st c child) fun r =>
    match r.2 with
    | some it => Carries it.doc (sem child)
    | none => sem child = {}

/-- The flow prints this child itself (keyword, comment, `#`): the producer never sees it. -/
def flowTakes (c : ANode) : Prop :=
  (c.kind.isKeyword && !(c.kind == .none_ || c.kind == .auto_)) = true ∨ isCommentKind c.kind = true ∨ c.kind = .hash

/-- Every child that reaches the producer is acceptable in the context the flow converts it in. -/
def okSeq (okc : Ctx → ANode → Prop) (ctx : Ctx) : Bool → List ANode → Prop
  | _, [] => True
  | hh, c :: cs => (flowTakes c ∨ okc (ctx.withModeIf .code hh) c) ∧ okSeq okc ctx (c.kind == .hash) cs

theorem kw_not_hash (k : Kind) (h : k.isKeyword = true) : (k == .hash) = false := by
  cases k <;> simp_all [Kind.isKeyword]

theorem comment_not_hash (k : Kind) (h : isCommentKind k = true) : (k == .hash) = false := by
  cases k <;> simp_all [isCommentKind]

theorem flowStepM_carriesH {σ : Type} {e : Env} {ctx : Ctx} {producer : σ → Ctx → ANode → M (σ × Option FlowItem)}
    {sem : ANode → Streams} {okc : Ctx → ANode → Prop}
    (hc : CommentOK e) (hp : ProducerH producer sem okc) (hsp : ∀ cc (c : ANode), okc cc c → c.kind = .space → sem c = {})
    (acc : FSt σ) (s : Streams) (c : ANode) (hok : flowTakes c ∨ okc (ctx.withModeIf .code acc.peekHash) c) (h : Carries acc.flow.doc s) :
    Post (flowStepM e ctx producer acc c)
      (fun acc' => Carries acc'.flow.doc (s.app (flowContribS sem c)) ∧ acc'.peekHash = (c.kind == .hash)) := by
  unfold flowStepM flowContribS
  simp only
  split
  · rename_i hk
    simp only [Bool.and_eq_true] at hk
    exact Post.pure ⟨Flow.push_carries h (Carries.mkText e.wd .tok _), (kw_not_hash _ hk.1).symm⟩
  · rename_i hnkw
    split
    · rename_i hck
      exact Post.bind (hc c hck) (fun d hd => Post.pure ⟨Flow.pushComment_carries h hd, (comment_not_hash _ hck).symm⟩)
    · rename_i hncm
      split
      · rename_i hk
        have hks : c.kind = .space := by
          simp only [Bool.and_eq_true, beq_iff_eq] at hk; exact hk.1.2
        have h3 : (c.kind == Kind.hash) = false := by simp [hks]
        have hok' : okc (ctx.withModeIf .code acc.peekHash) c := by
          rcases hok with (h1 | h1 | h1) | h1
          · exact absurd h1 hnkw
          · exact absurd h1 hncm
          · rw [hks] at h1; cases h1
          · exact h1
        simp only [h3, Bool.false_eq_true, if_false, hsp _ c hok' hks]
        refine Post.pure ⟨?_, rfl⟩
        have := Flow.push_carries (before := false) (after := false) h Carries.hardline
        simpa using this
      · split
        · rename_i hkh
          split
          · rename_i ht
            have ht' : c.text = "#" := by simpa using ht
            refine Post.pure ⟨?_, hkh.symm⟩
            have := Flow.push_carries (before := true) (after := false) h (Carries.mkText e.wd .syn "#")
            rw [tagS_syn_eq_tok] at this
            exact this.congr (by rw [ht'])
          · exact Post.rejected _
        · rename_i hkh
          have hkh' : (c.kind == Kind.hash) = false := by simpa using hkh
          have hok' : okc (ctx.withModeIf .code acc.peekHash) c := by
            rcases hok with (h1 | h1 | h1) | h1
            · exact absurd h1 hnkw
            · exact absurd h1 hncm
            · exact absurd (by simpa using h1) hkh
            · exact h1
          refine Post.bind (hp _ _ _ hok') (fun r hr => ?_)
          split
          · rename_i it heq
            simp only [heq] at hr
            exact Post.pure ⟨Flow.push_carries h hr, hkh'.symm⟩
          · rename_i heq
            simp only [heq] at hr
            exact Post.pure ⟨by simpa [hr] using h, hkh'.symm⟩

/-- **The flow stylist carries its children's contributions, in order** (context-aware version). -/
theorem flowM_carriesH {σ : Type} {e : Env} {ctx : Ctx} {producer : σ → Ctx → ANode → M (σ × Option FlowItem)}
    {sem : ANode → Streams} {okc : Ctx → ANode → Prop}
    (hc : CommentOK e) (hp : ProducerH producer sem okc) (hsp : ∀ cc (c : ANode), okc cc c → c.kind = .space → sem c = {})
    (children : List ANode) (hok : okSeq okc ctx false children) (st : σ) :
    Post (flowM e ctx children st producer) (fun d => Carries d (contribL sem children)) := by
  unfold flowM
  refine Post.bind (Q := fun acc => Carries acc.flow.doc (contribL sem children)) ?_ (fun acc hacc => Post.pure hacc)
  have key : ∀ (l pre : List ANode) (init : FSt σ), okSeq okc ctx init.peekHash l → Carries init.flow.doc (contribL sem pre) →
      Post (l.foldlM (flowStepM e ctx producer) init) (fun acc => Carries acc.flow.doc (contribL sem (pre ++ l))) := by
    intro l
    induction l with
    | nil => intro pre init _ hi; simpa using (Post.pure hi : Post (Pure.pure init : M (FSt σ)) _)
    | cons x xs ih =>
      intro pre init hl hi
      simp only [List.foldlM_cons]
      refine Post.bind (flowStepM_carriesH hc hp hsp init _ x hl.1 hi) (fun acc hacc => ?_)
      have := ih (pre ++ [x]) acc (by rw [hacc.2]; exact hl.2) (by rw [contribL_snoc]; exact hacc.1)
      simpa [List.append_assoc] using this
  simpa using key children [] ({ st := st } : FSt σ) hok (by simpa [contribL] using Carries.nil)

end Typstyle
