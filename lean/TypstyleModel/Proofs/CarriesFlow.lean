import TypstyleModel.Proofs.Carries
/-! The flow stylist (`convert_flow_like_iter`) carries, in order, what its children contribute —
for every list of children, every producer that honours its contract, every state and context. -/
namespace Typstyle
open Twin

/-! ### trees the parser can produce: token kinds are leaves -/

/-- Kinds the parser builds inner nodes for (everything else is a token: a leaf). -/
def Kind.isInnerKind : Kind → Bool
  | .markup | .strong | .emph | .raw | .ref | .heading | .listItem | .enumItem | .termItem | .equation | .math
  | .mathDelimited | .mathAttach | .mathPrimes | .mathFrac | .mathRoot | .code | .codeBlock | .contentBlock
  | .parenthesized | .array | .dict | .named | .keyed | .unary | .binary | .fieldAccess | .funcCall | .args | .spread
  | .closure | .params | .letBinding | .setRule | .showRule | .contextual | .conditional | .whileLoop | .forLoop
  | .moduleImport | .importItems | .importItemPath | .renamedImportItem | .moduleInclude | .loopBreak | .loopContinue
  | .funcReturn | .destructuring | .destructAssignment | .error_ => true
  | _ => false

/-- Delimiters and separators whose text the lexer fixes (the printer drops or re-synthesises them). -/
def Kind.fixedText : Kind → Option String
  | .leftParen => some "(" | .rightParen => some ")" | .leftBrace => some "{" | .rightBrace => some "}"
  | .comma => some "," | .semicolon => some ";" | .colon => some ":"
  | _ => none

/-- Further tokens whose text the lexer fixes and which the printer prints as constants. -/
def Kind.fixedTok : Kind → Option String
  | .leftBracket => some "[" | .rightBracket => some "]" | .star => some "*" | .underscore => some "_"
  | .dollar => some "$" | .dot => some "." | .hash => some "#"
  | _ => none

mutual
/-- Lexical shape: every node of a token kind is a leaf, and a delimiter or separator leaf carries the
text the lexer fixes for its kind (decidable; true of every tree the parser returns). -/
def ANode.tokensAreLeaves : ANode → Bool
  | .leaf k t _ => (match k.fixedText with | some s => t == s | none => true) &&
      (match k.fixedTok with | some s => t == s | none => true)
  | .inner k cs _ => k.isInnerKind && ANode.tokensAreLeavesL cs
def ANode.tokensAreLeavesL : List ANode → Bool
  | [] => true
  | c :: cs => ANode.tokensAreLeaves c && ANode.tokensAreLeavesL cs
end

theorem tokensAreLeavesL_mem {cs : List ANode} (h : ANode.tokensAreLeavesL cs = true) {c : ANode} (hc : c ∈ cs) :
    ANode.tokensAreLeaves c = true := by
  induction cs with
  | nil => cases hc
  | cons x xs ih =>
    simp only [ANode.tokensAreLeavesL, Bool.and_eq_true] at h
    rcases List.mem_cons.mp hc with rfl | h'
    · exact h.1
    · exact ih h.2 h'

/-- A node of a token kind is a leaf. -/
theorem leaf_of_token {c : ANode} (h : ANode.tokensAreLeaves c = true) (hk : c.kind.isInnerKind = false) :
    ∃ t a, c = .leaf c.kind t a := by
  cases c with
  | leaf k t a => exact ⟨t, a, rfl⟩
  | inner k cs a =>
    simp only [ANode.tokensAreLeaves, Bool.and_eq_true] at h
    simp only [ANode.kind] at hk
    rw [hk] at h; exact absurd h.1 (by simp)

theorem leaf_text_fixed {k : Kind} {t : String} {a : Attrs} {s : String}
    (h : ANode.tokensAreLeaves (.leaf k t a) = true) (hf : k.fixedText = some s) : t = s := by
  simp only [ANode.tokensAreLeaves, hf, beq_iff_eq, Bool.and_eq_true] at h; exact h.1

theorem leaf_tok_fixed {k : Kind} {t : String} {a : Attrs} {s : String}
    (h : ANode.tokensAreLeaves (.leaf k t a) = true) (hf : k.fixedTok = some s) : t = s := by
  simp only [ANode.tokensAreLeaves, hf, beq_iff_eq, Bool.and_eq_true] at h; exact h.2

/-- A delimiter or separator leaf prescribes nothing: its characters are accounted for by no stream. -/
theorem specAll_delim_leaf (k : Kind) (t : String) (a : Attrs) (s : String) (hf : k.fixedText = some s)
    (h : ANode.tokensAreLeaves (.leaf k t a) = true) : specAll (.leaf k t a) = {} := by
  have ht := leaf_text_fixed h hf
  subst ht
  cases k <;> simp [Kind.fixedText] at hf <;> subst hf <;>
    (apply Streams.ext' <;> simp [specAll, specToks, specCmts, specProse, specLit, specVerb, isCommentKind, Kind.isExpr,
      Pretty.keepOf, leafTag] <;> decide)

/-! ### what a leaf prescribes -/

theorem tagS_syn_eq_tok (s : String) : tagS .syn s = tagS .tok s := by
  apply Streams.ext' <;> simp [tagS, Pretty.charsOf]

/-- The streams a comment leaf prescribes. -/
def commentS (text : String) : Streams := { cmt := String.ofList (text.toList.filter fun c => !isWs c) }

theorem specAll_comment_leaf (k : Kind) (t : String) (a : Attrs) (hk : isCommentKind k = true) :
    specAll (.leaf k t a) = commentS t := by
  have h1 : k.isExpr = false := by
    simp only [isCommentKind, Bool.or_eq_true, beq_iff_eq] at hk
    rcases hk with rfl | rfl <;> rfl
  have h2 : (k == .text || k == .shorthand || k == .smartQuote || k == .escape || k == .link || k == .label) = false := by
    simp only [isCommentKind, Bool.or_eq_true, beq_iff_eq] at hk
    rcases hk with rfl | rfl <;> rfl
  have h3 : (k == .refMarker) = false := by
    simp only [isCommentKind, Bool.or_eq_true, beq_iff_eq] at hk
    rcases hk with rfl | rfl <;> rfl
  have h4 : (k == .str || k == .int || k == .float || k == .numeric || k == .bool || k == .ident || k == .mathIdent
       || k == .escape || k == .link || k == .label) = false := by
    simp only [isCommentKind, Bool.or_eq_true, beq_iff_eq] at hk
    rcases hk with rfl | rfl <;> rfl
  apply Streams.ext'
  · simp [specAll, specToks, hk, commentS]
  · simp [specAll, specCmts, hk, commentS]
  · simp only [specAll, specProse, commentS, h2, h3]; rfl
  · simp only [specAll, specLit, commentS, h4, h3]; rfl
  · simp [specAll, specVerb, h1, commentS]

/-- A keyword token (`let`, `if`, `not`, `in` …; not the literals `none`/`auto`) prescribes its text as code tokens. -/
theorem specAll_keyword_leaf (k : Kind) (t : String) (a : Attrs) (hk : k.isKeyword = true) (hn : (k == .none_ || k == .auto_) = false) :
    specAll (.leaf k t a) = tagS .tok t := by
  have hx : k.isExpr = false := by cases k <;> simp_all [Kind.isKeyword, Kind.isExpr]
  have hc : isCommentKind k = false := by cases k <;> simp_all [Kind.isKeyword, isCommentKind]
  have hs : (k == .space || k == .parbreak) = false := by cases k <;> simp_all [Kind.isKeyword]
  have h2 : (k == .text || k == .shorthand || k == .smartQuote || k == .escape || k == .link || k == .label) = false := by
    cases k <;> simp_all [Kind.isKeyword]
  have h3 : (k == .refMarker) = false := by cases k <;> simp_all [Kind.isKeyword]
  have h4 : (k == .str || k == .int || k == .float || k == .numeric || k == .bool || k == .ident || k == .mathIdent
       || k == .escape || k == .link || k == .label) = false := by cases k <;> simp_all [Kind.isKeyword]
  apply Streams.ext'
  · simp [specAll, specToks, hc, hs, tagS, Pretty.charsOf, Pretty.keepOf]
  · simp [specAll, specCmts, hc, tagS, Pretty.charsOf]
  · simp only [specAll, specProse, h2, h3]; simp [tagS, Pretty.charsOf]
  · simp only [specAll, specLit, h4, h3]; simp [tagS, Pretty.charsOf]
  · simp [specAll, specVerb, hx, tagS, Pretty.charsOf]

/-- A `#` prescribes itself as a code token. -/
theorem specAll_hash_leaf (t : String) (a : Attrs) : specAll (.leaf .hash t a) = tagS .tok t := by
  apply Streams.ext' <;> simp [specAll, specToks, specCmts, specProse, specLit, specVerb, isCommentKind, tagS, Pretty.charsOf,
    Pretty.keepOf, Kind.isExpr]

/-- White space prescribes nothing. -/
theorem specAll_space_leaf (t : String) (a : Attrs) : specAll (.leaf .space t a) = {} := by
  apply Streams.ext' <;> simp [specAll, specToks, specCmts, specProse, specLit, specVerb, isCommentKind, Kind.isExpr, leafTag]

/-! ### the flow stylist -/

theorem Flow.push_carries {f : Flow} {d : Doc} {s t : Streams} {before after : Bool}
    (hf : Carries f.doc s) (hd : Carries d t) : Carries (f.push d before after).doc (s.app t) := by
  unfold Flow.push
  simp only
  split
  · simpa using (hf.app Carries.space).app hd
  · exact hf.app hd

theorem Flow.pushComment_carries {f : Flow} {d : Doc} {s t : Streams} {isBlock : Bool}
    (hf : Carries f.doc s) (hd : Carries d t) : Carries (f.pushComment d isBlock).doc (s.app t) := by
  unfold Flow.pushComment
  split
  · exact Flow.push_carries hf hd
  · split
    · have : Carries ({ f with spaceAfter := true } : Flow).doc s := hf
      exact Flow.push_carries this hd
    · exact Flow.push_carries hf hd

/-- Contract of a construct's producer closure: what it returns for `child` carries `sem child`
(nothing returned ⇒ `sem child` is empty: nothing is dropped silently). -/
def NM (c : Ctx) : Prop := c.mode ≠ .math

theorem NM.withModeIf {c : Ctx} (h : NM c) (b : Bool) : NM (c.withModeIf .code b) := by
  unfold Ctx.withModeIf NM at *; split
  · intro h'; cases h'
  · exact h

theorem NM.withMode {c : Ctx} (m : LMode) (hm : m ≠ .math) : NM (c.withMode m) := hm
theorem NM.suppress {c : Ctx} (h : NM c) : NM c.suppress := h

def ProducerS {σ : Type} (producer : σ → Ctx → ANode → M (σ × Option FlowItem)) (sem : ANode → Streams) (ok : ANode → Prop) : Prop :=
  ∀ st c child, NM c → ok child → Post (producer st c child) fun r =>
    match r.2 with
    | some it => Carries it.doc (sem child)
    | none => sem child = {}

/-- The comment converter carries exactly the comment's non-blank characters (proved in `CarriesComment.lean`). -/
def CommentOK (e : Env) : Prop :=
  ∀ n : ANode, isCommentKind n.kind = true → Post (convCommentT e n) (fun d => Carries d (commentS n.text))

/-- What one child of a flow-like node contributes. -/
def flowContribS (sem : ANode → Streams) (c : ANode) : Streams :=
  let k := c.kind
  if k.isKeyword && !(k == .none_ || k == .auto_) then tagS .tok c.text
  else if isCommentKind k then commentS c.text
  else if k == .hash then tagS .tok c.text
  else sem c

def contribL (sem : ANode → Streams) : List ANode → Streams
  | [] => {}
  | c :: cs => (flowContribS sem c).app (contribL sem cs)

theorem contribL_snoc (sem : ANode → Streams) (cs : List ANode) (c : ANode) :
    contribL sem (cs ++ [c]) = (contribL sem cs).app (flowContribS sem c) := by
  induction cs with
  | nil => simp [contribL]
  | cons x xs ih => simp only [List.cons_append, contribL, ih, Streams.app_assoc]

theorem flowStepM_carries {σ : Type} {e : Env} {ctx : Ctx} {producer : σ → Ctx → ANode → M (σ × Option FlowItem)}
    {sem : ANode → Streams} {ok : ANode → Prop}
    (hc : CommentOK e) (hp : ProducerS producer sem ok) (hsp : ∀ c : ANode, ok c → c.kind = .space → sem c = {})
    (hctx : NM ctx) (acc : FSt σ) (s : Streams) (c : ANode) (hok : ok c) (h : Carries acc.flow.doc s) :
    Post (flowStepM e ctx producer acc c) (fun acc' => Carries acc'.flow.doc (s.app (flowContribS sem c))) := by
  unfold flowStepM flowContribS
  simp only
  split
  · exact Post.pure (Flow.push_carries h (Carries.mkText e.wd .tok _))
  · split
    · rename_i hck
      exact Post.bind (hc c hck) (fun d hd => Post.pure (Flow.pushComment_carries h hd))
    · split
      · rename_i hk
        have hks : c.kind = .space := by
          simp only [Bool.and_eq_true, beq_iff_eq] at hk; exact hk.1.2
        have h3 : (c.kind == Kind.hash) = false := by simp [hks]
        simp only [h3, Bool.false_eq_true, if_false, hsp c hok hks]
        refine Post.pure ?_
        have := Flow.push_carries (before := false) (after := false) h Carries.hardline
        simpa using this
      · split
        · split
          · rename_i ht
            have ht' : c.text = "#" := by simpa using ht
            refine Post.pure ?_
            have := Flow.push_carries (before := true) (after := false) h (Carries.mkText e.wd .syn "#")
            rw [tagS_syn_eq_tok] at this
            exact this.congr (by rw [ht'])
          · exact Post.rejected _
        · refine Post.bind (hp _ _ _ (hctx.withModeIf _) hok) (fun r hr => ?_)
          split
          · rename_i it heq
            simp only [heq] at hr
            exact Post.pure (Flow.push_carries h hr)
          · rename_i heq
            simp only [heq] at hr
            exact Post.pure (by simpa [hr] using h)

/-- **The flow stylist carries its children's contributions, in order.** -/
theorem flowM_carries {σ : Type} {e : Env} {ctx : Ctx} {producer : σ → Ctx → ANode → M (σ × Option FlowItem)}
    {sem : ANode → Streams} {ok : ANode → Prop}
    (hc : CommentOK e) (hp : ProducerS producer sem ok) (hsp : ∀ c : ANode, ok c → c.kind = .space → sem c = {})
    (hctx : NM ctx) (children : List ANode) (hok : ∀ c ∈ children, ok c) (st : σ) :
    Post (flowM e ctx children st producer) (fun d => Carries d (contribL sem children)) := by
  unfold flowM
  refine Post.bind (Q := fun acc => Carries acc.flow.doc (contribL sem children)) ?_ (fun acc hacc => Post.pure hacc)
  -- invariant over prefixes that are prefixes of `children`
  have key : ∀ (l pre : List ANode) (init : FSt σ), (∀ c ∈ l, ok c) → Carries init.flow.doc (contribL sem pre) →
      Post (l.foldlM (flowStepM e ctx producer) init) (fun acc => Carries acc.flow.doc (contribL sem (pre ++ l))) := by
    intro l
    induction l with
    | nil => intro pre init _ hi; simpa using (Post.pure hi : Post (Pure.pure init : M (FSt σ)) _)
    | cons x xs ih =>
      intro pre init hl hi
      simp only [List.foldlM_cons]
      refine Post.bind (flowStepM_carries hc hp hsp hctx init _ x (hl x List.mem_cons_self) hi) (fun acc hacc => ?_)
      have := ih (pre ++ [x]) acc (fun c h => hl c (List.mem_cons_of_mem _ h)) (by rw [contribL_snoc]; exact hacc)
      simpa [List.append_assoc] using this
  simpa using key children [] ({ st := st } : FSt σ) hok (by simpa [contribL] using Carries.nil)

end Typstyle
