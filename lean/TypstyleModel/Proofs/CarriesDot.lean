import TypstyleModel.Proofs.CarriesBinary
/-! Field access and method-call chains (`convert_dot_chain`, `convert_field_access_plain`). -/
namespace Typstyle
open Twin

/-- The children of a field access after its target: the dot, comments, white space, and — after the
dot — the field name. -/
def dotRestOK : Bool → List ANode → Bool
  | _, [] => true
  | seen, c :: cs =>
    (c.kind == .dot || isCommentKind c.kind || c.kind == .space || (c.kind == .ident && seen)) &&
      dotRestOK (seen || c.kind == .dot) cs

/-- Strict shape of the children of a field access after the target: one dot, then one field name;
white space and comments anywhere.  Phase 0 = before the dot, 1 = after it, 2 = after the name. -/
def faRest : Nat → List ANode → Bool
  | p, [] => p == 2
  | p, c :: cs =>
    if c.kind == .space || isCommentKind c.kind then faRest p cs
    else if c.kind == .dot then p == 0 && faRest 1 cs
    else c.kind == .ident && p == 1 && faRest 2 cs

theorem faRest_dotRestOK (rest : List ANode) : ∀ p, faRest p rest = true → dotRestOK (p != 0) rest = true := by
  induction rest with
  | nil => intro p _; rfl
  | cons c cs ih =>
    intro p h
    simp only [faRest] at h
    simp only [dotRestOK, Bool.and_eq_true]
    split at h
    · rename_i hk
      have hnd : (c.kind == .dot) = false := by
        simp only [Bool.or_eq_true, beq_iff_eq] at hk
        rcases hk with hk | hk
        · rw [hk]; rfl
        · cases hkk : c.kind <;> simp_all [isCommentKind]
      refine ⟨?_, by simpa [hnd] using ih p h⟩
      simp only [Bool.or_eq_true] at hk ⊢
      rcases hk with hk | hk
      · exact Or.inl (Or.inr hk)
      · exact Or.inl (Or.inl (Or.inr hk))
    · split at h
      · rename_i hk
        simp only [Bool.and_eq_true, beq_iff_eq] at h
        refine ⟨by simp [hk], ?_⟩
        have := ih 1 h.2
        simpa [hk] using this
      · rename_i hk
        simp only [Bool.and_eq_true, beq_iff_eq] at h
        obtain ⟨⟨hi, hp⟩, h2⟩ := h
        subst hp
        refine ⟨by simp [hi], ?_⟩
        have := ih 2 h2
        simpa using this

def chainHeadOK (t : ANode) : Bool :=
  isExpr t && !((t.kind == .fieldAccess || t.kind == .funcCall) && t.attrs.disabled)

def dotChildrenOK (cs : List ANode) : Bool :=
  match cs with
  | t :: rest => chainHeadOK t && faRest 0 rest
  | [] => false

/-- What the covered fragment must guarantee of field accesses and calls for the dot chain. -/
structure DotQ (Q : ANode → Prop) : Prop where
  leaf : ∀ k t a, Q (.leaf k t a) → k ≠ .fieldAccess ∧ k ≠ .funcCall
  access : ∀ cs a, Q (.inner .fieldAccess cs a) → a.disabled = false →
    dotChildrenOK cs = true ∧ ANode.tokensAreLeavesL cs = true ∧ ∀ c ∈ cs, Q c
  call : ∀ cs a, Q (.inner .funcCall cs a) → a.disabled = false →
    ∃ callee args, cs = [callee, args] ∧ chainHeadOK callee = true ∧ args.kind = .args ∧
      ANode.tokensAreLeaves callee = true ∧ Q callee ∧ Q args

theorem dot_plain : Kind.isPlainToken .dot = true := by decide

theorem dotOpConv_post (e : Env) (c : ANode) (hlex : ANode.tokensAreLeaves c = true) (st : Bool) :
    Post (dotOp e c >>= fun x => (pure (st, x) : M (Bool × Option Doc))) (fun p => p.1 = st ∧
      match p.2 with
      | some d => c.kind = .dot ∧ Carries d (specAll c)
      | none => c.kind ≠ .dot) := by
  unfold dotOp
  split
  · rename_i hk
    have hk' : c.kind = .dot := by simpa using hk
    simp only [bind_assoc, pure_bind]
    exact Post.bind (synLeaf_carries e c "." hlex (by rw [hk']; exact dot_plain))
      (fun d hd => Post.pure ⟨rfl, hk', hd⟩)
  · rename_i hk
    simp only [pure_bind]
    exact Post.pure ⟨rfl, by simpa using hk⟩

theorem specAll_ident_node (c : ANode) (h : ANode.tokensAreLeaves c = true) (hk : c.kind = .ident) :
    specAll c = tagS .lit c.text := by
  obtain ⟨t, a, hc⟩ := leaf_of_token h (by rw [hk]; rfl)
  rw [hc, hk]
  apply Streams.ext' <;> simp [specAll, specToks, specCmts, specProse, specLit, specVerb, isCommentKind, tagS, Pretty.charsOf,
      Pretty.keepOf, Kind.isExpr, ANode.text, leafTag]

variable {Q : ANode → Prop}

/-- One child of a field access, after the target. -/
theorem dotChildStep (e : Env) (ctx : Ctx)
    (acc : CS × Bool × Bool) (sp : Streams) (h : CInvS acc.1 acc.2.1 sp) (c : ANode)
    (hlex : ANode.tokensAreLeaves c = true)
    (hc : (c.kind == .dot || isCommentKind c.kind || c.kind == .space || (c.kind == .ident && acc.2.2)) = true) :
    Post (CS.childStepM e ctx (fun st c => do pure (st, ← dotOp e c)) (dotRhs e) acc c)
      (fun r' => CInvS r'.1 r'.2.1 (sp.app (specAll c)) ∧ r'.2.2 = (acc.2.2 || c.kind == .dot)) := by
  obtain ⟨cs, ca, so⟩ := acc
  simp only at h hc
  have hst := h.st
  unfold CS.childStepM
  simp only
  rw [hst]
  refine Post.bind (dotOpConv_post e c hlex false) ?_
  rintro ⟨ost, op?⟩ ⟨ho, hm⟩
  simp only at ho; subst ho
  cases op? with
  | some op =>
    simp only at hm
    have := h.push (.op op) hm.2.1 (fun _ d hd => by cases hd)
      { cs with opState := false, items := cs.items ++ [.op op] } rfl rfl ca
    rw [show citemS (.op op) = specAll c from hm.2.2] at this
    exact Post.pure ⟨this, by simp [hm.1]⟩
  | none =>
    simp only at hm
    have hm' : (c.kind == Kind.dot) = false := by simpa using hm
    simp only [hm', Bool.false_or, Bool.or_false] at hc ⊢
    split
    · rename_i hk
      refine Post.bind (commentOK e c hk) (fun d hd => ?_)
      rw [specAll_comment_node c hlex hk]
      cases ca with
      | true =>
        have := h.push (.attached d) hd.1 (fun he => absurd he (h.att rfl))
          { cs with opState := false, items := cs.items ++ [.attached d], hasComment := true } rfl rfl true
        rw [show citemS (.attached d) = commentS c.text from hd.2] at this
        exact Post.pure ⟨this, rfl⟩
      | false =>
        have := h.push (.comment d) hd.1 (fun _ d' hd' => by cases hd')
          { cs with opState := false, items := cs.items ++ [.comment d], hasComment := true } rfl rfl false
        rw [show citemS (.comment d) = commentS c.text from hd.2] at this
        exact Post.pure ⟨this, rfl⟩
    · rename_i hk
      split
      · rename_i hs
        rw [specAll_space c hlex (by simpa using hs), Streams.app_empty]
        split
        · refine Post.pure ⟨?_, rfl⟩
          split
          · have := h.push .linebreak rfl (fun _ d' hd' => by cases hd')
              { cs with opState := false, items := cs.items ++ [.linebreak] } rfl rfl false
            simpa [citemS] using this
          · exact ⟨h.good, h.eq, h.head, (fun hf => by cases hf), rfl⟩
        · exact Post.pure ⟨⟨h.good, h.eq, h.head, h.att, rfl⟩, rfl⟩
      · rename_i hs
        have hx : c.kind = .ident ∧ so = true := by
          simp only [hk, hs, Bool.false_or, Bool.and_eq_true, beq_iff_eq] at hc
          exact hc
        rw [hx.2]
        simp only [↓reduceIte]
        unfold dotRhs
        simp only [hx.1, beq_self_eq_true, ↓reduceIte, pure_bind]
        have hd : Carries (e.lit c.text) (specAll c) := by
          rw [specAll_ident_node c hlex hx.1]; exact Carries.mkText e.wd .lit c.text
        have := h.push (.body (e.lit c.text)) hd.1 (fun _ d' hd' => by cases hd')
          { cs with opState := false, items := cs.items ++ [.body (e.lit c.text)] } rfl rfl true
        rw [show citemS (.body (e.lit c.text)) = specAll c from hd.2] at this
        exact Post.pure ⟨this, by simp⟩

theorem dotRest_fold (e : Env) (ctx : Ctx) (rest : List ANode) :
    ∀ (acc : CS × Bool × Bool) (sp : Streams), CInvS acc.1 acc.2.1 sp → dotRestOK acc.2.2 rest = true →
      ANode.tokensAreLeavesL rest = true →
      Post (rest.foldlM (CS.childStepM e ctx (fun st c => do pure (st, ← dotOp e c)) (dotRhs e)) acc)
        (fun r' => CInvS r'.1 r'.2.1 (sp.app (specAllL rest))) := by
  induction rest with
  | nil => intro acc sp h _ _; exact Post.pure (by simpa using h)
  | cons c rest ih =>
    intro acc sp h hok hlex
    simp only [dotRestOK, Bool.and_eq_true] at hok
    simp only [ANode.tokensAreLeavesL, Bool.and_eq_true] at hlex
    rw [List.foldlM_cons]
    refine Post.bind (dotChildStep e ctx acc sp h c hlex.1 hok.1) ?_
    rintro acc' ⟨h', hs'⟩
    have := ih acc' _ h' (by rw [hs']; exact hok.2) hlex.2
    rw [specAllL_cons, ← Streams.app_assoc]
    exact this

theorem expr_not_dot (k : Kind) (h : k.isExpr = true) : k ≠ .dot ∧ isCommentKind k = false ∧ k ≠ .space := by
  cases k <;> simp_all [Kind.isExpr, isCommentKind]

/-- The target as a child of its field access: skipped (it was laid out as the inner chain). -/
theorem dotLhsStep (e : Env) (ctx : Ctx) (cs : CS) (ca : Bool) (sp : Streams) (h : CInvS cs ca sp)
    (t : ANode) (hlex : ANode.tokensAreLeaves t = true) (hx : isExpr t = true) :
    Post (CS.childStepM e ctx (fun st c => do pure (st, ← dotOp e c)) (dotRhs e) (cs, ca, false) t)
      (fun r' => CInvS r'.1 r'.2.1 sp ∧ r'.2.2 = false) := by
  have hk := expr_not_dot t.kind hx
  have hst := h.st
  unfold CS.childStepM
  simp only
  rw [hst]
  refine Post.bind (dotOpConv_post e t hlex false) ?_
  rintro ⟨ost, op?⟩ ⟨ho, hm⟩
  simp only at ho; subst ho
  cases op? with
  | some op => simp only at hm; exact absurd hm.1 hk.1
  | none =>
    have hs : (t.kind == Kind.space) = false := by simpa using hk.2.2
    simp only [hk.2.1, Bool.false_eq_true, ↓reduceIte, hs]
    exact Post.pure ⟨⟨h.good, h.eq, h.head, h.att, rfl⟩, rfl⟩

theorem chainHeadOK_dis {t : ANode} (h : chainHeadOK t = true) :
    (t.kind = .fieldAccess ∨ t.kind = .funcCall) → t.attrs.disabled = false := by
  intro hk
  simp only [chainHeadOK, Bool.and_eq_true, Bool.not_eq_true', Bool.and_eq_false_iff, Bool.or_eq_false_iff,
    beq_eq_false_iff_ne] at h
  rcases h.2 with h2 | h2
  · rcases hk with hk | hk
    · exact absurd hk h2.1
    · exact absurd hk h2.2
  · exact h2

/-- **The resolved dot chain**, processed innermost first, leaves the stylist with items that carry
the whole expression. -/
theorem dotChain_carries (e : Env) (r : Rec) (hr : RecOK r Q) (hQ : DotQ Q) (ctx : Ctx) (hnm : NM ctx)
    (hargs : ∀ args, args.kind = .args → Q args → Post (convArgs e r ctx args) (fun d => Carries d (specAll args))) :
    ∀ (fuel : Nat) (n : ANode), isExpr n = true → ANode.tokensAreLeaves n = true → Q n → n.depth ≤ fuel →
      ((n.kind = .fieldAccess ∨ n.kind = .funcCall) → n.attrs.disabled = false) →
      ∀ (acc : CS × Bool) (sp : Streams), CInvS acc.1 acc.2 sp →
      Post ((resolveDotChain fuel n).reverse.foldlM
          (CS.nodeStepM e ctx (fun node => node.kind == .fieldAccess) (fun st c => do pure (st, ← dotOp e c)) (dotRhs e) (dotFallback e r)) acc)
        (fun r' => CInvS r'.1 r'.2 (sp.app (specAll n))) := by
  intro fuel
  induction fuel with
  | zero => intro n _ _ _ hd; have := depth_pos n; omega
  | succ fuel ih =>
    intro n hx hlex hq hd hdis acc sp h
    unfold resolveDotChain
    rw [List.reverse_cons, List.foldlM_append]
    by_cases hfa : n.kind = .fieldAccess
    · have hcond : (n.kind == .fieldAccess || n.kind == .funcCall) = true := by simp [hfa]
      rw [if_pos hcond]
      cases n with
      | leaf k t a => exact absurd hfa (hQ.leaf k t a hq).1
      | inner k cs a =>
        have hk : k = .fieldAccess := hfa
        subst hk
        have hda : a.disabled = false := hdis (Or.inl rfl)
        obtain ⟨hch, hlexL, hqc⟩ := hQ.access cs a hq hda
        cases cs with
        | nil => simp [dotChildrenOK] at hch
        | cons t rest =>
          simp only [dotChildrenOK, Bool.and_eq_true] at hch
          obtain ⟨hhead, hrest⟩ := hch
          have hxt : isExpr t = true := by
            simp only [chainHeadOK, Bool.and_eq_true] at hhead; exact hhead.1
          have hfind : firstWhere (.inner .fieldAccess (t :: rest) a) isExpr = some t := by
            simp [firstWhere, ANode.children, hxt]
          rw [hfind]
          simp only [ANode.tokensAreLeavesL, Bool.and_eq_true] at hlexL
          have hdepth : t.depth ≤ fuel := by
            simp only [ANode.depth, ANode.depthL] at hd; omega
          refine Post.bind (ih t hxt hlexL.1 (hqc t (by simp)) hdepth (chainHeadOK_dis hhead) acc sp h) ?_
          rintro ⟨cs1, ca1⟩ h1
          simp only at h1
          simp only [List.foldlM_cons, List.foldlM_nil, bind_pure]
          unfold CS.nodeStepM
          simp only [ANode.kind, beq_self_eq_true, ↓reduceIte, ANode.children]
          rw [List.foldlM_cons]
          have hv : isVerbatimNode .fieldAccess (t :: rest) a = false := by simp [isVerbatimNode, hda]
          rw [specAll_inner .fieldAccess (t :: rest) a hv (by decide), specAllL_cons, ← Streams.app_assoc]
          have h1' : CInvS { cs1 with opNum := cs1.opNum + 1 } ca1 (sp.app (specAll t)) :=
            ⟨h1.good, h1.eq, h1.head, h1.att, h1.st⟩
          simp only [bind_assoc]
          refine Post.bind (dotLhsStep e ctx _ ca1 _ h1' t hlexL.1 hxt) ?_
          rintro acc2 ⟨h2, hs2⟩
          refine Post.bind (dotRest_fold e ctx rest acc2 _ h2 (by rw [hs2]; exact faRest_dotRestOK rest 0 hrest) hlexL.2) ?_
          intro r3 h3
          exact Post.pure h3
    · by_cases hfc : n.kind = .funcCall
      · have hcond : (n.kind == .fieldAccess || n.kind == .funcCall) = true := by simp [hfc]
        rw [if_pos hcond]
        cases n with
        | leaf k t a => exact absurd hfc (hQ.leaf k t a hq).2
        | inner k cs a =>
          have hk : k = .funcCall := hfc
          subst hk
          have hda : a.disabled = false := hdis (Or.inr rfl)
          obtain ⟨callee, args, rfl, hhead, hak, hlexc, hqcal, hqargs⟩ := hQ.call cs a hq hda
          have hxt : isExpr callee = true := by
            simp only [chainHeadOK, Bool.and_eq_true] at hhead; exact hhead.1
          have hfind : firstWhere (.inner .funcCall [callee, args] a) isExpr = some callee := by
            simp [firstWhere, ANode.children, hxt]
          rw [hfind]
          have hdepth : callee.depth ≤ fuel := by
            simp only [ANode.depth, ANode.depthL] at hd; omega
          refine Post.bind (ih callee hxt hlexc hqcal hdepth (chainHeadOK_dis hhead) acc sp h) ?_
          rintro ⟨cs1, ca1⟩ h1
          simp only at h1
          simp only [List.foldlM_cons, List.foldlM_nil, bind_pure]
          unfold CS.nodeStepM
          have hnf : ((ANode.inner Kind.funcCall [callee, args] a).kind == Kind.fieldAccess) = false := rfl
          simp only [hnf, Bool.false_eq_true, ↓reduceIte]
          unfold dotFallback
          have hfl : lastWhere (.inner .funcCall [callee, args] a) (fun x => x.kind == .args) = some args := by
            show ([args, callee] : List ANode).find? _ = _
            rw [List.find?_cons]; simp [hak]
          have hkf : ((ANode.inner Kind.funcCall [callee, args] a).kind == Kind.funcCall) = true := rfl
          simp only [hkf, ↓reduceIte, hfl, childOr, M.pure_bind, bind_assoc, pure_bind]
          have hv : isVerbatimNode .funcCall [callee, args] a = false := by simp [isVerbatimNode, hda]
          rw [specAll_inner .funcCall [callee, args] a hv (by decide), specAllL_cons, specAllL_cons, specAllL_nil,
            Streams.app_empty, ← Streams.app_assoc]
          refine Post.bind (hargs args hak hqargs) (fun fb hfb => ?_)
          split
          · rename_i b hl
            exact Post.pure (merge_body cs1 ca1 _ h1 b fb _ hl hfb)
          · have := h1.push (.body fb) hfb.1 (fun _ d' hd' => by cases hd')
              { cs1 with items := cs1.items ++ [.body fb] } rfl h1.st ca1
            rw [show citemS (.body fb) = specAll args from hfb.2] at this
            exact Post.pure this
      · have hcond : (n.kind == .fieldAccess || n.kind == .funcCall) = false := by simp [hfa, hfc]
        rw [if_neg (by simp [hcond])]
        simp only [List.reverse_nil, List.foldlM_nil, pure_bind, List.foldlM_cons, bind_pure]
        obtain ⟨cs0, ca0⟩ := acc
        simp only at h
        unfold CS.nodeStepM
        have h1 : (n.kind == Kind.fieldAccess) = false := by simpa using hfa
        have h2 : (n.kind == Kind.funcCall) = false := by simpa using hfc
        simp only [h1, Bool.false_eq_true, ↓reduceIte]
        unfold dotFallback
        simp only [h2, Bool.false_eq_true, ↓reduceIte, hx, bind_assoc, pure_bind]
        refine Post.bind (hr.expr ctx n hnm hx hq) (fun fb hfb => ?_)
        split
        · rename_i b hl
          exact Post.pure (merge_body cs0 ca0 sp h b fb _ hl hfb)
        · have := h.push (.body fb) hfb.1 (fun _ d' hd' => by cases hd')
            { cs0 with items := cs0.items ++ [.body fb] } rfl h.st ca0
          rw [show citemS (.body fb) = specAll n from hfb.2] at this
          exact Post.pure this

/-- `convert_dot_chain`. -/
theorem convDotChain_carries (e : Env) (r : Rec) (hr : RecOK r Q) (hQ : DotQ Q) (ctx : Ctx) (hnm : NM ctx)
    (hargs : ∀ args, args.kind = .args → Q args → Post (convArgs e r ctx args) (fun d => Carries d (specAll args)))
    (n : ANode) (hx : isExpr n = true) (hlex : ANode.tokensAreLeaves n = true) (hq : Q n) (hdis : n.attrs.disabled = false) :
    Post (convDotChain e r ctx n) (fun d => Carries d (specAll n)) := by
  unfold convDotChain CS.processM
  simp only [bind_assoc, pure_bind]
  refine Post.bind (dotChain_carries e r hr hQ ctx hnm hargs n.depth n hx hlex hq (Nat.le_refl _) (fun _ => hdis)
    (({} : CS), false) {} ⟨rfl, rfl, rfl, (fun h => by cases h), rfl⟩) ?_
  rintro ⟨cs, ca⟩ h
  simp only [Streams.empty_app] at h
  have := chain_print_carries e cs true false h.good h.head
  rw [h.eq] at this
  exact this

end Typstyle

namespace Typstyle
open Twin

/-! ### `convert_field_access_plain` -/

theorem specAll_dot_node (c : ANode) (h : ANode.tokensAreLeaves c = true) (hk : c.kind = .dot) :
    specAll c = tagS .syn "." := by
  obtain ⟨t, a, hc⟩ := leaf_of_token h (by rw [hk]; rfl)
  have ht : t = "." := leaf_tok_fixed (k := .dot) (a := a) (by rw [hc, hk] at h; exact h) rfl
  rw [hc, hk, specAll_plain_leaf .dot t a rfl, tagS_syn_eq_tok, ht]

/-- After the field name: nothing but white space. -/
theorem faRest2 (rest : List ANode) (h : faRest 2 rest = true) (hlex : ANode.tokensAreLeavesL rest = true)
    (hnc : rest.any (fun c => isCommentKind c.kind) = false) :
    rest.reverse.find? (fun c => c.kind == .ident) = none ∧ specAllL rest = {} := by
  induction rest with
  | nil => simp
  | cons c cs ih =>
    simp only [faRest] at h
    simp only [ANode.tokensAreLeavesL, Bool.and_eq_true] at hlex
    simp only [List.any_cons, Bool.or_eq_false_iff] at hnc
    split at h
    · rename_i hk
      have hsp : c.kind = .space := by simpa [hnc.1] using hk
      have := ih h hlex.2 hnc.2
      refine ⟨?_, by rw [specAllL_cons, specAll_space c hlex.1 hsp, this.2]; rfl⟩
      rw [List.reverse_cons, List.find?_append, this.1]
      simp [hsp]
    · split at h <;> simp at h

theorem faRest1 (rest : List ANode) (h : faRest 1 rest = true) (hlex : ANode.tokensAreLeavesL rest = true)
    (hnc : rest.any (fun c => isCommentKind c.kind) = false) :
    ∃ f, rest.reverse.find? (fun c => c.kind == .ident) = some f ∧ specAllL rest = tagS .lit f.text := by
  induction rest with
  | nil => simp [faRest] at h
  | cons c cs ih =>
    simp only [faRest] at h
    simp only [ANode.tokensAreLeavesL, Bool.and_eq_true] at hlex
    simp only [List.any_cons, Bool.or_eq_false_iff] at hnc
    split at h
    · rename_i hk
      have hsp : c.kind = .space := by simpa [hnc.1] using hk
      obtain ⟨f, hf, hs⟩ := ih h hlex.2 hnc.2
      refine ⟨f, ?_, by rw [specAllL_cons, specAll_space c hlex.1 hsp, hs, Streams.empty_app]⟩
      rw [List.reverse_cons, List.find?_append, hf]; rfl
    · split at h
      · simp at h
      · simp only [Bool.and_eq_true, beq_iff_eq] at h
        have h2 := faRest2 cs h.2 hlex.2 hnc.2
        refine ⟨c, ?_, by rw [specAllL_cons, h2.2, Streams.app_empty, specAll_ident_node c hlex.1 h.1.1]⟩
        rw [List.reverse_cons, List.find?_append, h2.1]
        simp [h.1.1]

theorem faRest0 (rest : List ANode) (h : faRest 0 rest = true) (hlex : ANode.tokensAreLeavesL rest = true)
    (hnc : rest.any (fun c => isCommentKind c.kind) = false) :
    ∃ f, rest.reverse.find? (fun c => c.kind == .ident) = some f ∧
      specAllL rest = (tagS .syn ".").app (tagS .lit f.text) := by
  induction rest with
  | nil => simp [faRest] at h
  | cons c cs ih =>
    simp only [faRest] at h
    simp only [ANode.tokensAreLeavesL, Bool.and_eq_true] at hlex
    simp only [List.any_cons, Bool.or_eq_false_iff] at hnc
    split at h
    · rename_i hk
      have hsp : c.kind = .space := by simpa [hnc.1] using hk
      obtain ⟨f, hf, hs⟩ := ih h hlex.2 hnc.2
      refine ⟨f, ?_, by rw [specAllL_cons, specAll_space c hlex.1 hsp, hs, Streams.empty_app]⟩
      rw [List.reverse_cons, List.find?_append, hf]; rfl
    · split at h
      · rename_i hk
        simp only [Bool.and_eq_true, beq_iff_eq] at h
        obtain ⟨f, hf, hs⟩ := faRest1 cs h.2 hlex.2 hnc.2
        refine ⟨f, ?_, by rw [specAllL_cons, specAll_dot_node c hlex.1 (by simpa using hk), hs]⟩
        rw [List.reverse_cons, List.find?_append, hf]; rfl
      · simp at h

variable {Q : ANode → Prop}

/-- The flow takes comments itself; what the producer is asked about them is immaterial. -/
def semFA (c : ANode) : Streams := if isCommentKind c.kind then {} else specAll c

theorem flowContribS_semFA (c : ANode) : flowContribS semFA c = flowContribS specAll c := by
  unfold flowContribS semFA
  simp only
  split
  · rfl
  · split
    · rfl
    · rename_i hc
      simp only [hc, Bool.false_eq_true, ↓reduceIte]

theorem contribL_semFA (cs : List ANode) : contribL semFA cs = contribL specAll cs := by
  induction cs with
  | nil => rfl
  | cons c cs ih => simp only [contribL, flowContribS_semFA, ih]

theorem fieldAccessProducer_ok (e : Env) (r : Rec) (hr : RecOK r Q) :
    ProducerS (fieldAccessProducer e r) semFA
      (fun c => ChildOK Q c ∧ (c.kind == .dot || isExpr c || c.kind == .space || isCommentKind c.kind) = true) := by
  intro st c child hnm hok
  unfold fieldAccessProducer
  split
  · rename_i hk
    have hk' : child.kind = .dot := by simpa using hk
    have hs : semFA child = specAll child := by unfold semFA; rw [hk']; rfl
    rw [hs]
    exact Post.bind (synLeaf_carries e child "." hok.1.1 (by rw [hk']; exact dot_plain)) (fun d hd => Post.pure hd)
  · rename_i hk
    split
    · rename_i hx
      have hs : semFA child = specAll child := by
        unfold semFA; rw [(expr_not_dot child.kind hx).2.1]; rfl
      rw [hs]
      exact Post.bind (hr.expr c child hnm hx hok.1.2) (fun d hd => Post.pure hd)
    · rename_i hx
      refine Post.pure ?_
      have h2 := hok.2
      simp only [hk, hx, Bool.false_or, Bool.or_eq_true, beq_iff_eq] at h2
      show semFA child = {}
      unfold semFA
      rcases h2 with h2 | h2
      · have : isCommentKind child.kind = false := by rw [h2]; rfl
        simp only [this, Bool.false_eq_true, ↓reduceIte]
        exact specAll_space child hok.1.1 h2
      · simp only [h2, ↓reduceIte]

/-- `convert_field_access_plain`. -/
theorem convFieldAccessPlain_carries (e : Env) (r : Rec) (hr : RecOK r Q) (ctx : Ctx) (hnm : NM ctx)
    (t : ANode) (rest : List ANode) (a : Attrs) (hda : a.disabled = false)
    (hxt : isExpr t = true) (hrest : faRest 0 rest = true)
    (hlex : ANode.tokensAreLeavesL (t :: rest) = true) (hq : ∀ c ∈ t :: rest, Q c) :
    Post (convFieldAccessPlain e r ctx (.inner .fieldAccess (t :: rest) a))
      (fun d => Carries d (specAll (.inner .fieldAccess (t :: rest) a))) := by
  have hv : isVerbatimNode .fieldAccess (t :: rest) a = false := by simp [isVerbatimNode, hda]
  rw [specAll_inner .fieldAccess (t :: rest) a hv (by decide)]
  unfold convFieldAccessPlain
  split
  · -- comments among the children: a flow
    simp only [pure_bind, bind_pure, ANode.children]
    have hok : ∀ c ∈ t :: rest, (fun c => ChildOK Q c ∧ (c.kind == .dot || isExpr c || c.kind == .space || isCommentKind c.kind) = true) c := by
      intro c hc
      refine ⟨⟨tokensAreLeavesL_mem hlex hc, hq c hc⟩, ?_⟩
      rcases List.mem_cons.mp hc with rfl | hc'
      · simp [hxt]
      · have hall : ∀ p (l : List ANode), faRest p l = true → ∀ x ∈ l,
            (x.kind == .dot || isExpr x || x.kind == .space || isCommentKind x.kind) = true := by
          intro p l
          induction l generalizing p with
          | nil => intro _ x hx; cases hx
          | cons y ys ih =>
            intro h x hx
            simp only [faRest] at h
            split at h
            · rename_i hk
              rcases List.mem_cons.mp hx with rfl | hx'
              · simp only [Bool.or_eq_true] at hk ⊢
                rcases hk with hk | hk
                · exact Or.inl (Or.inr hk)
                · exact Or.inr hk
              · exact ih p h x hx'
            · split at h
              · rename_i hk
                simp only [Bool.and_eq_true] at h
                rcases List.mem_cons.mp hx with rfl | hx'
                · simp [hk]
                · exact ih 1 h.2 x hx'
              · simp only [Bool.and_eq_true, beq_iff_eq] at h
                rcases List.mem_cons.mp hx with rfl | hx'
                · have : isExpr x = true := by unfold isExpr; rw [h.1.1]; rfl
                  simp [this]
                · exact ih 2 h.2 x hx'
        exact hall 0 rest hrest c hc'
    have := flowM_carries (commentOK e) (fieldAccessProducer_ok e r hr)
      (fun c hok hk => by
        show semFA c = {}
        unfold semFA
        have : isCommentKind c.kind = false := by rw [hk]; rfl
        simp only [this, Bool.false_eq_true, ↓reduceIte]
        exact specAll_space c hok.1.1 hk) hnm (t :: rest) hok ()
    rw [contribL_semFA, contribL_specAll _ hlex] at this
    exact this
  · rename_i hcm
    have hnc : (t :: rest).any (fun c => isCommentKind c.kind) = false := by
      simpa [hasCommentChildren, ANode.children] using hcm
    simp only [List.any_cons, Bool.or_eq_false_iff] at hnc
    simp only [ANode.tokensAreLeavesL, Bool.and_eq_true] at hlex
    obtain ⟨f, hf, hs⟩ := faRest0 rest hrest hlex.2 hnc.2
    have hfind : firstWhere (.inner .fieldAccess (t :: rest) a) isExpr = some t := by
      simp [firstWhere, ANode.children, hxt]
    have hlast : lastWhere (.inner .fieldAccess (t :: rest) a) (fun c => c.kind == .ident) = some f := by
      show (t :: rest).reverse.find? _ = _
      rw [List.reverse_cons, List.find?_append, hf]; rfl
    simp only [hfind, hlast, childOr, M.pure_bind, pure_bind]
    refine Post.bind (hr.expr ctx t hnm hxt (hq t (by simp))) (fun d hd => Post.pure ?_)
    rw [specAllL_cons, hs]
    have := (hd.app (Carries.mkText e.wd .syn ".")).app (Carries.mkText e.wd .lit f.text)
    simpa [Streams.app_assoc, Env.syn, Env.lit] using this

end Typstyle

namespace Typstyle
open Twin
variable {Q : ANode → Prop}

/-! ### `try_convert_dot_chain_plain` -/

theorem resolveDotChain_cons (fuel : Nat) (n : ANode) : ∃ xs, resolveDotChain fuel n = n :: xs := by
  cases fuel with
  | zero => exact ⟨[], rfl⟩
  | succ f => unfold resolveDotChain; exact ⟨_, rfl⟩

theorem getLast?_cons_of_cons {α : Type} (a : α) (l : List α) (x : α) (xs : List α) (h : l = x :: xs) :
    (a :: l).getLast? = l.getLast? := by
  subst h; exact List.getLast?_cons_cons

/-- A chain of field accesses down to an identifier, without comments: the plain layout
`id.f₁.f₂…` carries exactly the expression. -/
theorem plainChain_carries (e : Env) (hQ : DotQ Q) :
    ∀ (fuel : Nat) (t : ANode), ANode.tokensAreLeaves t = true → Q t → t.depth ≤ fuel →
      ((resolveDotChain fuel t).filter (·.kind == .funcCall)).length = 0 →
      (resolveDotChain fuel t).any hasCommentChildren = false →
      (t.kind = .fieldAccess → t.attrs.disabled = false) →
      ∀ id, (resolveDotChain fuel t).getLast? = some id → id.kind = .ident →
      Carries ((resolveDotChain fuel t).reverse.foldl
        (fun doc c => if c.kind == .fieldAccess then doc ++ (e.syn "." ++ e.lit (fieldOf c)) else doc) (e.lit id.text)) (specAll t) := by
  intro fuel
  induction fuel with
  | zero => intro t _ _ hd; have := depth_pos t; omega
  | succ fuel ih =>
    intro t hlex hq hd hcalls hcm hdis id hid hidk
    unfold resolveDotChain at hcalls hcm hid ⊢
    by_cases hfa : t.kind = .fieldAccess
    · have hcond : (t.kind == .fieldAccess || t.kind == .funcCall) = true := by simp [hfa]
      rw [if_pos hcond] at hcalls hcm hid ⊢
      cases t with
      | leaf k tx a => exact absurd hfa (hQ.leaf k tx a hq).1
      | inner k cs a =>
        have hk : k = .fieldAccess := hfa
        subst hk
        have hda : a.disabled = false := hdis rfl
        obtain ⟨hch, hlexL, hqc⟩ := hQ.access cs a hq hda
        cases cs with
        | nil => simp [dotChildrenOK] at hch
        | cons tg rest =>
          simp only [dotChildrenOK, Bool.and_eq_true] at hch
          obtain ⟨hhead, hrest⟩ := hch
          have hxt : isExpr tg = true := by
            simp only [chainHeadOK, Bool.and_eq_true] at hhead; exact hhead.1
          have hfind : firstWhere (.inner .fieldAccess (tg :: rest) a) isExpr = some tg := by
            simp [firstWhere, ANode.children, hxt]
          rw [hfind] at hcalls hcm hid ⊢
          simp only at hcalls hcm hid ⊢
          simp only [ANode.tokensAreLeavesL, Bool.and_eq_true] at hlexL
          have hdepth : tg.depth ≤ fuel := by
            simp only [ANode.depth, ANode.depthL] at hd; omega
          obtain ⟨xs, hxs⟩ := resolveDotChain_cons fuel tg
          rw [getLast?_cons_of_cons _ _ tg xs hxs] at hid
          have hnf : ((ANode.inner Kind.fieldAccess (tg :: rest) a).kind == Kind.funcCall) = false := rfl
          rw [List.filter_cons, hnf] at hcalls
          simp only [Bool.false_eq_true, ↓reduceIte] at hcalls
          simp only [List.any_cons, Bool.or_eq_false_iff] at hcm
          have hrec := ih tg hlexL.1 (hqc tg (by simp)) hdepth hcalls hcm.2
            (fun hk => chainHeadOK_dis hhead (Or.inl hk)) id hid hidk
          rw [List.reverse_cons, List.foldl_append, List.foldl_cons, List.foldl_nil]
          have hkf : ((ANode.inner Kind.fieldAccess (tg :: rest) a).kind == Kind.fieldAccess) = true := rfl
          simp only [hkf, ↓reduceIte]
          have hnc : (tg :: rest).any (fun c => isCommentKind c.kind) = false := by
            simpa [hasCommentChildren, ANode.children] using hcm.1
          simp only [List.any_cons, Bool.or_eq_false_iff] at hnc
          obtain ⟨f, hf, hs⟩ := faRest0 rest hrest hlexL.2 hnc.2
          have hlast : lastWhere (.inner .fieldAccess (tg :: rest) a) (fun c => c.kind == .ident) = some f := by
            show (tg :: rest).reverse.find? _ = _
            rw [List.reverse_cons, List.find?_append, hf]; rfl
          have hfo : fieldOf (.inner .fieldAccess (tg :: rest) a) = f.text := by
            unfold fieldOf; rw [hlast]; rfl
          rw [hfo]
          have hv : isVerbatimNode .fieldAccess (tg :: rest) a = false := by simp [isVerbatimNode, hda]
          rw [specAll_inner .fieldAccess (tg :: rest) a hv (by decide), specAllL_cons, hs]
          exact hrec.app ((Carries.mkText e.wd .syn ".").app (Carries.mkText e.wd .lit f.text))
    · by_cases hfc : t.kind = .funcCall
      · have hcond : (t.kind == .fieldAccess || t.kind == .funcCall) = true := by simp [hfc]
        rw [if_pos hcond] at hcalls
        have hkf : (t.kind == Kind.funcCall) = true := by simp [hfc]
        rw [List.filter_cons, hkf] at hcalls
        simp at hcalls
      · have hcond : ¬ ((t.kind == .fieldAccess || t.kind == .funcCall) = true) := by simp [hfa, hfc]
        rw [if_neg hcond] at hid ⊢
        simp only [List.getLast?_singleton, Option.some.injEq] at hid
        subst hid
        have hnf : (t.kind == Kind.fieldAccess) = false := by simpa using hfa
        simp only [List.reverse_cons, List.reverse_nil, List.nil_append, List.foldl_cons, List.foldl_nil, hnf,
          Bool.false_eq_true, ↓reduceIte]
        rw [specAll_ident_node t hlex hidk]
        exact Carries.mkText e.wd .lit t.text

/-- `try_convert_dot_chain_plain` on the chain of a call. -/
theorem tryDotChainPlain_post (e : Env) (r : Rec) (hQ : DotQ Q) (ctx : Ctx)
    (hargs : ∀ args, args.kind = .args → Q args → Post (convArgs e r ctx args) (fun d => Carries d (specAll args)))
    (n : ANode) (hlex : ANode.tokensAreLeaves n = true) (hq : Q n) (hdis : n.attrs.disabled = false)
    (hcalls : ((resolveDotChain n.depth n).filter (·.kind == .funcCall)).length = 1)
    (hcm : (resolveDotChain n.depth n).any hasCommentChildren = false) :
    Post (tryDotChainPlain e r ctx (resolveDotChain n.depth n)) (fun o =>
      match o with
      | some d => Carries d (specAll n)
      | none => True) := by
  obtain ⟨fuel, hfuel⟩ : ∃ f, n.depth = f + 1 := ⟨n.depth - 1, by have := depth_pos n; omega⟩
  rw [hfuel] at hcalls hcm ⊢
  by_cases hfc : n.kind = .funcCall
  · cases n with
    | leaf k t a => exact absurd hfc (hQ.leaf k t a hq).2
    | inner k cs a =>
      have hk : k = .funcCall := hfc
      subst hk
      obtain ⟨callee, args, rfl, hhead, hak, hlexc, hqcal, hqargs⟩ := hQ.call cs a hq hdis
      have hxt : isExpr callee = true := by
        simp only [chainHeadOK, Bool.and_eq_true] at hhead; exact hhead.1
      have hfind : firstWhere (.inner .funcCall [callee, args] a) isExpr = some callee := by
        simp [firstWhere, ANode.children, hxt]
      have hchain : resolveDotChain (fuel + 1) (.inner .funcCall [callee, args] a) =
          .inner .funcCall [callee, args] a :: resolveDotChain fuel callee := by
        rw [resolveDotChain]
        have hc : ((ANode.inner Kind.funcCall [callee, args] a).kind == Kind.fieldAccess ||
          (ANode.inner Kind.funcCall [callee, args] a).kind == Kind.funcCall) = true := rfl
        rw [if_pos hc, hfind]
      rw [hchain] at hcalls hcm ⊢
      have hkf : ((ANode.inner Kind.funcCall [callee, args] a).kind == Kind.funcCall) = true := rfl
      rw [List.filter_cons, hkf] at hcalls
      simp only [↓reduceIte, List.length_cons, Nat.add_eq_right] at hcalls
      simp only [List.any_cons, Bool.or_eq_false_iff] at hcm
      have hdepth : callee.depth ≤ fuel := by
        simp only [ANode.depth, ANode.depthL] at hfuel; omega
      obtain ⟨xs, hxs⟩ := resolveDotChain_cons fuel callee
      unfold tryDotChainPlain
      simp only
      have hgl : (ANode.inner Kind.funcCall [callee, args] a :: resolveDotChain fuel callee).reverse.getLast? =
          some (.inner .funcCall [callee, args] a) := by simp
      have hhd : (ANode.inner Kind.funcCall [callee, args] a :: resolveDotChain fuel callee).reverse.head? =
          (resolveDotChain fuel callee).getLast? := by
        rw [List.head?_reverse, getLast?_cons_of_cons _ _ callee xs hxs]
      rw [hgl, hhd]
      cases hid : (resolveDotChain fuel callee).getLast? with
      | none => exact Post.pure trivial
      | some id =>
        simp only
        split
        · exact Post.pure trivial
        · rename_i hkinds
          simp only [Bool.or_eq_true, bne_iff_ne, ne_eq, not_or, Decidable.not_not] at hkinds
          split
          · exact Post.pure trivial
          · have hfl : lastWhere (.inner .funcCall [callee, args] a) (fun x => x.kind == .args) = some args := by
              show ([args, callee] : List ANode).find? _ = _
              rw [List.find?_cons]; simp [hak]
            simp only [hfl, childOr, M.pure_bind, bind_assoc, pure_bind]
            refine Post.bind (hargs args hak hqargs) (fun da hda => Post.pure ?_)
            have hp := plainChain_carries e hQ fuel callee hlexc hqcal hdepth hcalls hcm.2
              (fun hk => chainHeadOK_dis hhead (Or.inl hk)) id hid hkinds.2
            have hdis' : a.disabled = false := hdis
            have hv : isVerbatimNode .funcCall [callee, args] a = false := by simp [isVerbatimNode, hdis']
            rw [specAll_inner .funcCall [callee, args] a hv (by decide), specAllL_cons, specAllL_cons, specAllL_nil,
              Streams.app_empty]
            rw [List.reverse_cons, List.foldl_append, List.foldl_cons, List.foldl_nil]
            have hnf : ((ANode.inner Kind.funcCall [callee, args] a).kind == Kind.fieldAccess) = false := rfl
            simp only [hnf, Bool.false_eq_true, ↓reduceIte]
            exact hp.app hda
  · -- the outermost node is not a call: no plain layout
    obtain ⟨xs, hxs⟩ := resolveDotChain_cons (fuel + 1) n
    unfold tryDotChainPlain
    simp only
    rw [hxs]
    have hgl : (n :: xs).reverse.getLast? = some n := by simp
    rw [hgl]
    cases (n :: xs).reverse.head? with
    | none => exact Post.pure trivial
    | some id =>
      simp only
      have : (n.kind != Kind.funcCall || id.kind != Kind.ident) = true := by simp [hfc]
      simp only [this, ↓reduceIte]
      exact Post.pure trivial

end Typstyle

namespace Typstyle
open Twin
variable {Q : ANode → Prop}

/-- `try_convert_dot_chain`: whatever layout it chooses carries the expression. -/
theorem tryDotChain_post (e : Env) (r : Rec) (hr : RecOK r Q) (hQ : DotQ Q) (ctx : Ctx) (hnm : NM ctx)
    (hargs : ∀ ctx, NM ctx → ∀ args, args.kind = .args → Q args → Post (convArgs e r ctx args) (fun d => Carries d (specAll args)))
    (n : ANode) (hx : isExpr n = true) (hlex : ANode.tokensAreLeaves n = true) (hq : Q n) (hdis : n.attrs.disabled = false) :
    Post (tryDotChain e r ctx n) (fun o =>
      match o with
      | some d => Carries d (specAll n)
      | none => True) := by
  unfold tryDotChain
  split
  · exact Post.pure trivial
  · simp only [pure_bind]
    have tail : Post (if (ctx.mode == LMode.markup &&
                decide ((List.filter (fun x => x.kind == Kind.fieldAccess) (resolveDotChain n.depth n)).length > 1) &&
              decide ((List.filter (fun x => x.kind == Kind.funcCall) (resolveDotChain n.depth n)).length > 0)) = true then
          (do let d ← parenthesizeIfNecessary e ctx fun ctx => convDotChain e r ctx n
              pure (some d) : M (Option Doc))
        else if (ctx.mode == LMode.code || ctx.mode == LMode.codeCont) = true then
          (do let d ← convDotChain e r ctx n
              pure (some d))
        else pure none)
        (fun o => match o with | some d => Carries d (specAll n) | none => True) := by
      split
      · unfold parenthesizeIfNecessary
        split
        · exact Post.bind (convDotChain_carries e r hr hQ ctx hnm (hargs ctx hnm) n hx hlex hq hdis)
            (fun d hd => Post.pure hd)
        · simp only [bind_assoc, pure_bind]
          exact Post.bind (convDotChain_carries e r hr hQ _ (NM.withMode _ (by decide)) (hargs _ (NM.withMode _ (by decide))) n hx hlex hq hdis)
            (fun d hd => Post.pure (optionalParen_carries e d _ hd "(" ")" (by decide) (by decide)))
      · split
        · exact Post.bind (convDotChain_carries e r hr hQ ctx hnm (hargs ctx hnm) n hx hlex hq hdis)
            (fun d hd => Post.pure hd)
        · exact Post.pure trivial
    split
    · rename_i hc
      simp only [Bool.and_eq_true, decide_eq_true_eq, beq_iff_eq, Bool.not_eq_true'] at hc
      refine Post.bind (tryDotChainPlain_post e r hQ ctx (hargs ctx hnm) n hlex hq hdis hc.1.2 hc.2) ?_
      intro plain hplain
      cases plain with
      | some d => exact Post.pure hplain
      | none => exact tail
    · exact tail

/-- **`convert_field_access`** carries exactly what the field access prescribes. -/
theorem convFieldAccess_carries (e : Env) (r : Rec) (hr : RecOK r Q) (hQ : DotQ Q) (ctx : Ctx) (hnm : NM ctx)
    (hargs : ∀ ctx, NM ctx → ∀ args, args.kind = .args → Q args → Post (convArgs e r ctx args) (fun d => Carries d (specAll args)))
    (cs : List ANode) (a : Attrs) (hq : Q (.inner .fieldAccess cs a)) (hdis : a.disabled = false) :
    Post (convFieldAccess e r ctx (.inner .fieldAccess cs a)) (fun d => Carries d (specAll (.inner .fieldAccess cs a))) := by
  obtain ⟨hch, hlexL, hqc⟩ := hQ.access cs a hq hdis
  have hlex : ANode.tokensAreLeaves (.inner .fieldAccess cs a) = true := by
    simp only [ANode.tokensAreLeaves, Bool.and_eq_true]; exact ⟨rfl, hlexL⟩
  unfold convFieldAccess
  refine Post.bind (tryDotChain_post e r hr hQ ctx hnm hargs _ rfl hlex hq hdis) ?_
  intro o ho
  cases o with
  | some d => exact Post.pure ho
  | none =>
    cases cs with
    | nil => simp [dotChildrenOK] at hch
    | cons t rest =>
      simp only [dotChildrenOK, Bool.and_eq_true] at hch
      have hxt : isExpr t = true := by
        have := hch.1; simp only [chainHeadOK, Bool.and_eq_true] at this; exact this.1
      exact convFieldAccessPlain_carries e r hr ctx hnm t rest a hdis hxt hch.2 hlexL hqc

end Typstyle
