import TypstyleModel.Proofs.CarriesLists
import TypstyleModel.Proofs.CarriesConstructs
import TypstyleModel.Proofs.CarriesComment
import TypstyleModel.Proofs.CarriesDot
/-! Import statements (`import.rs`): the stable sort of the flattened node list orders the items among
themselves exactly as sorting them alone does (`filter_stableSort`), and the printed statement carries
the prefix and the items in that order. -/
namespace Typstyle
open Twin

/-! ### the stable sort -/

variable (key : ANode → String)

def sortedB : List ANode → Bool
  | [] => true
  | x :: xs => xs.all (fun y => decide (key x ≤ key y)) && sortedB xs

abbrev PSorted (l : List ANode) : Prop := List.Pairwise (fun a b => key a ≤ key b) l

theorem insertSorted_cons_le (x y : ANode) (ys : List ANode) (h : key x ≤ key y) :
    insertSorted key x (y :: ys) = x :: y :: ys := by simp [insertSorted, h]

theorem insertSorted_cons_gt (x y : ANode) (ys : List ANode) (h : ¬ key x ≤ key y) :
    insertSorted key x (y :: ys) = y :: insertSorted key x ys := by simp [insertSorted, h]

theorem mem_insertSorted (x y : ANode) (l : List ANode) : y ∈ insertSorted key x l ↔ y = x ∨ y ∈ l := by
  induction l with
  | nil => simp [insertSorted]
  | cons z zs ih =>
    unfold insertSorted
    split
    · simp
    · simp only [List.mem_cons, ih]
      constructor
      · rintro (h | h | h)
        · exact Or.inr (Or.inl h)
        · exact Or.inl h
        · exact Or.inr (Or.inr h)
      · rintro (h | h | h)
        · exact Or.inr (Or.inl h)
        · exact Or.inl h
        · exact Or.inr (Or.inr h)

theorem insertSorted_psorted (x : ANode) (l : List ANode) (h : PSorted key l) : PSorted key (insertSorted key x l) := by
  induction l with
  | nil => simp [insertSorted, PSorted]
  | cons z zs ih =>
    unfold insertSorted
    rw [PSorted, List.pairwise_cons] at h
    split
    · rename_i hle
      rw [PSorted, List.pairwise_cons]
      refine ⟨?_, List.pairwise_cons.mpr h⟩
      intro y hy
      rcases List.mem_cons.mp hy with rfl | hy'
      · exact hle
      · exact String.le_trans hle (h.1 y hy')
    · rename_i hle
      have hzx : key z ≤ key x := by
        rcases String.le_total (key x) (key z) with h' | h'
        · exact absurd h' hle
        · exact h'
      rw [PSorted, List.pairwise_cons]
      refine ⟨?_, ih h.2⟩
      intro y hy
      rcases (mem_insertSorted key x y zs).mp hy with rfl | hy'
      · exact hzx
      · exact h.1 y hy'

theorem stableSort_psorted (l : List ANode) : PSorted key (stableSort key l) := by
  induction l with
  | nil => exact List.Pairwise.nil
  | cons x xs ih => exact insertSorted_psorted key x _ ih

theorem insertSorted_of_le (x : ANode) (l : List ANode) (h : ∀ y ∈ l, key x ≤ key y) : insertSorted key x l = x :: l := by
  cases l with
  | nil => rfl
  | cons z zs => unfold insertSorted; rw [if_pos (h z List.mem_cons_self)]

theorem stableSort_of_sorted (l : List ANode) (h : sortedB key l = true) : stableSort key l = l := by
  induction l with
  | nil => rfl
  | cons x xs ih =>
    simp only [sortedB, Bool.and_eq_true, List.all_eq_true, decide_eq_true_eq] at h
    show insertSorted key x (stableSort key xs) = x :: xs
    rw [ih h.2]
    exact insertSorted_of_le key x xs h.1

theorem filter_insertSorted (p : ANode → Bool) (x : ANode) (S : List ANode) (hS : PSorted key S) :
    (insertSorted key x S).filter p = if p x then insertSorted key x (S.filter p) else S.filter p := by
  induction S with
  | nil => by_cases hp : p x <;> simp [insertSorted, hp]
  | cons y ys ih =>
    rw [PSorted, List.pairwise_cons] at hS
    by_cases hle : key x ≤ key y
    · rw [insertSorted_cons_le key x y ys hle]
      by_cases hp : p x = true
      · rw [List.filter_cons, if_pos hp, if_pos hp]
        -- everything kept from `y :: ys` is at least `x`
        have hall : ∀ z ∈ (y :: ys).filter p, key x ≤ key z := by
          intro z hz
          have hz' := (List.mem_filter.mp hz).1
          rcases List.mem_cons.mp hz' with rfl | hz''
          · exact hle
          · exact String.le_trans hle (hS.1 z hz'')
        rw [insertSorted_of_le key x _ hall]
      · have hp' : p x = false := by simpa using hp
        rw [List.filter_cons, hp']
        simp
    · rw [insertSorted_cons_gt key x y ys hle]
      have ih' := ih hS.2
      by_cases hpy : p y = true
      · rw [List.filter_cons, if_pos hpy, ih', List.filter_cons, if_pos hpy]
        by_cases hp : p x = true
        · simp only [hp, ↓reduceIte]
          rw [insertSorted_cons_gt key x y _ hle]
        · simp [hp]
      · have hpy' : p y = false := by simpa using hpy
        rw [List.filter_cons, hpy', ih', List.filter_cons, hpy']
        simp

/-- **A stable sort orders a sub-family exactly as sorting it alone does.** -/
theorem filter_stableSort (p : ANode → Bool) (l : List ANode) :
    (stableSort key l).filter p = stableSort key (l.filter p) := by
  induction l with
  | nil => rfl
  | cons x xs ih =>
    show (insertSorted key x (stableSort key xs)).filter p = _
    rw [filter_insertSorted key p x _ (stableSort_psorted key xs), ih, List.filter_cons]
    by_cases hp : p x = true
    · rw [if_pos hp, if_pos hp]; rfl
    · rw [if_neg hp, if_neg hp]

/-- What a list whose other members contribute nothing contributes. -/
theorem foldl_filter_sem (sem : ANode → Streams) (p : ANode → Bool) (l : List ANode) (h : ∀ x ∈ l, p x = false → sem x = {}) :
    ∀ acc : Streams, l.foldl (fun (acc : Streams) x => acc.app (sem x)) acc =
      (l.filter p).foldl (fun (acc : Streams) x => acc.app (sem x)) acc := by
  induction l with
  | nil => intro _; rfl
  | cons x xs ih =>
    intro acc
    rw [List.foldl_cons, List.filter_cons]
    by_cases hp : p x = true
    · rw [if_pos hp, List.foldl_cons]
      exact ih (fun y hy => h y (List.mem_cons_of_mem _ hy)) _
    · rw [if_neg hp, h x List.mem_cons_self (by simpa using hp), Streams.app_empty]
      exact ih (fun y hy => h y (List.mem_cons_of_mem _ hy)) _

end Typstyle

namespace Typstyle
open Twin
variable {Q : ANode → Prop}

/-! ### the import statement -/

def isImportItem (x : ANode) : Bool := x.kind == .renamedImportItem || x.kind == .importItemPath

/-- What the fragment guarantees of the nodes of an import item. -/
structure ImpQ (Q : ANode → Prop) : Prop where
  inner : ∀ x, Q x → isImportItem x = true → ∃ ics ia, x = .inner x.kind ics ia ∧ ANode.tokensAreLeavesL ics = true ∧ ∀ c ∈ ics, Q c

theorem importPathProducer_ok (e : Env) : ProducerS (importPathProducer e) specAll (ChildOK Q) := by
  intro st c child hnm hok
  unfold importPathProducer
  split
  · rename_i hk
    have hk' : child.kind = .dot := by simpa using hk
    exact Post.bind (synLeaf_carries e child "." hok.1 (by rw [hk']; exact dot_plain)) (fun d hd => Post.pure hd)
  · split
    · rename_i hk
      have hk' : child.kind = .ident := by simpa using hk
      refine Post.pure ?_
      show Carries (e.lit child.text) (specAll child)
      rw [specAll_ident_node child hok.1 hk']; exact Carries.mkText e.wd .lit child.text
    · split
      · rename_i hk
        exact Post.pure (specAll_space child hok.1 (by simpa using hk))
      · exact Post.rejected _

theorem not_verbatim_of_not_expr (k : Kind) (cs : List ANode) (a : Attrs) (hx : k.isExpr = false)
    (h1 : k ≠ .math) (h2 : k ≠ .code) (h3 : k ≠ .destructuring) (h4 : k ≠ .codeBlock) : isVerbatimNode k cs a = false := by
  unfold isVerbatimNode
  simp [hx, h1, h2, h3, h4]

theorem convImportItemPath_carries (e : Env) (hI : ImpQ Q) (ctx : Ctx) (hnm : NM ctx) (x : ANode) (hq : Q x)
    (hk : x.kind = .importItemPath) : Post (convImportItemPath e ctx x) (fun d => Carries d (specAll x)) := by
  obtain ⟨ics, ia, hx, hlex, hqc⟩ := hI.inner x hq (by unfold isImportItem; simp [hk])
  rw [hx, hk]
  unfold convImportItemPath
  exact flow_construct_carries e ctx .importItemPath ics ia () (importPathProducer e) (importPathProducer_ok e)
    (not_verbatim_of_not_expr _ _ _ rfl (by decide) (by decide) (by decide) (by decide)) (by decide) hlex hqc hnm

theorem importRenamedProducer_ok (e : Env) (hI : ImpQ Q) : ProducerS (importRenamedProducer e) specAll (ChildOK Q) := by
  intro st c child hnm hok
  unfold importRenamedProducer
  split
  · rename_i hk
    exact Post.bind (convImportItemPath_carries e hI c hnm child hok.2 (by simpa using hk)) (fun d hd => Post.pure hd)
  · split
    · rename_i hk
      have hk' : child.kind = .ident := by simpa using hk
      refine Post.pure ?_
      show Carries (e.lit child.text) (specAll child)
      rw [specAll_ident_node child hok.1 hk']; exact Carries.mkText e.wd .lit child.text
    · split
      · rename_i hk
        exact Post.pure (specAll_space child hok.1 (by simpa using hk))
      · exact Post.rejected _

def importItemOK (Q : ANode → Prop) (x : ANode) : Prop :=
  ANode.tokensAreLeaves x = true ∧ Q x ∧ (isImportItem x = true ∨ isCommentKind x.kind = true ∨ isIgnorable x = true)

theorem importItem_ok (e : Env) (hI : ImpQ Q) : CheckerS (importItem e) specAll (importItemOK Q) := by
  intro c x hnm hok
  unfold importItem
  split
  · rename_i hk
    obtain ⟨ics, ia, hx, hlex, hqc⟩ := hI.inner x hok.2.1 (by unfold isImportItem; simp [hk])
    refine Post.bind ?_ (fun d hd => Post.pure hd)
    rw [hx, hk]
    unfold convImportItemRenamed
    exact flow_construct_carries e c .renamedImportItem ics ia () (importRenamedProducer e) (importRenamedProducer_ok e hI)
      (not_verbatim_of_not_expr _ _ _ rfl (by decide) (by decide) (by decide) (by decide)) (by decide) hlex hqc hnm
  · rename_i hk
    exact Post.bind (convImportItemPath_carries e hI c hnm x hok.2.1 hk) (fun d hd => Post.pure hd)
  · rename_i h1 h2
    refine Post.pure ?_
    show specAll x = triviaS x
    rcases hok.2.2 with h | h | h
    · exfalso
      unfold isImportItem at h
      simp only [Bool.or_eq_true, beq_iff_eq] at h
      rcases h with h | h
      · exact h1 h
      · exact h2 h
    · exact triviaS_comment x hok.1 h
    · exact triviaS_ignorable x hok.1 h

theorem mem_stableSort (key : ANode → String) (l : List ANode) (y : ANode) : y ∈ stableSort key l ↔ y ∈ l := by
  induction l with
  | nil => simp [stableSort]
  | cons x xs ih =>
    show y ∈ insertSorted key x (stableSort key xs) ↔ _
    rw [mem_insertSorted, ih]; simp

/-- The order in which the items are handed to the list stylist does not change what they prescribe,
when the items are already in order (or are not sorted at all). -/
theorem specAllL_importOrder (cfg : PConfig) (nodes : List ANode) (hall : ∀ x ∈ nodes, importItemOK Q x)
    (hord : sortedB importSortKey (nodes.filter isImportItem) = true ∨ importSortable nodes = false) :
    specAllL (importOrder cfg nodes) = specAllL nodes := by
  unfold importOrder
  split
  · rename_i hc
    simp only [Bool.and_eq_true] at hc
    rcases hord with hs | hs
    · -- sortable: no comment among the nodes, everything but the items prescribes nothing
      have hnc : ∀ x ∈ nodes, isImportItem x = false → specAll x = {} := by
        intro x hx hni
        have hsortable := hc.2
        unfold importSortable at hsortable
        simp only [Bool.and_eq_true, List.all_eq_true, Bool.not_eq_true'] at hsortable
        rcases (hall x hx).2.2 with h | h | h
        · rw [h] at hni; cases hni
        · rw [hsortable.1 x hx] at h; cases h
        · exact specAll_ignorable x (hall x hx).1 h
      have h1 := foldl_filter_sem specAll isImportItem (stableSort importSortKey nodes)
        (fun x hx hni => hnc x ((mem_stableSort _ _ _).mp hx) hni) {}
      have h2 := foldl_filter_sem specAll isImportItem nodes hnc {}
      rw [foldl_specAll, foldl_specAll, Streams.empty_app, Streams.empty_app] at h1 h2
      rw [h1, h2, filter_stableSort, stableSort_of_sorted _ _ hs]
    · rw [hs] at hc; cases hc.2
  · rfl

end Typstyle

namespace Typstyle
open Twin
variable {Q : ANode → Prop}

theorem lexL_of_mem {l : List ANode} (h : ∀ x ∈ l, ANode.tokensAreLeaves x = true) :
    ANode.tokensAreLeavesL l = true := by
  induction l with
  | nil => rfl
  | cons c cs ih =>
    simp only [ANode.tokensAreLeavesL, Bool.and_eq_true]
    exact ⟨h c List.mem_cons_self, ih (fun x hx => h x (List.mem_cons_of_mem _ hx))⟩

theorem importItemOK_nohash {x : ANode} (h : importItemOK Q x) : x.kind ≠ .hash := by
  intro hh
  rcases h.2.2 with h1 | h1 | h1
  · unfold isImportItem at h1; rw [hh] at h1; cases h1
  · rw [hh] at h1; cases h1
  · unfold isIgnorable at h1; rw [hh] at h1; cases h1

/-- `convert_import_items`. -/
theorem convImportItems_carries (e : Env) (hI : ImpQ Q) (ctx : Ctx) (hnm : NM ctx) (nodes : List ANode)
    (hall : ∀ x ∈ nodes, importItemOK Q x)
    (hord : sortedB importSortKey (nodes.filter isImportItem) = true ∨ importSortable nodes = false) :
    Post (convImportItems e ctx nodes) (fun d => Carries d (specAllL nodes)) := by
  unfold convImportItems
  have hp := soft_paren e
  have hall' : ∀ x ∈ importOrder e.cfg nodes, importItemOK Q x := by
    intro x hx
    unfold importOrder at hx
    split at hx
    · exact hall x ((mem_stableSort _ _ _).mp hx)
    · exact hall x hx
  have := list_construct_carries e ctx (importItem e) (importItemOK Q) (importItem_ok e hI) hnm ({} : LS) ⟨rfl, rfl, rfl⟩
    id (fun _ => rfl) { e.parenStyle with omitDelimFlat := true, omitDelimEmpty := true } hp.2.2.1 hp.1 hp.2.1
    (importOrder e.cfg nodes) hall' (fun x hx => importItemOK_nohash (hall' x hx))
  rw [specAllL_importOrder e.cfg nodes hall hord] at this
  exact this

theorem specAllL_flattenItems (l : List ANode)
    (h : ∀ c ∈ l, c.kind = .importItems → specAll c = specAllL c.children) :
    specAllL (l.flatMap fun c => if c.kind == .importItems then c.children else [c]) = specAllL l := by
  induction l with
  | nil => rfl
  | cons c cs ih =>
    rw [List.flatMap_cons, specAllL_append, ih (fun x hx => h x (List.mem_cons_of_mem _ hx)), specAllL_cons]
    congr 1
    split
    · rename_i hk
      rw [h c List.mem_cons_self (by simpa using hk)]
    · simp [specAllL_cons]

theorem importPrefixProducer_ok (e : Env) (r : Rec) (hr : RecOK r Q) :
    ProducerS (importPrefixProducer e r) specAll (ChildOK Q) := by
  intro st c child hnm hok
  unfold importPrefixProducer
  split
  · rename_i hk
    exact Post.bind (synLeaf_carries e child ":" hok.1 (by rw [hk]; decide)) (fun d hd => Post.pure hd)
  · rename_i hk
    exact Post.bind (synLeaf_carries e child "*" hok.1 (by rw [hk]; decide)) (fun d hd => Post.pure hd)
  · split
    · rename_i hk
      have hk' : child.kind = .ident := by simpa using hk
      refine Post.pure ?_
      show Carries (e.lit child.text) (specAll child)
      rw [specAll_ident_node child hok.1 hk']; exact Carries.mkText e.wd .lit child.text
    · split
      · rename_i hx
        exact Post.bind (hr.expr c child hnm hx hok.2) (fun d hd => Post.pure hd)
      · split
        · rename_i hk
          exact Post.pure (specAll_space child hok.1 (by simpa using hk))
        · exact Post.rejected _

/-- **`convert_import`** (items already in order, or not sorted): the statement carries exactly what
it prescribes. -/
theorem convImport_carries (e : Env) (r : Rec) (hr : RecOK r Q) (hI : ImpQ Q) (ctx : Ctx) (hnm : NM ctx)
    (cs : List ANode) (a : Attrs) (hda : a.disabled = false)
    (hlex : ANode.tokensAreLeavesL cs = true) (hq : ∀ c ∈ cs, Q c)
    (hflat : ∀ c ∈ cs, c.kind = .importItems → specAll c = specAllL c.children)
    (hitems : ∀ x ∈ importFlattened cs, importItemOK Q x)
    (hord : sortedB importSortKey ((importFlattened cs).filter isImportItem) = true ∨ importSortable (importFlattened cs) = false) :
    Post (convImport e r ctx (.inner .moduleImport cs a)) (fun d => Carries d (specAll (.inner .moduleImport cs a))) := by
  have hv : isVerbatimNode .moduleImport cs a = false := by simp [isVerbatimNode, hda]
  rw [specAll_inner .moduleImport cs a hv (by decide)]
  -- the general statement, for any split point and any way of dropping the space before the items
  have key : ∀ (div : Nat) (prefixPart : List ANode),
      (prefixPart = cs.take div ∨ ∃ sp, cs.take div = prefixPart ++ [sp] ∧ sp.kind = .space) →
      (∀ x ∈ (cs.drop div).flatMap (fun c => if c.kind == .importItems then c.children else [c]), importItemOK Q x) →
      (sortedB importSortKey (((cs.drop div).flatMap (fun c => if c.kind == .importItems then c.children else [c])).filter isImportItem) = true ∨
        importSortable ((cs.drop div).flatMap (fun c => if c.kind == .importItems then c.children else [c])) = false) →
      Post (do
        let prefixDoc ← flowM e ctx prefixPart () (importPrefixProducer e r)
        if (cs.drop div).isEmpty then pure prefixDoc else
        if ((cs.drop div).flatMap fun c => if c.kind == .importItems then c.children else [c]).isEmpty then pure prefixDoc else do
          let itemsDoc ← convImportItems e ctx ((cs.drop div).flatMap fun c => if c.kind == .importItems then c.children else [c])
          pure ((prefixDoc ++ (if (prefixPart.getLast?.map (·.kind == .lineComment)).getD false then Twin.hardline else Twin.space)) ++ itemsDoc))
        (fun d => Carries d (specAllL cs)) := by
    intro div prefixPart hpre hit hso
    have hsplit : specAllL cs = (specAllL prefixPart).app (specAllL (cs.drop div)) := by
      conv => lhs; rw [← List.take_append_drop div cs]
      rw [specAllL_append]
      rcases hpre with h | ⟨sp, h, hk⟩
      · rw [h]
      · rw [h, specAllL_append, specAllL_cons, specAllL_nil]
        have hsp : sp ∈ cs := List.mem_of_mem_take (by rw [h]; simp)
        rw [specAll_space sp (tokensAreLeavesL_mem hlex hsp) hk]
        simp
    have hpm : ∀ c ∈ prefixPart, c ∈ cs := by
      intro c hc
      rcases hpre with h | ⟨sp, h, _⟩
      · rw [h] at hc; exact List.mem_of_mem_take hc
      · exact List.mem_of_mem_take (by rw [h]; exact List.mem_append_left _ hc)
    have hlexp : ANode.tokensAreLeavesL prefixPart = true :=
      lexL_of_mem (fun c hc => tokensAreLeavesL_mem hlex (hpm c hc))
    have hflow := flowM_carries (commentOK e) (importPrefixProducer_ok e r hr) (fun c hok hk => specAll_space c hok.1 hk)
      hnm prefixPart (fun c hc => ⟨tokensAreLeavesL_mem hlex (hpm c hc), hq c (hpm c hc)⟩) ()
    rw [contribL_specAll _ hlexp] at hflow
    refine Post.bind hflow (fun pd hpd => ?_)
    have hfl := specAllL_flattenItems (cs.drop div) (fun c hc hk => hflat c (List.mem_of_mem_drop hc) hk)
    split
    · rename_i he
      have : cs.drop div = [] := by simpa using he
      rw [hsplit, this]
      exact Post.pure (by simpa using hpd)
    · split
      · rename_i he
        have : ((cs.drop div).flatMap fun c => if c.kind == .importItems then c.children else [c]) = [] := by simpa using he
        rw [hsplit, ← hfl, this]
        exact Post.pure (by simpa using hpd)
      · refine Post.bind (convImportItems_carries e hI ctx hnm _ hit hso) (fun idoc hid => Post.pure ?_)
        rw [hsplit, ← hfl]
        have hsep : Carries (if (prefixPart.getLast?.map (·.kind == .lineComment)).getD false then Twin.hardline else Twin.space) {} := by
          split
          · exact Carries.hardline
          · exact Carries.space
        simpa using (hpd.app hsep).app hid
  unfold convImport
  simp only [show (ANode.inner Kind.moduleImport cs a).children = cs from rfl]
  unfold importFlattened at hitems hord
  simp only at hitems hord
  refine key _ _ ?_ hitems hord
  split
  · rename_i hc
    simp only [Bool.and_eq_true, decide_eq_true_eq] at hc
    obtain ⟨hpos, hsp⟩ := hc
    generalize (List.findIdx? (fun c => c.kind == Kind.leftParen || c.kind == Kind.importItems) cs).getD cs.length = div at hpos hsp ⊢
    obtain ⟨i, rfl⟩ : ∃ i, div = i + 1 := ⟨div - 1, by omega⟩
    simp only [Nat.add_sub_cancel] at hsp ⊢
    cases hi : cs[i]? with
    | none => simp [hi] at hsp
    | some sp =>
      simp only [hi, Option.map_some, Option.getD_some, beq_iff_eq] at hsp
      exact Or.inr ⟨sp, by rw [List.take_succ, hi]; rfl, hsp⟩
  · exact Or.inl rfl

end Typstyle

namespace Typstyle
open Twin
variable {Q : ANode → Prop}

/-! ### the general statement: the items are printed in the order of `importOrder` -/

/-- The items as they are printed: stably sorted by key when reordering is on and the list is sortable,
in source order otherwise (separators and parentheses prescribe nothing). -/
def importPrinted (cfg : PConfig) (nodes : List ANode) : List ANode :=
  if cfg.reorder && importSortable nodes then stableSort importSortKey (nodes.filter isImportItem) else nodes

theorem specAllL_importOrder_general (cfg : PConfig) (nodes : List ANode) (hall : ∀ x ∈ nodes, importItemOK Q x) :
    specAllL (importOrder cfg nodes) = specAllL (importPrinted cfg nodes) := by
  unfold importOrder importPrinted
  split
  · rename_i hc
    simp only [Bool.and_eq_true] at hc
    have hnc : ∀ x ∈ nodes, isImportItem x = false → specAll x = {} := by
      intro x hx hni
      have hsortable := hc.2
      unfold importSortable at hsortable
      simp only [Bool.and_eq_true, List.all_eq_true, Bool.not_eq_true'] at hsortable
      rcases (hall x hx).2.2 with h | h | h
      · rw [h] at hni; cases hni
      · rw [hsortable.1 x hx] at h; cases h
      · exact specAll_ignorable x (hall x hx).1 h
    have h1 := foldl_filter_sem specAll isImportItem (stableSort importSortKey nodes)
      (fun x hx hni => hnc x ((mem_stableSort _ _ _).mp hx) hni) {}
    rw [foldl_specAll, foldl_specAll, Streams.empty_app, Streams.empty_app] at h1
    rw [h1, filter_stableSort]
  · rfl

theorem convImportItems_carries_general (e : Env) (hI : ImpQ Q) (ctx : Ctx) (hnm : NM ctx) (nodes : List ANode)
    (hall : ∀ x ∈ nodes, importItemOK Q x) :
    Post (convImportItems e ctx nodes) (fun d => Carries d (specAllL (importPrinted e.cfg nodes))) := by
  unfold convImportItems
  have hp := soft_paren e
  have hall' : ∀ x ∈ importOrder e.cfg nodes, importItemOK Q x := by
    intro x hx
    unfold importOrder at hx
    split at hx
    · exact hall x ((mem_stableSort _ _ _).mp hx)
    · exact hall x hx
  have := list_construct_carries e ctx (importItem e) (importItemOK Q) (importItem_ok e hI) hnm ({} : LS) ⟨rfl, rfl, rfl⟩
    id (fun _ => rfl) { e.parenStyle with omitDelimFlat := true, omitDelimEmpty := true } hp.2.2.1 hp.1 hp.2.1
    (importOrder e.cfg nodes) hall' (fun x hx => importItemOK_nohash (hall' x hx))
  rw [specAllL_importOrder_general e.cfg nodes hall] at this
  exact this

/-- The part of an import statement before its items. -/
def importPrefix (nodes : List ANode) : List ANode :=
  nodes.take ((nodes.findIdx? fun c => c.kind == .leftParen || c.kind == .importItems).getD nodes.length)

/-- **`convert_import`, every configuration**: the statement is printed as its prefix followed by its
items in the order of `importOrder` — sorted when reordering is on and the list is sortable, untouched
otherwise.  Nothing is lost, duplicated or changed; only whole items move. -/
theorem convImport_carries_general (e : Env) (r : Rec) (hr : RecOK r Q) (hI : ImpQ Q) (ctx : Ctx) (hnm : NM ctx)
    (cs : List ANode) (a : Attrs)
    (hlex : ANode.tokensAreLeavesL cs = true) (hq : ∀ c ∈ cs, Q c)
    (hitems : ∀ x ∈ importFlattened cs, importItemOK Q x) :
    Post (convImport e r ctx (.inner .moduleImport cs a))
      (fun d => Carries d ((specAllL (importPrefix cs)).app (specAllL (importPrinted e.cfg (importFlattened cs))))) := by
  have key : ∀ (div : Nat) (prefixPart : List ANode),
      (prefixPart = cs.take div ∨ ∃ sp, cs.take div = prefixPart ++ [sp] ∧ sp.kind = .space) →
      (∀ x ∈ (cs.drop div).flatMap (fun c => if c.kind == .importItems then c.children else [c]), importItemOK Q x) →
      Post (do
        let prefixDoc ← flowM e ctx prefixPart () (importPrefixProducer e r)
        if (cs.drop div).isEmpty then pure prefixDoc else
        if ((cs.drop div).flatMap fun c => if c.kind == .importItems then c.children else [c]).isEmpty then pure prefixDoc else do
          let itemsDoc ← convImportItems e ctx ((cs.drop div).flatMap fun c => if c.kind == .importItems then c.children else [c])
          pure ((prefixDoc ++ (if (prefixPart.getLast?.map (·.kind == .lineComment)).getD false then Twin.hardline else Twin.space)) ++ itemsDoc))
        (fun d => Carries d ((specAllL (cs.take div)).app
          (specAllL (importPrinted e.cfg ((cs.drop div).flatMap fun c => if c.kind == .importItems then c.children else [c]))))) := by
    intro div prefixPart hpre hit
    have hpreS : specAllL (cs.take div) = specAllL prefixPart := by
      rcases hpre with h | ⟨sp, h, hk⟩
      · rw [h]
      · rw [h, specAllL_append, specAllL_cons, specAllL_nil]
        have hsp : sp ∈ cs := List.mem_of_mem_take (by rw [h]; simp)
        rw [specAll_space sp (tokensAreLeavesL_mem hlex hsp) hk]
        simp
    have hpm : ∀ c ∈ prefixPart, c ∈ cs := by
      intro c hc
      rcases hpre with h | ⟨sp, h, _⟩
      · rw [h] at hc; exact List.mem_of_mem_take hc
      · exact List.mem_of_mem_take (by rw [h]; exact List.mem_append_left _ hc)
    have hlexp : ANode.tokensAreLeavesL prefixPart = true :=
      lexL_of_mem (fun c hc => tokensAreLeavesL_mem hlex (hpm c hc))
    have hflow := flowM_carries (commentOK e) (importPrefixProducer_ok e r hr) (fun c hok hk => specAll_space c hok.1 hk)
      hnm prefixPart (fun c hc => ⟨tokensAreLeavesL_mem hlex (hpm c hc), hq c (hpm c hc)⟩) ()
    rw [contribL_specAll _ hlexp] at hflow
    refine Post.bind hflow (fun pd hpd => ?_)
    rw [hpreS]
    split
    · rename_i he
      have : cs.drop div = [] := by simpa using he
      rw [this]
      exact Post.pure (by simpa [importPrinted, stableSort] using hpd)
    · split
      · rename_i he
        have : ((cs.drop div).flatMap fun c => if c.kind == .importItems then c.children else [c]) = [] := by simpa using he
        rw [this]
        exact Post.pure (by simpa [importPrinted, stableSort] using hpd)
      · refine Post.bind (convImportItems_carries_general e hI ctx hnm _ hit) (fun idoc hid => Post.pure ?_)
        have hsep : Carries (if (prefixPart.getLast?.map (·.kind == .lineComment)).getD false then Twin.hardline else Twin.space) {} := by
          split
          · exact Carries.hardline
          · exact Carries.space
        simpa using (hpd.app hsep).app hid
  unfold convImport
  simp only [show (ANode.inner Kind.moduleImport cs a).children = cs from rfl]
  unfold importFlattened at hitems ⊢
  unfold importPrefix
  simp only at hitems ⊢
  refine key _ _ ?_ hitems
  split
  · rename_i hc
    simp only [Bool.and_eq_true, decide_eq_true_eq] at hc
    obtain ⟨hpos, hsp⟩ := hc
    generalize (List.findIdx? (fun c => c.kind == Kind.leftParen || c.kind == Kind.importItems) cs).getD cs.length = div at hpos hsp ⊢
    obtain ⟨i, rfl⟩ : ∃ i, div = i + 1 := ⟨div - 1, by omega⟩
    simp only [Nat.add_sub_cancel] at hsp ⊢
    cases hi : cs[i]? with
    | none => simp [hi] at hsp
    | some sp =>
      simp only [hi, Option.map_some, Option.getD_some, beq_iff_eq] at hsp
      exact Or.inr ⟨sp, by rw [List.take_succ, hi]; rfl, hsp⟩
  · exact Or.inl rfl

end Typstyle
