import TypstyleModel.Model.Cert
import TypstyleModel.Proofs.Lay
/-! Soundness of the `lcSafe` certificate (C04/C06 route V): if `lcSafe d`, then at no width does
the renderer put non-blank text after an open line comment on the same line. -/
namespace Pretty

theorem run_append (o : Bool) (xs ys : List Atom) :
    run o (xs ++ ys) = (run o xs).bind (fun o' => run o' ys) := by
  induction xs generalizing o with
  | nil => simp [run]
  | cons x xs ih =>
    cases x with
    | nl k => simp [run, ih]
    | txt s t =>
      simp only [List.cons_append, run]
      split
      · exact ih o
      · split
        · simp
        · exact ih _

theorem summ_sound {m : Mode} {d : Doc} {xs : List Atom} (h : Lay m d xs) :
    ∀ o, ((summ m d) o).has (run o xs) = true := by
  induction h with
  | nil => intro o; cases o <;> simp [summ, run, Out.has]
  | @text m s len t =>
    intro o
    simp only [summ, run]
    split
    · cases o <;> simp [run, Out.has]
    · cases o
      · simp only [Bool.false_eq_true, if_false, run]
        split <;> simp_all [Out.has]
      · simp [Out.has]
  | hardline => intro o; simp [summ, run, Out.has]
  | @append m a b xs ys _ _ iha ihb =>
    intro o
    rw [run_append]
    have h1 := iha o
    simp only [summ, Summ.seq]
    cases hr : run o xs with
    | none => rw [hr] at h1; simp_all [Out.has]
    | some o' =>
      rw [hr] at h1
      have h2 := ihb o'
      cases o' with
      | false =>
        cases hr2 : run false ys with
        | none => rw [hr2] at h2; simp_all [Out.has, Out.empty]
        | some v => rw [hr2] at h2; cases v <;> simp_all [Out.has, Out.empty]
      | true =>
        cases hr2 : run true ys with
        | none => rw [hr2] at h2; simp_all [Out.has, Out.empty]
        | some v => rw [hr2] at h2; cases v <;> simp_all [Out.has, Out.empty]
  | @groupSame m d xs _ ih =>
    intro o
    cases m
    · have := ih o
      simp only [summ, Out.union]
      cases hr : run o xs with
      | none => simp_all [Out.has]
      | some v => cases v <;> simp_all [Out.has]
    · simpa [summ] using ih o
  | groupFlat _ ih =>
    intro o
    have := ih o
    simp only [summ, Out.union]
    rename_i xs _
    cases hr : run o xs with
    | none => simp_all [Out.has]
    | some v => cases v <;> simp_all [Out.has]
  | flatAltB _ ih => intro o; simpa [summ] using ih o
  | flatAltF _ ih => intro o; simpa [summ] using ih o
  | @nest m n d xs _ ih => intro o; cases m <;> simpa [summ] using ih o
  | @align m d xs _ ih => intro o; cases m <;> simpa [summ] using ih o

theorem lcSafe_sound (d : Doc) (h : lcSafe d = true) (w : Nat) :
    run false (best w 0 [⟨0, .brk, d⟩]) ≠ none := by
  have := summ_sound (pretty_lay w d) false
  intro hn
  rw [hn] at this
  simp [lcSafe, Out.has] at h this
  simp_all


end Pretty
