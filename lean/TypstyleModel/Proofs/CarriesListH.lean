import TypstyleModel.Proofs.CarriesLists
/-! The list stylist with `#` among the children (rows of math arguments: `mat(#a, b; c, d)`): a `#`
sets `peek_hash`, the next child must be an item, is converted in code mode and gets the `#` in front. -/
namespace Typstyle
open Twin

theorem Post.and {α : Type} {x : M α} {P R : α → Prop} (h1 : Post x P) (h2 : Post x R) : Post x (fun a => P a ∧ R a) :=
  fun k a k' hr => ⟨h1 k a k' hr, h2 k a k' hr⟩

/-- `add_item` while a `#` is pending. -/
theorem LInv.addItemH (e : Env) {s : LS} {sp sb : Streams} (hph : s.peekHash = true)
    (h : LInv { s with peekHash := false } sp) (body : Doc) (hb : Carries body sb) :
    LInv ({ (s.addItem e body) with peekHash := false }) ((sp.app (tagS .syn "#")).app sb) := by
  have hsyn : Carries (e.syn "#") (tagS .syn "#") := Carries.mkText e.wd .syn "#"
  have hig : itemsGood s.items = true := h.ig
  have hfg : docsGood s.free = true := h.fg
  have heq : (itemsS s.items).app (docsS s.free) = sp := h.eq
  by_cases hdf : s.disallowFront = true
  · have := LInv.mkItem (sp := sp) (sq := (tagS .syn "#").app sb) (s.items ++ s.free.map LItem.comment) ((Doc.nil ++ e.syn "#") ++ body)
      ({ (s.addItem e body) with peekHash := false })
      (by rw [itemsGood_append, itemsGood_comments, hig, hfg]; rfl)
      (by rw [itemsS_append, itemsS_comments]; exact heq)
      (by simpa using (Carries.nil.app hsyn).app hb)
      (by simp [LS.addItem, hdf, hph, LS.detach]) (by simp [LS.addItem, hdf, hph, LS.detach]) rfl
    simpa [Streams.app_assoc] using this
  · by_cases hfe : s.free.isEmpty = true
    · have hfe' : s.free = [] := by simpa using hfe
      have := LInv.mkItem (sp := sp) (sq := (tagS .syn "#").app sb) s.items ((Doc.nil ++ e.syn "#") ++ body)
        ({ (s.addItem e body) with peekHash := false }) hig
        (by have := heq; rw [hfe'] at this; simpa [docsS] using this)
        (by simpa using (Carries.nil.app hsyn).app hb)
        (by simp [LS.addItem, hdf, hfe, hph]) (by simp [LS.addItem, hdf, hph, hfe']) rfl
      simpa [Streams.app_assoc] using this
    · cases hdd : s.disallowDetach
      · have hdoc : Carries ((intersperse s.free Twin.line ++ Twin.line).grp) (docsS s.free) := by
          simpa using ((intersperse_carries s.free _ Carries.line hfg).app Carries.line).grp
        have := LInv.mkItem s.items (((intersperse s.free Twin.line ++ Twin.line).grp ++ e.syn "#") ++ body)
          ({ (s.addItem e body) with peekHash := false }) hig rfl (by simpa [Streams.app_assoc] using (hdoc.app hsyn).app hb)
          (by simp [LS.addItem, hdf, hfe, hph, hdd]) (by simp [LS.addItem, hdf, hfe, hph, hdd]) rfl
        rw [← heq]
        simpa [Streams.app_assoc] using this
      · have hdoc : Carries (intersperse s.free Twin.space ++ Twin.space) (docsS s.free) := by
          simpa using (intersperse_carries s.free _ Carries.space hfg).app Carries.space
        have := LInv.mkItem s.items (((intersperse s.free Twin.space ++ Twin.space) ++ e.syn "#") ++ body)
          ({ (s.addItem e body) with peekHash := false }) hig rfl (by simpa [Streams.app_assoc] using (hdoc.app hsyn).app hb)
          (by simp [LS.addItem, hdf, hfe, hph, hdd]) (by simp [LS.addItem, hdf, hfe, hph, hdd]) rfl
        rw [← heq]
        simpa [Streams.app_assoc] using this

/-- The invariant with a possibly pending `#`. -/
def HInv (s : LS) (sp : Streams) : Prop :=
  ∃ sp0, LInv { s with peekHash := false } sp0 ∧ sp = sp0.app (if s.peekHash then tagS .syn "#" else {})

theorem HInv.ofL {s : LS} {sp : Streams} (h : LInv s sp) : HInv s sp := by
  refine ⟨sp, LInv.withItems h _ rfl rfl rfl, ?_⟩
  rw [h.nh]; simp

theorem HInv.toL {s : LS} {sp : Streams} (h : HInv s sp) (hp : s.peekHash = false) : LInv s sp := by
  obtain ⟨sp0, h0, he⟩ := h
  rw [hp] at he
  simp only [Bool.false_eq_true, ↓reduceIte, Streams.app_empty] at he
  rw [he]
  exact LInv.withItems h0 s rfl rfl hp

/-- Contract of a checker whose obligations depend on the context it is called in. -/
def CheckerH (checker : Ctx → ANode → M (Option Doc)) (sem : ANode → Streams) (okc : Ctx → ANode → Prop) : Prop :=
  ∀ c x, okc c x → Post (checker c x) fun r =>
    match r with
    | some body => Carries body (sem x)
    | none => sem x = triviaS x

/-- What the children must satisfy: a `#` only when none is pending; the child after a `#` is an item. -/
def HSeq (okc : Ctx → ANode → Prop) (acc : ANode → Prop) (ctx : Ctx) : Bool → List ANode → Prop
  | p, [] => p = false
  | p, x :: xs =>
    (if x.kind = .hash then p = false ∧ ANode.tokensAreLeaves x = true
     else okc (ctx.withModeIf .code p) x ∧ (p = true → acc x)) ∧
    HSeq okc acc ctx (decide (x.kind = .hash)) xs

theorem HInv.stepM (e : Env) (ctx : Ctx) (checker : Ctx → ANode → M (Option Doc)) {sem : ANode → Streams}
    {okc : Ctx → ANode → Prop} {acc : ANode → Prop}
    (hc : CheckerH checker sem okc) (hrej : ∀ c x, x.kind = .hash → checker c x = pure none)
    (hacc : ∀ c x, acc x → Post (checker c x) (fun r => r.isSome = true))
    (hsemh : ∀ x, ANode.tokensAreLeaves x = true → x.kind = .hash → sem x = tagS .syn "#")
    {s : LS} {sp : Streams} (h : HInv s sp) (x : ANode)
    (hx : if x.kind = .hash then s.peekHash = false ∧ ANode.tokensAreLeaves x = true
          else okc (ctx.withModeIf .code s.peekHash) x ∧ (s.peekHash = true → acc x)) :
    Post (LS.stepM e ctx checker s x) (fun s' => HInv s' (sp.app (sem x)) ∧ s'.peekHash = decide (x.kind = .hash)) := by
  unfold LS.stepM
  dsimp only
  by_cases hk : x.kind = .hash
  · -- a `#`: remembered
    simp only [hk, ↓reduceIte] at hx
    rw [hrej _ x hk]
    simp only [pure_bind]
    unfold LS.trivia
    have h1 : isCommentKind x.kind = false := by rw [hk]; rfl
    have h2 : (x.kind == .comma) = false := by rw [hk]; rfl
    have h3 : (x.kind == .space) = false := by rw [hk]; rfl
    have h4 : (x.kind == .hash) = true := by rw [hk]; rfl
    simp only [h1, Bool.false_eq_true, ↓reduceIte, h2, h3, h4]
    refine Post.pure ⟨?_, by simp [hk]⟩
    have hl := h.toL hx.1
    refine ⟨sp, LInv.withItems hl _ rfl rfl rfl, ?_⟩
    rw [hsemh x hx.2 hk]
    simp
  · simp only [hk, ↓reduceIte] at hx
    have hkd : decide (x.kind = .hash) = false := by simpa using hk
    cases hp : s.peekHash with
    | false =>
      rw [hp] at hx
      have hl := h.toL hp
      refine Post.bind (hc _ x hx.1) (fun r hr => ?_)
      cases r with
      | some body =>
        simp only at hr
        refine Post.pure ⟨HInv.ofL ?_, by simp [hkd]⟩
        have := hl.addItem e body hr
        exact LInv.withItems this _ rfl rfl rfl
      | none =>
        simp only at hr
        rw [hr]
        refine Post.mono (LInv.trivia e (LInv.withItems hl ({ s with peekHash := false } : LS) rfl rfl rfl) x hk) ?_
        intro s' hs'
        exact ⟨HInv.ofL hs', by rw [hs'.nh, hkd]⟩
    | true =>
      rw [hp] at hx
      obtain ⟨sp0, h0, he⟩ := h
      rw [hp] at he
      simp only [↓reduceIte] at he
      refine Post.bind (Post.and (hc _ x hx.1) (hacc _ x (hx.2 rfl))) (fun r hr => ?_)
      cases r with
      | none => simp at hr
      | some body =>
        simp only at hr
        refine Post.pure ⟨HInv.ofL ?_, by simp [hkd]⟩
        have := LInv.addItemH e hp h0 body hr.1
        rw [he]
        exact this

/-- **`ListStylist::process` with `#` among the children.** -/
theorem processM_carriesH (e : Env) (ctx : Ctx) (checker : Ctx → ANode → M (Option Doc)) {sem : ANode → Streams}
    {okc : Ctx → ANode → Prop} {acc : ANode → Prop}
    (hc : CheckerH checker sem okc) (hrej : ∀ c x, x.kind = .hash → checker c x = pure none)
    (hacc : ∀ c x, acc x → Post (checker c x) (fun r => r.isSome = true))
    (hsemh : ∀ x, ANode.tokensAreLeaves x = true → x.kind = .hash → sem x = tagS .syn "#")
    (s0 : LS) (h0 : LInv s0 {}) (nodes : List ANode) (hseq : HSeq okc acc ctx false nodes) :
    Post (s0.processM e ctx nodes checker) (fun s => LInv s (nodes.foldl (fun acc x => acc.app (sem x)) {}) ∧ s.free = []) := by
  unfold LS.processM
  have key : ∀ (l : List ANode) (s : LS) (sp : Streams), HInv s sp → HSeq okc acc ctx s.peekHash l →
      Post (l.foldlM (LS.stepM e ctx checker) s) (fun s' => HInv s' (l.foldl (fun acc x => acc.app (sem x)) sp) ∧ s'.peekHash = false) := by
    intro l
    induction l with
    | nil => intro s sp hi hs; exact Post.pure ⟨hi, hs⟩
    | cons x xs ih =>
      intro s sp hi hs
      simp only [HSeq] at hs
      simp only [List.foldlM_cons, List.foldl_cons]
      refine Post.bind (HInv.stepM e ctx checker hc hrej hacc hsemh hi x hs.1) (fun s' hs' => ?_)
      exact ih s' _ hs'.1 (by rw [hs'.2]; exact hs.2)
  have h0' : HSeq okc acc ctx s0.peekHash nodes := by rw [h0.nh]; exact hseq
  refine Post.bind (key nodes s0 {} (HInv.ofL h0) h0') (fun s hs => Post.pure ?_)
  exact (hs.1.toL hs.2).windup

/-- The generic list construct with `#` among the children. -/
theorem list_construct_carriesH (e : Env) (ctx : Ctx) (checker : Ctx → ANode → M (Option Doc))
    {okc : Ctx → ANode → Prop} {acc : ANode → Prop}
    (hc : CheckerH checker specAll okc) (hrej : ∀ c x, x.kind = .hash → checker c x = pure none)
    (hacc : ∀ c x, acc x → Post (checker c x) (fun r => r.isSome = true))
    (hsemh : ∀ x, ANode.tokensAreLeaves x = true → x.kind = .hash → specAll x = tagS .syn "#")
    (s0 : LS) (h0 : s0.items = [] ∧ s0.free = [] ∧ s0.peekHash = false)
    (post : LS → LS) (hpost : ∀ s, (post s).items = s.items)
    (sty : ListStyle) (hsep : Carries sty.sep {}) (hd0 : Carries sty.d0 {}) (hd1 : Carries sty.d1 {})
    (nodes : List ANode) (hseq : HSeq okc acc ctx false nodes) :
    Post (do let ls ← s0.processM e ctx nodes checker; pure ((post ls).print e sty)) (fun d => Carries d (specAllL nodes)) := by
  have hinv : LInv s0 {} := ⟨by rw [h0.1]; rfl, by rw [h0.2.1]; rfl, by rw [h0.1, h0.2.1]; rfl, h0.2.2⟩
  refine Post.bind (processM_carriesH e ctx checker hc hrej hacc hsemh s0 hinv nodes hseq) (fun ls hls => Post.pure ?_)
  have heq := hls.1.eq
  rw [hls.2] at heq
  simp only [docsS, Streams.app_empty, foldl_specAll, Streams.empty_app] at heq
  rw [← heq, ← hpost ls]
  exact print_carries e (post ls) sty hsep hd0 hd1 (by rw [hpost]; exact hls.1.ig)

end Typstyle
