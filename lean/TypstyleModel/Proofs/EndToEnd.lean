import TypstyleModel.Proofs.Tokens
import TypstyleModel.Proofs.Strip
/-! From the atoms of a layout to the characters of the output text: rendering and the post-pass
only add and remove blanks, so the kept characters of the output text are those of the atoms. -/
namespace Typstyle
open Pretty

/-- White space characters are exactly those a blank-insensitive comparison ignores; the three the
renderer and the post-pass handle: -/
theorem isWs_nl : isWs '\n' = true := by decide
theorem isWs_cr : isWs '\r' = true := by decide
theorem isWs_sp : isWs ' ' = true := by decide

abbrev nonWs (c : Char) : Bool := !isWs c

theorem splitNl_filter (f : Char → Bool) (hf : f '\n' = false) (s : List Char) :
    (splitNl s).flatMap (fun p => p.1.filter f) = s.filter f := by
  induction s with
  | nil => simp [splitNl]
  | cons c cs ih =>
    unfold splitNl
    split
    · rename_i hc
      subst hc
      simp [hf, ih]
    · split
      · rename_i hnil
        rw [hnil] at ih
        simp only [List.flatMap_nil] at ih
        simp [List.filter_cons, ← ih]
      · rename_i l t rest hcons
        rw [hcons] at ih
        simp only [List.flatMap_cons] at ih ⊢
        simp only [List.filter_cons]
        split
        · simp [ih]
        · exact ih

theorem dropLastCr_filter (f : Char → Bool) (hf : f '\r' = false) (l : List Char) :
    (dropLastCr l).filter f = l.filter f := by
  unfold dropLastCr
  split
  · rename_i r hr
    have : l = r.reverse ++ ['\r'] := by
      have := congrArg List.reverse hr
      simpa using this
    rw [this]
    simp [hf]
  · rfl

theorem linesL_filter (f : Char → Bool) (hn : f '\n' = false) (hr : f '\r' = false) (s : List Char) :
    (linesL s).flatMap (fun l => l.filter f) = s.filter f := by
  rw [← splitNl_filter f hn s]
  unfold linesL
  rw [List.flatMap_map]
  congr 1
  funext p
  obtain ⟨l, t⟩ := p
  cases t <;> simp [dropLastCr_filter f hr]

/-- The post-pass keeps every character that is not white space, in order (whole text). -/
theorem stripL_filter (s : List Char) : (stripL s).filter nonWs = s.filter nonWs := by
  unfold stripL
  split
  · rename_i h
    subst h
    simp [nonWs, isWs_nl]
  · rw [List.filter_flatMap]
    rw [← linesL_filter nonWs (by simp [nonWs, isWs_nl]) (by simp [nonWs, isWs_cr]) s]
    congr 1
    funext l
    simp [List.filter_append, nonWs, isWs_nl, trimEndL_filter]

theorem replicate_space_filter (n : Nat) : (List.replicate n ' ').filter nonWs = [] := by
  induction n with
  | zero => rfl
  | succ n ih => simp [List.replicate_succ, nonWs, isWs_sp, ih]

/-- Non-blank characters of all atoms of a layout, in order. -/
def allNonWs (xs : List Atom) : List Char :=
  xs.flatMap fun a => match a with
    | .txt s _ => s.toList.filter nonWs
    | .nl _ => []

/-- Rendering a layout adds only line feeds and blanks. -/
theorem renderAtoms_filter (xs : List Atom) : (renderAtoms xs).toList.filter nonWs = allNonWs xs := by
  unfold renderAtoms allNonWs
  rw [String.toList_join, List.flatMap_map, List.filter_flatMap]
  congr 1
  funext a
  cases a with
  | txt s t => simp [Atom.render]
  | nl n => simp [Atom.render, String.toList_append, List.filter_append, replicate_space_filter, nonWs, isWs_nl]

/-- Kept characters = non-blank characters without the delimiter/separator characters. -/
theorem filter_keepChar (l : List Char) : l.filter keepChar = (l.filter nonWs).filter (fun c => !isDelimChar c) := by
  rw [List.filter_filter]
  congr 1
  funext c
  simp [keepChar, nonWs, Bool.and_comm]

/-- Kept characters of all atoms of a layout. -/
def allKeep (xs : List Atom) : List Char :=
  xs.flatMap fun a => match a with
    | .txt s _ => s.toList.filter keepChar
    | .nl _ => []

theorem allKeep_eq (xs : List Atom) : allKeep xs = (allNonWs xs).filter (fun c => !isDelimChar c) := by
  unfold allKeep allNonWs
  rw [List.filter_flatMap]
  congr 1
  funext a
  cases a with
  | txt s t => exact filter_keepChar _
  | nl n => rfl

/-- **The output text**: the kept characters of the formatted text (rendered at any width, then
stripped) are the kept characters of the atoms of the layout. -/
theorem output_keep (w : Nat) (d : Doc) :
    (strip (pretty w d)).toList.filter keepChar = allKeep (best w 0 [⟨0, .brk, d⟩]) := by
  unfold strip pretty
  rw [String.toList_ofList, filter_keepChar, stripL_filter, renderAtoms_filter, allKeep_eq]

/-- Without comment text in the layout, all kept characters are code tokens. -/
theorem allKeep_eq_tokText (xs : List Atom) (h : cmtText xs = []) : allKeep xs = tokText xs := by
  induction xs with
  | nil => rfl
  | cons a xs ih =>
    have h' : atomChars .cmt a ++ cmtText xs = [] := by simpa [streamText] using h
    obtain ⟨ha, hx⟩ := List.append_eq_nil_iff.mp h'
    have ih' := ih hx
    simp only [allKeep, List.flatMap_cons] at ih' ⊢
    show _ ++ _ = streamText .tok (a :: xs)
    simp only [streamText, List.flatMap_cons]
    congr 1
    cases a with
    | nl n => rfl
    | txt s t =>
      simp only [atomChars, charsOf] at ha ⊢
      by_cases ht : t = .comment
      · simp only [ht, if_true] at ha ⊢
        rw [filter_keepChar]
        show List.filter _ (List.filter nonWs s.toList) = []
        have : List.filter nonWs s.toList = [] := ha
        rw [this]; rfl
      · simp [ht]

mutual
theorem specCmts_plain_node : ∀ t : ANode, t.noCommentNoVerbatim = true → specCmts t = ""
  | .leaf k t a, h => by
    simp only [ANode.noCommentNoVerbatim, Bool.not_eq_true'] at h
    simp [specCmts, h]
  | .inner k cs a, h => by
    simp only [ANode.noCommentNoVerbatim, Bool.and_eq_true, Bool.not_eq_true'] at h
    simp [specCmts, h.1, specCmts_plain_list cs h.2]
theorem specCmts_plain_list : ∀ ts : List ANode, ANode.noCommentNoVerbatimL ts = true → specCmtsL ts = ""
  | [], _ => by simp [specCmtsL]
  | c :: cs, h => by
    simp only [ANode.noCommentNoVerbatimL, Bool.and_eq_true] at h
    simp [specCmtsL, specCmts_plain_node c h.1, specCmts_plain_list cs h.2]
end

/-- **End to end, for a source without comments and `@typstyle off` regions**: if the printed
family is certified, the formatted *text* (rendered at any width and indent unit, then stripped) has
exactly the kept characters of the source text, in order: formatting changed nothing but blanks and
the characters `( ) { } , ; :`. -/
theorem output_text_keeps_source_text (root : Node) (d : Twin.Doc)
    (ht : tokensCertified root d = true) (hc : commentsCertified root d = true)
    (hplain : (prepare root).noCommentNoVerbatim = true) (hb : (prepare root).blankSpaces = true) (u w : Nat) :
    keepOf (strip (pretty w (d.fam u))) = keepOf (prepare root).intoText := by
  have h1 := output_keep w (d.fam u)
  have hcm : cmtText (best w 0 [⟨0, .brk, d.fam u⟩]) = [] := by
    rw [certified_comments_best root d hc u w, specCmts_plain_node _ hplain]; rfl
  rw [allKeep_eq_tokText _ hcm, certified_tokens_best root d ht u w, specToks_plain_node _ hplain hb] at h1
  unfold keepOf at h1 ⊢
  rw [h1, String.toList_ofList]

/-- The text of every atom of a layout occurs, as it is, in the rendered text. -/
theorem render_infix (xs : List Atom) (a : Atom) (h : a ∈ xs) :
    (Atom.render a).toList <:+: (renderAtoms xs).toList := by
  obtain ⟨l1, l2, rfl⟩ := List.append_of_mem h
  unfold renderAtoms
  rw [String.toList_join, List.flatMap_map]
  simp only [List.flatMap_append, List.flatMap_cons]
  exact ⟨List.flatMap (fun a => a.render.toList) l1, List.flatMap (fun a => a.render.toList) l2, by
    simp [List.append_assoc]⟩

end Typstyle
