import TypstyleModel.Proofs.Inf
/-! At a non-wrapping width, the texts and the line structure of the output depend only on the
*shape* of the document — not on any indentation amount.  This covers documents with `align`
(comments), for which the exact scaling theorem `bestInf_scale` does not apply. -/
namespace Pretty

/-- The document with every indentation amount erased. -/
def Doc.shape : Doc → Doc
  | .nest _ d => .nest 0 d.shape
  | .append a b => .append a.shape b.shape
  | .group d => .group d.shape
  | .flatAlt b f => .flatAlt b.shape f.shape
  | .align d => .align d.shape
  | d => d

def shapeCmd (c : Cmd) : Cmd := ⟨0, c.mode, c.doc.shape⟩

theorem pick_shape (m : Mode) (b f : Doc) : pick m b.shape f.shape = (pick m b f).shape := by
  cases m <;> rfl

theorem fittingInf_shape (fcmds : List Doc) (mode : Mode) (rest : List Cmd) :
    fittingInf (fcmds.map Doc.shape) mode (rest.map shapeCmd) = fittingInf fcmds mode rest := by
  fun_induction fittingInf fcmds mode rest <;>
    simp_all [fittingInf, Doc.shape, shapeCmd, pick_shape]

/-- An atom without its indentation. -/
def Atom.erase : Atom → Atom
  | .txt s t => .txt s t
  | .nl _ => .nl 0

/-! ### the indentation fields of pending commands do not influence texts and line structure -/
def zeroInd (c : Cmd) : Cmd := ⟨0, c.mode, c.doc⟩

theorem fittingInf_zeroInd (fcmds : List Doc) (mode : Mode) (rest : List Cmd) :
    fittingInf fcmds mode (rest.map zeroInd) = fittingInf fcmds mode rest := by
  fun_induction fittingInf fcmds mode rest <;> simp_all [fittingInf, zeroInd]

theorem zeroInd_cons_inv {cmds' : List Cmd} {c : Cmd} {rest : List Cmd}
    (h : cmds'.map zeroInd = (c :: rest).map zeroInd) :
    ∃ i' rest', cmds' = ⟨i', c.mode, c.doc⟩ :: rest' ∧ rest'.map zeroInd = rest.map zeroInd := by
  cases cmds' with
  | nil => simp at h
  | cons c' rest' =>
    simp only [List.map_cons, List.cons.injEq, zeroInd, Cmd.mk.injEq, true_and] at h
    obtain ⟨⟨hm, hd⟩, hr⟩ := h
    refine ⟨c'.ind, rest', ?_, hr⟩
    cases c'; simp_all

theorem bestInf_ind_irrelevant (pos pos' : Nat) (cmds cmds' : List Cmd)
    (h : cmds'.map zeroInd = cmds.map zeroInd) :
    (bestInf pos' cmds').map Atom.erase = (bestInf pos cmds).map Atom.erase := by
  fun_induction bestInf pos cmds generalizing pos' cmds' with
  | case1 =>
    cases cmds' with
    | nil => simp [bestInf]
    | cons _ _ => simp at h
  | case2 pos i m rest ih =>
    obtain ⟨i', rest', rfl, hr⟩ := zeroInd_cons_inv h
    simp only [bestInf]
    exact ih pos' rest' hr
  | case3 pos i m rest a b ih =>
    obtain ⟨i', rest', rfl, hr⟩ := zeroInd_cons_inv h
    simp only [bestInf]
    exact ih pos' _ (by simp [zeroInd, hr])
  | case4 pos i m rest b f ih =>
    obtain ⟨i', rest', rfl, hr⟩ := zeroInd_cons_inv h
    simp only [bestInf]
    exact ih pos' _ (by simp [zeroInd, hr])
  | case5 pos i m rest d m' ih =>
    obtain ⟨i', rest', rfl, hr⟩ := zeroInd_cons_inv h
    simp only [bestInf]
    have hf : fittingInf [d] .flat rest' = fittingInf [d] .flat rest := by
      rw [← fittingInf_zeroInd [d] .flat rest', hr, fittingInf_zeroInd]
    rw [hf]
    exact ih pos' _ (by simp [zeroInd, hr, m'])
  | case6 pos i m rest n d ih =>
    obtain ⟨i', rest', rfl, hr⟩ := zeroInd_cons_inv h
    simp only [bestInf]
    exact ih pos' _ (by simp [zeroInd, hr])
  | case7 pos i m rest d ih =>
    obtain ⟨i', rest', rfl, hr⟩ := zeroInd_cons_inv h
    simp only [bestInf]
    exact ih pos' _ (by simp [zeroInd, hr])
  | case8 pos i m =>
    obtain ⟨i', rest', rfl, hr⟩ := zeroInd_cons_inv h
    have : rest' = [] := by simpa using hr
    subst this
    simp [bestInf, Atom.erase]
  | case9 pos i m c rest0 ih =>
    obtain ⟨i', rest', rfl, hr⟩ := zeroInd_cons_inv h
    obtain ⟨j', rest'', rfl, hr'⟩ := zeroInd_cons_inv hr
    simp only [bestInf, List.map_cons, Atom.erase, List.cons.injEq, true_and]
    exact ih j' _ (by simp [zeroInd, hr'])
  | case10 pos i m rest s len t ih =>
    obtain ⟨i', rest', rfl, hr⟩ := zeroInd_cons_inv h
    simp only [bestInf, List.map_cons, Atom.erase, List.cons.injEq, true_and]
    exact ih (pos' + len) rest' hr

theorem bestInf_shape (pos pos' : Nat) (cmds : List Cmd) :
    (bestInf pos' (cmds.map shapeCmd)).map Atom.erase = (bestInf pos cmds).map Atom.erase := by
  fun_induction bestInf pos cmds generalizing pos' with
  | case1 => simp [bestInf]
  | case2 pos i m rest ih =>
    simp only [List.map_cons, shapeCmd, Doc.shape, bestInf]
    exact ih pos'
  | case3 pos i m rest a b ih =>
    simp only [List.map_cons, shapeCmd, Doc.shape, bestInf]
    simpa [shapeCmd] using ih pos'
  | case4 pos i m rest b f ih =>
    simp only [List.map_cons, shapeCmd, Doc.shape, bestInf, pick_shape]
    simpa [shapeCmd] using ih pos'
  | case5 pos i m rest d m' ih =>
    simp only [List.map_cons, shapeCmd, Doc.shape, bestInf]
    have hf := fittingInf_shape [d] .flat rest
    simp only [List.map_cons, List.map_nil] at hf
    rw [hf]
    simpa [shapeCmd, m'] using ih pos'
  | case6 pos i m rest n d ih =>
    simp only [List.map_cons, shapeCmd, Doc.shape, bestInf]
    rw [← ih pos']
    exact bestInf_ind_irrelevant _ _ _ _ (by simp [zeroInd, shapeCmd])
  | case7 pos i m rest d ih =>
    simp only [List.map_cons, shapeCmd, Doc.shape, bestInf]
    rw [← ih pos']
    exact bestInf_ind_irrelevant _ _ _ _ (by simp [zeroInd, shapeCmd])
  | case8 pos i m =>
    simp [shapeCmd, Doc.shape, bestInf, Atom.erase]
  | case9 pos i m c rest' ih =>
    simp only [List.map_cons, shapeCmd, Doc.shape, bestInf, Atom.erase, List.cons.injEq, true_and]
    simpa [shapeCmd] using ih 0
  | case10 pos i m rest s len t ih =>
    simp only [List.map_cons, shapeCmd, Doc.shape, bestInf, Atom.erase, List.cons.injEq, true_and]
    exact ih (pos' + len)

theorem shape_scale (u : Nat) : (d : Doc) → (scale u d).shape = d.shape
  | .nil => rfl
  | .text _ _ _ => rfl
  | .hardline => rfl
  | .align _ => rfl
  | .nest n d => by simp [scale, Doc.shape, shape_scale u d]
  | .append a b => by simp [scale, Doc.shape, shape_scale u a, shape_scale u b]
  | .group d => by simp [scale, Doc.shape, shape_scale u d]
  | .flatAlt b f => by simp [scale, Doc.shape, shape_scale u b, shape_scale u f]

/-- For *every* document (comments and their `align` regions included): at a non-wrapping width the
outputs for the document and for its `scale u` have the same text atoms and the same line structure;
they can differ only in the number of leading blanks of each line. -/
theorem bestInf_scale_same_lines (u : Nat) (d : Doc) :
    (bestInf 0 [⟨0, .brk, scale u d⟩]).map Atom.erase = (bestInf 0 [⟨0, .brk, d⟩]).map Atom.erase := by
  have h1 := bestInf_shape 0 0 [⟨0, .brk, scale u d⟩]
  have h2 := bestInf_shape 0 0 [⟨0, .brk, d⟩]
  simp only [List.map_cons, List.map_nil, shapeCmd, shape_scale] at h1 h2
  rw [← h1, ← h2]

end Pretty
