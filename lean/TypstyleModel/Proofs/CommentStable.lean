import TypstyleModel.Model.Comment
/-! T3.4 (C03): re-aligning an aligned block comment changes nothing.

`align_multiline` strips the common indentation `leading` of the continuation lines and emits
them under `align`, i.e. at the column `col` where the comment starts.  The text that results is
`realigned col leading lines`.  Reading *that* text again (second formatting pass) gives the common
indentation `col`, and stripping it yields exactly the same pieces: the document of the second pass
equals the document of the first.  Likewise for the bullet style (`align_multiline_simple`). -/
namespace Typstyle
open Pretty

abbrev usizeMax : Nat := 2 ^ 64 - 1

/-- Number of leading ASCII spaces of a line. -/
def lead (l : String) : Nat := (l.toList.takeWhile (· == ' ')).length

/-- What `get_follow_leading` takes the minimum of. -/
def lineKey (l : String) : Nat := if lead l == l.length then usizeMax else lead l

def minKey (ls : List String) (init : Nat) : Nat := ls.foldl (fun m l => min m (lineKey l)) init

/-- `get_follow_leading` on the list of lines. -/
def followLeadingLines (ls : List String) : Option Nat :=
  match ls.drop 1 with
  | [] => none
  | rest => some (minKey rest usizeMax)

theorem followLeading_eq (text : String) : followLeading text = followLeadingLines (rlines text) := rfl

/-- The fold of `align_multiline` on the list of lines. -/
def alignLines (e : Env) (leading : Nat) (ls : List String) : Doc :=
  (ls.foldl (alignStep e leading) (Doc.nil, 0)).1

theorem alignMultiline_eq (e : Env) (text : String) (leading : Nat) (h : followLeading text = some leading) :
    alignMultiline e text = pure (alignLines e leading (rlines text)) := by
  unfold alignMultiline; rw [h]; rfl

/-- One continuation line as it is printed at column `col` after `leading` blanks were stripped
(and after the post-pass removed the blanks of a line that holds nothing else). -/
def realign (col leading : Nat) (l : String) : String :=
  if l.utf8ByteSize > leading then String.ofList (List.replicate col ' ' ++ l.toList.drop leading) else ""

/-- The lines of the printed comment. -/
def realigned (col leading : Nat) : List String → List String
  | [] => []
  | first :: rest => first :: rest.map (realign col leading)

/-! ### strings of ASCII blanks -/

theorem bytes_cons (c : Char) (cs : List Char) :
    (String.ofList (c :: cs)).utf8ByteSize = c.utf8Size + (String.ofList cs).utf8ByteSize := by
  have : String.ofList (c :: cs) = String.singleton c ++ String.ofList cs := by
    apply String.ext; simp
  rw [this, String.utf8ByteSize_append, String.utf8ByteSize_singleton]

theorem bytes_pos_of_ne_nil (cs : List Char) (h : cs ≠ []) : 0 < (String.ofList cs).utf8ByteSize := by
  cases cs with
  | nil => exact absurd rfl h
  | cons c cs => rw [bytes_cons]; have := Char.utf8Size_pos c; omega

theorem utf8_replicate_space (n : Nat) (cs : List Char) :
    (String.ofList (List.replicate n ' ' ++ cs)).utf8ByteSize = n + (String.ofList cs).utf8ByteSize := by
  induction n with
  | zero => simp
  | succ n ih =>
    rw [List.replicate_succ, List.cons_append, bytes_cons, ih]
    have : Char.utf8Size ' ' = 1 := by decide
    omega

theorem length_takeWhile_le' (p : Char → Bool) (cs : List Char) : (cs.takeWhile p).length ≤ cs.length :=
  (List.takeWhile_sublist p).length_le

theorem takeWhile_spaces_split (cs : List Char) :
    cs = List.replicate (cs.takeWhile (· == ' ')).length ' ' ++ cs.dropWhile (· == ' ') := by
  induction cs with
  | nil => rfl
  | cons c cs ih =>
    by_cases h : c = ' '
    · subst h
      simp only [List.takeWhile_cons, beq_self_eq_true, ↓reduceIte, List.length_cons, List.replicate_succ,
        List.dropWhile_cons, List.cons_append]
      congr 1
    · simp [h]

theorem dropWhile_head_ne (cs : List Char) : ∀ c rest, cs.dropWhile (· == ' ') = c :: rest → c ≠ ' ' := by
  intro c rest h hc
  have := List.head_dropWhile_not (· == ' ') (l := cs) (by rw [h]; simp)
  simp [h, hc] at this

/-- A line is *blank* (spaces only) iff its key is the maximum — for lines shorter than `usize::MAX`. -/
theorem lineKey_max_iff (l : String) (hl : l.length < usizeMax) : lineKey l = usizeMax ↔ lead l = l.length := by
  unfold lineKey
  have hle : lead l ≤ l.length := by
    unfold lead; rw [← String.length_toList]; exact length_takeWhile_le' _ _
  by_cases h : lead l = l.length
  · simp [h]
  · simp only [beq_iff_eq, h, ↓reduceIte, iff_false]; omega

theorem blank_toList (l : String) (h : lead l = l.length) : l.toList = List.replicate l.length ' ' := by
  have hs := takeWhile_spaces_split l.toList
  unfold lead at h
  have hd : l.toList.dropWhile (· == ' ') = [] := by
    have hlen : l.toList.length = (l.toList.takeWhile (· == ' ')).length + (l.toList.dropWhile (· == ' ')).length := by
      conv => lhs; rw [← List.takeWhile_append_dropWhile (p := (· == ' ')) (l := l.toList)]
      rw [List.length_append]
    rw [String.length_toList] at hlen
    exact List.eq_nil_of_length_eq_zero (by omega)
  rw [hd, List.append_nil, h] at hs
  exact hs

theorem blank_bytes (l : String) (h : lead l = l.length) : l.utf8ByteSize = l.length := by
  have := blank_toList l h
  have h2 : l = String.ofList (List.replicate l.length ' ' ++ []) := by
    rw [List.append_nil, ← this, String.ofList_toList]
  have h3 := utf8_replicate_space l.length []
  rw [← h2] at h3
  simpa using h3

/-- Shape of a line that is not blank: `lead l` blanks, then a character that is not a blank. -/
theorem nonblank_shape (l : String) (h : lead l ≠ l.length) :
    ∃ c rest, c ≠ ' ' ∧ l.toList = List.replicate (lead l) ' ' ++ c :: rest := by
  have hs := takeWhile_spaces_split l.toList
  cases hd : l.toList.dropWhile (· == ' ') with
  | nil =>
    exfalso; apply h
    rw [hd, List.append_nil] at hs
    unfold lead
    rw [← String.length_toList]
    conv => rhs; rw [hs]
    simp
  | cons c rest =>
    refine ⟨c, rest, dropWhile_head_ne _ c rest hd, ?_⟩
    rw [hd] at hs; exact hs

theorem lead_replicate (n : Nat) (c : Char) (rest : List Char) (hc : c ≠ ' ') :
    lead (String.ofList (List.replicate n ' ' ++ c :: rest)) = n := by
  unfold lead
  rw [String.toList_ofList]
  induction n with
  | zero => simp [hc]
  | succ n ih => simpa [List.replicate_succ] using ih

theorem lead_replicate_all (n : Nat) : lead (String.ofList (List.replicate n ' ')) = n := by
  unfold lead
  rw [String.toList_ofList]
  induction n with
  | zero => rfl
  | succ n ih => simpa [List.replicate_succ] using ih

/-! ### one line -/

/-- The pieces `align_multiline` cuts out of a line and out of its printed form are the same. -/
theorem alignStep_realign (e : Env) (col leading : Nat) (acc : Doc × Nat) (l : String) (hi : acc.2 ≠ 0)
    (hk : leading ≤ lineKey l) (hl : l.length < usizeMax) :
    alignStep e col acc (realign col leading l) = alignStep e leading acc l := by
  obtain ⟨doc, i⟩ := acc
  simp only at hi
  unfold alignStep realign
  simp only [beq_iff_eq, hi, ↓reduceIte]
  by_cases hb : l.utf8ByteSize > leading
  · simp only [hb, ↓reduceIte]
    have hne : (l.toList.drop leading) ≠ [] := by
      by_cases hbl : lead l = l.length
      · have := blank_bytes l hbl
        intro hnil
        have : l.toList.length ≤ leading := List.drop_eq_nil_iff.mp hnil
        rw [String.length_toList] at this; omega
      · obtain ⟨c, rest, hc, hsh⟩ := nonblank_shape l hbl
        have hkey : lineKey l = lead l := by unfold lineKey; simp [hbl]
        rw [hkey] at hk
        rw [hsh, List.drop_append]
        simp only [List.length_replicate, ne_eq, List.append_eq_nil_iff, List.drop_eq_nil_iff, List.length_cons, not_and]
        omega
    have hpos : 0 < (String.ofList (l.toList.drop leading)).utf8ByteSize := bytes_pos_of_ne_nil _ hne
    rw [utf8_replicate_space]
    have : col + (String.ofList (List.drop leading l.toList)).utf8ByteSize > col := by omega
    simp only [this, ↓reduceIte, String.toList_ofList]
    rw [List.drop_append]
    simp
  · simp only [hb, ↓reduceIte]
    have : ¬ ("".utf8ByteSize > col) := by simp
    simp [this]

/-! ### the common indentation of the printed comment -/

theorem minKey_le_init (ls : List String) (init : Nat) : minKey ls init ≤ init := by
  induction ls generalizing init with
  | nil => exact Nat.le_refl _
  | cons l ls ih => exact Nat.le_trans (ih _) (Nat.min_le_left _ _)

theorem minKey_le_mem (ls : List String) (init : Nat) (l : String) (h : l ∈ ls) : minKey ls init ≤ lineKey l := by
  induction ls generalizing init with
  | nil => cases h
  | cons x ls ih =>
    cases h with
    | head => exact Nat.le_trans (minKey_le_init ls _) (Nat.min_le_right _ _)
    | tail _ h' => exact ih _ h'

theorem minKey_attained (ls : List String) (init : Nat) : minKey ls init = init ∨ ∃ l ∈ ls, lineKey l = minKey ls init := by
  induction ls generalizing init with
  | nil => left; rfl
  | cons x ls ih =>
    show minKey ls (min init (lineKey x)) = init ∨ _
    rcases ih (min init (lineKey x)) with h | ⟨l, hl, hk⟩
    · by_cases hle : init ≤ lineKey x
      · left; rw [h]; exact Nat.min_eq_left hle
      · right; refine ⟨x, List.mem_cons_self, ?_⟩
        show lineKey x = minKey ls (min init (lineKey x))
        rw [h]; exact (Nat.min_eq_right (by omega)).symm
    · right; exact ⟨l, List.mem_cons_of_mem _ hl, hk⟩

theorem minKey_eq_of (ls : List String) (init v : Nat) (hinit : v ≤ init) (hall : ∀ l ∈ ls, v ≤ lineKey l)
    (hex : init = v ∨ ∃ l ∈ ls, lineKey l = v) : minKey ls init = v := by
  apply Nat.le_antisymm
  · rcases hex with h | ⟨l, hl, hk⟩
    · rw [← h]; exact minKey_le_init ls init
    · rw [← hk]; exact minKey_le_mem ls init l hl
  · rcases minKey_attained ls init with h | ⟨l, hl, hk⟩
    · rw [h]; exact hinit
    · rw [← hk]; exact hall l hl

/-- Key of a printed line. -/
theorem lineKey_realign (col leading : Nat) (l : String) (hk : leading ≤ lineKey l) (hl : l.length < usizeMax)
    (hcol : col < usizeMax) :
    (lineKey l = usizeMax → lineKey (realign col leading l) = usizeMax) ∧
    (lineKey l ≠ usizeMax → lineKey (realign col leading l) = col + (lineKey l - leading)) := by
  by_cases hbl : lead l = l.length
  · have hmax : lineKey l = usizeMax := (lineKey_max_iff l hl).mpr hbl
    refine ⟨fun _ => ?_, fun h => absurd hmax h⟩
    unfold realign
    split
    · rw [blank_toList l hbl, List.drop_replicate, List.replicate_append_replicate]
      unfold lineKey
      rw [lead_replicate_all]
      simp
    · rfl
  · have hkey : lineKey l = lead l := by unfold lineKey; simp [hbl]
    have hne : lineKey l ≠ usizeMax := fun h => hbl ((lineKey_max_iff l hl).mp h)
    refine ⟨fun h => absurd h hne, fun _ => ?_⟩
    obtain ⟨c, rest, hc, hsh⟩ := nonblank_shape l hbl
    rw [hkey] at hk ⊢
    have hbytes : l.utf8ByteSize > leading := by
      have : l = String.ofList (List.replicate (lead l) ' ' ++ c :: rest) := by rw [← hsh, String.ofList_toList]
      rw [this, utf8_replicate_space]
      have := bytes_pos_of_ne_nil (c :: rest) (by simp)
      omega
    unfold realign
    simp only [hbytes, ↓reduceIte]
    rw [hsh, List.drop_append, List.drop_replicate, List.length_replicate]
    have h0 : leading - lead l = 0 := by omega
    rw [h0, List.drop_zero, ← List.append_assoc, List.replicate_append_replicate]
    unfold lineKey
    rw [lead_replicate _ c rest hc]
    have : ¬ (col + (lead l - leading) = (String.ofList (List.replicate (col + (lead l - leading)) ' ' ++ c :: rest)).length) := by
      rw [String.length_ofList]; simp
    simp [this]

/-- The common indentation read off the printed continuation lines: the column of the comment
(or still `usize::MAX` when every continuation line is blank). -/
theorem minKey_realigned (col leading : Nat) (rest : List String) (hlead : minKey rest usizeMax = leading)
    (hlen : ∀ l ∈ rest, l.length < usizeMax) (hcol : col < usizeMax) :
    minKey (rest.map (realign col leading)) usizeMax = if leading = usizeMax then usizeMax else col := by
  have hle : ∀ l ∈ rest, leading ≤ lineKey l := fun l hl => hlead ▸ minKey_le_mem rest _ l hl
  by_cases hmax : leading = usizeMax
  · rw [if_pos hmax]
    apply minKey_eq_of _ _ _ (Nat.le_refl _)
    · intro l' hl'
      obtain ⟨l, hl, rfl⟩ := List.mem_map.mp hl'
      have hk := hle l hl
      have hkm : lineKey l = usizeMax := by
        have : lineKey l ≤ usizeMax := by
          unfold lineKey; split
          · exact Nat.le_refl _
          · have : lead l ≤ l.length := by unfold lead; rw [← String.length_toList]; exact length_takeWhile_le' _ _
            have := hlen l hl; omega
        omega
      rw [(lineKey_realign col leading l hk (hlen l hl) hcol).1 hkm]
      exact Nat.le_refl _
    · left; rfl
  · rw [if_neg hmax]
    apply minKey_eq_of _ _ _ (Nat.le_of_lt hcol)
    · intro l' hl'
      obtain ⟨l, hl, rfl⟩ := List.mem_map.mp hl'
      have hk := hle l hl
      have hr := lineKey_realign col leading l hk (hlen l hl) hcol
      by_cases hkm : lineKey l = usizeMax
      · rw [hr.1 hkm]; exact Nat.le_of_lt hcol
      · rw [hr.2 hkm]; omega
    · right
      rcases minKey_attained rest usizeMax with h | ⟨l, hl, hk⟩
      · exact absurd (hlead ▸ h) hmax
      · rw [hlead] at hk
        refine ⟨realign col leading l, List.mem_map_of_mem hl, ?_⟩
        have hr := lineKey_realign col leading l (hle l hl) (hlen l hl) hcol
        rw [hr.2 (by rw [hk]; exact hmax), hk]; omega

/-! ### the whole comment -/

theorem foldl_alignStep_snd (e : Env) (leading : Nat) (ls : List String) (acc : Doc × Nat) :
    (ls.foldl (alignStep e leading) acc).2 = acc.2 + ls.length := by
  induction ls generalizing acc with
  | nil => rfl
  | cons l ls ih =>
    rw [List.foldl_cons, ih]
    obtain ⟨d, i⟩ := acc
    unfold alignStep
    simp only [List.length_cons]
    split <;> simp <;> omega

theorem foldl_alignStep_realign (e : Env) (col leading : Nat) (rest : List String) (acc : Doc × Nat) (hi : acc.2 ≠ 0)
    (hk : ∀ l ∈ rest, leading ≤ lineKey l) (hl : ∀ l ∈ rest, l.length < usizeMax) :
    (rest.map (realign col leading)).foldl (alignStep e col) acc = rest.foldl (alignStep e leading) acc := by
  induction rest generalizing acc with
  | nil => rfl
  | cons l rest ih =>
    rw [List.map_cons, List.foldl_cons, List.foldl_cons,
      alignStep_realign e col leading acc l hi (hk l List.mem_cons_self) (hl l List.mem_cons_self)]
    apply ih
    · obtain ⟨d, i⟩ := acc
      unfold alignStep; simp only at hi; simp [hi]
    · exact fun l' h => hk l' (List.mem_cons_of_mem _ h)
    · exact fun l' h => hl l' (List.mem_cons_of_mem _ h)

/-- When every continuation line is blank, `leading` does not matter: nothing is cut out. -/
theorem alignStep_blank (e : Env) (a b : Nat) (acc : Doc × Nat) (hi : acc.2 ≠ 0) :
    alignStep e a acc "" = alignStep e b acc "" := by
  obtain ⟨d, i⟩ := acc
  unfold alignStep
  simp only at hi
  simp [hi]

end Typstyle

namespace Typstyle
open Pretty

/-- A line that is cut away entirely (`leading` reaches its end): its printed form is empty, and
whatever indentation the second pass reads, nothing is cut out of it either. -/
theorem alignStep_realign_short (e : Env) (col leading leading' : Nat) (acc : Doc × Nat) (l : String) (hi : acc.2 ≠ 0)
    (hb : ¬ l.utf8ByteSize > leading) :
    alignStep e leading' acc (realign col leading l) = alignStep e leading acc l := by
  obtain ⟨doc, i⟩ := acc
  simp only at hi
  unfold alignStep realign
  simp [hi, hb]

theorem foldl_alignStep_realign_short (e : Env) (col leading leading' : Nat) (rest : List String) (acc : Doc × Nat)
    (hi : acc.2 ≠ 0) (hb : ∀ l ∈ rest, ¬ l.utf8ByteSize > leading) :
    (rest.map (realign col leading)).foldl (alignStep e leading') acc = rest.foldl (alignStep e leading) acc := by
  induction rest generalizing acc with
  | nil => rfl
  | cons l rest ih =>
    rw [List.map_cons, List.foldl_cons, List.foldl_cons,
      alignStep_realign_short e col leading leading' acc l hi (hb l List.mem_cons_self)]
    apply ih
    · obtain ⟨d, i⟩ := acc
      unfold alignStep; simp only at hi; simp [hi]
    · exact fun l' h => hb l' (List.mem_cons_of_mem _ h)

theorem all_congr_mem {α : Type} (l : List α) (f g : α → Bool) (h : ∀ x ∈ l, f x = g x) : l.all f = l.all g := by
  induction l with
  | nil => rfl
  | cons a l ih =>
    rw [List.all_cons, List.all_cons, h a List.mem_cons_self, ih (fun x hx => h x (List.mem_cons_of_mem _ hx))]

/-- **Stability of `align_multiline`** (both the indentation that is read and the document that
is built). -/
theorem alignLines_realigned (e : Env) (col : Nat) (ls : List String) (leading : Nat)
    (h : followLeadingLines ls = some leading) (hlen : ∀ l ∈ ls, l.length < usizeMax) (hcol : col < usizeMax) :
    followLeadingLines (realigned col leading ls) = some (if leading = usizeMax then usizeMax else col) ∧
    alignLines e (if leading = usizeMax then usizeMax else col) (realigned col leading ls) = alignLines e leading ls := by
  cases ls with
  | nil => simp [followLeadingLines] at h
  | cons first rest =>
    cases rest with
    | nil => simp [followLeadingLines] at h
    | cons second rest =>
      have hlead : minKey (second :: rest) usizeMax = leading := by
        simpa [followLeadingLines] using h
      have hlen' : ∀ l ∈ second :: rest, l.length < usizeMax := fun l hl => hlen l (List.mem_cons_of_mem _ hl)
      constructor
      · show followLeadingLines (first :: (second :: rest).map (realign col leading)) = _
        unfold followLeadingLines
        simp only [List.drop_one, List.tail_cons, List.map_cons]
        rw [← List.map_cons, minKey_realigned col leading (second :: rest) hlead hlen' hcol]
      · show (List.foldl (alignStep e _) (Doc.nil, 0) (first :: (second :: rest).map (realign col leading))).1
            = (List.foldl (alignStep e leading) (Doc.nil, 0) (first :: second :: rest)).1
        rw [List.foldl_cons, List.foldl_cons (l := second :: rest)]
        have h0 : ∀ a b, alignStep e a (Doc.nil, 0) first = alignStep e b (Doc.nil, 0) first := by
          intro a b; unfold alignStep; simp
        have hi : (alignStep e leading (Doc.nil, 0) first).2 ≠ 0 := by unfold alignStep; simp
        have hle : ∀ l ∈ second :: rest, leading ≤ lineKey l := fun l hl => hlead ▸ minKey_le_mem _ _ l hl
        rw [h0 _ leading]
        by_cases hmax : leading = usizeMax
        · rw [if_pos hmax]
          -- every continuation line is blank and shorter than `leading`
          have hshort : ∀ l ∈ second :: rest, ¬ l.utf8ByteSize > leading := by
            intro l hl
            have hk := hle l hl
            have hkm : lineKey l = usizeMax := by
              have : lineKey l ≤ usizeMax := by
                unfold lineKey; split
                · exact Nat.le_refl _
                · have : lead l ≤ l.length := by unfold lead; rw [← String.length_toList]; exact length_takeWhile_le' _ _
                  have := hlen' l hl; omega
              omega
            have hb := (lineKey_max_iff l (hlen' l hl)).mp hkm
            rw [blank_bytes l hb]
            have := hlen' l hl; omega
          rw [foldl_alignStep_realign_short e col leading usizeMax (second :: rest) _ hi hshort]
        · rw [if_neg hmax, foldl_alignStep_realign e col leading (second :: rest) _ hi hle hlen']

/-! ### the bullet style (`align_multiline_simple`) and the choice between the styles -/

theorem trimStartL_spaces (n : Nat) (cs : List Char) : trimStartL (List.replicate n ' ' ++ cs) = trimStartL cs := by
  induction n with
  | zero => rfl
  | succ n ih =>
    rw [List.replicate_succ, List.cons_append]
    unfold trimStartL at *
    rw [List.dropWhile_cons]
    have : isWs ' ' = true := by decide
    simp only [this, ↓reduceIte]
    exact ih

theorem trimStartL_idem (cs : List Char) : trimStartL (trimStartL cs) = trimStartL cs := by
  unfold trimStartL
  induction cs with
  | nil => rfl
  | cons c cs ih =>
    rw [List.dropWhile_cons]
    split
    · exact ih
    · rename_i h; rw [List.dropWhile_cons, if_neg h]

/-- A continuation line of a bullet-style comment as it is printed at column `col` (`hang(1)`). -/
def realignSimple (col : Nat) (l : String) : String :=
  if trimStart l = "" then "" else String.ofList (List.replicate (col + 1) ' ' ++ (trimStart l).toList)

def realignedSimple (col : Nat) : List String → List String
  | [] => []
  | first :: rest => trimStart first :: rest.map (realignSimple col)

theorem trimStart_idem (l : String) : trimStart (trimStart l) = trimStart l := by
  unfold trimStart; rw [String.toList_ofList, trimStartL_idem]

theorem trimStart_realignSimple (col : Nat) (l : String) : trimStart (realignSimple col l) = trimStart l := by
  unfold realignSimple
  split
  · rename_i h; rw [h]; rfl
  · show String.ofList (trimStartL (String.ofList _).toList) = _
    rw [String.toList_ofList, trimStartL_spaces]
    show trimStart (trimStart l) = trimStart l
    exact trimStart_idem l

theorem alignSimpleStep_congr (e : Env) (acc : Doc × Nat) (l l' : String) (h : trimStart l' = trimStart l) :
    alignSimpleStep e acc l' = alignSimpleStep e acc l := by
  unfold alignSimpleStep; rw [h]

/-- **Stability of `align_multiline_simple`**: the printed bullet comment is converted to the
same document. -/
theorem alignSimple_realigned (e : Env) (col : Nat) (ls : List String) :
    (realignedSimple col ls).foldl (alignSimpleStep e) (Doc.nil, 0) = ls.foldl (alignSimpleStep e) (Doc.nil, 0) := by
  cases ls with
  | nil => rfl
  | cons first rest =>
    show List.foldl _ _ (trimStart first :: rest.map (realignSimple col)) = _
    rw [List.foldl_cons, List.foldl_cons, alignSimpleStep_congr e _ first _ (trimStart_idem first)]
    generalize alignSimpleStep e (Doc.nil, 0) first = acc
    induction rest generalizing acc with
    | nil => rfl
    | cons l ls ih =>
      rw [List.map_cons, List.foldl_cons, List.foldl_cons, alignSimpleStep_congr e _ l _ (trimStart_realignSimple col l)]
      exact ih _

/-- The test that chooses between the two styles. -/
def bulletStyle (ls : List String) : Bool := (ls.drop 1).all fun l => (trimStart l).startsWith "*"

theorem bulletStyle_realignedSimple (col : Nat) (ls : List String) : bulletStyle (realignedSimple col ls) = bulletStyle ls := by
  cases ls with
  | nil => rfl
  | cons first rest =>
    show (List.map (realignSimple col) rest).all _ = rest.all _
    rw [List.all_map]
    apply all_congr_mem
    intro l _
    show (trimStart (realignSimple col l)).startsWith "*" = _
    rw [trimStart_realignSimple]

theorem trimStart_realign (col leading : Nat) (l : String) (hk : leading ≤ lineKey l) (hl : l.length < usizeMax) :
    trimStart (realign col leading l) = trimStart l := by
  by_cases hbl : lead l = l.length
  · have hb := blank_toList l hbl
    have h1 : trimStart l = "" := by
      unfold trimStart; rw [hb]
      have := trimStartL_spaces l.length []
      rw [List.append_nil] at this; rw [this]; rfl
    rw [h1]
    unfold realign
    split
    · unfold trimStart
      rw [String.toList_ofList, hb, List.drop_replicate, List.replicate_append_replicate]
      have := trimStartL_spaces (col + (l.length - leading)) []
      rw [List.append_nil] at this; rw [this]; rfl
    · rfl
  · obtain ⟨c, rest, hc, hsh⟩ := nonblank_shape l hbl
    have hkey : lineKey l = lead l := by unfold lineKey; simp [hbl]
    rw [hkey] at hk
    have hbytes : l.utf8ByteSize > leading := by
      have : l = String.ofList (List.replicate (lead l) ' ' ++ c :: rest) := by rw [← hsh, String.ofList_toList]
      rw [this, utf8_replicate_space]
      have := bytes_pos_of_ne_nil (c :: rest) (by simp)
      omega
    unfold realign trimStart
    simp only [hbytes, ↓reduceIte, String.toList_ofList]
    rw [hsh, List.drop_append, List.drop_replicate, List.length_replicate]
    have h0 : leading - lead l = 0 := by omega
    rw [h0, List.drop_zero, ← List.append_assoc, List.replicate_append_replicate, trimStartL_spaces, trimStartL_spaces]

/-- The style of a comment printed in the aligned (non-bullet) style is read the same way again. -/
theorem bulletStyle_realigned (col : Nat) (ls : List String) (leading : Nat)
    (h : followLeadingLines ls = some leading) (hlen : ∀ l ∈ ls, l.length < usizeMax) :
    bulletStyle (realigned col leading ls) = bulletStyle ls := by
  cases ls with
  | nil => rfl
  | cons first rest =>
    have hlead : minKey rest usizeMax = leading := by
      cases rest with
      | nil => simp [followLeadingLines] at h
      | cons a b => simpa [followLeadingLines] using h
    show (List.map (realign col leading) rest).all _ = rest.all _
    rw [List.all_map]
    apply all_congr_mem
    intro l hl
    show (trimStart (realign col leading l)).startsWith "*" = _
    rw [trimStart_realign col leading l (hlead ▸ minKey_le_mem rest _ l hl) (hlen l (List.mem_cons_of_mem _ hl))]

end Typstyle
