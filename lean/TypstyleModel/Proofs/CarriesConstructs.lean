import TypstyleModel.Proofs.CarriesComment
/-! Per-construct theorems (route M): if the child converters carry what each child prescribes, the
construct carries what the node prescribes — all five streams (code tokens, comments, prose, literals,
verbatim text), for every layout, width and indent unit (`Twin.Doc.emits`).  Constructs covered here:
named/keyed arguments and pairs, spread, unary, let / destructuring assignment, show rules, and the
keyword-expression flows (`context`, `if`/`else`, `while`, `return`, `include`). -/
namespace Typstyle
open Twin

/-- A token that is printed from its own text as a code token and prescribes exactly that:
operators, punctuation, markers. -/
def Kind.isPlainToken (k : Kind) : Bool :=
  !k.isInnerKind && !k.isExpr && !isCommentKind k && !(k == .space || k == .parbreak) &&
  !(k == .refMarker) && !(k == .bool) && !(k == .underscore)

theorem specAll_plain_leaf (k : Kind) (t : String) (a : Attrs) (h : k.isPlainToken = true) :
    specAll (.leaf k t a) = tagS .tok t := by
  have hx : k.isExpr = false := by cases k <;> simp_all [Kind.isPlainToken]
  have hc : isCommentKind k = false := by cases k <;> simp_all [Kind.isPlainToken, isCommentKind]
  have hs : (k == .space || k == .parbreak) = false := by cases k <;> simp_all [Kind.isPlainToken]
  have h2 : (k == .text || k == .shorthand || k == .smartQuote || k == .escape || k == .link || k == .label) = false := by
    cases k <;> simp_all [Kind.isPlainToken, Kind.isExpr]
  have h3 : (k == .refMarker) = false := by cases k <;> simp_all [Kind.isPlainToken]
  have h4 : (k == .str || k == .int || k == .float || k == .numeric || k == .bool || k == .ident || k == .mathIdent
       || k == .escape || k == .link || k == .label) = false := by cases k <;> simp_all [Kind.isPlainToken, Kind.isExpr]
  apply Streams.ext'
  · simp [specAll, specToks, hc, hs, tagS, Pretty.charsOf, Pretty.keepOf]
  · simp [specAll, specCmts, hc, tagS, Pretty.charsOf]
  · simp only [specAll, specProse, h2, h3]; simp [tagS, Pretty.charsOf]
  · simp only [specAll, specLit, h4, h3]; simp [tagS, Pretty.charsOf]
  · simp [specAll, specVerb, hx, tagS, Pretty.charsOf]

/-- What the flow stylist contributes for a child is what the child prescribes. -/
theorem flowContribS_specAll (c : ANode) (h : ANode.tokensAreLeaves c = true) : flowContribS specAll c = specAll c := by
  unfold flowContribS
  simp only
  split
  · rename_i hk
    simp only [Bool.and_eq_true, Bool.not_eq_true'] at hk
    obtain ⟨t, a, hc⟩ := leaf_of_token h (by cases hkk : c.kind <;> simp_all [Kind.isKeyword, Kind.isInnerKind])
    rw [hc, specAll_keyword_leaf _ t a hk.1 hk.2]; rfl
  · split
    · rename_i hk
      obtain ⟨t, a, hc⟩ := leaf_of_token h (by
        simp only [isCommentKind, Bool.or_eq_true, beq_iff_eq] at hk
        rcases hk with hk | hk <;> rw [hk] <;> rfl)
      rw [hc, specAll_comment_leaf _ t a hk]; rfl
    · split
      · rename_i hk
        have hk' : c.kind = .hash := by simpa using hk
        obtain ⟨t, a, hc⟩ := leaf_of_token h (by rw [hk']; rfl)
        rw [hc, hk', specAll_hash_leaf]; rfl
      · rfl

theorem contribL_specAll (cs : List ANode) (h : ANode.tokensAreLeavesL cs = true) : contribL specAll cs = specAllL cs := by
  induction cs with
  | nil => simp [contribL]
  | cons c cs ih =>
    simp only [ANode.tokensAreLeavesL, Bool.and_eq_true] at h
    rw [contribL, specAllL_cons, flowContribS_specAll c h.1, ih h.2]

/-- The child converters carry what each child prescribes, for children that satisfy `Q`
(the induction hypothesis of the knot: `Q` = "is in the covered fragment"). -/
structure RecOK (r : Rec) (Q : ANode → Prop) : Prop where
  expr : ∀ ctx c, NM ctx → isExpr c = true → Q c → Post (r.expr ctx c) (fun d => Carries d (specAll c))
  pattern : ∀ ctx c, NM ctx → isPattern c = true → Q c → Post (r.pattern ctx c) (fun d => Carries d (specAll c))
  paren : ∀ ctx c, NM ctx → c.kind = .parenthesized → c.attrs.disabled = false → Q c → Post (r.paren ctx c) (fun d => Carries d (specAll c))
  markup : ∀ ctx c scope, NM ctx → c.kind = .markup → Q c → Post (r.markup ctx c scope) (fun d => Carries d (specAll c))

/-- What a construct may assume of a child: lexical shape, and — if it is an expression or pattern —
that it satisfies `Q`. -/
def ChildOK (Q : ANode → Prop) (c : ANode) : Prop := ANode.tokensAreLeaves c = true ∧ Q c

theorem isPattern_of_isExpr {c : ANode} (h : isExpr c = true) : isPattern c = true := by
  unfold isPattern; simp [h]

theorem specAll_space (c : ANode) (h : ANode.tokensAreLeaves c = true) (hk : c.kind = .space) : specAll c = {} := by
  obtain ⟨t, a, hc⟩ := leaf_of_token h (by rw [hk]; rfl)
  rw [hc, hk, specAll_space_leaf]

/-- A leaf that is printed as a fixed constant: the model checks the leaf's text, so the constant
carries what the leaf prescribes. -/
theorem synLeaf_carries (e : Env) (c : ANode) (s : String) (h : ANode.tokensAreLeaves c = true) (hp : c.kind.isPlainToken = true) :
    Post (e.synLeaf c s) (fun d => Carries d (specAll c)) := by
  unfold Env.synLeaf
  split
  · rename_i ht
    have ht' : c.text = s := by simpa using ht
    obtain ⟨t, a, hc⟩ := leaf_of_token h (by cases hk : c.kind <;> simp_all [Kind.isPlainToken])
    have htt : t = s := by rw [hc] at ht'; exact ht'
    refine Post.pure ((Carries.mkText e.wd .syn s).congr ?_)
    rw [hc, specAll_plain_leaf _ t a hp, tagS_syn_eq_tok, htt]
  · exact Post.rejected _

theorem tok_carries (e : Env) (c : ANode) (h : ANode.tokensAreLeaves c = true) (hp : c.kind.isPlainToken = true) :
    Carries (e.tok c.text) (specAll c) := by
  obtain ⟨t, a, hc⟩ := leaf_of_token h (by cases hk : c.kind <;> simp_all [Kind.isPlainToken])
  refine (Carries.mkText e.wd .tok c.text).congr ?_
  rw [hc, specAll_plain_leaf _ t a hp]; rfl

theorem specAll_semicolon (c : ANode) (h : ANode.tokensAreLeaves c = true) (hk : c.kind = .semicolon) : specAll c = {} := by
  obtain ⟨t, a, hc⟩ := leaf_of_token h (by rw [hk]; rfl)
  rw [hc] at h ⊢
  rw [hk] at h ⊢
  exact specAll_delim_leaf .semicolon t a ";" rfl h

/-! ### producers -/

theorem namedProducer_ok {Q : ANode → Prop} (e : Env) (r : Rec) (hr : RecOK r Q) :
    ProducerS (namedProducer e r) specAll (ChildOK Q) := by
  intro st c child hnm hok
  unfold namedProducer
  split
  · rename_i hk
    have hk' : child.kind = .colon := by simpa using hk
    exact Post.bind (synLeaf_carries e child ":" hok.1 (by rw [hk']; rfl)) (fun d hd => Post.pure hd)
  · split
    · rename_i hx
      exact Post.bind (hr.expr c child hnm hx hok.2) (fun d hd => Post.pure hd)
    · split
      · rename_i hx
        exact Post.bind (hr.pattern c child hnm hx hok.2) (fun d hd => Post.pure hd)
      · split
        · rename_i hk
          exact Post.pure (specAll_space child hok.1 (by simpa using hk))
        · split
          · rename_i hk
            have hk' : child.kind = .semicolon := by simpa using hk
            exact Post.pure (specAll_semicolon child hok.1 hk')
          · exact Post.rejected _

theorem keyedProducer_ok {Q : ANode → Prop} (e : Env) (r : Rec) (hr : RecOK r Q) :
    ProducerS (keyedProducer e r) specAll (ChildOK Q) := by
  intro st c child hnm hok
  unfold keyedProducer
  split
  · rename_i hk
    have hk' : child.kind = .colon := by simpa using hk
    exact Post.bind (synLeaf_carries e child ":" hok.1 (by rw [hk']; rfl)) (fun d hd => Post.pure hd)
  · split
    · rename_i hx
      exact Post.bind (hr.expr c child hnm hx hok.2) (fun d hd => Post.pure hd)
    · split
      · rename_i hk
        exact Post.pure (specAll_space child hok.1 (by simpa using hk))
      · split
        · rename_i hk
          exact Post.pure (specAll_semicolon child hok.1 (by simpa using hk))
        · exact Post.rejected _

theorem spreadProducer_ok {Q : ANode → Prop} (e : Env) (r : Rec) (hr : RecOK r Q) :
    ProducerS (spreadProducer e r) specAll (ChildOK Q) := by
  intro st c child hnm hok
  unfold spreadProducer
  split
  · rename_i hk
    have hk' : child.kind = .dots := by simpa using hk
    exact Post.bind (synLeaf_carries e child ".." hok.1 (by rw [hk']; rfl)) (fun d hd => Post.pure hd)
  · split
    · rename_i hx
      exact Post.bind (hr.expr c child hnm hx hok.2) (fun d hd => Post.pure hd)
    · split
      · rename_i hk
        exact Post.pure (specAll_space child hok.1 (by simpa using hk))
      · split
        · rename_i hk
          exact Post.pure (specAll_semicolon child hok.1 (by simpa using hk))
        · exact Post.rejected _

theorem unaryProducer_ok {Q : ANode → Prop} (e : Env) (r : Rec) (hr : RecOK r Q) (isOpKw : Bool) :
    ProducerS (unaryProducer e r isOpKw) specAll (ChildOK Q) := by
  intro st c child hnm hok
  unfold unaryProducer
  split
  · rename_i hk
    refine Post.pure (tok_carries e child hok.1 ?_)
    simp only [Bool.or_eq_true, beq_iff_eq] at hk
    rcases hk with (hk | hk) | hk <;> rw [hk] <;> rfl
  · split
    · rename_i hx
      split
      · exact Post.bind (hr.expr c child hnm hx hok.2) (fun d hd => Post.pure hd)
      · exact Post.bind (hr.expr c child hnm hx hok.2) (fun d hd => Post.pure hd)
    · split
      · rename_i hk
        exact Post.pure (specAll_space child hok.1 (by simpa using hk))
      · exact Post.rejected _

theorem letProducer_ok {Q : ANode → Prop} (e : Env) (r : Rec) (hr : RecOK r Q) :
    ProducerS (letProducer e r) specAll (ChildOK Q) := by
  intro st c child hnm hok
  unfold letProducer
  split
  · rename_i hk
    have hk' : child.kind = .eq := by simpa using hk
    exact Post.bind (synLeaf_carries e child "=" hok.1 (by rw [hk']; rfl)) (fun d hd => Post.pure hd)
  · split
    · rename_i hx
      exact Post.bind (hr.pattern c child hnm hx hok.2) (fun d hd => Post.pure hd)
    · split
      · rename_i hk
        exact Post.pure (specAll_space child hok.1 (by simpa using hk))
      · exact Post.rejected _

theorem exprFlowProducer_ok {Q : ANode → Prop} (r : Rec) (hr : RecOK r Q) (what : String) :
    ProducerS (exprFlowProducer r what) specAll (ChildOK Q) := by
  intro st c child hnm hok
  unfold exprFlowProducer
  split
  · rename_i hx
    exact Post.bind (hr.expr c child hnm hx hok.2) (fun d hd => Post.pure hd)
  · split
    · rename_i hk
      exact Post.pure (specAll_space child hok.1 (by simpa using hk))
    · exact Post.rejected _

theorem showProducer_ok {Q : ANode → Prop} (e : Env) (r : Rec) (hr : RecOK r Q) :
    ProducerS (showProducer e r) specAll (ChildOK Q) := by
  intro st c child hnm hok
  unfold showProducer
  split
  · rename_i hk
    have hk' : child.kind = .colon := by simpa using hk
    exact Post.bind (synLeaf_carries e child ":" hok.1 (by rw [hk']; rfl)) (fun d hd => Post.pure hd)
  · split
    · rename_i hx
      exact Post.bind (hr.expr c child hnm hx hok.2) (fun d hd => Post.pure hd)
    · split
      · rename_i hk
        exact Post.pure (specAll_space child hok.1 (by simpa using hk))
      · exact Post.rejected _

/-! ### constructs -/

/-- A flow construct over the children of `n` carries what `n` prescribes. -/
theorem flow_construct_carries {σ : Type} {Q : ANode → Prop} (e : Env) (ctx : Ctx) (k : Kind) (cs : List ANode) (a : Attrs) (st : σ)
    (producer : σ → Ctx → ANode → M (σ × Option FlowItem))
    (hp : ProducerS producer specAll (ChildOK Q))
    (hv : isVerbatimNode k cs a = false) (hraw : k ≠ .raw)
    (hw : ANode.tokensAreLeavesL cs = true) (hq : ∀ c ∈ cs, Q c) (hctx : NM ctx) :
    Post (flowM e ctx cs st producer) (fun d => Carries d (specAll (.inner k cs a))) := by
  rw [specAll_inner k cs a hv hraw, ← contribL_specAll cs hw]
  exact flowM_carries (commentOK e) hp (fun c hok hk => specAll_space c hok.1 hk) hctx cs
    (fun c hc => ⟨tokensAreLeavesL_mem hw hc, hq c hc⟩) st

theorem headingProducer_ok {Q : ANode → Prop} (e : Env) (r : Rec) (hr : RecOK r Q) :
    ProducerS (headingProducer e r) specAll (ChildOK Q) := by
  intro st c child hnm hok
  unfold headingProducer
  split
  · rename_i hk
    exact Post.pure (tok_carries e child hok.1 (by rw [show child.kind = .headingMarker by simpa using hk]; rfl))
  · split
    · rename_i hk
      exact Post.bind (hr.markup c child .item hnm (by simpa using hk) hok.2) (fun d hd => Post.pure hd)
    · split
      · rename_i hk
        exact Post.pure (specAll_space child hok.1 (by simpa using hk))
      · exact Post.rejected _

theorem specAll_parbreak (c : ANode) (h : ANode.tokensAreLeaves c = true) (hk : c.kind = .parbreak) : specAll c = {} := by
  obtain ⟨t, a, hc⟩ := leaf_of_token h (by rw [hk]; rfl)
  rw [hc, hk]
  apply Streams.ext' <;> simp [specAll, specToks, specCmts, specProse, specLit, specVerb, isCommentKind, Kind.isExpr, leafTag]

theorem listItemProducer_ok {Q : ANode → Prop} (e : Env) (r : Rec) (hr : RecOK r Q) :
    ProducerS (listItemProducer e r) specAll (fun c => ChildOK Q c ∧ (c.kind = .markup → c.children.isEmpty = true → specAll c = {})) := by
  intro st c child hnm hok
  unfold listItemProducer
  split
  · rename_i hk; exact Post.pure (tok_carries e child hok.1.1 (by rw [hk]; rfl))
  · rename_i hk; exact Post.pure (tok_carries e child hok.1.1 (by rw [hk]; rfl))
  · rename_i hk; exact Post.pure (tok_carries e child hok.1.1 (by rw [hk]; rfl))
  · rename_i hk; exact Post.pure (tok_carries e child hok.1.1 (by rw [hk]; rfl))
  · rename_i hk
    split
    · exact Post.pure (by rw [specAll_space child hok.1.1 hk]; exact Carries.hardline)
    · exact Post.pure (specAll_space child hok.1.1 hk)
  · rename_i hk
    exact Post.pure (by rw [specAll_parbreak child hok.1.1 hk]; exact Carries.repeatN Carries.hardline _)
  · rename_i hk
    split
    · exact Post.bind (hr.markup c child .item hnm hk hok.1.2) (fun d hd => Post.pure hd)
    · rename_i he
      exact Post.pure (hok.2 hk (by simpa using he))
  · exact Post.rejected _

theorem verb_inner_carries' (e : Env) (k : Kind) (cs : List ANode) (a : Attrs) (hd : a.disabled = true)
    (hx : k.isExpr = true ∨ k = .destructuring) :
    Carries (e.verbNode (.inner k cs a)) (specAll (.inner k cs a)) := by
  have hv : isVerbatimNode k cs a = true := by
    rcases hx with hx | hx
    · simp [isVerbatimNode, hd, hx]
    · simp [isVerbatimNode, hd, hx]
  refine (Carries.mkText e.wd .verbatim _).congr ?_
  apply Streams.ext' <;>
    simp [specAll, specToks, specCmts, specProse, specLit, specVerb, hv, tagS, Pretty.charsOf, ANode.intoText, Pretty.keepOf]

theorem verb_inner_carries (e : Env) (k : Kind) (cs : List ANode) (a : Attrs) (hd : a.disabled = true) (hx : k.isExpr = true) :
    Carries (e.verbNode (.inner k cs a)) (specAll (.inner k cs a)) := by
  have hv : isVerbatimNode k cs a = true := by simp [isVerbatimNode, hd, hx]
  refine (Carries.mkText e.wd .verbatim _).congr ?_
  apply Streams.ext' <;>
    simp [specAll, specToks, specCmts, specProse, specLit, specVerb, hv, tagS, Pretty.charsOf, ANode.intoText, Pretty.keepOf]

end Typstyle
