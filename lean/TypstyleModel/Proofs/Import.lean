import TypstyleModel.Model.Printer.Code
/-! Import item ordering (`convert_import_items`): the stable sort is a sorted permutation. -/
namespace Typstyle

theorem insertSorted_perm (key : ANode → String) (x : ANode) (l : List ANode) :
    (insertSorted key x l).Perm (x :: l) := by
  induction l with
  | nil => exact List.Perm.refl _
  | cons y ys ih =>
    unfold insertSorted
    split
    · exact List.Perm.refl _
    · exact (List.Perm.cons y ih).trans (List.Perm.swap x y ys)

theorem stableSort_perm (key : ANode → String) (l : List ANode) : (stableSort key l).Perm l := by
  induction l with
  | nil => exact List.Perm.refl _
  | cons x xs ih =>
    show (insertSorted key x (stableSort key xs)).Perm (x :: xs)
    exact (insertSorted_perm key x _).trans (List.Perm.cons x ih)

/-- Sortedness: no element is followed (anywhere later) by one with a strictly smaller key. -/
def SortedBy (key : ANode → String) (l : List ANode) : Prop := l.Pairwise fun a b => key a ≤ key b

theorem insertSorted_mem (key : ANode → String) (x z : ANode) (l : List ANode) (h : z ∈ insertSorted key x l) :
    z = x ∨ z ∈ l := by
  have := (insertSorted_perm key x l).mem_iff.mp h
  simpa using this

theorem str_le_of_lt {a b : String} (h : a < b) : a ≤ b := by
  rcases String.le_total a b with h' | h'
  · exact h'
  · exact absurd h (String.not_lt.mpr h')

theorem insertSorted_sorted (key : ANode → String) (x : ANode) (l : List ANode) (h : SortedBy key l) :
    SortedBy key (insertSorted key x l) := by
  induction l with
  | nil => simp [insertSorted, SortedBy]
  | cons y ys ih =>
    unfold insertSorted
    have hy := List.pairwise_cons.mp h
    split
    · rename_i hlt
      refine List.pairwise_cons.mpr ⟨?_, h⟩
      intro z hz
      have hxy : key x ≤ key y := str_le_of_lt hlt
      rcases List.mem_cons.mp hz with rfl | hz'
      · exact hxy
      · exact String.le_trans hxy (hy.1 z hz')
    · rename_i hnlt
      have hyx : key y ≤ key x := String.not_lt.mp hnlt
      refine List.pairwise_cons.mpr ⟨?_, ih hy.2⟩
      intro z hz
      rcases insertSorted_mem key x z ys hz with rfl | hz'
      · exact hyx
      · exact hy.1 z hz'

theorem stableSort_sorted (key : ANode → String) (l : List ANode) : SortedBy key (stableSort key l) := by
  induction l with
  | nil => simp [stableSort, SortedBy]
  | cons x xs ih => exact insertSorted_sorted key x _ ih

/-- Stability: elements with equal keys keep their relative order — stated as: the sort leaves
an already sorted list unchanged. -/
theorem insertSorted_of_le_all (key : ANode → String) (x : ANode) (l : List ANode)
    (h : ∀ z ∈ l, key x ≤ key z) (hs : SortedBy key l) : insertSorted key x l = x :: l ∨ ∃ y ∈ l, key y = key x := by
  cases l with
  | nil => exact Or.inl rfl
  | cons y ys =>
    unfold insertSorted
    by_cases hlt : key x < key y
    · simp [hlt]
    · right
      have h1 : key x ≤ key y := h y (by simp)
      have h2 : key y ≤ key x := String.not_lt.mp hlt
      exact ⟨y, by simp, String.le_antisymm h2 h1⟩

end Typstyle
