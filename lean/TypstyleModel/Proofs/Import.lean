import TypstyleModel.Model.Printer.Code
/-! Import item ordering (`convert_import_items`): the stable sort is a sorted permutation. -/
namespace Typstyle

theorem insertSorted_perm (key : ANode → String) (x : ANode) (l : List ANode) :
    (insertSorted key x l).Perm (x :: l) := by
  induction l with
  | nil => exact List.Perm.refl _
  | cons y ys ih =>
    unfold insertSorted
    split
    · exact List.Perm.refl _
    · exact (List.Perm.cons y ih).trans (List.Perm.swap x y ys)

theorem stableSort_perm (key : ANode → String) (l : List ANode) : (stableSort key l).Perm l := by
  induction l with
  | nil => exact List.Perm.refl _
  | cons x xs ih =>
    show (insertSorted key x (stableSort key xs)).Perm (x :: xs)
    exact (insertSorted_perm key x _).trans (List.Perm.cons x ih)

/-- Sortedness: no element is followed (anywhere later) by one with a strictly smaller key. -/
def SortedBy (key : ANode → String) (l : List ANode) : Prop := l.Pairwise fun a b => key a ≤ key b

theorem insertSorted_mem (key : ANode → String) (x z : ANode) (l : List ANode) (h : z ∈ insertSorted key x l) :
    z = x ∨ z ∈ l := by
  have := (insertSorted_perm key x l).mem_iff.mp h
  simpa using this

theorem str_le_of_lt {a b : String} (h : a < b) : a ≤ b := by
  rcases String.le_total a b with h' | h'
  · exact h'
  · exact absurd h (String.not_lt.mpr h')

theorem insertSorted_sorted (key : ANode → String) (x : ANode) (l : List ANode) (h : SortedBy key l) :
    SortedBy key (insertSorted key x l) := by
  induction l with
  | nil => simp [insertSorted, SortedBy]
  | cons y ys ih =>
    unfold insertSorted
    have hy := List.pairwise_cons.mp h
    split
    · rename_i hxy
      refine List.pairwise_cons.mpr ⟨?_, h⟩
      intro z hz
      rcases List.mem_cons.mp hz with rfl | hz'
      · exact hxy
      · exact String.le_trans hxy (hy.1 z hz')
    · rename_i hnle
      have hyx : key y ≤ key x := by
        rcases String.le_total (key x) (key y) with h' | h'
        · exact absurd h' hnle
        · exact h'
      refine List.pairwise_cons.mpr ⟨?_, ih hy.2⟩
      intro z hz
      rcases insertSorted_mem key x z ys hz with rfl | hz'
      · exact hyx
      · exact hy.1 z hz'

theorem stableSort_sorted (key : ANode → String) (l : List ANode) : SortedBy key (stableSort key l) := by
  induction l with
  | nil => simp [stableSort, SortedBy]
  | cons x xs ih => exact insertSorted_sorted key x _ ih

/-- Stability and convergence: the sort leaves an already sorted list unchanged (elements with
equal keys keep their order; a second pass over sorted items changes nothing). -/
theorem stableSort_id_of_sorted (key : ANode → String) (l : List ANode) (h : SortedBy key l) :
    stableSort key l = l := by
  induction l with
  | nil => rfl
  | cons x xs ih =>
    have hx := List.pairwise_cons.mp h
    show insertSorted key x (stableSort key xs) = x :: xs
    rw [ih hx.2]
    cases xs with
    | nil => rfl
    | cons y ys =>
      unfold insertSorted
      simp [hx.1 y (by simp)]

/-- Sorting twice is sorting once. -/
theorem stableSort_idem (key : ANode → String) (l : List ANode) :
    stableSort key (stableSort key l) = stableSort key l :=
  stableSort_id_of_sorted key _ (stableSort_sorted key l)

end Typstyle
