import TypstyleModel.Proofs.FitNever
import TypstyleModel.Proofs.Monad
import TypstyleModel.Model.Printer.Code
/-! T1.4 (C01): `ListStylist::print_doc` prints both delimiters in **every** layout unless the style
allows leaving them out (`omit_delim_flat`, `omit_delim_single`, `omit_delim_empty`).  Consequence for
`convert_parenthesized`: the parentheses of `( expr )` survive at every width unless the body is a
literal, array, dictionary, destructuring or block without a comment. -/
namespace Typstyle
open Pretty (Lay Atom Mode)

/-- The layout starts with a layout of `a` and ends with a layout of `b`. -/
def Wrapped (a b : Pretty.Doc) (xs : List Atom) : Prop :=
  ∃ m0 m1 x0 mid x1, xs = x0 ++ mid ++ x1 ∧ Lay m0 a x0 ∧ Lay m1 b x1

theorem lay_grp_inv {m : Mode} {d : Pretty.Doc} {xs : List Atom} (h : Lay m d.grp xs) : ∃ m', Lay m' d xs := by
  unfold Pretty.Doc.grp at h
  split at h
  · exact ⟨m, h⟩
  · exact ⟨m, h⟩
  · split at h
    · exact ⟨m, h⟩
    · cases h with
      | groupSame h' => exact ⟨_, h'⟩
      | groupFlat h' => exact ⟨_, h'⟩
  · cases h with
    | groupSame h' => exact ⟨_, h'⟩
    | groupFlat h' => exact ⟨_, h'⟩

theorem wrapped_enclose {m : Mode} {d a b : Pretty.Doc} {xs : List Atom} (h : Lay m (d.enclose a b) xs) : Wrapped a b xs := by
  unfold Pretty.Doc.enclose at h
  obtain ⟨xad, xb, rfl, h1, h2⟩ := Pretty.lay_app' h
  obtain ⟨xa, xd, rfl, h3, _⟩ := Pretty.lay_app' h1
  exact ⟨m, m, xa, xd, xb, rfl, h3, h2⟩

theorem wrapped_grp {m : Mode} {d a b : Pretty.Doc} {xs : List Atom}
    (h : ∀ m' xs', Lay m' d xs' → Wrapped a b xs') (hl : Lay m d.grp xs) : Wrapped a b xs := by
  obtain ⟨m', h'⟩ := lay_grp_inv hl
  exact h m' xs h'

/-- Delimiters that carry an optional blank inside (`add_delim_space`). -/
theorem wrapped_enclose_spaced {m : Mode} {d a b sp : Pretty.Doc} {xs : List Atom}
    (h : Lay m (d.enclose (Pretty.Doc.falt a (a ++ sp)) (Pretty.Doc.falt b (sp ++ b))) xs) : Wrapped a b xs := by
  unfold Pretty.Doc.enclose at h
  obtain ⟨xad, xb, rfl, h1, h2⟩ := Pretty.lay_app' h
  obtain ⟨xa, xd, rfl, h3, _⟩ := Pretty.lay_app' h1
  cases h3 with
  | flatAltB ha =>
    cases h2 with
    | flatAltB hb => exact ⟨_, _, xa, xd, xb, rfl, ha, hb⟩
  | flatAltF ha =>
    cases h2 with
    | flatAltF hb =>
      obtain ⟨xa', xs1, rfl, ha', _⟩ := Pretty.lay_app' ha
      obtain ⟨xs2, xb', rfl, _, hb'⟩ := Pretty.lay_app' hb
      exact ⟨_, _, xa', xs1 ++ xd ++ xs2, xb', by simp, ha', hb'⟩

/-- **Both delimiters are printed in every layout** of a list whose style does not allow omitting them. -/
theorem print_wrapped (e : Env) (s : LS) (sty : ListStyle) (hF : sty.omitDelimFlat = false) (hS : sty.omitDelimSingle = false)
    (hE : sty.omitDelimEmpty = false) (u : Nat) (m : Mode) (xs : List Atom) (h : Lay m ((s.print e sty).fam u) xs) :
    Wrapped (sty.d0.fam u) (sty.d1.fam u) xs := by
  unfold LS.print at h
  simp only [hF, hS, hE, Bool.and_false, Bool.false_eq_true, ↓reduceIte, Bool.or_self] at h
  split at h
  · split at h
    · rw [Twin.fam_app, Twin.fam_app] at h
      obtain ⟨x0s, x1, rfl, h1, h2⟩ := Pretty.lay_app' h
      obtain ⟨x0, xsp, rfl, h3, _⟩ := Pretty.lay_app' h1
      exact ⟨_, _, x0, xsp, x1, rfl, h3, h2⟩
    · rw [Twin.fam_app] at h
      obtain ⟨x0, x1, rfl, h1, h2⟩ := Pretty.lay_app' h
      exact ⟨_, _, x0, [], x1, by simp, h1, h2⟩
  · split at h
    · exact wrapped_enclose (by rw [fam_enclose] at h; exact h)
    · split at h
      · exact wrapped_enclose (by rw [fam_enclose] at h; exact h)
      · exact wrapped_enclose (by rw [fam_enclose] at h; exact h)
    · split at h
      · rw [Twin.fam_grp] at h
        refine wrapped_grp (fun m' xs' h' => ?_) h
        rw [fam_enclose, Twin.fam_falt, Twin.fam_falt, Twin.fam_app, Twin.fam_app] at h'
        exact wrapped_enclose_spaced h'
      · exact wrapped_enclose (by rw [fam_enclose] at h; exact h)

end Typstyle

namespace Typstyle
open Pretty (Lay Atom Mode)

/-- The body of `( … )` is of a kind whose parentheses `convert_parenthesized` may drop. -/
def parenOmittable (n : ANode) : Bool :=
  match n.children.find? isExpr with
  | some x => x.kind.isLiteral || x.kind == .array || x.kind == .dict || x.kind == .destructuring
      || x.kind == .codeBlock || x.kind == .contentBlock
  | none => true

/-- **Parentheses are kept.**  Unless the body is itself parenthesised (one layer merges) or is a
literal, array, dictionary, destructuring or block — and in any case when a comment sits inside the
parentheses — every layout of `convert_parenthesized`, at every width and unit, starts with `(` and
ends with `)`. -/
theorem convParenthesized_keeps_parens (e : Env) (r : Rec) (ctx : Ctx) (n : ANode)
    (hnest : ∀ p, n.children.find? isPattern = some p → (p.kind == .parenthesized && !hasCommentChildren n) = false)
    (hkeep : (parenOmittable n && !hasCommentChildren n) = false) :
    Post (convParenthesized e r ctx n) (fun d => ∀ u m xs, Lay m (d.fam u) xs →
      Wrapped ((e.soft "(").fam u) ((e.soft ")").fam u) xs) := by
  unfold convParenthesized
  simp only
  refine Post.bind (Q := fun p => n.children.find? isPattern = some p) ?_ (fun p hp => ?_)
  · unfold childOr
    cases hf : n.children.find? isPattern with
    | none => exact Post.rejected _
    | some p => exact Post.pure rfl
  · rw [hnest p hp]
    simp only [Bool.false_eq_true, ↓reduceIte]
    refine Post.bind (Q := fun _ => True) (fun _ _ _ _ => trivial) (fun ls _ => Post.pure ?_)
    intro u m xs h
    refine print_wrapped e ls _ ?_ rfl rfl u m xs h
    show (_ && !hasCommentChildren n) = false
    unfold parenOmittable at hkeep
    cases hfe : n.children.find? isExpr with
    | none => rw [hfe] at hkeep; exact hkeep
    | some x => rw [hfe] at hkeep; exact hkeep

end Typstyle
