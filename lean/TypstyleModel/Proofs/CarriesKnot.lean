import TypstyleModel.Proofs.CarriesLists
import TypstyleModel.Proofs.CarriesMarkup
import TypstyleModel.Proofs.CarriesCall
import TypstyleModel.Proofs.CarriesRaw
import TypstyleModel.Proofs.CarriesDot
import TypstyleModel.Proofs.CarriesMath
import TypstyleModel.Proofs.CarriesMathArgs
import TypstyleModel.Proofs.CarriesImport
import TypstyleModel.Proofs.CarriesTable
/-! The knot (route M): **for every tree of the covered fragment, the printed family carries exactly
what the tree prescribes** — code tokens, comments, prose, literals and verbatim text — with no
per-case certificate: by induction over the fuel of the knot, using the per-construct theorems.

Two decidable fragments, defined by mutual recursion: `inFrag` for contexts that are not in math mode
and `inFragM` for math mode (`inFragMS`: a sequence of children in math mode; the flag says that the
previous sibling is `#`, so the child is converted in code mode and must lie in `inFrag`).
`inFrag` covers: identifier, literal and prose leaves; unary and binary expressions (operator chains,
`not in`); field access and method chains; calls and argument lists, `table`/`grid` included; `set`,
`show`, `let`, destructuring, closures and parameter lists; `context`, `if`, `while`, `for`, `return`,
`break`, `continue`, `include`, `import` (items in order, or not sorted); named, keyed, spread; arrays,
dictionaries, parentheses (nested too), code blocks (empty or marked bodies too); markup, content blocks,
strong/emphasis, headings, list/enum/term items, raw, references, equations; any expression node marked
`@typstyle off`; comments, keywords, `#` and white space anywhere.  `inFragM` covers: math leaves,
attachments, roots, fractions, primes, delimited groups, nested and empty bodies, field access, calls with
one- or two-dimensional arguments (rows may hold `#` code).  What is not covered is listed in DESIGN.md
§0.2; for those trees the per-case certificates remain the deciding check. -/
namespace Typstyle
open Twin

/-! ### leaves -/

/-- Expression leaves that are printed from their own text with the tag `leafTag` gives them. -/
def Kind.isFragLeaf (k : Kind) : Bool := (leafTag k).isSome && k.isExpr

def fragTag (k : Kind) : Pretty.Tag := (leafTag k).getD .tok

theorem specAll_frag_leaf (k : Kind) (t : String) (a : Attrs) (h : k.isFragLeaf = true) :
    specAll (.leaf k t a) = tagS (fragTag k) t := by
  cases k <;> simp [Kind.isFragLeaf, leafTag, Kind.isExpr] at h <;>
    (apply Streams.ext' <;> simp [specAll, specToks, specCmts, specProse, specLit, specVerb, isCommentKind, tagS, Pretty.charsOf,
      Pretty.keepOf, leafTag, fragTag, Kind.isExpr])

theorem convExprImpl_frag_leaf (e : Env) (r : Rec) (ctx : Ctx) (k : Kind) (t : String) (a : Attrs) (h : k.isFragLeaf = true) :
    convExprImpl e r ctx (.leaf k t a) = pure (Twin.mkText e.wd (fragTag k) t) := by
  cases k <;> simp [Kind.isFragLeaf, leafTag, Kind.isExpr] at h <;> rfl

theorem verbNode_frag_leaf (e : Env) (k : Kind) (t : String) (a : Attrs) (h : k.isFragLeaf = true) :
    e.verbNode (.leaf k t a) = Twin.mkText e.wd (fragTag k) t := by
  cases k <;> simp [Kind.isFragLeaf, leafTag, Kind.isExpr] at h <;> rfl

/-! ### verbatim emission -/

/-! ### the fragment -/

/-- Expression kinds laid out by the flow stylist. -/
def Kind.isFragFlow : Kind → Bool
  | .unary | .letBinding | .destructAssignment | .showRule | .contextual | .conditional | .whileLoop | .funcReturn
  | .moduleInclude => true
  | _ => false

/-- Elements of dictionaries and arrays (not expressions themselves). -/
def Kind.isFragElem : Kind → Bool
  | .named | .keyed | .spread => true
  | _ => false

/-- Expression kinds laid out by the list stylist. -/
def Kind.isFragList : Kind → Bool
  | .array | .dict | .parenthesized | .codeBlock => true
  | _ => false

/-- Markup constructs: a `Markup` body between two fixed delimiters (content block, strong, emphasis), and
the flow constructs of markup (heading, list/enum/term item). -/
def Kind.isFragWrap : Kind → Bool
  | .contentBlock | .strong | .emph => true
  | _ => false
def Kind.isFragItem : Kind → Bool
  | .heading | .listItem | .enumItem | .termItem => true
  | _ => false

/-- A child the list stylist passes over: a comment, white space, or a delimiter/separator. -/
def isPassable (x : ANode) : Bool := isCommentKind x.kind || isIgnorable x

/-- The children of a list-like node of kind `k` are what that construct handles (no `#`; nothing the
list stylist would drop silently). -/
def listChildrenOK (k : Kind) (cs : List ANode) : Bool :=
  match k with
  | .array => ((cs.head?.map (·.kind == .leftParen)).getD false) &&
      cs.all fun x => x.kind == .spread || isExpr x || isPassable x
  | .dict => cs.all fun x => x.kind == .named || x.kind == .keyed || x.kind == .spread || isPassable x
  | .parenthesized =>
      (cs.all fun x => isPattern x || isPassable x) &&
      -- directly nested parentheses `((x))` merge into one layer: the inner layer is printed alone
      (match cs.find? isPattern with
        | some p =>
          if p.kind == .parenthesized && !(cs.any fun c => isCommentKind c.kind) then
            !p.attrs.disabled && (cs.filter fun x => !isIgnorable x).length == 1
          else true
        | none => true)
  | .codeBlock => cs.all fun c =>
      if c.kind == .code then
        (match c with
          | .inner _ ccs ca => !ca.disabled && ccs.all fun x => isExpr x || isPassable x
          | .leaf _ t ca => !ca.disabled && t == "")
      else isPassable c
  | .contentBlock => cs.map (·.kind) == [.leftBracket, .markup, .rightBracket]
  | .strong => cs.map (·.kind) == [.star, .markup, .star]
  | .emph => cs.map (·.kind) == [.underscore, .markup, .underscore]
  | .markup => cs.all fun x => x.kind == .space || x.kind == .parbreak || x.kind == .text || isExpr x || isCommentKind x.kind || x.kind.isPlainToken
  | .args =>
      -- code mode: `( items )` then trailing content blocks, or content blocks only
      if (cs.head?.map (·.kind == .leftParen)).getD false then
        (cs.takeWhile (·.kind != .rightParen)).all (fun x => isArg x || isPassable x) &&
        (match cs.dropWhile (·.kind != .rightParen) with
          | _ :: blocks => blocks.all isBlockShape
          | [] => false)
      else cs.all isBlockShape
  | .params | .destructuring => cs.all fun x => isParam x || isPassable x
  | .raw => cs.all rawChildOK
  | .ref =>
      (match cs with
        | [.leaf .refMarker t _] => refMarkerOK t
        | [.leaf .refMarker t _, b] => refMarkerOK t && isBlockShape b
        | _ => false)
  | .funcCall =>
      -- callee and arguments; `table`/`grid` are laid out by other code
      (match cs with
        | [callee, args] => chainHeadOK callee && args.kind == .args
        | _ => false)
  | _ => false

/-- Shape of an equation's children after the opening `$`: body, white space, comments, closing `$`. -/
def eqRestB : List ANode → Bool
  | [] => false
  | c :: cs => if cs.isEmpty then c.kind == .dollar
      else (c.kind == .math || c.kind == .space || isCommentKind c.kind) && eqRestB cs

def eqShapeB (cs : List ANode) : Bool :=
  match cs with
  | d0 :: rest => d0.kind == .dollar && eqRestB rest
  | [] => false

/-- Shape of a `MathDelimited`: opening and closing delimiter, between them bodies, white space, comments. -/
def delimShapeB (cs : List ANode) : Bool :=
  match cs with
  | c0 :: rest =>
    (match rest.getLast? with
      | some c1 => isExpr c0 && isExpr c1 &&
          rest.dropLast.all (fun c => c.kind == .math || c.kind == .space || isCommentKind c.kind)
      | none => false)
  | [] => false

def isSpK (c : ANode) : Bool := c.kind == .space
/-- The trailing white space of a list, and the list without it. -/
def trailSp (l : List ANode) : List ANode := (l.reverse.takeWhile isSpK).reverse
def dropTrail (l : List ANode) : List ANode := (l.reverse.dropWhile isSpK).reverse

theorem dropTrail_append_trailSp (l : List ANode) : dropTrail l ++ trailSp l = l := by
  unfold dropTrail trailSp
  rw [← List.reverse_append, List.takeWhile_append_dropWhile, List.reverse_reverse]

/-- Shape of the arguments of a call in math: `(`, white space, content, white space, `)`. -/
def mathArgsShapeB (acs : List ANode) : Bool :=
  match acs with
  | lp :: rest =>
    lp.kind == .leftParen &&
    (match rest.getLast? with
      | some rp => rp.kind == .rightParen &&
          (rest.dropLast.takeWhile isSpK).all isSpK &&
          (trailSp (rest.dropLast.dropWhile isSpK)).all isSpK &&
          ((dropTrail (rest.dropLast.dropWhile isSpK)).head?.map (fun c => !(c.kind == .leftParen || c.kind == .space))).getD true &&
          ((dropTrail (rest.dropLast.dropWhile isSpK)).getLast?.map (fun c => !(c.kind == .rightParen || c.kind == .space))).getD true &&
          (!(dropTrail (rest.dropLast.dropWhile isSpK)).isEmpty || (trailSp (rest.dropLast.dropWhile isSpK)).isEmpty)
      | none => false)
  | [] => false

/-- Shape of a call in math: callee (not a field access) and parenthesised arguments. -/
def mathCallShapeB (cs : List ANode) : Bool :=
  match cs with
  | [callee, args] => isExpr callee && !(callee.kind == .fieldAccess) &&
      (match args with
        | .inner .args acs _ => mathArgsShapeB acs
        | _ => false)
  | _ => false

/-- Shape of a row of two-dimensional math arguments: an array without parentheses. -/
def rowShapeB (cs : List ANode) : Bool :=
  !((cs.head?.map (·.kind == .leftParen)).getD false) &&
  cs.all (fun x => isExpr x || isCommentKind x.kind || isIgnorable x || x.kind == .hash) &&
  hashSeqB false cs

/-- Shape of an import statement: the flattened item list holds items, comments and separators only, and
the items are already in the order the printer would give them (or are not sorted at all). -/
def importShapeB (cs : List ANode) : Bool :=
  (importFlattened cs).all (fun x => isImportItem x || isCommentKind x.kind || isIgnorable x) &&
  (sortedB importSortKey ((importFlattened cs).filter isImportItem) || !importSortable (importFlattened cs))

/-- The body of the code block is marked `@typstyle off`: the whole block is emitted verbatim. -/
def codeBodyDisabled (cs : List ANode) : Bool := ((cs.find? (·.kind == .code)).map (·.attrs.disabled)).getD false

/-- `break` / `continue`: one keyword leaf. -/
def loopShapeB (cs : List ANode) : Bool :=
  match cs with
  | [.leaf kk _ _] => kk == .break_ || kk == .continue_
  | _ => false

def Kind.isImportPart : Kind → Bool
  | .importItemPath | .renamedImportItem | .importItems => true
  | _ => false

def Kind.isMathFlow : Kind → Bool
  | .mathAttach | .mathRoot | .mathFrac => true
  | _ => false

mutual
/-- The covered fragment (decidable), for contexts that are not in math mode. -/
def inFrag : ANode → Bool
  | .leaf k t a => ANode.tokensAreLeaves (.leaf k t a) && (!k.isExpr || k.isFragLeaf || (k == .parbreak && !a.disabled) || k == .none_ || k == .auto_) && (!k.isInnerKind || ((k == .markup || k == .code || k == .importItems) && t == ""))
  | .inner k cs _ =>
    ((k.isFragFlow || k.isFragElem || (k.isFragList && listChildrenOK k cs) || k == .code ||
      ((k.isFragWrap || k == .markup || k == .args || k == .funcCall || k == .params || k == .destructuring || k == .raw || k == .ref) && listChildrenOK k cs) || k.isFragItem || k == .setRule || k == .closure || k == .forLoop || (k == .binary && binChildrenOK cs) || (k == .fieldAccess && dotChildrenOK cs) || k.isImportPart || (k == .moduleImport && importShapeB cs) || ((k == .loopBreak || k == .loopContinue) && loopShapeB cs) || (k == .codeBlock && codeBodyDisabled cs)) || (k == .equation && eqShapeB cs)) &&
      (if k == .equation then inFragEq cs else inFragL cs)
def inFragL : List ANode → Bool
  | [] => true
  | c :: cs => inFrag c && inFragL cs
/-- The children of an equation: the body is converted in math mode. -/
def inFragEq : List ANode → Bool
  | [] => true
  | c :: cs => (if c.kind == .math then inFragM c else inFrag c) && inFragEq cs
/-- The covered fragment for math mode. -/
def inFragM : ANode → Bool
  | .leaf k t a => ANode.tokensAreLeaves (.leaf k t a) && (!k.isExpr || k.isFragLeaf || (k == .parbreak && !a.disabled) || k == .none_ || k == .auto_ || k == .math || k == .array) && (!k.isInnerKind || ((k == .markup || k == .code || k == .importItems || k == .math || k == .array) && t == ""))
  | .inner k cs _ =>
    if k == .funcCall then mathCallShapeB cs && inFragMCallL cs else
    (k.isMathFlow || k == .math || (k == .mathPrimes && cs.all (fun c => c.kind == .prime)) ||
      (k == .mathDelimited && delimShapeB cs) || (k == .array && rowShapeB cs) ||
      (k == .fieldAccess && dotChildrenOK cs && !(cs.any fun c => isCommentKind c.kind))) && inFragMS false cs
/-- The children of a call in math mode: the callee, and the arguments (a math sequence). -/
def inFragMCallL : List ANode → Bool
  | [] => true
  | (.inner .args acs _) :: cs => inFragMA false acs && inFragMCallL cs
  | c :: cs => inFragM c && inFragMCallL cs
/-- The children of the argument list of a call in math mode: a math sequence in which named and spread
arguments may occur; their children are a math sequence again (without a bare `_`). -/
def inFragMA : Bool → List ANode → Bool
  | _, [] => true
  | hh, c :: cs =>
    (if c.kind == .named || c.kind == .spread then
      (match c with
        | .inner _ ccs _ => !hh && inFragMS false ccs && ccs.all (fun x => x.kind != .underscore)
        | .leaf _ _ _ => false)
     else if isExpr c then (if hh then inFrag c else inFragM c)
     else ANode.tokensAreLeaves c && (c.kind == .space || c.kind == .hash || isCommentKind c.kind || c.kind.isPlainToken || c.kind == .underscore)) &&
    inFragMA (c.kind == .hash) cs
/-- A sequence of children converted in math mode; the flag: the previous sibling is `#`, so the child is
converted in code mode. -/
def inFragMS : Bool → List ANode → Bool
  | _, [] => true
  | hh, c :: cs =>
    (if isExpr c then (if hh then inFrag c else inFragM c)
     else ANode.tokensAreLeaves c && (c.kind == .space || c.kind == .hash || isCommentKind c.kind || c.kind.isPlainToken || c.kind == .underscore)) &&
    inFragMS (c.kind == .hash) cs
end

theorem inFragM_inner_call (cs : List ANode) (a : Attrs) :
    inFragM (.inner .funcCall cs a) = (mathCallShapeB cs && inFragMCallL cs) := by
  simp [inFragM]

theorem inFragM_inner_ne (k : Kind) (cs : List ANode) (a : Attrs) (hk : k ≠ .funcCall) :
    inFragM (.inner k cs a) =
      ((k.isMathFlow || k == .math || (k == .mathPrimes && cs.all (fun c => c.kind == .prime)) ||
        (k == .mathDelimited && delimShapeB cs) || (k == .array && rowShapeB cs) ||
      (k == .fieldAccess && dotChildrenOK cs && !(cs.any fun c => isCommentKind c.kind))) && inFragMS false cs) := by
  have : (k == Kind.funcCall) = false := by simpa using hk
  simp only [inFragM, this, Bool.false_eq_true, ↓reduceIte]

theorem inFrag_inner_eq (cs : List ANode) (a : Attrs) :
    inFrag (.inner .equation cs a) = (eqShapeB cs && inFragEq cs) := by
  simp (config := { decide := true }) [inFrag, Kind.isFragFlow, Kind.isFragElem, Kind.isFragList, Kind.isFragWrap, Kind.isFragItem, Kind.isImportPart, listChildrenOK]
  rfl

theorem inFrag_inner_ne (k : Kind) (cs : List ANode) (a : Attrs) (hk : k ≠ .equation) :
    inFrag (.inner k cs a) =
      ((k.isFragFlow || k.isFragElem || (k.isFragList && listChildrenOK k cs) || k == .code ||
      ((k.isFragWrap || k == .markup || k == .args || k == .funcCall || k == .params || k == .destructuring || k == .raw || k == .ref) && listChildrenOK k cs) || k.isFragItem || k == .setRule || k == .closure || k == .forLoop || (k == .binary && binChildrenOK cs) || (k == .fieldAccess && dotChildrenOK cs) || k.isImportPart || (k == .moduleImport && importShapeB cs) || ((k == .loopBreak || k == .loopContinue) && loopShapeB cs) || (k == .codeBlock && codeBodyDisabled cs)) && inFragL cs) := by
  have : (k == Kind.equation) = false := by simpa using hk
  simp only [inFrag, this, Bool.false_and, Bool.or_false, Bool.false_eq_true, ↓reduceIte]

theorem fragKind_inner (k : Kind) (cs : List ANode)
    (h : (k.isFragFlow || k.isFragElem || (k.isFragList && listChildrenOK k cs) || k == .code ||
      ((k.isFragWrap || k == .markup || k == .args || k == .funcCall || k == .params || k == .destructuring || k == .raw || k == .ref) && listChildrenOK k cs) || k.isFragItem || k == .setRule || k == .closure || k == .forLoop || (k == .binary && binChildrenOK cs) || (k == .fieldAccess && dotChildrenOK cs) || k.isImportPart || (k == .moduleImport && importShapeB cs) || ((k == .loopBreak || k == .loopContinue) && loopShapeB cs) || (k == .codeBlock && codeBodyDisabled cs)) = true) : k.isInnerKind = true := by
  cases k <;> simp_all [Kind.isFragFlow, Kind.isFragElem, Kind.isFragList, Kind.isFragWrap, Kind.isFragItem, Kind.isImportPart, Kind.isInnerKind]

mutual
theorem inFrag_lex : (n : ANode) → inFrag n = true → ANode.tokensAreLeaves n = true
  | .leaf k t a, h => by
    simp only [inFrag, Bool.and_eq_true] at h; exact h.1.1
  | .inner k cs a, h => by
    by_cases hk : k = .equation
    · subst hk
      rw [inFrag_inner_eq] at h
      simp only [Bool.and_eq_true] at h
      simp only [ANode.tokensAreLeaves, Bool.and_eq_true]
      exact ⟨rfl, inFragEq_lex cs h.2⟩
    · rw [inFrag_inner_ne k cs a hk] at h
      simp only [Bool.and_eq_true] at h
      simp only [ANode.tokensAreLeaves, Bool.and_eq_true]
      exact ⟨fragKind_inner k cs h.1, inFragL_lex cs h.2⟩
theorem inFragL_lex : (cs : List ANode) → inFragL cs = true → ANode.tokensAreLeavesL cs = true
  | [], _ => rfl
  | c :: cs, h => by
    simp only [inFragL, Bool.and_eq_true] at h
    simp only [ANode.tokensAreLeavesL, Bool.and_eq_true]
    exact ⟨inFrag_lex c h.1, inFragL_lex cs h.2⟩
theorem inFragEq_lex : (cs : List ANode) → inFragEq cs = true → ANode.tokensAreLeavesL cs = true
  | [], _ => rfl
  | c :: cs, h => by
    simp only [inFragEq, Bool.and_eq_true] at h
    simp only [ANode.tokensAreLeavesL, Bool.and_eq_true]
    refine ⟨?_, inFragEq_lex cs h.2⟩
    have h1 := h.1
    split at h1
    · exact inFragM_lex c h1
    · exact inFrag_lex c h1
theorem inFragM_lex : (n : ANode) → inFragM n = true → ANode.tokensAreLeaves n = true
  | .leaf k t a, h => by
    simp only [inFragM, Bool.and_eq_true] at h; exact h.1.1
  | .inner k cs a, h => by
    by_cases hk : k = .funcCall
    · subst hk
      rw [inFragM_inner_call] at h
      simp only [Bool.and_eq_true] at h
      simp only [ANode.tokensAreLeaves, Bool.and_eq_true]
      exact ⟨rfl, inFragMCallL_lex cs h.2⟩
    · rw [inFragM_inner_ne k cs a hk] at h
      simp only [Bool.and_eq_true] at h
      simp only [ANode.tokensAreLeaves, Bool.and_eq_true]
      refine ⟨?_, inFragMS_lex false cs h.2⟩
      have h1 := h.1
      cases k <;> simp_all [Kind.isMathFlow, Kind.isInnerKind]
theorem inFragMCallL_lex : (cs : List ANode) → inFragMCallL cs = true → ANode.tokensAreLeavesL cs = true
  | [], _ => rfl
  | (.inner .args acs aa) :: cs, h => by
    simp only [inFragMCallL, Bool.and_eq_true] at h
    simp only [ANode.tokensAreLeavesL, ANode.tokensAreLeaves, Bool.and_eq_true]
    exact ⟨⟨rfl, inFragMA_lex false acs h.1⟩, inFragMCallL_lex cs h.2⟩
  | (.leaf k t a) :: cs, h => by
    simp only [inFragMCallL, Bool.and_eq_true] at h
    simp only [ANode.tokensAreLeavesL, Bool.and_eq_true]
    exact ⟨inFragM_lex _ h.1, inFragMCallL_lex cs h.2⟩
  | (.inner k ics a) :: cs, h => by
    by_cases hk : k = .args
    · subst hk
      simp only [inFragMCallL, Bool.and_eq_true] at h
      simp only [ANode.tokensAreLeavesL, ANode.tokensAreLeaves, Bool.and_eq_true]
      exact ⟨⟨rfl, inFragMA_lex false ics h.1⟩, inFragMCallL_lex cs h.2⟩
    · have he : inFragMCallL (.inner k ics a :: cs) = (inFragM (.inner k ics a) && inFragMCallL cs) := by
        cases k <;> first | exact absurd rfl hk | rfl
      rw [he] at h
      simp only [Bool.and_eq_true] at h
      simp only [ANode.tokensAreLeavesL, Bool.and_eq_true]
      exact ⟨inFragM_lex _ h.1, inFragMCallL_lex cs h.2⟩
theorem inFragMS_lex : (hh : Bool) → (cs : List ANode) → inFragMS hh cs = true → ANode.tokensAreLeavesL cs = true
  | _, [], _ => rfl
  | hh, c :: cs, h => by
    simp only [inFragMS, Bool.and_eq_true] at h
    simp only [ANode.tokensAreLeavesL, Bool.and_eq_true]
    refine ⟨?_, inFragMS_lex _ cs h.2⟩
    have h1 := h.1
    split at h1
    · split at h1
      · exact inFrag_lex c h1
      · exact inFragM_lex c h1
    · simp only [Bool.and_eq_true] at h1; exact h1.1
theorem inFragMA_lex : (hh : Bool) → (cs : List ANode) → inFragMA hh cs = true → ANode.tokensAreLeavesL cs = true
  | _, [], _ => rfl
  | hh, (.leaf k t a) :: cs, h => by
    simp only [inFragMA, Bool.and_eq_true] at h
    simp only [ANode.tokensAreLeavesL, Bool.and_eq_true]
    refine ⟨?_, inFragMA_lex _ cs h.2⟩
    have h1 := h.1
    split at h1
    · cases h1
    · split at h1
      · split at h1
        · exact inFrag_lex _ h1
        · exact inFragM_lex _ h1
      · simp only [Bool.and_eq_true] at h1; exact h1.1
  | hh, (.inner k ccs a) :: cs, h => by
    simp only [inFragMA, Bool.and_eq_true] at h
    simp only [ANode.tokensAreLeavesL, Bool.and_eq_true]
    refine ⟨?_, inFragMA_lex _ cs h.2⟩
    have h1 := h.1
    split at h1
    · rename_i hk
      simp only [Bool.and_eq_true] at h1
      simp only [ANode.tokensAreLeaves, Bool.and_eq_true]
      refine ⟨?_, inFragMS_lex false ccs h1.1.2⟩
      simp only [ANode.kind, Bool.or_eq_true, beq_iff_eq] at hk
      rcases hk with hk | hk <;> (rw [hk]; rfl)
    · split at h1
      · split at h1
        · exact inFrag_lex _ h1
        · exact inFragM_lex _ h1
      · simp only [Bool.and_eq_true] at h1; exact h1.1
end

theorem inFragL_mem {cs : List ANode} (h : inFragL cs = true) {c : ANode} (hc : c ∈ cs) : inFrag c = true := by
  induction cs with
  | nil => cases hc
  | cons x xs ih =>
    simp only [inFragL, Bool.and_eq_true] at h
    rcases List.mem_cons.mp hc with rfl | h'
    · exact h.1
    · exact ih h.2 h'

theorem inFragL_append (a b : List ANode) : inFragL (a ++ b) = (inFragL a && inFragL b) := by
  induction a with
  | nil => simp [inFragL]
  | cons x xs ih => simp only [List.cons_append, inFragL, ih, Bool.and_assoc]

abbrev Q : ANode → Prop := fun c => inFrag c = true
abbrev QM : ANode → Prop := fun c => inFragM c = true

theorem inFragMS_seq (cs : List ANode) : ∀ hh, inFragMS hh cs = true → MathSeqOK Q QM hh cs := by
  induction cs with
  | nil => intro _ _; trivial
  | cons c cs ih =>
    intro hh h
    simp only [inFragMS, Bool.and_eq_true] at h
    have hlexL := inFragMS_lex hh (c :: cs) (by simp only [inFragMS, Bool.and_eq_true]; exact h)
    simp only [ANode.tokensAreLeavesL, Bool.and_eq_true] at hlexL
    refine ⟨hlexL.1, ?_, ih _ h.2⟩
    have h1 := h.1
    by_cases hx : isExpr c = true
    · simp only [hx, ↓reduceIte] at h1 ⊢
      cases hh with
      | true => simpa using h1
      | false => simpa using h1
    · simp only [hx, Bool.false_eq_true, ↓reduceIte, Bool.and_eq_true, Bool.or_eq_true, beq_iff_eq] at h1 ⊢
      rcases h1.2 with (((h2 | h2) | h2) | h2) | h2
      · exact Or.inl h2
      · exact Or.inr (Or.inl h2)
      · exact Or.inr (Or.inr (Or.inl h2))
      · exact Or.inr (Or.inr (Or.inr (Or.inl h2)))
      · exact Or.inr (Or.inr (Or.inr (Or.inr h2)))


theorem inFragMA_step (ctx : Ctx) (hm : ctx.mode = .math) (c : ANode) (hh : Bool)
    (h1 : (if isExpr c then (if hh then inFrag c else inFragM c)
      else ANode.tokensAreLeaves c && (c.kind == .space || c.kind == .hash || isCommentKind c.kind || c.kind.isPlainToken || c.kind == .underscore)) = true) :
    flowTakes c ∨ okA Q QM (ctx.withModeIf .code hh) c := by
  have hone : inFragMS hh [c] = true := by
    simp only [inFragMS, Bool.and_true]
    exact h1
  have := mathSeq_okSeq ctx hm [c] hh (inFragMS_seq [c] hh hone)
  rcases this.1 with ht | ho
  · exact Or.inl ht
  · exact Or.inr (Or.inr ho)

/-- The children of an argument list in math mode are acceptable to `convert_args_in_math`'s producer. -/
theorem inFragMA_okSeq (ctx : Ctx) (hm : ctx.mode = .math) (cs : List ANode) :
    ∀ hh, inFragMA hh cs = true → okSeq (okA Q QM) ctx hh cs := by
  induction cs with
  | nil => intro _ _; trivial
  | cons c cs ih =>
    intro hh h
    cases c with
    | leaf k t a =>
      simp only [inFragMA, Bool.and_eq_true] at h
      refine ⟨?_, ih _ h.2⟩
      have h1 := h.1
      by_cases hk : (k == .named || k == .spread) = true
      · simp only [ANode.kind, hk, ↓reduceIte] at h1; cases h1
      · simp only [ANode.kind, hk, Bool.false_eq_true, ↓reduceIte] at h1
        exact inFragMA_step ctx hm _ hh h1
    | inner k ccs a =>
      simp only [inFragMA, Bool.and_eq_true] at h
      refine ⟨?_, ih _ h.2⟩
      have h1 := h.1
      by_cases hk : (k == .named || k == .spread) = true
      · simp only [ANode.kind, hk, ↓reduceIte, Bool.and_eq_true, Bool.not_eq_true'] at h1
        obtain ⟨⟨hhf, hms⟩, hnu⟩ := h1
        subst hhf
        right; left
        refine ⟨by simpa [Ctx.withModeIf] using hm, k, ccs, a, rfl, ?_, inFragMS_lex false ccs hms, inFragMS_seq ccs false hms, ?_⟩
        · simpa using hk
        · intro x hx heq
          have := List.all_eq_true.mp hnu x hx
          cases x <;> simp_all [ANode.kind]
      · simp only [ANode.kind, hk, Bool.false_eq_true, ↓reduceIte] at h1
        exact inFragMA_step ctx hm _ hh h1

theorem inFragM_math_inner (c : ANode) (hk : c.kind = .math) (hq : inFragM c = true) :
    (∃ mcs a, c = .inner .math mcs a) ∨ (∃ a, c = .leaf .math "" a) := by
  cases c with
  | leaf k t a =>
    simp only [ANode.kind] at hk; subst hk
    right
    have : t = "" := by
      have h := hq
      simp [inFragM, Kind.isInnerKind] at h
      exact h.2
    subst this
    exact ⟨a, rfl⟩
  | inner k mcs a => simp only [ANode.kind] at hk; subst hk; exact Or.inl ⟨mcs, a, rfl⟩

theorem expr_not_hash {c : ANode} (h : isExpr c = true) : (c.kind == .hash) = false := by
  have : c.kind.isExpr = true := h
  cases hk : c.kind <;> simp_all [Kind.isExpr]

theorem inFragMS_nohash (l : List ANode) (h : inFragMS false l = true) (hnh : ∀ c ∈ l, (c.kind == .hash) = false) :
    ∀ c ∈ l, ANode.tokensAreLeaves c = true ∧ (isExpr c = true → inFragM c = true) := by
  induction l with
  | nil => intro c hc; cases hc
  | cons x xs ih =>
    intro c hc
    have hlexL := inFragMS_lex false (x :: xs) h
    simp only [ANode.tokensAreLeavesL, Bool.and_eq_true] at hlexL
    simp only [inFragMS, Bool.and_eq_true] at h
    rcases List.mem_cons.mp hc with rfl | hc'
    · refine ⟨hlexL.1, fun hx => ?_⟩
      have h1 := h.1
      simpa [hx] using h1
    · have h2 := h.2
      rw [hnh x List.mem_cons_self] at h2
      exact ih h2 (fun y hy => hnh y (List.mem_cons_of_mem _ hy)) c hc'

theorem eqRest_of (rest : List ANode) : eqRestB rest = true → inFragEq rest = true → EqRest QM rest := by
  induction rest with
  | nil => intro h _; simp [eqRestB] at h
  | cons c cs ih =>
    intro hs hq
    simp only [eqRestB] at hs
    simp only [inFragEq, Bool.and_eq_true] at hq
    have hlex : ANode.tokensAreLeaves c = true := by
      have h1 := hq.1
      split at h1
      · exact inFragM_lex c h1
      · exact inFrag_lex c h1
    refine ⟨hlex, ?_⟩
    by_cases hnil : cs = []
    · subst hnil
      simp only [List.isEmpty_nil, ↓reduceIte, beq_iff_eq] at hs
      exact Or.inl ⟨rfl, hs⟩
    · have hne : cs.isEmpty = false := by cases cs <;> simp_all
      simp only [hne, Bool.false_eq_true, ↓reduceIte, Bool.and_eq_true, Bool.or_eq_true, beq_iff_eq] at hs
      refine Or.inr ⟨hnil, ?_, ih hs.2 hq.2⟩
      rcases hs.1 with (hk | hk) | hk
      · have h1 := hq.1
        simp only [hk, beq_self_eq_true, ↓reduceIte] at h1
        exact Or.inl ⟨hk, inFragM_math_inner c hk h1, h1⟩
      · exact Or.inr (Or.inl hk)
      · exact Or.inr (Or.inr hk)

theorem dotQ_frag : DotQ Q where
  leaf := by
    intro k t a h
    constructor <;> (intro hk; subst hk; simp [Q, inFrag, Kind.isInnerKind] at h)
  access := by
    intro cs a h _
    simp only [Q] at h
    rw [inFrag_inner_ne _ _ _ (by decide)] at h
    simp only [Bool.and_eq_true] at h
    have h1 := h.1
    simp [Kind.isFragFlow, Kind.isFragElem, Kind.isFragList, Kind.isFragWrap, Kind.isFragItem, Kind.isImportPart] at h1
    exact ⟨h1, inFragL_lex cs h.2, fun c hc => inFragL_mem h.2 hc⟩
  call := by
    intro cs a h _
    simp only [Q] at h
    rw [inFrag_inner_ne _ _ _ (by decide)] at h
    simp only [Bool.and_eq_true] at h
    have h1 := h.1
    simp [Kind.isFragFlow, Kind.isFragElem, Kind.isFragList, Kind.isFragWrap, Kind.isFragItem, Kind.isImportPart] at h1
    simp only [listChildrenOK] at h1
    rcases cs with _ | ⟨callee, _ | ⟨args, _ | ⟨c2, rest⟩⟩⟩ <;> simp only [Bool.false_eq_true] at h1
    simp only [Bool.and_eq_true, Bool.not_eq_true', beq_iff_eq] at h1
    have hqs := h.2
    simp only [inFragL, Bool.and_eq_true] at hqs
    exact ⟨callee, args, rfl, h1.1, h1.2, inFrag_lex _ hqs.1, hqs.1, hqs.2.1⟩

theorem impQ_frag : ImpQ Q where
  inner := by
    intro x hq hi
    unfold isImportItem at hi
    simp only [Bool.or_eq_true, beq_iff_eq] at hi
    cases x with
    | leaf k t a =>
      simp only [ANode.kind] at hi
      rcases hi with rfl | rfl <;> simp [Q, inFrag, Kind.isInnerKind] at hq
    | inner k ics ia =>
      simp only [ANode.kind] at hi
      have hne : k ≠ .equation := by rcases hi with rfl | rfl <;> decide
      simp only [Q] at hq
      rw [inFrag_inner_ne _ _ _ hne] at hq
      simp only [Bool.and_eq_true] at hq
      exact ⟨ics, ia, rfl, inFragL_lex ics hq.2, fun c hc => inFragL_mem hq.2 hc⟩

/-- The flattened item list of an import statement whose children lie in the fragment lies in it. -/
theorem importFlattened_frag (cs : List ANode) (hq : inFragL cs = true) : ∀ x ∈ importFlattened cs, inFrag x = true := by
  intro x hx
  unfold importFlattened at hx
  simp only at hx
  obtain ⟨c, hc, hxc⟩ := List.mem_flatMap.mp hx
  have hcm : c ∈ cs := List.mem_of_mem_drop hc
  have hcq := inFragL_mem hq hcm
  split at hxc
  · rename_i hk
    cases c with
    | leaf k' t' a' => simp [ANode.children] at hxc
    | inner k' ics ia =>
      simp only [ANode.kind, beq_iff_eq] at hk; subst hk
      rw [inFrag_inner_ne _ _ _ (by decide)] at hcq
      simp only [Bool.and_eq_true] at hcq
      exact inFragL_mem hcq.2 hxc
  · have : x = c := by simpa using hxc
    rw [this]; exact hcq

theorem binQ_frag : BinQ Q where
  leaf := by
    intro k t a h hk
    subst hk
    simp [Q, inFrag, Kind.isInnerKind] at h
  inner := by
    intro cs a h _
    simp only [Q] at h
    rw [inFrag_inner_ne _ _ _ (by decide)] at h
    simp only [Bool.and_eq_true] at h
    have h1 := h.1
    simp [Kind.isFragFlow, Kind.isFragElem, Kind.isFragList, Kind.isFragWrap, Kind.isFragItem, Kind.isImportPart] at h1
    exact ⟨h1, inFragL_lex cs h.2, fun c hc => inFragL_mem h.2 hc⟩

/-! ### elements: named, keyed, spread -/

theorem elem_carries {σ : Type} (e : Env) (r : Rec) (ctx : Ctx) (hctx : NM ctx) (x : ANode) (hq : inFrag x = true) (hk : x.kind.isFragElem = true)
    (st : σ) (producer : σ → Ctx → ANode → M (σ × Option FlowItem)) (hp : ProducerS producer specAll (ChildOK Q)) :
    Post (flowM e ctx x.children st producer) (fun d => Carries d (specAll x)) := by
  cases x with
  | leaf k t a =>
    (first | rw [inFrag_inner_ne _ _ _ (by decide)] at hq | rw [inFrag_inner_ne _ _ _ (by assumption)] at hq | skip); simp only [inFrag, Bool.and_eq_true, Bool.not_eq_true'] at hq
    simp only [ANode.kind] at hk
    have := hq.2
    cases k <;> simp_all [Kind.isFragElem, Kind.isInnerKind]
  | inner k cs a =>
    have hne : k ≠ .equation := by intro h; subst h; simp [ANode.kind, Kind.isFragElem] at hk
    (first | rw [inFrag_inner_ne _ _ _ (by decide)] at hq | rw [inFrag_inner_ne _ _ _ (by assumption)] at hq | skip); simp only [inFrag, Bool.and_eq_true] at hq
    simp only [ANode.kind] at hk
    have hv : isVerbatimNode k cs a = false := by cases k <;> simp_all [Kind.isFragElem, isVerbatimNode, Kind.isExpr]
    have hraw : k ≠ .raw := by intro h; rw [h] at hk; cases hk
    exact flow_construct_carries e ctx k cs a st producer hp hv hraw (inFragL_lex cs hq.2)
      (fun c hc => inFragL_mem hq.2 hc) hctx

/-! ### list-like constructs -/

/-- The contract of an item checker that accepts `acc x` children through `conv` and passes over the rest. -/
theorem checker_ok (checker : Ctx → ANode → M (Option Doc)) (acc : ANode → Bool)
    (hacc : ∀ c x, NM c → inFrag x = true → acc x = true → Post (checker c x) (fun r => ∃ body, r = some body ∧ Carries body (specAll x)))
    (hrej : ∀ c x, acc x = false → checker c x = pure none) :
    CheckerS checker specAll (fun x => inFrag x = true ∧ (acc x = true ∨ isPassable x = true)) := by
  intro c x hnm hok
  by_cases ha : acc x = true
  · exact Post.mono (hacc c x hnm hok.1 ha) (fun r ⟨body, hr, hb⟩ => by rw [hr]; exact hb)
  · have ha' : acc x = false := by simpa using ha
    rw [hrej c x ha']
    refine Post.pure ?_
    show specAll x = triviaS x
    have hp : isPassable x = true := by rcases hok.2 with h | h; exact absurd h ha; exact h
    unfold isPassable at hp
    simp only [Bool.or_eq_true] at hp
    rcases hp with hc | hi
    · exact triviaS_comment x (inFrag_lex x hok.1) hc
    · exact triviaS_ignorable x (inFrag_lex x hok.1) hi

theorem no_hash_of (acc : ANode → Bool) (hacc : ∀ x, acc x = true → x.kind ≠ .hash) (x : ANode)
    (h : acc x = true ∨ isPassable x = true) : x.kind ≠ .hash := by
  rcases h with h | h
  · exact hacc x h
  · intro hk
    unfold isPassable isIgnorable isCommentKind at h
    rw [hk] at h; simp [Kind.fixedText] at h

/-- An argument: named, spread, or an expression. -/
theorem convArg_frag (e : Env) (r : Rec) (hr : RecOK r Q) (c : Ctx) (hnm : NM c) (x : ANode) (hqx : inFrag x = true)
    (hax : isArg x = true) : Post (convArg e r c x) (fun d => Carries d (specAll x)) := by
  unfold convArg
  unfold isArg at hax
  simp only [Bool.or_eq_true, beq_iff_eq] at hax
  rcases hax with (h | h) | h
  · rw [h]; exact elem_carries e r c hnm x hqx (by rw [h]; rfl) false _ (namedProducer_ok e r hr)
  · rw [h]; exact elem_carries e r c hnm x hqx (by rw [h]; rfl) () _ (spreadProducer_ok e r hr)
  · have h1 : x.kind ≠ .named := by intro hk; unfold isExpr at h; rw [hk] at h; cases h
    have h2 : x.kind ≠ .spread := by intro hk; unfold isExpr at h; rw [hk] at h; cases h
    split
    · rename_i hk; exact absurd hk h1
    · rename_i hk; exact absurd hk h2
    · exact hr.expr c x hnm h hqx

theorem specAllL_take_drop (cs : List ANode) (p : ANode → Bool) :
    specAllL cs = (specAllL (cs.takeWhile p)).app (specAllL (cs.dropWhile p)) := by
  rw [← specAllL_append, List.takeWhile_append_dropWhile]

/-- The argument list of a call or set rule in code mode. -/
theorem args_frag (e : Env) (r : Rec) (hr : RecOK r Q) (ctx : Ctx) (hctx : NM ctx) (args : ANode) (hk : args.kind = .args)
    (hq : inFrag args = true) :
    Post (convArgs e r ctx args) (fun d => Carries d (specAll args)) := by
  cases args with
  | leaf k t a => simp only [ANode.kind] at hk; subst hk; simp [inFrag, Kind.isInnerKind] at hq
  | inner k cs a =>
    simp only [ANode.kind] at hk; subst hk
    (first | rw [inFrag_inner_ne _ _ _ (by decide)] at hq | rw [inFrag_inner_ne _ _ _ (by assumption)] at hq | skip); simp only [inFrag, Bool.and_eq_true] at hq
    have hch : listChildrenOK .args cs = true := by
      have h1 := hq.1
      simp [Kind.isFragFlow, Kind.isFragElem, Kind.isFragList, Kind.isFragWrap, Kind.isFragItem, Kind.isImportPart] at h1
      exact h1
    rw [specAll_inner .args cs a (by simp [isVerbatimNode, Kind.isExpr]) (by decide)]
    obtain ⟨sp0, sp1, sp2, _, _, _⟩ := soft_paren e
    -- the trailing content blocks
    have hblocks : ∀ (blocks : List ANode), (∀ b ∈ blocks, b ∈ cs) → blocks.all isBlockShape = true →
        Post (blocks.mapM (convContentBlock e r ctx)) (fun docs => Carries (concatDocs docs) (specAllL blocks)) := by
      intro blocks hmem hall
      refine Post.mono (Post.mapM blocks (R := fun b d => Carries d (specAll b)) (fun b hb => ?_)) (fun docs h => concatDocs_carries blocks docs h)
      have hbq := inFragL_mem hq.2 (hmem b hb)
      have hshape := List.all_eq_true.mp hall b hb
      refine contentBlock_carries e r hr ctx hctx b hshape (inFrag_lex b hbq) (fun c hc => ?_)
      cases b with
      | leaf _ _ _ => simp [isBlockShape] at hshape
      | inner kb cb ab =>
        have hne : kb ≠ .equation := by intro h; subst h; simp [isBlockShape] at hshape
        (first | rw [inFrag_inner_ne _ _ _ (by decide)] at hbq | rw [inFrag_inner_ne _ _ _ (by assumption)] at hbq | skip); simp only [inFrag, Bool.and_eq_true] at hbq
        exact inFragL_mem hbq.2 hc
    unfold convArgs hasParenArgs
    dsimp only
    simp only [ANode.children]
    by_cases hp : (cs.head?.map (·.kind == .leftParen)).getD false = true
    · -- parenthesised arguments, then blocks
      simp only [listChildrenOK, hp, ↓reduceIte, Bool.and_eq_true] at hch
      obtain ⟨hpre, hpost⟩ := hch
      simp only [hp, ↓reduceIte]
      cases hdw : cs.dropWhile (·.kind != .rightParen) with
      | nil => rw [hdw] at hpost; simp at hpost
      | cons rp blocks =>
        rw [hdw] at hpost
        have hrpk : rp.kind = .rightParen := by
          have := List.head_dropWhile_not (·.kind != .rightParen) (l := cs) (by rw [hdw]; simp)
          simp only [hdw, List.head_cons] at this
          simpa using this
        have hrpm : rp ∈ cs := (List.dropWhile_sublist _).subset (by rw [hdw]; exact List.mem_cons_self)
        have hblm : ∀ b ∈ blocks, b ∈ cs := fun b hb => (List.dropWhile_sublist _).subset (by rw [hdw]; exact List.mem_cons_of_mem _ hb)
        have hpre_all : ∀ x ∈ cs.takeWhile (·.kind != .rightParen), inFrag x = true ∧ (isArg x = true ∨ isPassable x = true) := by
          intro x hx
          refine ⟨inFragL_mem hq.2 ((List.takeWhile_sublist _).subset hx), ?_⟩
          have := List.all_eq_true.mp hpre x hx
          simpa using this
        rw [specAllL_take_drop cs (·.kind != .rightParen), hdw, specAllL_cons,
          specAll_ignorable rp (inFrag_lex rp (inFragL_mem hq.2 hrpm)) (by unfold isIgnorable; rw [hrpk]; rfl), Streams.empty_app]
        refine Post.bind (Q := fun p => Carries p (specAllL (cs.takeWhile (·.kind != .rightParen)))) ?_ (fun p hpc => ?_)
        · unfold convParenArgs
          simp only [ANode.children]
          exact list_construct_carries e _ (argItem e r) _
            (checker_ok (argItem e r) isArg
              (fun c x hnm hqx hax => by
                unfold argItem; simp only [hax, ↓reduceIte]
                exact Post.bind (convArg_frag e r hr c hnm x hqx hax) (fun d hd => Post.pure ⟨d, rfl, hd⟩))
              (fun c x hax => by unfold argItem; simp [hax]))
            (NM.withMode _ (by decide)) _ ⟨rfl, rfl, rfl⟩ id (fun _ => rfl) _ sp2 sp0 sp1 _ hpre_all
            (fun x hx => no_hash_of isArg (fun y hy hk => by
              unfold isArg isExpr at hy; rw [hk] at hy; simp [Kind.isExpr] at hy) x (hpre_all x hx).2)
        · unfold convAdditionalArgs
          simp only [ANode.children, ↓reduceIte, hdw]
          have hfilter : (rp :: blocks).filter (·.kind == .contentBlock) = blocks := by
            rw [List.filter_cons]
            have : (rp.kind == .contentBlock) = false := by rw [hrpk]; rfl
            simp only [this, Bool.false_eq_true, ↓reduceIte]
            apply List.filter_eq_self.mpr
            intro b hb
            exact blockShape_kind b (List.all_eq_true.mp hpost b hb)
          rw [hfilter]
          exact Post.bind (Post.bind (hblocks blocks hblm hpost) (fun docs hd => Post.pure hd)) (fun x hx => Post.pure (hpc.app hx))
    · -- content blocks only
      have hp' : (cs.head?.map (·.kind == .leftParen)).getD false = false := by simpa using hp
      simp only [listChildrenOK, hp', Bool.false_eq_true, ↓reduceIte] at hch
      simp only [hp', Bool.false_eq_true, ↓reduceIte, M.pure_bind]
      unfold convAdditionalArgs
      simp only [ANode.children, Bool.false_eq_true, ↓reduceIte]
      have hallk : ∀ b ∈ cs, (b.kind == .contentBlock) = true := by
        intro b hb
        exact blockShape_kind b (List.all_eq_true.mp hch b hb)
      have hdw : cs.dropWhile (fun c => c.kind != .contentBlock) = cs := by
        cases cs with
        | nil => rfl
        | cons c rest =>
          rw [List.dropWhile_cons]
          have := hallk c List.mem_cons_self
          simp [bne, this]
      have hfl : cs.filter (·.kind == .contentBlock) = cs := List.filter_eq_self.mpr hallk
      rw [hdw, hfl]
      refine Post.bind (Q := fun x => Carries x (specAllL cs)) (Post.bind (hblocks cs (fun b hb => hb) hch) (fun docs hd => Post.pure hd)) (fun x hx => Post.pure ?_)
      simpa using Carries.nil.app hx

theorem dropWhile_all_nil {α : Type} (p : α → Bool) (l : List α) (h : ∀ x ∈ l, p x = true) : l.dropWhile p = [] := by
  induction l with
  | nil => rfl
  | cons x xs ih =>
    rw [List.dropWhile_cons, h x List.mem_cons_self]
    exact ih (fun y hy => h y (List.mem_cons_of_mem _ hy))

/-- An argument list without a parenthesised part has no "parenthesised arguments". -/
theorem parenArgsUntyped_noparen (args : ANode) (hak : args.kind = .args) (hq : inFrag args = true)
    (hp : (args.children.head?.map (·.kind == .leftParen)).getD false = false) : parenArgsUntyped args = [] := by
  cases args with
  | leaf ka ta aa =>
    simp only [ANode.kind] at hak; subst hak
    simp [inFrag, Kind.isInnerKind] at hq
  | inner ka acs aa =>
    simp only [ANode.kind] at hak; subst hak
    rw [inFrag_inner_ne _ _ _ (by decide)] at hq
    simp only [Bool.and_eq_true] at hq
    have hcha : listChildrenOK .args acs = true := by
      have h1 := hq.1
      simp [Kind.isFragFlow, Kind.isFragElem, Kind.isFragList, Kind.isFragWrap, Kind.isFragItem, Kind.isImportPart] at h1
      exact h1
    simp only [ANode.children] at hp
    simp only [listChildrenOK, hp, Bool.false_eq_true, ↓reduceIte] at hcha
    unfold parenArgsUntyped
    simp only [ANode.children]
    have hdw : acs.dropWhile (fun x => x.kind != .leftParen) = [] := by
      apply dropWhile_all_nil
      intro x hx
      have := blockShape_kind x (List.all_eq_true.mp hcha x hx)
      have hk : x.kind = .contentBlock := by simpa using this
      rw [hk]; rfl
    rw [hdw]; rfl

/-- The shape of a parenthesised argument list of the fragment: `( items )` then trailing content blocks. -/
theorem argsParen_shape (cs : List ANode) (a : Attrs) (hq : inFrag (.inner .args cs a) = true)
    (hp : (cs.head?.map (·.kind == .leftParen)).getD false = true) :
    ∃ rp blocks, cs.dropWhile (·.kind != .rightParen) = rp :: blocks ∧ rp.kind = .rightParen ∧ rp ∈ cs ∧
      (∀ b ∈ blocks, b ∈ cs) ∧ blocks.all isBlockShape = true ∧
      (∀ x ∈ cs.takeWhile (·.kind != .rightParen), inFrag x = true ∧ (isArg x = true ∨ isPassable x = true)) := by
  rw [inFrag_inner_ne _ _ _ (by decide)] at hq
  simp only [Bool.and_eq_true] at hq
  have hch : listChildrenOK .args cs = true := by
    have h1 := hq.1
    simp [Kind.isFragFlow, Kind.isFragElem, Kind.isFragList, Kind.isFragWrap, Kind.isFragItem, Kind.isImportPart] at h1
    exact h1
  simp only [listChildrenOK, hp, ↓reduceIte, Bool.and_eq_true] at hch
  obtain ⟨hpre, hpost⟩ := hch
  cases hdw : cs.dropWhile (·.kind != .rightParen) with
  | nil => rw [hdw] at hpost; simp at hpost
  | cons rp blocks =>
    rw [hdw] at hpost
    have hrpk : rp.kind = .rightParen := by
      have := List.head_dropWhile_not (·.kind != .rightParen) (l := cs) (by rw [hdw]; simp)
      simp only [hdw, List.head_cons] at this
      simpa using this
    refine ⟨rp, blocks, rfl, hrpk, (List.dropWhile_sublist _).subset (by rw [hdw]; exact List.mem_cons_self),
      fun b hb => (List.dropWhile_sublist _).subset (by rw [hdw]; exact List.mem_cons_of_mem _ hb), hpost, ?_⟩
    intro x hx
    refine ⟨inFragL_mem hq.2 ((List.takeWhile_sublist _).subset hx), ?_⟩
    have := List.all_eq_true.mp hpre x hx
    simpa using this

/-- A parenthesised argument list whose parenthesised part is laid out by `pc`. -/
theorem argsParen_with (e : Env) (r : Rec) (hr : RecOK r Q) (ctx : Ctx) (hctx : NM ctx) (cs : List ANode) (a : Attrs)
    (hq : inFrag (.inner .args cs a) = true) (hp : (cs.head?.map (·.kind == .leftParen)).getD false = true)
    (pc : M Doc) (hpc : Post pc (fun d => Carries d (specAllL (cs.takeWhile (·.kind != .rightParen))))) :
    Post (do let doc ← pc; pure (doc ++ (← convAdditionalArgs e r ctx (.inner .args cs a) true)))
      (fun d => Carries d (specAll (.inner .args cs a))) := by
  obtain ⟨rp, blocks, hdw, hrpk, hrpm, hblm, hpost, _⟩ := argsParen_shape cs a hq hp
  have hq' := hq
  rw [inFrag_inner_ne _ _ _ (by decide)] at hq'
  simp only [Bool.and_eq_true] at hq'
  rw [specAll_inner .args cs a (by simp [isVerbatimNode, Kind.isExpr]) (by decide)]
  rw [specAllL_take_drop cs (·.kind != .rightParen), hdw, specAllL_cons,
    specAll_ignorable rp (inFrag_lex rp (inFragL_mem hq'.2 hrpm)) (by unfold isIgnorable; rw [hrpk]; rfl), Streams.empty_app]
  refine Post.bind hpc (fun p hpcd => ?_)
  unfold convAdditionalArgs
  simp only [ANode.children, ↓reduceIte, hdw]
  have hfilter : (rp :: blocks).filter (·.kind == .contentBlock) = blocks := by
    rw [List.filter_cons]
    have : (rp.kind == .contentBlock) = false := by rw [hrpk]; rfl
    simp only [this, Bool.false_eq_true, ↓reduceIte]
    apply List.filter_eq_self.mpr
    intro b hb
    exact blockShape_kind b (List.all_eq_true.mp hpost b hb)
  rw [hfilter]
  have hblocks : Post (blocks.mapM (convContentBlock e r ctx)) (fun docs => Carries (concatDocs docs) (specAllL blocks)) := by
    refine Post.mono (Post.mapM blocks (R := fun b d => Carries d (specAll b)) (fun b hb => ?_)) (fun docs h => concatDocs_carries blocks docs h)
    have hbq := inFragL_mem hq'.2 (hblm b hb)
    have hshape := List.all_eq_true.mp hpost b hb
    refine contentBlock_carries e r hr ctx hctx b hshape (inFrag_lex b hbq) (fun c hc => ?_)
    cases b with
    | leaf _ _ _ => simp [isBlockShape] at hshape
    | inner kb cb ab =>
      have hne : kb ≠ .equation := by intro h; subst h; simp [isBlockShape] at hshape
      rw [inFrag_inner_ne _ _ _ hne] at hbq
      simp only [Bool.and_eq_true] at hbq
      exact inFragL_mem hbq.2 hc
  exact Post.bind (Post.bind hblocks (fun docs hd => Post.pure hd)) (fun x hx => Post.pure (hpcd.app hx))

theorem exprWithOptionalParen_frag (e : Env) (r : Rec) (hr : RecOK r Q) (ctx : Ctx) (hctx : NM ctx) (x : ANode) (useBraces : Bool)
    (hx : isExpr x = true) (hq : inFrag x = true) :
    Post (exprWithOptionalParen e r ctx x useBraces) (fun d => Carries d (specAll x)) := by
  unfold exprWithOptionalParen
  split
  · exact hr.expr ctx x hctx hx hq
  · cases useBraces
    · simp only [Bool.false_eq_true, ↓reduceIte]
      exact Post.bind (hr.expr _ x (NM.withMode _ (by decide)) hx hq)
        (fun d hd => Post.pure (optionalParen_carries e d _ hd "(" ")" (by decide) (by decide)))
    · simp only [↓reduceIte]
      exact Post.bind (hr.expr _ x (NM.withMode _ (by decide)) hx hq)
        (fun d hd => Post.pure (optionalParen_carries e d _ hd "{" "}" (by decide) (by decide)))

/-- The item checker of parameter lists and destructuring patterns. -/
theorem convParam_checker (e : Env) (r : Rec) (hr : RecOK r Q) :
    CheckerS (convParam e r) specAll (fun x => inFrag x = true ∧ (isParam x = true ∨ isPassable x = true)) :=
  checker_ok (convParam e r) isParam
    (fun c x hnm hqx hax => by
      unfold convParam
      unfold isParam at hax
      simp only [Bool.or_eq_true, beq_iff_eq] at hax
      rcases hax with (h | h) | h
      · rw [h]
        exact Post.bind (elem_carries e r c hnm x hqx (by rw [h]; rfl) false _ (namedProducer_ok e r hr)) (fun d hd => Post.pure ⟨d, rfl, hd⟩)
      · rw [h]
        exact Post.bind (elem_carries e r c hnm x hqx (by rw [h]; rfl) () _ (spreadProducer_ok e r hr)) (fun d hd => Post.pure ⟨d, rfl, hd⟩)
      · have h1 : x.kind ≠ .named := by
          intro hk; unfold isPattern isExpr at h; rw [hk] at h; simp [Kind.isExpr] at h
        have h2 : x.kind ≠ .spread := by
          intro hk; unfold isPattern isExpr at h; rw [hk] at h; simp [Kind.isExpr] at h
        split
        · rename_i hk; exact absurd hk h1
        · rename_i hk; exact absurd hk h2
        · simp only [h, ↓reduceIte]
          exact Post.bind (hr.pattern c x hnm h hqx) (fun d hd => Post.pure ⟨d, rfl, hd⟩))
    (fun c x hax => by
      unfold isParam at hax
      simp only [Bool.or_eq_false_iff, beq_eq_false_iff_ne] at hax
      unfold convParam
      split
      · rename_i hk; exact absurd hk hax.1.1
      · rename_i hk; exact absurd hk hax.1.2
      · simp [hax.2])

theorem param_no_hash (x : ANode) (h : isParam x = true ∨ isPassable x = true) : x.kind ≠ .hash :=
  no_hash_of isParam (fun y hy hk => by
    unfold isParam isPattern isExpr at hy; rw [hk] at hy; simp [Kind.isExpr] at hy) x h

/-- `convert_params` / `convert_destructuring` on a node of the fragment. -/
theorem paramList_frag (e : Env) (r : Rec) (hr : RecOK r Q) (ctx : Ctx) (k : Kind) (cs : List ANode) (a : Attrs)
    (hk : k = .params ∨ k = .destructuring) (hd : k = .destructuring → a.disabled = false) (hq : inFrag (.inner k cs a) = true) :
    (∀ isUnnamed, Post (convParams e r ctx (.inner k cs a) isUnnamed) (fun d => Carries d (specAll (.inner k cs a)))) ∧
    Post (convDestructuring e r ctx (.inner k cs a)) (fun d => Carries d (specAll (.inner k cs a))) := by
  have hne : k ≠ .equation := by rcases hk with rfl | rfl <;> decide
  (first | rw [inFrag_inner_ne _ _ _ (by decide)] at hq | rw [inFrag_inner_ne _ _ _ (by assumption)] at hq | skip); simp only [inFrag, Bool.and_eq_true] at hq
  have hch : listChildrenOK k cs = true := by
    have h1 := hq.1
    rcases hk with rfl | rfl <;>
      (simp [Kind.isFragFlow, Kind.isFragElem, Kind.isFragList, Kind.isFragWrap, Kind.isFragItem, Kind.isImportPart] at h1; exact h1)
  have hall : ∀ x ∈ cs, inFrag x = true ∧ (isParam x = true ∨ isPassable x = true) := by
    intro x hx
    refine ⟨inFragL_mem hq.2 hx, ?_⟩
    have hc : (cs.all fun x => isParam x || isPassable x) = true := by
      rcases hk with rfl | rfl <;> simpa [listChildrenOK] using hch
    simpa using List.all_eq_true.mp hc x hx
  have hspec : specAll (.inner k cs a) = specAllL cs :=
    specAll_inner k cs a (by rcases hk with rfl | rfl <;> simp [isVerbatimNode, hd, Kind.isExpr]) (by rcases hk with rfl | rfl <;> decide)
  obtain ⟨sp0, sp1, sp2, _, _, _⟩ := soft_paren e
  rw [hspec]
  constructor
  · intro isUnnamed
    unfold convParams
    simp only [ANode.children]
    exact list_construct_carries e _ (convParam e r) _ (convParam_checker e r hr) (NM.withMode _ (by decide)) _ ⟨rfl, rfl, rfl⟩
      (fun ls => ls.alwaysFoldIf _) (fun ls => by unfold LS.alwaysFoldIf; split <;> rfl) _ sp2 sp0 sp1 cs hall
      (fun x hx => param_no_hash x (hall x hx).2)
  · unfold convDestructuring
    simp only [ANode.children]
    exact list_construct_carries e _ (convParam e r) _ (convParam_checker e r hr) (NM.withMode _ (by decide)) _ ⟨rfl, rfl, rfl⟩
      (fun ls => ls.alwaysFoldIf _) (fun ls => by unfold LS.alwaysFoldIf; split <;> rfl) _ sp2 sp0 sp1 cs hall
      (fun x hx => param_no_hash x (hall x hx).2)

theorem specAll_empty_markup_leaf (a : Attrs) : specAll (.leaf .markup "" a) = {} := by
  apply Streams.ext' <;> simp [specAll, specToks, specCmts, specProse, specLit, specVerb, isCommentKind, Kind.isExpr, leafTag,
    Pretty.keepOf]

theorem frag_markup_leaf_text (t : String) (a : Attrs) (hq : inFrag (.leaf .markup t a) = true) : t = "" := by
  have := hq
  simp [inFrag, Kind.isInnerKind, Kind.isExpr] at this
  exact this.2

theorem specAll_underscore_leaf (t : String) (a : Attrs) : specAll (.leaf .underscore t a) = tagS .tok t := by
  apply Streams.ext' <;> simp [specAll, specToks, specCmts, specProse, specLit, specVerb, isCommentKind, tagS, Pretty.charsOf,
    Pretty.keepOf, leafTag, Kind.isExpr]

/-- The keyword literals `none` and `auto`: printed as the constant (the model checks the leaf's text), or
copied verbatim when marked. -/
theorem keyword_literal_leaf (e : Env) (r : Rec) (ctx : Ctx) (k : Kind) (s t : String) (a : Attrs)
    (hk : k = .none_ ∨ k = .auto_) (hs : convExprImpl e r ctx (.leaf k t a) = e.synNode (.leaf k t a) s) :
    Post (if (ANode.leaf k t a).attrs.disabled = true then pure (e.verbNode (.leaf k t a)) else convExprImpl e r ctx (.leaf k t a))
      (fun d => Carries d (specAll (.leaf k t a))) := by
  split
  · rename_i hd
    have hd' : a.disabled = true := by simpa [ANode.attrs] using hd
    refine Post.pure ?_
    have hv : e.verbNode (.leaf k t a) = e.verb t := by rcases hk with rfl | rfl <;> rfl
    rw [hv]
    refine (Carries.mkText e.wd .verbatim t).congr ?_
    rcases hk with rfl | rfl <;>
      (apply Streams.ext' <;> simp [specAll, specToks, specCmts, specProse, specLit, specVerb, isCommentKind, tagS, Pretty.charsOf,
        Pretty.keepOf, leafTag, Kind.isExpr, hd'])
  · rename_i hd
    have hd' : a.disabled = false := by simpa [ANode.attrs] using hd
    rw [hs]
    unfold Env.synNode
    split
    · rename_i ht
      have ht' : t = s := by simpa [ANode.intoText] using ht
      subst ht'
      refine Post.pure ((Carries.mkText e.wd .syn t).congr ?_)
      rcases hk with rfl | rfl <;>
        (apply Streams.ext' <;> simp [specAll, specToks, specCmts, specProse, specLit, specVerb, isCommentKind, tagS, Pretty.charsOf,
          Pretty.keepOf, leafTag, Kind.isExpr, hd'])
    · exact Post.rejected _

/-- An expression leaf of the fragment at the expression entry point (marked or not). -/
theorem leaf_expr_frag (e : Env) (r : Rec) (ctx : Ctx) (k : Kind) (t : String) (a : Attrs) (hx : k.isExpr = true)
    (hq : inFrag (.leaf k t a) = true) :
    Post (if (ANode.leaf k t a).attrs.disabled = true then pure (e.verbNode (.leaf k t a)) else convExprImpl e r ctx (.leaf k t a))
      (fun d => Carries d (specAll (.leaf k t a))) := by
  (first | rw [inFrag_inner_ne _ _ _ (by decide)] at hq | rw [inFrag_inner_ne _ _ _ (by assumption)] at hq | skip); simp only [inFrag, Bool.and_eq_true, Bool.or_eq_true, Bool.not_eq_true', beq_iff_eq] at hq
  rcases hq.1.2 with (((h | h) | h) | h) | h
  · rw [hx] at h; cases h
  · rw [specAll_frag_leaf k t a h, verbNode_frag_leaf e k t a h, convExprImpl_frag_leaf e r ctx k t a h]
    split <;> exact Post.pure (Carries.mkText e.wd _ t)
  · obtain ⟨hk, hd⟩ := h
    subst hk
    simp only [ANode.attrs, hd, Bool.false_eq_true, ↓reduceIte]
    rw [specAll_parbreak_leaf]
    exact Post.pure (Carries.repeatN Carries.hardline _)
  · subst h; exact keyword_literal_leaf e r ctx .none_ "none" t a (Or.inl rfl) rfl
  · subst h; exact keyword_literal_leaf e r ctx .auto_ "auto" t a (Or.inr rfl) rfl

set_option maxHeartbeats 1600000 in
/-- One level of the knot: the expression entry point. -/
theorem convExpr_frag (e : Env) (r : Rec) (hr : RecOK r Q) (hrM : RecOKM r QM) (ctx : Ctx) (hctx : NM ctx) (n : ANode) (hx : isExpr n = true) (hq : inFrag n = true) :
    Post (convExpr e r ctx n) (fun d => Carries d (specAll n)) := by
  unfold convExpr
  refine Post.bind (Q := fun _ => True) (fun _ _ _ _ => trivial) (fun _ _ => ?_)
  cases n with
  | leaf k t a => exact leaf_expr_frag e r ctx k t a hx hq
  | inner k cs a =>
    by_cases heqk : k = .equation
    · -- an equation: `$`, body in math mode, `$`
      subst heqk
      rw [inFrag_inner_eq] at hq
      simp only [Bool.and_eq_true] at hq
      split
      · rename_i hd
        exact Post.pure (verb_inner_carries e .equation cs a (by simpa [ANode.attrs] using hd) rfl)
      · rename_i hd
        have hd' : a.disabled = false := by simpa [ANode.attrs] using hd
        show Post (convEquation e r ctx _) _
        cases cs with
        | nil => simp [eqShapeB] at hq
        | cons d0 rest =>
          have hs := hq.1
          simp only [eqShapeB, Bool.and_eq_true, beq_iff_eq] at hs
          have hqe := hq.2
          simp only [inFragEq, Bool.and_eq_true] at hqe
          have hk0m : (d0.kind == Kind.math) = false := by rw [hs.1]; rfl
          have hq0 := hqe.1
          simp only [hk0m, Bool.false_eq_true, ↓reduceIte] at hq0
          exact convEquation_carries e r hrM ctx d0 rest a hd' (inFrag_lex d0 hq0) hs.1 (eqRest_of rest hs.2 hqe.2)
    have hne : k ≠ .equation := heqk
    (first | rw [inFrag_inner_ne _ _ _ (by decide)] at hq | rw [inFrag_inner_ne _ _ _ (by assumption)] at hq | skip); simp only [inFrag, Bool.and_eq_true] at hq
    have hkx : k.isExpr = true := hx
    split
    · rename_i hd
      exact Post.pure (verb_inner_carries e k cs a (by simpa [ANode.attrs] using hd) hkx)
    · rename_i hd
      have hd' : a.disabled = false := by simpa [ANode.attrs] using hd
      have hlex := inFragL_lex cs hq.2
      have hqc : ∀ c ∈ cs, Q c := fun c hc => inFragL_mem hq.2 hc
      by_cases hwrapk : k.isFragWrap = true
      · -- content block, strong, emphasis: delimiter, markup body, delimiter
        have hch : listChildrenOK k cs = true := by
          have h1 := hq.1
          cases k <;> simp_all [Kind.isFragFlow, Kind.isFragElem, Kind.isFragList, Kind.isFragWrap, Kind.isFragItem, Kind.isImportPart]
        have hv : isVerbatimNode k cs a = false := by cases k <;> simp_all [Kind.isFragWrap, isVerbatimNode]
        have hraw : k ≠ .raw := by intro h; rw [h] at hwrapk; cases hwrapk
        rw [specAll_inner k cs a hv hraw]
        -- the three children
        have hshape : ∃ c0 m c1, cs = [c0, m, c1] ∧ m.kind = .markup := by
          have hm : ∃ k0 k2, cs.map (·.kind) = [k0, .markup, k2] := by
            cases k <;> simp only [Kind.isFragWrap, Bool.false_eq_true] at hwrapk <;>
              (simp only [listChildrenOK, beq_iff_eq] at hch; exact ⟨_, _, hch⟩)
          obtain ⟨k0, k2, hm⟩ := hm
          rcases cs with _ | ⟨c0, _ | ⟨m, _ | ⟨c1, _ | ⟨c2, rest⟩⟩⟩⟩ <;> simp at hm
          exact ⟨c0, m, c1, rfl, hm.2.1⟩
        obtain ⟨c0, m, c1, rfl, hmk⟩ := hshape
        have hc0 := hlex; have hq0 := hq.2
        simp only [ANode.tokensAreLeavesL, Bool.and_eq_true] at hc0
        simp only [inFragL, Bool.and_eq_true] at hq0
        have h0k : (c0.kind == .markup) = false := by
          cases k <;> simp only [Kind.isFragWrap, Bool.false_eq_true] at hwrapk <;>
            (simp only [listChildrenOK, beq_iff_eq, List.map_cons, List.map_nil, List.cons.injEq, and_true] at hch
             rw [hch.1]; rfl)
        have hfind : ([c0, m, c1] : List ANode).find? (fun x => x.kind == .markup) = some m := by
          rw [List.find?_cons, h0k, List.find?_cons, hmk]; rfl
        have hdelims : ∀ (s : String), ANode.tokensAreLeaves c0 = true → ANode.tokensAreLeaves c1 = true →
            (c0.kind = .leftBracket ∧ c1.kind = .rightBracket ∧ True) ∨ True := fun _ _ _ => Or.inr trivial
        cases k <;> simp only [Kind.isFragWrap, Bool.false_eq_true] at hwrapk
        · -- strong
          simp only [listChildrenOK, beq_iff_eq, List.map_cons, List.map_nil, List.cons.injEq, and_true] at hch
          show Post (convStrongEmph e r ctx _ "*") _
          unfold convStrongEmph firstWhere
          simp only [ANode.children, hfind, childOr, M.pure_bind]
          refine Post.bind (hr.markup ctx m .strong hctx hmk hq0.2.1) (fun d hd => Post.pure ?_)
          obtain ⟨t0, a0, h0⟩ := leaf_of_token hc0.1 (by rw [hch.1]; rfl)
          obtain ⟨t1, a1, h1⟩ := leaf_of_token hc0.2.2.1 (by rw [hch.2.2]; rfl)
          have ht0 : t0 = "*" := leaf_tok_fixed (by rw [← h0]; exact hc0.1) (by rw [hch.1]; rfl)
          have ht1 : t1 = "*" := leaf_tok_fixed (by rw [← h1]; exact hc0.2.2.1) (by rw [hch.2.2]; rfl)
          have hs0 : specAll c0 = tagS .syn "*" := by
            rw [h0, hch.1, specAll_plain_leaf .star t0 a0 rfl, tagS_syn_eq_tok, ht0]
          have hs1 : specAll c1 = tagS .syn "*" := by
            rw [h1, hch.2.2, specAll_plain_leaf .star t1 a1 rfl, tagS_syn_eq_tok, ht1]
          simpa [specAllL_cons, hs0, hs1, Streams.app_assoc, Env.syn] using hd.enclose (Carries.mkText e.wd .syn "*") (Carries.mkText e.wd .syn "*")
        · -- emphasis
          simp only [listChildrenOK, beq_iff_eq, List.map_cons, List.map_nil, List.cons.injEq, and_true] at hch
          show Post (convStrongEmph e r ctx _ "_") _
          unfold convStrongEmph firstWhere
          simp only [ANode.children, hfind, childOr, M.pure_bind]
          refine Post.bind (hr.markup ctx m .strong hctx hmk hq0.2.1) (fun d hd => Post.pure ?_)
          obtain ⟨t0, a0, h0⟩ := leaf_of_token hc0.1 (by rw [hch.1]; rfl)
          obtain ⟨t1, a1, h1⟩ := leaf_of_token hc0.2.2.1 (by rw [hch.2.2]; rfl)
          have ht0 : t0 = "_" := leaf_tok_fixed (by rw [← h0]; exact hc0.1) (by rw [hch.1]; rfl)
          have ht1 : t1 = "_" := leaf_tok_fixed (by rw [← h1]; exact hc0.2.2.1) (by rw [hch.2.2]; rfl)
          have hs0 : specAll c0 = tagS .syn "_" := by
            rw [h0, hch.1, specAll_underscore_leaf, tagS_syn_eq_tok, ht0]
          have hs1 : specAll c1 = tagS .syn "_" := by
            rw [h1, hch.2.2, specAll_underscore_leaf, tagS_syn_eq_tok, ht1]
          simpa [specAllL_cons, hs0, hs1, Streams.app_assoc, Env.syn] using hd.enclose (Carries.mkText e.wd .syn "_") (Carries.mkText e.wd .syn "_")
        · -- content block
          simp only [listChildrenOK, beq_iff_eq, List.map_cons, List.map_nil, List.cons.injEq, and_true] at hch
          show Post (convContentBlock e r ctx _) _
          unfold convContentBlock
          simp only [ANode.children, hfind, childOr, M.pure_bind]
          refine Post.bind (hr.markup ctx m .contentBlock hctx hmk hq0.2.1) (fun d hd => Post.pure ?_)
          obtain ⟨t0, a0, h0⟩ := leaf_of_token hc0.1 (by rw [hch.1]; rfl)
          obtain ⟨t1, a1, h1⟩ := leaf_of_token hc0.2.2.1 (by rw [hch.2.2]; rfl)
          have ht0 : t0 = "[" := leaf_tok_fixed (by rw [← h0]; exact hc0.1) (by rw [hch.1]; rfl)
          have ht1 : t1 = "]" := leaf_tok_fixed (by rw [← h1]; exact hc0.2.2.1) (by rw [hch.2.2]; rfl)
          have hs0 : specAll c0 = tagS .syn "[" := by
            rw [h0, hch.1, specAll_plain_leaf .leftBracket t0 a0 rfl, tagS_syn_eq_tok, ht0]
          have hs1 : specAll c1 = tagS .syn "]" := by
            rw [h1, hch.2.2, specAll_plain_leaf .rightBracket t1 a1 rfl, tagS_syn_eq_tok, ht1]
          simpa [specAllL_cons, hs0, hs1, Streams.app_assoc, Env.syn] using (hd.nstTab.grp).enclose (Carries.mkText e.wd .syn "[") (Carries.mkText e.wd .syn "]")
      by_cases hitemk : k.isFragItem = true
      · -- heading, list / enum / term item
        have hv : isVerbatimNode k cs a = false := by cases k <;> simp_all [Kind.isFragItem, Kind.isImportPart, isVerbatimNode]
        have hraw : k ≠ .raw := by intro h; rw [h] at hitemk; cases hitemk
        cases k <;> simp only [Kind.isFragItem, Kind.isImportPart, Bool.false_eq_true] at hitemk
        · show Post (convHeading e r ctx _) _
          exact flow_construct_carries e ctx _ cs a () _ (headingProducer_ok e r hr) hv hraw hlex hqc hctx
        all_goals
          (show Post (convListItemLike e r ctx _) _
           unfold convListItemLike
           refine Post.bind ?_ (fun d hd => Post.pure (Carries.nstTab hd))
           rw [specAll_inner _ cs a hv hraw, ← contribL_specAll cs hlex]
           exact flowM_carries (commentOK e) (listItemProducer_ok e r hr) (fun c hok hk => specAll_space c hok.1.1 hk) hctx cs
             (fun c hc => ⟨⟨tokensAreLeavesL_mem hlex hc, hqc c hc⟩, fun hk he => by
               have hcq : inFrag c = true := hqc c hc
               cases c with
               | leaf k' t' a' =>
                 simp only [ANode.kind] at hk; subst hk
                 rw [frag_markup_leaf_text t' a' hcq]; exact specAll_empty_markup_leaf a'
               | inner k' cs' a' =>
                 simp only [ANode.kind] at hk; subst hk
                 have : cs' = [] := by simpa [ANode.children] using he
                 subst this
                 rw [specAll_inner .markup [] a' (by simp [isVerbatimNode, Kind.isExpr]) (by decide)]; rfl⟩) false)
      by_cases hrefk : k = .ref
      · subst hrefk
        have hch : listChildrenOK .ref cs = true := by
          have h1 := hq.1
          simp [Kind.isFragFlow, Kind.isFragElem, Kind.isFragList, Kind.isFragWrap, Kind.isFragItem, Kind.isImportPart] at h1
          exact h1
        rw [specAll_inner .ref cs a (by simp [isVerbatimNode, hd']) (by decide)]
        show Post (convRef e r ctx _) _
        unfold convRef firstWhere lastWhere
        simp only [listChildrenOK] at hch
        rcases cs with _ | ⟨m, _ | ⟨b, _ | ⟨c2, rest⟩⟩⟩
        · simp at hch
        · -- `@target`
          cases m with
          | inner _ _ _ => simp at hch
          | leaf km tm am =>
            cases km <;> simp only [Bool.false_eq_true] at hch
            simp only [ANode.children, List.find?, ANode.kind, beq_self_eq_true, childOr, M.pure_bind, ANode.text, List.reverse_cons,
              List.reverse_nil, List.nil_append, show (Kind.refMarker == Kind.contentBlock) = false from rfl]
            refine Post.pure ?_
            simpa [specAllL_cons] using refMarker_carries e tm am hch
        · -- `@target[supplement]`
          cases m with
          | inner _ _ _ => simp at hch
          | leaf km tm am =>
            cases km <;> simp only [Bool.false_eq_true] at hch
            simp only [Bool.and_eq_true] at hch
            have hbk := blockShape_kind b hch.2
            have hbk' : b.kind = .contentBlock := by simpa using hbk
            have hf1 : ([ANode.leaf .refMarker tm am, b] : List ANode).find? (fun x => x.kind == .refMarker) = some (.leaf .refMarker tm am) := by
              rw [List.find?_cons]; rfl
            have hf2 : ([ANode.leaf .refMarker tm am, b] : List ANode).reverse.find? (fun x => x.kind == .contentBlock) = some b := by
              show ([b, ANode.leaf .refMarker tm am] : List ANode).find? _ = _
              rw [List.find?_cons, hbk]
            simp only [ANode.children, hf1, hf2, childOr, M.pure_bind, ANode.text]
            have hqb : inFrag b = true := hqc b (by simp)
            have hbc : ∀ c ∈ b.children, Q c := by
              intro c hc
              cases b with
              | leaf _ _ _ => simp [isBlockShape] at hch
              | inner kb cb ab =>
                have hne' : kb ≠ .equation := by intro h; subst h; simp [isBlockShape] at hch
                (first | rw [inFrag_inner_ne _ _ _ (by decide)] at hqb | rw [inFrag_inner_ne _ _ _ (by assumption)] at hqb | skip); simp only [inFrag, Bool.and_eq_true] at hqb
                exact inFragL_mem hqb.2 hc
            refine Post.bind (contentBlock_carries e r hr ctx hctx b hch.2 (inFrag_lex b hqb) hbc) (fun d hd => Post.pure ?_)
            simpa [specAllL_cons] using (refMarker_carries e tm am hch.1).app hd
        · cases m with
          | inner _ _ _ => simp at hch
          | leaf km tm am => cases km <;> simp at hch
      by_cases hcbv : k = .codeBlock ∧ codeBodyDisabled cs = true
      · -- a code block whose body is marked: verbatim
        obtain ⟨rfl, hbd⟩ := hcbv
        show Post (convCodeBlock e r ctx _) _
        unfold convCodeBlock
        unfold codeBodyDisabled at hbd
        simp only [ANode.children, hbd, ↓reduceIte]
        have hv : isVerbatimNode .codeBlock cs a = true := by
          unfold isVerbatimNode; simp [hbd]
        refine Post.pure ((Carries.mkText e.wd .verbatim _).congr ?_)
        apply Streams.ext' <;>
          simp [specAll, specToks, specCmts, specProse, specLit, specVerb, hv, tagS, Pretty.charsOf, ANode.intoText, Pretty.keepOf]
      have hcbv' : (k == .codeBlock && codeBodyDisabled cs) = false := by
        cases hkc : (k == .codeBlock) with
        | false => rfl
        | true =>
          cases hbc : codeBodyDisabled cs with
          | false => rfl
          | true => exact absurd ⟨by simpa using hkc, hbc⟩ hcbv
      by_cases hloopk : k = .loopBreak ∨ k = .loopContinue
      · have hsh : loopShapeB cs = true := by
          have h1 := hq.1
          rcases hloopk with rfl | rfl <;>
            (simp [Kind.isFragFlow, Kind.isFragElem, Kind.isFragList, Kind.isFragWrap, Kind.isFragItem, Kind.isImportPart, listChildrenOK] at h1
             exact h1)
        have hv : isVerbatimNode k cs a = false := by
          rcases hloopk with rfl | rfl <;> simp [isVerbatimNode, hd']
        rw [specAll_inner k cs a hv (by rcases hloopk with rfl | rfl <;> decide)]
        rcases cs with _ | ⟨c0, _ | ⟨c1, rest⟩⟩ <;> simp only [loopShapeB, Bool.false_eq_true] at hsh
        cases c0 with
        | inner _ _ _ => simp [loopShapeB] at hsh
        | leaf kk tt aa =>
          simp only [loopShapeB, Bool.or_eq_true, beq_iff_eq] at hsh
          have hplain : kk.isPlainToken = true := by rcases hsh with rfl | rfl <;> rfl
          have hspec : specAllL [ANode.leaf kk tt aa] = tagS .syn tt := by
            rw [specAllL_cons, specAllL_nil, Streams.app_empty, specAll_plain_leaf kk tt aa hplain, tagS_syn_eq_tok]
          rw [hspec]
          have hsyn : ∀ s : String, Post (e.synNode (.inner k [.leaf kk tt aa] a) s) (fun d => Carries d (tagS .syn tt)) := by
            intro s
            unfold Env.synNode
            split
            · rename_i ht
              have ht' : tt = s := by
                have : (ANode.inner k [ANode.leaf kk tt aa] a).intoText = tt := by
                  simp [ANode.intoText, ANode.intoTextL]
                rw [this] at ht; simpa using ht
              rw [ht']; exact Post.pure (Carries.mkText e.wd .syn s)
            · exact Post.rejected _
          rcases hloopk with rfl | rfl
          · exact hsyn "break"
          · exact hsyn "continue"
      by_cases himpk : k = .moduleImport
      · subst himpk
        have hsh : importShapeB cs = true := by
          have h1 := hq.1
          simp [Kind.isFragFlow, Kind.isFragElem, Kind.isFragList, Kind.isFragWrap, Kind.isFragItem, Kind.isImportPart, listChildrenOK] at h1
          exact h1
        simp only [importShapeB, Bool.and_eq_true, Bool.or_eq_true, Bool.not_eq_true'] at hsh
        show Post (convImport e r ctx _) _
        have hflat : ∀ c ∈ cs, c.kind = .importItems → specAll c = specAllL c.children := by
          intro c hc hk
          have hcq := hqc c hc
          cases c with
          | leaf k' t' a' =>
            simp only [ANode.kind] at hk; subst hk
            have ht : t' = "" := by
              have := hcq
              simp [Q, inFrag, Kind.isInnerKind] at this
              exact this.2
            subst ht
            show specAll (.leaf .importItems "" a') = specAllL []
            rw [specAllL_nil]
            apply Streams.ext' <;> simp [specAll, specToks, specCmts, specProse, specLit, specVerb, isCommentKind, Pretty.keepOf]
          | inner k' ics ia =>
            simp only [ANode.kind] at hk; subst hk
            exact specAll_inner .importItems ics ia
              (not_verbatim_of_not_expr _ _ _ rfl (by decide) (by decide) (by decide) (by decide)) (by decide)
        have hflq : ∀ x ∈ importFlattened cs, inFrag x = true := by
          intro x hx
          unfold importFlattened at hx
          simp only at hx
          obtain ⟨c, hc, hxc⟩ := List.mem_flatMap.mp hx
          have hcm : c ∈ cs := List.mem_of_mem_drop hc
          split at hxc
          · rename_i hk
            have hcq := hqc c hcm
            cases c with
            | leaf k' t' a' => simp [ANode.children] at hxc
            | inner k' ics ia =>
              simp only [ANode.kind, beq_iff_eq] at hk; subst hk
              simp only [Q] at hcq
              rw [inFrag_inner_ne _ _ _ (by decide)] at hcq
              simp only [Bool.and_eq_true] at hcq
              exact inFragL_mem hcq.2 hxc
          · have : x = c := by simpa using hxc
            rw [this]; exact hqc c hcm
        refine convImport_carries e r hr impQ_frag ctx hctx cs a hd' hlex hqc hflat ?_ hsh.2
        intro x hx
        have := List.all_eq_true.mp hsh.1 x hx
        simp only [Bool.or_eq_true] at this
        refine ⟨inFrag_lex x (hflq x hx), hflq x hx, ?_⟩
        rcases this with (h | h) | h
        · exact Or.inl h
        · exact Or.inr (Or.inl h)
        · exact Or.inr (Or.inr h)
      by_cases hfak : k = .fieldAccess
      · subst hfak
        have hq0 : inFrag (.inner .fieldAccess cs a) = true := by
          (first | rw [inFrag_inner_ne _ _ _ (by decide)] | skip); simp only [inFrag, Bool.and_eq_true]; exact hq
        show Post (convFieldAccess e r ctx _) _
        exact convFieldAccess_carries e r hr dotQ_frag ctx hctx
          (fun c hc ar hk hqa => args_frag e r hr c hc ar hk hqa) cs a hq0 hd'
      by_cases hbink : k = .binary
      · subst hbink
        have hq0 : inFrag (.inner .binary cs a) = true := by
          (first | rw [inFrag_inner_ne _ _ _ (by decide)] | skip); simp only [inFrag, Bool.and_eq_true]; exact hq
        show Post (convBinary e r ctx _) _
        exact convBinary_carries e r hr binQ_frag ctx hctx cs a hq0 hd'
      by_cases hrawk : k = .raw
      · subst hrawk
        have hch : listChildrenOK .raw cs = true := by
          have h1 := hq.1
          simp [Kind.isFragFlow, Kind.isFragElem, Kind.isFragList, Kind.isFragWrap, Kind.isFragItem, Kind.isImportPart] at h1
          exact h1
        show Post (pure (convRaw e _)) _
        exact Post.pure (convRaw_carries e cs a hd' (by simpa [listChildrenOK] using hch))
      by_cases hclok : k = .closure
      · subst hclok
        show Post (convClosure e r ctx _) _
        unfold convClosure
        have hv : isVerbatimNode .closure cs a = false := by simp [isVerbatimNode, hd']
        refine flow_construct_carries e ctx .closure cs a _ _ ?_ hv (by decide) hlex hqc hctx
        intro la c child hnm hok
        unfold closureProducer
        split
        · rename_i hk
          exact Post.bind (synLeaf_carries e child "=" hok.1 (by rw [show child.kind = .eq by simpa using hk]; rfl)) (fun d hd => Post.pure hd)
        · split
          · rename_i hk
            exact Post.bind (synLeaf_carries e child "=>" hok.1 (by rw [show child.kind = .arrow by simpa using hk]; rfl)) (fun d hd => Post.pure hd)
          · split
            · rename_i hk
              simp only [Bool.and_eq_true, beq_iff_eq] at hk
              obtain ⟨t, a', hc⟩ := leaf_of_token hok.1 (by rw [hk.2]; rfl)
              refine Post.pure ((Carries.mkText e.wd .lit child.text).congr ?_)
              rw [hc, hk.2, specAll_frag_leaf .ident t a' rfl]; rfl
            · split
              · rename_i hk
                simp only [Bool.and_eq_true, beq_iff_eq] at hk
                have hcq : inFrag child = true := hok.2
                cases child with
                | leaf k' t' a' => simp only [ANode.kind] at hk; rw [hk.2] at hcq; simp [inFrag, Kind.isInnerKind] at hcq
                | inner k' cs' a' =>
                  simp only [ANode.kind] at hk
                  obtain ⟨_, rfl⟩ := hk
                  exact Post.bind ((paramList_frag e r hr c .params cs' a' (Or.inl rfl) (fun h => by cases h) hcq).1 _) (fun d hd => Post.pure hd)
              · split
                · rename_i hk
                  simp only [Bool.and_eq_true] at hk
                  exact Post.bind (exprWithOptionalParen_frag e r hr c hnm child _ hk.2 hok.2) (fun d hd => Post.pure hd)
                · split
                  · rename_i hk
                    exact Post.pure (specAll_space child hok.1 (by simpa using hk))
                  · exact Post.rejected _
      by_cases hfork : k = .forLoop
      · subst hfork
        show Post (convForLoop e r ctx _) _
        have hv : isVerbatimNode .forLoop cs a = false := by simp [isVerbatimNode, hd']
        refine flow_construct_carries e ctx .forLoop cs a _ _ ?_ hv (by decide) hlex hqc hctx
        intro la c child hnm hok
        unfold forProducer
        split
        · rename_i hk
          simp only [Bool.and_eq_true] at hk
          exact Post.bind (hr.pattern c child hnm hk.2 hok.2) (fun d hd => Post.pure hd)
        · split
          · rename_i hk
            simp only [Bool.and_eq_true] at hk
            exact Post.bind (exprWithOptionalParen_frag e r hr c hnm child _ hk.2 hok.2) (fun d hd => Post.pure hd)
          · split
            · rename_i hk
              simp only [Bool.and_eq_true] at hk
              exact Post.bind (hr.expr c child hnm hk.2 hok.2) (fun d hd => Post.pure hd)
            · split
              · rename_i hk
                exact Post.pure (specAll_space child hok.1 (by simpa using hk))
              · exact Post.rejected _
      by_cases hcallk : k = .funcCall
      · -- a call: callee, then the arguments
        subst hcallk
        have hch : listChildrenOK .funcCall cs = true := by
          have h1 := hq.1
          simp [Kind.isFragFlow, Kind.isFragElem, Kind.isFragList, Kind.isFragWrap, Kind.isFragItem, Kind.isImportPart] at h1
          exact h1
        simp only [listChildrenOK] at hch
        rcases cs with _ | ⟨callee, _ | ⟨args, _ | ⟨c2, rest⟩⟩⟩ <;> simp only [Bool.false_eq_true] at hch
        simp only [Bool.and_eq_true, Bool.not_eq_true', beq_iff_eq] at hch
        obtain ⟨hhead, hak⟩ := hch
        have hcx : isExpr callee = true := by
          simp only [chainHeadOK, Bool.and_eq_true] at hhead; exact hhead.1
        have hqs := hq.2
        simp only [inFragL, Bool.and_eq_true] at hqs
        have hq0 : inFrag (.inner .funcCall [callee, args] a) = true := by
          (first | rw [inFrag_inner_ne _ _ _ (by decide)] | skip); simp only [inFrag, Bool.and_eq_true]; exact hq
        have hlex0 : ANode.tokensAreLeaves (.inner .funcCall [callee, args] a) = true := inFrag_lex _ hq0
        show Post (convFuncCall e r ctx _) _
        unfold convFuncCall firstWhere lastWhere
        have hf1 : ([callee, args] : List ANode).find? isExpr = some callee := by rw [List.find?_cons, hcx]
        have hax : isExpr args = false := by unfold isExpr; rw [hak]; rfl
        have hf2 : ([callee, args] : List ANode).reverse.find? (fun x => x.kind == .args) = some args := by
          show ([args, callee] : List ANode).find? _ = _
          rw [List.find?_cons]; simp [hak]
        simp only [ANode.children, hf1, hf2, childOr, M.pure_bind]
        have tail : Post (do
              let d1 ← r.expr ctx callee
              let d2 ← convFuncCallArgs e r ctx (ANode.inner Kind.funcCall [callee, args] a) args
              pure (d1 ++ d2)) (fun d => Carries d (specAll (ANode.inner Kind.funcCall [callee, args] a))) := by
          rw [specAll_inner .funcCall _ a (by simp [isVerbatimNode, hd']) (by decide)]
          refine Post.bind (hr.expr ctx callee hctx hcx hqs.1) (fun dc hdc => ?_)
          have hm : (ctx.mode == LMode.math) = false := by unfold NM at hctx; simpa using hctx
          by_cases htb : isTable (.inner .funcCall [callee, args] a) = true
          · -- `table` / `grid`
            by_cases hpar' : (args.children.head?.map (·.kind == .leftParen)).getD false = false
            · -- no parenthesised part: trailing content blocks only, nothing to reflow
              have hnone : isFormatableTable (.inner .funcCall [callee, args] a) = none := by
                unfold isFormatableTable
                have hfm : isFormatable (.inner .funcCall [callee, args] a) = false := by
                  unfold isFormatable lastWhere
                  simp only [show (ANode.inner Kind.funcCall [callee, args] a).children = [callee, args] from rfl, hf2]
                  have hpu : parenArgsUntyped args = [] := parenArgsUntyped_noparen args hak hqs.2.1 hpar'
                  rw [hpu]
                  cases (args.children.any fun c => isCommentKind c.kind) <;> rfl
                simp [hfm]
              have heqa : convFuncCallArgs e r ctx (.inner .funcCall [callee, args] a) args = convArgs e r ctx args := by
                unfold convFuncCallArgs convArgs hasParenArgs
                simp only [hm, Bool.false_eq_true, ↓reduceIte, htb, hnone, hpar']
              have ha := args_frag e r hr ctx hctx args hak hqs.2.1
              rw [← heqa] at ha
              refine Post.bind ha (fun da hda => Post.pure ?_)
              simpa [specAllL_cons] using hdc.app hda
            have hpar : (args.children.head?.map (·.kind == .leftParen)).getD false = true := by simpa using hpar'
            cases args with
            | leaf ka ta aa =>
              simp only [ANode.kind] at hak; subst hak
              have := hqs.2.1
              simp [inFrag, Kind.isInnerKind] at this
            | inner ka acs aa =>
              simp only [ANode.kind] at hak; subst hak
              have hqa : inFrag (.inner .args acs aa) = true := hqs.2.1
              simp only [ANode.children] at hpar
              obtain ⟨rp, blocks, hdw, hrpk, hrpm, hblm, hpost, hpre_all⟩ := argsParen_shape acs aa hqa hpar
              have hqa' := hqa
              rw [inFrag_inner_ne _ _ _ (by decide)] at hqa'
              simp only [Bool.and_eq_true] at hqa'
              have hsplitcs : acs = acs.takeWhile (·.kind != .rightParen) ++ rp :: blocks := by
                rw [← hdw, List.takeWhile_append_dropWhile]
              have hpu : parenArgsUntyped (.inner .args acs aa) = acs.takeWhile (·.kind != .rightParen) := by
                unfold parenArgsUntyped
                simp only [ANode.children]
                congr 1
                cases acs with
                | nil => rfl
                | cons c0 crest =>
                  have hc0 : (c0.kind == .leftParen) = true := by simpa using hpar
                  rw [List.dropWhile_cons]
                  simp [bne, hc0]
              unfold convFuncCallArgs hasParenArgs
              simp only [hm, Bool.false_eq_true, ↓reduceIte, htb, ANode.children, hpar]
              have harg : ∀ x, Q x → isArg x = true →
                  Post (convArg e r (ctx.withMode .codeCont) x) (fun d => Carries d (specAll x)) :=
                fun x hqx hax => convArg_frag e r hr _ (NM.withMode _ (by decide)) x hqx hax
              have hargs2 := argsParen_with e r hr ctx hctx acs aa hqa hpar
              cases hft : isFormatableTable (.inner .funcCall [callee, .inner .args acs aa] a) with
              | none =>
                simp only
                refine Post.bind (hargs2 _ ?_) (fun da hda => Post.pure (by simpa [specAllL_cons] using hdc.app hda))
                have := convParenArgsAsList_carries e r ctx harg (.inner .args acs aa) (by
                  rw [hpu]
                  intro x hx
                  have h1 := hpre_all x hx
                  refine ⟨inFrag_lex x h1.1, h1.1, ?_⟩
                  rcases h1.2 with h | h
                  · exact Or.inl h
                  · unfold isPassable at h
                    simp only [Bool.or_eq_true] at h
                    rcases h with h | h
                    · exact Or.inr (Or.inl h)
                    · exact Or.inr (Or.inr h))
                rw [hpu] at this
                exact this
              | some cols =>
                simp only
                refine Post.bind (hargs2 _ ?_) (fun da hda => Post.pure (by simpa [specAllL_cons] using hdc.app hda))
                -- what `is_formatable` accepted
                have hfmt : (acs.any fun c => isCommentKind c.kind) = false ∧
                    ∃ b, formatableGo ((acs.takeWhile (·.kind != .rightParen)).filter isArg) false = some b := by
                  unfold isFormatableTable at hft
                  split at hft
                  · rename_i hc
                    simp only [Bool.and_eq_true] at hc
                    have hfm := hc.2
                    unfold isFormatable lastWhere at hfm
                    simp only [ANode.children, hf2] at hfm
                    by_cases hnc : (acs.any fun c => isCommentKind c.kind) = true
                    · simp [hnc] at hfm
                    · have hnc' : (acs.any fun c => isCommentKind c.kind) = false := by simpa using hnc
                      simp only [hnc', Bool.false_eq_true, ↓reduceIte] at hfm
                      rw [hpu] at hfm
                      refine ⟨hnc', ?_⟩
                      cases hg : formatableGo ((acs.takeWhile (·.kind != .rightParen)).filter isArg) false with
                      | none => rw [hg] at hfm; cases hfm
                      | some b => exact ⟨b, rfl⟩
                  · cases hft
                obtain ⟨hnc, b, hform⟩ := hfmt
                have hPn : ∀ x ∈ acs.takeWhile (·.kind != .rightParen), isArg x = true ∨ isIgnorable x = true := by
                  intro x hx
                  rcases (hpre_all x hx).2 with h | h
                  · exact Or.inl h
                  · unfold isPassable at h
                    simp only [Bool.or_eq_true] at h
                    rcases h with h | h
                    · exfalso
                      have hxm : x ∈ acs := (List.takeWhile_sublist _).subset hx
                      have := List.any_eq_false.mp hnc x hxm
                      rw [h] at this; exact this rfl
                    · exact Or.inr h
                have hrestn : ∀ x ∈ rp :: blocks, (x.kind == .named) = false := by
                  intro x hx
                  rcases List.mem_cons.mp hx with rfl | hx'
                  · rw [hrpk]; rfl
                  · have := blockShape_kind x (List.all_eq_true.mp hpost x hx')
                    have hk : x.kind = .contentBlock := by simpa using this
                    rw [hk]; rfl
                have hsp := table_split (acs.takeWhile (·.kind != .rightParen)) (rp :: blocks) b
                  (lexL_of_mem (fun x hx => inFrag_lex x (hpre_all x hx).1)) hPn hrestn hform
                rw [← hsplitcs] at hsp
                exact convTable_carries e r ctx harg
                  (fun x hqx hk => elem_carries e r _ (NM.withMode _ (by decide)) x hqx (by rw [hk]; rfl) false _ (namedProducer_ok e r hr))
                  _ (.inner .args acs aa) (by unfold lastWhere; simp only [ANode.children]; exact hf2) cols _
                  (fun x hx => inFragL_mem hqa'.2 (List.mem_filter.mp (List.mem_filter.mp hx).1).1)
                  (fun x hx => (hpre_all x (List.mem_filter.mp (List.mem_filter.mp hx).1).1).1)
                  hsp
          have hnt : isTable (.inner .funcCall [callee, args] a) = false := by simpa using htb
          have heqa : convFuncCallArgs e r ctx (.inner .funcCall [callee, args] a) args = convArgs e r ctx args := by
            unfold convFuncCallArgs convArgs
            simp only [hm, Bool.false_eq_true, ↓reduceIte, hnt]
          have ha := args_frag e r hr ctx hctx args hak hqs.2.1
          rw [← heqa] at ha
          refine Post.bind ha (fun da hda => Post.pure ?_)
          simpa [specAllL_cons] using hdc.app hda
        split
        · refine Post.bind (tryDotChain_post e r hr dotQ_frag ctx hctx (fun c hc ar hk hqa => args_frag e r hr c hc ar hk hqa)
              _ rfl hlex0 hq0 hd') ?_
          intro o ho
          cases o with
          | some d => exact Post.pure ho
          | none => exact tail
        · exact tail
      by_cases hsetk : k = .setRule
      · subst hsetk
        show Post (convSetRule e r ctx _) _
        have hv : isVerbatimNode .setRule cs a = false := by simp [isVerbatimNode, hd']
        refine flow_construct_carries e ctx .setRule cs a () _ ?_ hv (by decide) hlex hqc hctx
        intro st c child hnm hok
        unfold setProducer
        split
        · rename_i hx'
          exact Post.bind (hr.expr c child hnm hx' hok.2) (fun d hd => Post.pure hd)
        · split
          · rename_i hk
            have hk' : child.kind = .args := by simpa using hk
            exact Post.bind (args_frag e r hr c hnm child hk' hok.2) (fun d hd => Post.pure hd)
          · split
            · rename_i hk
              exact Post.pure (specAll_space child hok.1 (by simpa using hk))
            · exact Post.rejected _
      by_cases hflowk : k.isFragFlow = true
      · have hv : isVerbatimNode k cs a = false := by cases k <;> simp_all [Kind.isFragFlow, isVerbatimNode]
        have hraw : k ≠ .raw := by intro h; rw [h] at hflowk; cases hflowk
        have hflow : ∀ {σ : Type} (st : σ) (producer : σ → Ctx → ANode → M (σ × Option FlowItem)),
            ProducerS producer specAll (ChildOK Q) →
            Post (flowM e ctx cs st producer) (fun d => Carries d (specAll (.inner k cs a))) :=
          fun st producer hp => flow_construct_carries e ctx k cs a st producer hp hv hraw hlex hqc hctx
        clear hq
        cases k <;> simp only [Kind.isFragFlow, Bool.false_eq_true] at hflowk
        · show Post (convUnary e r ctx _) _
          exact hflow () _ (unaryProducer_ok e r hr _)
        · show Post (convLet e r ctx _) _
          exact hflow () _ (letProducer_ok e r hr)
        · show Post (convShowRule e r ctx _) _
          exact hflow () _ (showProducer_ok e r hr)
        · show Post (convExprFlow e r ctx _) _
          exact hflow () _ (exprFlowProducer_ok r hr _)
        · show Post (convExprFlow e r ctx _) _
          exact hflow () _ (exprFlowProducer_ok r hr _)
        · show Post (convExprFlow e r ctx _) _
          exact hflow () _ (exprFlowProducer_ok r hr _)
        · show Post (convExprFlow e r ctx _) _
          exact hflow () _ (exprFlowProducer_ok r hr _)
        · show Post (convExprFlow e r ctx _) _
          exact hflow () _ (exprFlowProducer_ok r hr _)
        · show Post (convLet e r ctx _) _
          exact hflow () _ (letProducer_ok e r hr)
      · -- list-like
        have hlistk : k.isFragList = true ∧ listChildrenOK k cs = true := by
          have h1 := hq.1
          cases k <;> simp_all [Kind.isFragFlow, Kind.isFragElem, Kind.isFragList, Kind.isFragWrap, Kind.isFragItem, Kind.isImportPart, Kind.isExpr]
        obtain ⟨sp0, sp1, sp2, sp3, sp4, sp5⟩ := soft_paren e
        have hspec : ∀ (hcb : k = .codeBlock → ∀ c ∈ cs, c.kind = .code → c.attrs.disabled = false),
            specAll (.inner k cs a) = specAllL cs := by
          intro hcb
          have hv : isVerbatimNode k cs a = false := by
            unfold isVerbatimNode
            simp only [hd', Bool.false_and, Bool.false_or, Bool.and_eq_false_imp, beq_iff_eq]
            intro hk
            cases hf : cs.find? (·.kind == .code) with
            | none => rfl
            | some c =>
              have hm := List.mem_of_find?_eq_some hf
              have hck : c.kind = .code := by simpa using List.find?_some hf
              simp [hcb hk c hm hck]
          exact specAll_inner k cs a hv (by intro h; rw [h] at hlistk; simp [Kind.isFragList] at hlistk)
        obtain ⟨hkl, hch⟩ := hlistk
        cases k <;> simp only [Kind.isFragList, Bool.false_eq_true] at hkl
        · -- code block
          have hcode : ∀ c ∈ cs, c.kind = .code → c.attrs.disabled = false ∧ specAll c = specAllL c.children ∧
              (c.children.all fun x => isExpr x || isPassable x) = true ∧ (∀ x ∈ c.children, inFrag x = true) := by
            intro c hc hk
            simp only [listChildrenOK, List.all_eq_true] at hch
            have := hch c hc
            simp only [hk, beq_self_eq_true, ↓reduceIte] at this
            have hcq := inFragL_mem hq.2 hc
            cases c with
            | leaf k' t ca =>
              simp only [ANode.kind] at hk; subst hk
              simp only [Bool.and_eq_true, Bool.not_eq_true', beq_iff_eq] at this
              obtain ⟨hdis, rfl⟩ := this
              exact ⟨hdis, by rw [specAll_empty_code_leaf]; rfl, rfl, fun x hx => by cases hx⟩
            | inner k' ccs ca =>
              simp only [ANode.kind] at hk; subst hk
              simp only [Bool.and_eq_true, Bool.not_eq_true'] at this
              rw [inFrag_inner_ne _ _ _ (by decide)] at hcq
              simp only [Bool.and_eq_true] at hcq
              refine ⟨this.1, ?_, this.2, fun x hx => inFragL_mem hcq.2 hx⟩
              exact specAll_inner .code ccs ca (by simp [isVerbatimNode, this.1]) (by decide)
          have hnotcode : ∀ c ∈ cs, c.kind ≠ .code → isPassable c = true := by
            intro c hc hk
            simp only [listChildrenOK, List.all_eq_true] at hch
            have := hch c hc
            have hk' : (c.kind == .code) = false := by simpa using hk
            simpa [hk'] using this
          rw [hspec (fun _ c hc hk => (hcode c hc hk).1)]
          rw [← specAllL_flattenCode cs (fun c hc hk => (hcode c hc hk).2.1)]
          show Post (convCodeBlock e r ctx _) _
          unfold convCodeBlock
          have hbody : ((cs.find? (·.kind == .code)).map (·.attrs.disabled)).getD false = false := by
            cases hf : cs.find? (·.kind == .code) with
            | none => rfl
            | some c =>
              have hm := List.mem_of_find?_eq_some hf
              have hck : c.kind = .code := by simpa using List.find?_some hf
              simp [(hcode c hm hck).1]
          simp only [ANode.children, hbody, Bool.false_eq_true, ↓reduceIte]
          have hnodes : ∀ x ∈ flattenCode cs, inFrag x = true ∧ (isExpr x = true ∨ isPassable x = true) := by
            intro x hx
            unfold flattenCode at hx
            obtain ⟨c, hc, hxc⟩ := List.mem_flatMap.mp hx
            by_cases hk : c.kind = .code
            · obtain ⟨_, _, hall, hfr⟩ := hcode c hc hk
              have hkb : (c.kind == .code) = true := by simp [hk]
              simp only [hkb, ↓reduceIte] at hxc
              refine ⟨hfr x hxc, ?_⟩
              have := List.all_eq_true.mp hall x hxc
              simpa using this
            · have hk' : (c.kind == .code) = false := by simpa using hk
              simp only [hk', Bool.false_eq_true, ↓reduceIte, List.mem_singleton] at hxc
              subst hxc
              exact ⟨inFragL_mem hq.2 hc, Or.inr (hnotcode x hc hk)⟩
          exact list_construct_carries e _ (codeBlockItem r) _
            (checker_ok (codeBlockItem r) isExpr
              (fun c x hnm hqx hax => by
                unfold codeBlockItem; simp only [hax, ↓reduceIte]
                exact Post.bind (hr.expr c x hnm hax hqx) (fun d hd => Post.pure ⟨d, rfl, hd⟩))
              (fun c x hax => by unfold codeBlockItem; simp [hax]))
            (NM.withMode _ (by decide)) _ ⟨rfl, rfl, rfl⟩ id (fun _ => rfl) _ Carries.nil sp3 sp4 (flattenCode cs) hnodes
            (fun x hx => no_hash_of isExpr (fun y hy hk => by unfold isExpr at hy; rw [hk] at hy; cases hy) x (hnodes x hx).2)
        · -- parenthesised: the `paren` entry point of the same level
          exact hr.paren ctx _ hctx rfl hd' (by show inFrag _ = true; (first | rw [inFrag_inner_ne _ _ _ (by decide)] | skip); simp only [inFrag, Bool.and_eq_true]; exact hq)
        · -- array
          have hall : ∀ x ∈ cs, inFrag x = true ∧ ((x.kind == .spread || isExpr x) = true ∨ isPassable x = true) := by
            intro x hx
            simp only [listChildrenOK, Bool.and_eq_true, List.all_eq_true] at hch
            have := hch.2 x hx
            simp only [Bool.or_eq_true] at this ⊢
            refine ⟨inFragL_mem hq.2 hx, ?_⟩
            rcases this with (h | h) | h
            · exact Or.inl (Or.inl h)
            · exact Or.inl (Or.inr h)
            · exact Or.inr h
          have hexpl : (cs.head?.map (·.kind == .leftParen)).getD false = true := by
            simp only [listChildrenOK, Bool.and_eq_true] at hch; exact hch.1
          rw [hspec (fun h => by cases h)]
          show Post (convArray e r ctx _) _
          unfold convArray
          simp only [ANode.children, hexpl, Bool.not_true, Bool.false_and, ↓reduceIte]
          exact list_construct_carries e _ (convArrayItem e r) _
            (checker_ok (convArrayItem e r) (fun x => x.kind == .spread || isExpr x)
              (fun c x hnm hqx hax => by
                unfold convArrayItem
                by_cases hs : (x.kind == .spread) = true
                · simp only [hs, ↓reduceIte]
                  refine Post.bind ?_ (fun d hd => Post.pure ⟨d, rfl, hd⟩)
                  exact elem_carries e r c hnm x hqx (by rw [show x.kind = .spread by simpa using hs]; rfl) () _ (spreadProducer_ok e r hr)
                · have hx' : isExpr x = true := by simpa [hs] using hax
                  simp only [hs, Bool.false_eq_true, ↓reduceIte, hx']
                  exact Post.bind (hr.expr c x hnm hx' hqx) (fun d hd => Post.pure ⟨d, rfl, hd⟩))
              (fun c x hax => by
                simp only [Bool.or_eq_false_iff] at hax
                unfold convArrayItem; simp [hax.1, hax.2]))
            (NM.withMode _ (by decide)) _ ⟨rfl, rfl, rfl⟩ id (fun _ => rfl) _ sp2 sp0 sp1 cs hall
            (fun x hx => no_hash_of (fun x => x.kind == .spread || isExpr x) (fun y hy hk => by
              simp only [Bool.or_eq_true, beq_iff_eq] at hy
              rcases hy with h | h
              · rw [hk] at h; cases h
              · unfold isExpr at h; rw [hk] at h; cases h) x (hall x hx).2)
        · -- dictionary
          have hall : ∀ x ∈ cs, inFrag x = true ∧ ((x.kind == .named || x.kind == .keyed || x.kind == .spread) = true ∨ isPassable x = true) := by
            intro x hx
            simp only [listChildrenOK, List.all_eq_true] at hch
            have := hch x hx
            simp only [Bool.or_eq_true] at this ⊢
            refine ⟨inFragL_mem hq.2 hx, ?_⟩
            rcases this with ((h | h) | h) | h
            · exact Or.inl (Or.inl (Or.inl h))
            · exact Or.inl (Or.inl (Or.inr h))
            · exact Or.inl (Or.inr h)
            · exact Or.inr h
          rw [hspec (fun h => by cases h)]
          show Post (convDict e r ctx _) _
          unfold convDict
          simp only [ANode.children]
          have hd0 : Carries (e.soft (if (List.filter (fun c => c.kind == .named || c.kind == .keyed || c.kind == .spread) cs).all (fun x => x.kind == .spread) = true then "(:" else "(")) {} := by
            split
            · exact sp5
            · exact sp0
          exact list_construct_carries e _ (convDictItem e r) _
            (checker_ok (convDictItem e r) (fun x => x.kind == .named || x.kind == .keyed || x.kind == .spread)
              (fun c x hnm hqx hax => by
                unfold convDictItem
                simp only [Bool.or_eq_true, beq_iff_eq] at hax
                rcases hax with (h | h) | h
                · rw [h]
                  refine Post.bind ?_ (fun d hd => Post.pure ⟨d, rfl, hd⟩)
                  exact elem_carries e r c hnm x hqx (by rw [h]; rfl) false _ (namedProducer_ok e r hr)
                · rw [h]
                  refine Post.bind ?_ (fun d hd => Post.pure ⟨d, rfl, hd⟩)
                  exact elem_carries e r c hnm x hqx (by rw [h]; rfl) false _ (keyedProducer_ok e r hr)
                · rw [h]
                  refine Post.bind ?_ (fun d hd => Post.pure ⟨d, rfl, hd⟩)
                  exact elem_carries e r c hnm x hqx (by rw [h]; rfl) () _ (spreadProducer_ok e r hr))
              (fun c x hax => by
                simp only [Bool.or_eq_false_iff, beq_eq_false_iff_ne] at hax
                unfold convDictItem
                split <;> simp_all))
            (NM.withMode _ (by decide)) _ ⟨rfl, rfl, rfl⟩ id (fun _ => rfl) _ sp2 hd0 sp1 cs hall
            (fun x hx => no_hash_of (fun x => x.kind == .named || x.kind == .keyed || x.kind == .spread) (fun y hy hk => by rw [hk] at hy; simp at hy) x (hall x hx).2)

/-- One level of the knot: `convert_parenthesized`. -/
theorem specAllL_unique (cs : List ANode) (hlex : ANode.tokensAreLeavesL cs = true) (p : ANode) (hp : p ∈ cs)
    (hni : isIgnorable p = false) (hcount : (cs.filter fun x => !isIgnorable x).length = 1) :
    specAllL cs = specAll p := by
  induction cs with
  | nil => cases hp
  | cons c rest ih =>
    simp only [ANode.tokensAreLeavesL, Bool.and_eq_true] at hlex
    rw [specAllL_cons]
    by_cases hc : isIgnorable c = true
    · have hpr : p ∈ rest := by
        rcases List.mem_cons.mp hp with rfl | h
        · rw [hc] at hni; cases hni
        · exact h
      have hcount' : (rest.filter fun x => !isIgnorable x).length = 1 := by
        rw [List.filter_cons] at hcount
        simpa [hc] using hcount
      rw [specAll_ignorable c hlex.1 hc, ih hlex.2 hpr hcount', Streams.empty_app]
    · have hc' : isIgnorable c = false := by simpa using hc
      rw [List.filter_cons] at hcount
      simp only [hc', Bool.not_false, ↓reduceIte, List.length_cons, Nat.add_eq_right, List.length_eq_zero_iff] at hcount
      have hall : ∀ x ∈ rest, isIgnorable x = true := by
        intro x hx
        cases hix : isIgnorable x with
        | true => rfl
        | false =>
          exfalso
          have : x ∈ rest.filter fun x => !isIgnorable x := by
            rw [List.mem_filter]; exact ⟨hx, by simp [hix]⟩
          rw [hcount] at this; cases this
      have hrest : specAllL rest = {} := by
        clear ih hp hcount
        induction rest with
        | nil => rfl
        | cons y ys ihy =>
          simp only [ANode.tokensAreLeavesL, Bool.and_eq_true] at hlex
          rw [specAllL_cons, specAll_ignorable y hlex.2.1 (hall y List.mem_cons_self),
            ihy ⟨hlex.1, hlex.2.2⟩ (fun x hx => hall x (List.mem_cons_of_mem _ hx))]
          rfl
      have hpc : p = c := by
        rcases List.mem_cons.mp hp with h | h
        · exact h
        · rw [hall p h] at hni; cases hni
      rw [hrest, hpc, Streams.app_empty]

theorem convParenthesized_frag (e : Env) (r : Rec) (hr : RecOK r Q) (ctx : Ctx) (hctx : NM ctx) (n : ANode) (hk : n.kind = .parenthesized)
    (hdis : n.attrs.disabled = false) (hq : inFrag n = true) : Post (convParenthesized e r ctx n) (fun d => Carries d (specAll n)) := by
  cases n with
  | leaf k t a =>
    simp only [ANode.kind] at hk
    (first | rw [inFrag_inner_ne _ _ _ (by decide)] at hq | rw [inFrag_inner_ne _ _ _ (by assumption)] at hq | skip); simp only [inFrag, Bool.and_eq_true, Bool.not_eq_true'] at hq
    rw [hk] at hq; simp [Kind.isInnerKind] at hq
  | inner k cs a =>
    simp only [ANode.kind] at hk
    subst hk
    (first | rw [inFrag_inner_ne _ _ _ (by decide)] at hq | rw [inFrag_inner_ne _ _ _ (by assumption)] at hq | skip); simp only [inFrag, Bool.and_eq_true] at hq
    have hch : listChildrenOK .parenthesized cs = true := by
      have h1 := hq.1
      simp [Kind.isFragFlow, Kind.isFragElem, Kind.isFragList, Kind.isFragWrap, Kind.isFragItem, Kind.isImportPart] at h1
      exact h1
    simp only [listChildrenOK, Bool.and_eq_true] at hch
    have hall : ∀ x ∈ cs, inFrag x = true ∧ (isPattern x = true ∨ isPassable x = true) := by
      intro x hx
      have := List.all_eq_true.mp hch.1 x hx
      simp only [Bool.or_eq_true] at this
      exact ⟨inFragL_mem hq.2 hx, this⟩
    obtain ⟨sp0, sp1, sp2, sp3, sp4, sp5⟩ := soft_paren e
    have hd' : a.disabled = false := by simpa [ANode.attrs] using hdis
    unfold convParenthesized
    simp only [ANode.children]
    cases hf : cs.find? isPattern with
    | none => exact Post.bind (Q := fun _ => False) (by unfold childOr; exact Post.rejected _) (fun _ h => h.elim)
    | some p =>
      have hpm : p ∈ cs := List.mem_of_find?_eq_some hf
      have hpp : isPattern p = true := by simpa using List.find?_some hf
      simp only [childOr, M.pure_bind]
      split
      · -- directly nested: the inner layer alone
        rename_i hcond
        simp only [Bool.and_eq_true, beq_iff_eq, Bool.not_eq_true'] at hcond
        have hnc : (cs.any fun c => isCommentKind c.kind) = false := by
          simpa [hasCommentChildren, ANode.children] using hcond.2
        have h2 := hch.2
        simp [hf, hcond.1, hnc] at h2
        have hni : isIgnorable p = false := by
          unfold isIgnorable; rw [hcond.1]; rfl
        rw [specAll_inner _ cs a (by simp [isVerbatimNode, hd']) (by decide),
          specAllL_unique cs (inFragL_lex cs hq.2) p hpm hni h2.2]
        exact hr.paren _ p (NM.withMode _ (by decide)) hcond.1 h2.1 (hall p hpm).1
      · rename_i hcond
        rw [specAll_inner _ cs a (by simp [isVerbatimNode, hd']) (by decide)]
        exact list_construct_carries e _ (parenItem r) _
          (checker_ok (parenItem r) isPattern
            (fun c x hnm hqx hax => by
              unfold parenItem; simp only [hax, ↓reduceIte]
              exact Post.bind (hr.pattern c x hnm hax hqx) (fun d hd => Post.pure ⟨d, rfl, hd⟩))
            (fun c x hax => by unfold parenItem; simp [hax]))
          (NM.withMode _ (by decide)) _ ⟨rfl, rfl, rfl⟩ id (fun _ => rfl) _ Carries.nil sp0 sp1 cs hall
          (fun x hx => no_hash_of isPattern (fun y hy hk => by
            unfold isPattern isExpr at hy; rw [hk] at hy; simp [Kind.isExpr] at hy) x (hall x hx).2)

/-- One level of the knot: the pattern entry point. -/
theorem convPattern_frag (e : Env) (r : Rec) (hr : RecOK r Q) (hrM : RecOKM r QM) (ctx : Ctx) (hctx : NM ctx) (n : ANode)
    (hp : isPattern n = true) (hq : inFrag n = true) :
    Post (convPattern e r (convExpr e r) (convParenthesized e r) ctx n) (fun d => Carries d (specAll n)) := by
  by_cases hu : n.kind = .underscore
  · -- the placeholder `_`
    obtain ⟨t, a, hn⟩ := leaf_of_token (inFrag_lex n hq) (by rw [hu]; rfl)
    rw [hu] at hn
    subst hn
    have ht : t = "_" := leaf_tok_fixed (inFrag_lex _ hq) rfl
    subst ht
    unfold convPattern
    refine Post.bind (Q := fun _ => True) (fun _ _ _ _ => trivial) (fun _ _ => ?_)
    rw [specAll_underscore_leaf]
    split
    · exact Post.pure (Carries.mkText e.wd .tok "_")
    · refine Post.pure ((Carries.mkText e.wd .syn "_").congr (tagS_syn_eq_tok "_"))
  · by_cases hdk : n.kind = .destructuring
    · -- a destructuring pattern
      cases n with
      | leaf k t a => simp only [ANode.kind] at hdk; subst hdk; simp [inFrag, Kind.isInnerKind] at hq
      | inner k cs a =>
        simp only [ANode.kind] at hdk; subst hdk
        unfold convPattern
        refine Post.bind (Q := fun _ => True) (fun _ _ _ _ => trivial) (fun _ _ => ?_)
        split
        · rename_i hd
          exact Post.pure (verb_inner_carries' e _ cs a (by simpa [ANode.attrs] using hd) (Or.inr rfl))
        · rename_i hd
          exact (paramList_frag e r hr ctx .destructuring cs a (Or.inr rfl) (fun _ => by simpa [ANode.attrs] using hd) hq).2
    -- every other pattern of the fragment is an expression
    have hx : isExpr n = true := by
      unfold isPattern at hp
      simp only [Bool.or_eq_true, beq_iff_eq] at hp
      rcases hp with (h | h) | h
      · exact absurd h hu
      · exact absurd h hdk
      · exact h
    have hk2 : n.kind ≠ .destructuring := by intro h; unfold isExpr at hx; rw [h] at hx; cases hx
    have hexpr := convExpr_frag e r hr hrM ctx hctx n hx hq
    unfold convPattern
    refine Post.bind (Q := fun _ => True) (fun _ _ _ _ => trivial) (fun _ _ => ?_)
    split
    · -- marked: verbatim, as at the expression entry point
      rename_i hd
      cases n with
      | leaf k t a =>
        have := leaf_expr_frag e r ctx k t a hx hq
        rw [if_pos hd] at this
        exact this
      | inner k cs a =>
        exact Post.pure (verb_inner_carries e k cs a (by simpa [ANode.attrs] using hd) hx)
    · rename_i hd
      split
      · rename_i hk; exact absurd hk hu
      · rename_i hk; exact absurd hk hk2
      · rename_i hk
        exact convParenthesized_frag e r hr ctx hctx n hk (by simpa using hd) hq
      · exact hexpr

/-- One level of the knot: `convert_markup_impl`. -/
theorem convMarkup_frag (e : Env) (r : Rec) (hr : RecOK r Q) (ctx : Ctx) (hctx : NM ctx) (n : ANode) (scope : Scope) (hk : n.kind = .markup)
    (hq : inFrag n = true) : Post (convMarkup e r ctx n scope) (fun d => Carries d (specAll n)) := by
  cases n with
  | leaf k t a =>
    -- an empty `Markup` (a leaf): nothing is printed, nothing is prescribed
    simp only [ANode.kind] at hk; subst hk
    have ht : t = "" := frag_markup_leaf_text t a hq
    subst ht
    rw [specAll_empty_markup_leaf]
    unfold convMarkup
    refine Post.bind (Q := fun _ => True) (fun _ _ _ _ => trivial) (fun _ _ => ?_)
    have hrepr : collectMarkupRepr [] = ⟨[], .nil, .nil⟩ := by rfl
    simp only [ANode.children, isOnlyOneAnd, Bool.false_eq_true, ↓reduceIte, hrepr, List.foldlM_nil, M.pure_bind]
    refine Post.pure ?_
    simpa using Carries.nil.enclose (getDelim_carries _ _ _ _ _) (getDelim_carries _ _ _ _ _)
  | inner k cs a =>
    simp only [ANode.kind] at hk; subst hk
    (first | rw [inFrag_inner_ne _ _ _ (by decide)] at hq | rw [inFrag_inner_ne _ _ _ (by assumption)] at hq | skip); simp only [inFrag, Bool.and_eq_true] at hq
    have hch : listChildrenOK .markup cs = true := by
      have h1 := hq.1
      simp [Kind.isFragFlow, Kind.isFragElem, Kind.isFragList, Kind.isFragWrap, Kind.isFragItem, Kind.isImportPart] at h1
      exact h1
    rw [specAll_inner .markup cs a (by simp [isVerbatimNode, Kind.isExpr]) (by decide)]
    refine convMarkup_carries e r hr ctx .markup cs a scope (fun x hx => ?_)
    have hxq := inFragL_mem hq.2 hx
    refine ⟨inFrag_lex x hxq, fun _ => hxq, ?_⟩
    simp only [listChildrenOK, List.all_eq_true] at hch
    have := hch x hx
    simp only [Bool.or_eq_true, beq_iff_eq] at this
    rcases this with ((((h | h) | h) | h) | h) | h
    · exact Or.inl h
    · exact Or.inr (Or.inr (Or.inl (by unfold isExpr; rw [h]; rfl)))
    · exact Or.inr (Or.inl h)
    · exact Or.inr (Or.inr (Or.inl h))
    · exact Or.inr (Or.inr (Or.inr (Or.inl h)))
    · exact Or.inr (Or.inr (Or.inr (Or.inr h)))

/-- An empty row of math arguments arrives as a leaf (`mat(n: 1; 2)` has one before the `;`). -/
theorem specAll_empty_array_leaf (a : Attrs) : specAll (.leaf .array "" a) = {} := by
  apply Streams.ext' <;> simp [specAll, specToks, specCmts, specProse, specLit, specVerb, isCommentKind, Pretty.keepOf]

theorem convArray_leaf_eq (e : Env) (r : Rec) (ctx : Ctx) (t : String) (a : Attrs) :
    convArray e r ctx (.leaf .array t a) = convArray e r ctx (.inner .array [] a) := rfl

/-- One level of the knot: the expression entry point in math mode. -/
theorem convExprM_frag (e : Env) (r : Rec) (hr : RecOK r Q) (hrM : RecOKM r QM) (ctx : Ctx) (hm : ctx.mode = .math)
    (n : ANode) (hx : isExpr n = true) (hq : inFragM n = true) :
    Post (convExpr e r ctx n) (fun d => Carries d (specAll n)) := by
  unfold convExpr
  refine Post.bind (Q := fun _ => True) (fun _ _ _ _ => trivial) (fun _ _ => ?_)
  cases n with
  | leaf k t a =>
    by_cases hmk : k = .math
    · -- an empty body
      subst hmk
      split
      · rename_i hd
        have ht : t = "" := by
          have h := hq
          simp [inFragM, Kind.isInnerKind] at h
          exact h.2
        subst ht
        refine Post.pure ?_
        rw [specAll_empty_math_leaf]
        refine (Carries.mkText e.wd .verbatim _).congr ?_
        apply Streams.ext' <;> simp [tagS, Pretty.charsOf, ANode.intoText]
      · show Post (r.math ctx _) _
        exact hrM.math ctx _ hm rfl hq
    by_cases hak : k = .array
    · -- an empty row
      subst hak
      have ht : t = "" := by
        have h := hq
        simp [inFragM, Kind.isInnerKind] at h
        exact h.2
      subst ht
      rw [specAll_empty_array_leaf]
      split
      · refine Post.pure ?_
        refine (Carries.mkText e.wd .verbatim _).congr ?_
        apply Streams.ext' <;> simp [tagS, Pretty.charsOf, ANode.intoText]
      · rename_i hd
        have hd' : a.disabled = false := by simpa [ANode.attrs] using hd
        show Post (convArray e r ctx _) _
        rw [convArray_leaf_eq]
        have := convArrayMH_carries e r hr hrM ctx hm [] a hd' rfl (by trivial) (fun x hx => by cases hx) rfl
        rw [specAll_inner .array [] a (by simp [isVerbatimNode, hd']) (by decide)] at this
        exact this
    have hq' : inFrag (.leaf k t a) = true := by
      have hak' : (k == .array) = false := by simpa using hak
      simp only [inFragM, Bool.and_eq_true, Bool.or_eq_true, hak', Bool.or_false, or_false] at hq
      simp only [inFrag, Bool.and_eq_true, Bool.or_eq_true]
      have hmk' : (k == .math) = false := by simpa using hmk
      refine ⟨⟨hq.1.1, ?_⟩, ?_⟩
      · rcases hq.1.2 with h | h
        · exact h
        · rw [hmk'] at h; cases h
      · rcases hq.2 with h | h
        · exact Or.inl h
        · rcases h.1 with h1 | h1
          · exact Or.inr ⟨h1, h.2⟩
          · rw [hmk'] at h1; cases h1
    exact leaf_expr_frag e r ctx k t a hx hq'
  | inner k cs a =>
    have hkx : k.isExpr = true := hx
    by_cases hcallk : k = .funcCall
    · -- a call in math mode
      subst hcallk
      rw [inFragM_inner_call] at hq
      simp only [Bool.and_eq_true] at hq
      split
      · rename_i hd
        exact Post.pure (verb_inner_carries e .funcCall cs a (by simpa [ANode.attrs] using hd) rfl)
      · rename_i hd
        have hd' : a.disabled = false := by simpa [ANode.attrs] using hd
        show Post (convFuncCall e r ctx _) _
        have hsh := hq.1
        simp only [mathCallShapeB] at hsh
        rcases cs with _ | ⟨callee, _ | ⟨args, _ | ⟨c2, rest⟩⟩⟩ <;> simp only [Bool.false_eq_true] at hsh
        simp only [Bool.and_eq_true, Bool.not_eq_true', beq_eq_false_iff_ne, ne_eq] at hsh
        obtain ⟨⟨hxc, hnf⟩, hargsh⟩ := hsh
        cases args with
        | leaf _ _ _ => simp at hargsh
        | inner ka acs aa =>
          by_cases hka : ka = .args
          · subst hka
            simp only at hargsh
            have hql := hq.2
            have hcnotargs : ∀ ics ia, callee ≠ .inner .args ics ia := by
              intro ics ia h; rw [h] at hxc; cases hxc
            have hqcallee : inFragM callee = true ∧ inFragMA false acs = true := by
              cases callee with
              | leaf kk tt aa' =>
                simp only [inFragMCallL, Bool.and_eq_true, Bool.and_true] at hql
                exact ⟨hql.1, hql.2⟩
              | inner kk ics ia =>
                have hkk : kk ≠ .args := by intro h; subst h; cases hxc
                have he : inFragMCallL [.inner kk ics ia, .inner .args acs aa] =
                    (inFragM (.inner kk ics ia) && inFragMCallL [.inner .args acs aa]) := by
                  cases kk <;> first | exact absurd rfl hkk | rfl
                rw [he] at hql
                simp only [inFragMCallL, Bool.and_eq_true, Bool.and_true] at hql
                exact ⟨hql.1, hql.2⟩
            -- the argument list: `(`, content, `)`
            simp only [mathArgsShapeB] at hargsh
            cases acs with
            | nil => simp at hargsh
            | cons lp arest =>
              simp only [Bool.and_eq_true, beq_iff_eq] at hargsh
              cases hgl : arest.getLast? with
              | none => simp [hgl] at hargsh
              | some rp =>
                simp only [hgl, Bool.and_eq_true, beq_iff_eq, Bool.or_eq_true, Bool.not_eq_true', List.isEmpty_iff,
                  List.isEmpty_eq_false_iff] at hargsh
                obtain ⟨hlpk, ⟨⟨⟨⟨hrpk, hsp1⟩, hsp2⟩, hheadB⟩, hlastB⟩, hemp⟩ := hargsh
                have hrest := dropLast_getLast arest rp hgl
                have hinner : arest.dropLast = arest.dropLast.takeWhile isSpK ++
                    (dropTrail (arest.dropLast.dropWhile isSpK) ++ trailSp (arest.dropLast.dropWhile isSpK)) := by
                  rw [dropTrail_append_trailSp, List.takeWhile_append_dropWhile]
                generalize hsp1d : arest.dropLast.takeWhile isSpK = sp1 at hinner hsp1
                generalize hcored : dropTrail (arest.dropLast.dropWhile isSpK) = core at hinner hheadB hlastB hemp
                generalize hsp2d : trailSp (arest.dropLast.dropWhile isSpK) = sp2 at hinner hsp2 hemp
                have hacs : lp :: arest = lp :: (sp1 ++ (core ++ (sp2 ++ [rp]))) := by
                  rw [hrest, hinner]; simp
                have hseqA := inFragMA_okSeq ctx hm (lp :: arest) false hqcallee.2
                have hlexA := inFragMA_lex false (lp :: arest) hqcallee.2
                rw [hacs] at hseqA hlexA ⊢
                have hs1 : ∀ x ∈ sp1, x.kind = .space := fun x hx => by
                  have := List.all_eq_true.mp hsp1 x hx; simpa [isSpK] using this
                have hs2 : ∀ x ∈ sp2, x.kind = .space := fun x hx => by
                  have := List.all_eq_true.mp hsp2 x hx; simpa [isSpK] using this
                have hseqT := hseqA.2
                have hlpnh : (lp.kind == .hash) = false := by rw [hlpk]; rfl
                rw [hlpnh] at hseqT
                have hds := okSeq_drop_spaces ctx sp1 _ hs1 false hseqT
                simp only [ite_self] at hds
                have hmidseq := okSeq_prefix ctx core (sp2 ++ [rp]) false hds
                refine convFuncCallM_carries e r hrM ctx hm callee _ a hd' hxc hnf hqcallee.1 rfl ?_
                refine convArgsInMath_carries_gen e r ctx (mathArgProducer_okA e r hr hrM) okA_space lp rp sp1 core sp2 aa hlpk hrpk hlexA hs1 hs2 ?_ ?_ ?_ hmidseq
                · intro c hc
                  rw [hc] at hheadB
                  simpa using hheadB
                · intro c hc
                  rw [hc] at hlastB
                  simpa using hlastB
                · intro hc
                  rcases hemp with h | h
                  · exact absurd hc h
                  · exact h
          · exfalso
            cases ka <;> first | exact absurd rfl hka | simp at hargsh
    rw [inFragM_inner_ne k cs a hcallk] at hq
    simp only [Bool.and_eq_true] at hq
    split
    · rename_i hd
      exact Post.pure (verb_inner_carries e k cs a (by simpa [ANode.attrs] using hd) hkx)
    · rename_i hd
      have hd' : a.disabled = false := by simpa [ANode.attrs] using hd
      have hseq := inFragMS_seq cs false hq.2
      have hlex := inFragMS_lex false cs hq.2
      have h1 := hq.1
      by_cases hflow : k.isMathFlow = true
      · have hv : isVerbatimNode k cs a = false := by cases k <;> simp_all [Kind.isMathFlow, isVerbatimNode]
        have hraw : k ≠ .raw := by intro h; rw [h] at hflow; cases hflow
        cases k <;> simp only [Kind.isMathFlow, Bool.false_eq_true] at hflow
        · show Post (convMathAttach e r ctx _) _
          unfold convMathAttach
          exact mathFlow_carries e ctx hm .mathAttach cs a false _ (attachProducer_ok e r hr hrM) hv hraw hlex hseq
        · show Post (convMathFrac e r ctx _) _
          unfold convMathFrac
          exact mathFlow_carries e ctx hm .mathFrac cs a () _ (fracProducer_ok e r hr hrM) hv hraw hlex hseq
        · show Post (convMathRoot e r ctx _) _
          unfold convMathRoot
          exact mathFlow_carries e ctx hm .mathRoot cs a () _ (rootProducer_ok e r hr hrM) hv hraw hlex hseq
      by_cases hmk : k = .math
      · subst hmk
        show Post (r.math ctx _) _
        exact hrM.math ctx _ hm rfl (by simp only [QM]; rw [inFragM_inner_ne _ _ _ (by decide)]; simp only [Bool.and_eq_true]; exact hq)
      by_cases hfak : k = .fieldAccess
      · subst hfak
        have hsh : dotChildrenOK cs = true ∧ (cs.any fun c => isCommentKind c.kind) = false := by
          simpa [Kind.isMathFlow] using h1
        cases cs with
        | nil => simp [dotChildrenOK] at hsh
        | cons t rest =>
          have hd1 := hsh.1
          simp only [dotChildrenOK, Bool.and_eq_true] at hd1
          have hxt : isExpr t = true := by
            have := hd1.1; simp only [chainHeadOK, Bool.and_eq_true] at this; exact this.1
          have hqt : inFragM t = true := by
            have h2 := hq.2
            simp only [inFragMS, Bool.and_eq_true] at h2
            simpa [hxt] using h2.1
          exact convFieldAccessM_carries e r hrM ctx hm t rest a hd' hxt hqt hd1.2 hlex hsh.2
      by_cases hark : k = .array
      · subst hark
        have hsh : rowShapeB cs = true := by simpa [Kind.isMathFlow] using h1
        simp only [rowShapeB, Bool.and_eq_true, Bool.not_eq_true'] at hsh
        show Post (convArray e r ctx _) _
        refine convArrayMH_carries e r hr hrM ctx hm cs a hd' hsh.1.1 hseq ?_ hsh.2
        intro x hx
        have := List.all_eq_true.mp hsh.1.2 x hx
        simp only [Bool.or_eq_true, beq_iff_eq] at this
        rcases this with ((h | h) | h) | h
        · exact Or.inl h
        · exact Or.inr (Or.inl h)
        · exact Or.inr (Or.inr (Or.inl h))
        · exact Or.inr (Or.inr (Or.inr h))
      by_cases hdk : k = .mathDelimited
      · subst hdk
        have hsh : delimShapeB cs = true := by simpa [Kind.isMathFlow] using h1
        show Post (convMathDelimited e r ctx _) _
        cases cs with
        | nil => simp [delimShapeB] at hsh
        | cons c0 rest =>
          simp only [delimShapeB] at hsh
          cases hgl : rest.getLast? with
          | none => simp [hgl] at hsh
          | some c1 =>
            simp only [hgl, Bool.and_eq_true] at hsh
            obtain ⟨⟨hx0, hx1⟩, hmidk⟩ := hsh
            have hrest := dropLast_getLast rest c1 hgl
            rw [hrest] at hq hlex ⊢
            have hnh : ∀ c ∈ c0 :: (rest.dropLast ++ [c1]), (c.kind == .hash) = false := by
              intro c hc
              rcases List.mem_cons.mp hc with rfl | hc'
              · exact expr_not_hash hx0
              · rcases List.mem_append.mp hc' with hm' | hm'
                · have := List.all_eq_true.mp hmidk c hm'
                  simp only [Bool.or_eq_true, beq_iff_eq] at this
                  rcases this with (hk | hk) | hk
                  · rw [hk]; rfl
                  · rw [hk]; rfl
                  · exact comment_not_hash _ hk
                · have : c = c1 := by simpa using hm'
                  rw [this]; exact expr_not_hash hx1
            have hall := inFragMS_nohash _ hq.2 hnh
            refine convMathDelimited_carries e r hrM ctx hm c0 c1 rest.dropLast a hd' hx0 hx1
              ((hall c0 (by simp)).2 hx0) ((hall c1 (by simp)).2 hx1) ?_
            intro c hc
            have hcm : c ∈ c0 :: (rest.dropLast ++ [c1]) := by simp [hc]
            refine ⟨(hall c hcm).1, ?_⟩
            have := List.all_eq_true.mp hmidk c hc
            simp only [Bool.or_eq_true, beq_iff_eq] at this
            rcases this with (hk | hk) | hk
            · exact Or.inl ⟨hk, (hall c hcm).2 (by unfold isExpr; rw [hk]; rfl)⟩
            · exact Or.inr (Or.inl hk)
            · exact Or.inr (Or.inr hk)
      · have hpk : k = .mathPrimes := by
          cases k <;> simp_all [Kind.isMathFlow]
        subst hpk
        show Post (convMathPrimes e _) _
        exact convMathPrimes_carries e cs a hd' hlex

/-- One level of the knot: a math body. -/
theorem convMath_frag (e : Env) (r : Rec) (hr : RecOK r Q) (hrM : RecOKM r QM) (ctx : Ctx) (hm : ctx.mode = .math)
    (n : ANode) (hk : n.kind = .math) (hq : inFragM n = true) :
    Post (convMath e r ctx n) (fun d => Carries d (specAll n)) := by
  rcases inFragM_math_inner n hk hq with ⟨mcs, a, rfl⟩ | ⟨a, rfl⟩
  · rw [inFragM_inner_ne _ _ _ (by decide)] at hq
    simp only [Bool.and_eq_true] at hq
    exact convMath_carries e r hr hrM ctx hm mcs a (inFragMS_seq mcs false hq.2)
  · exact convMath_leaf_carries e r ctx a

/-- **The knot, by induction on the fuel**: at every level, the expression, pattern, parenthesis and markup
entry points carry what a tree of the fragment prescribes, and so do the expression and math-body entry
points in math mode for a tree of the math fragment. -/
theorem knot_frag (e : Env) : ∀ fuel, RecOK (knot e fuel) Q ∧ RecOKM (knot e fuel) QM
  | 0 => ⟨⟨fun _ _ _ _ _ => Post.rejected _, fun _ _ _ _ _ => Post.rejected _, fun _ _ _ _ _ _ => Post.rejected _,
          fun _ _ _ _ _ _ => Post.rejected _⟩, ⟨fun _ _ _ _ _ => Post.rejected _, fun _ _ _ _ _ => Post.rejected _⟩⟩
  | fuel+1 => by
    have ih := knot_frag e fuel
    exact ⟨⟨fun ctx c hn hx hq => convExpr_frag e (knot e fuel) ih.1 ih.2 ctx hn c hx hq,
           fun ctx c hn hp hq => convPattern_frag e (knot e fuel) ih.1 ih.2 ctx hn c hp hq,
           fun ctx c hn hk hd hq => convParenthesized_frag e (knot e fuel) ih.1 ctx hn c hk hd hq,
           fun ctx c scope hn hk hq => convMarkup_frag e (knot e fuel) ih.1 ctx hn c scope hk hq⟩,
          ⟨fun ctx c hm hx hq => convExprM_frag e (knot e fuel) ih.1 ih.2 ctx hm c hx hq,
           fun ctx c hm hk hq => convMath_frag e (knot e fuel) ih.1 ih.2 ctx hm c hk hq⟩⟩

end Typstyle
