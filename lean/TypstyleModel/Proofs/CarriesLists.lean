import TypstyleModel.Proofs.CarriesList
/-! List-like constructs (route M): arrays, dictionaries, parenthesised expressions and code blocks carry
what the node prescribes when their children's conversions do. -/
namespace Typstyle
open Twin

theorem foldl_specAll (cs : List ANode) (acc : Streams) :
    cs.foldl (fun acc x => acc.app (specAll x)) acc = acc.app (specAllL cs) := by
  induction cs generalizing acc with
  | nil => simp
  | cons c cs ih => rw [List.foldl_cons, ih, specAllL_cons, Streams.app_assoc]

/-- A child the list stylist may ignore: white space, or a delimiter/separator whose text is fixed. -/
def isIgnorable (x : ANode) : Bool := x.kind == .space || x.kind.fixedText.isSome

theorem specAll_ignorable (x : ANode) (h : ANode.tokensAreLeaves x = true) (hi : isIgnorable x = true) : specAll x = {} := by
  unfold isIgnorable at hi
  simp only [Bool.or_eq_true, beq_iff_eq] at hi
  rcases hi with hk | hk
  · exact specAll_space x h hk
  · cases hf : x.kind.fixedText with
    | none => rw [hf] at hk; cases hk
    | some s =>
      obtain ⟨t, a, hc⟩ := leaf_of_token h (by cases hkk : x.kind <;> simp_all [Kind.fixedText, Kind.isInnerKind])
      rw [hc] at h ⊢
      exact specAll_delim_leaf _ t a s hf h

theorem triviaS_comment (x : ANode) (h : ANode.tokensAreLeaves x = true) (hc : isCommentKind x.kind = true) : specAll x = triviaS x := by
  obtain ⟨t, a, hx⟩ := leaf_of_token h (by
    simp only [isCommentKind, Bool.or_eq_true, beq_iff_eq] at hc
    rcases hc with hk | hk <;> rw [hk] <;> rfl)
  unfold triviaS
  rw [hc]
  simp only [↓reduceIte]
  rw [hx, specAll_comment_leaf _ t a hc]; rfl

theorem triviaS_ignorable (x : ANode) (h : ANode.tokensAreLeaves x = true) (hi : isIgnorable x = true) : specAll x = triviaS x := by
  rw [specAll_ignorable x h hi]
  unfold triviaS
  have : isCommentKind x.kind = false := by
    unfold isIgnorable at hi
    cases hk : x.kind <;> simp_all [isCommentKind, Kind.fixedText]
  rw [this]; rfl

/-- The generic list construct: process the children, print the list. -/
theorem list_construct_carries (e : Env) (ctx : Ctx) (checker : Ctx → ANode → M (Option Doc)) (ok : ANode → Prop)
    {P : Ctx → Prop} (hc : CheckerS checker specAll ok P) (hctx : P ctx) (s0 : LS) (h0 : s0.items = [] ∧ s0.free = [] ∧ s0.peekHash = false)
    (post : LS → LS) (hpost : ∀ s, (post s).items = s.items)
    (sty : ListStyle) (hsep : Carries sty.sep {}) (hd0 : Carries sty.d0 {}) (hd1 : Carries sty.d1 {})
    (nodes : List ANode) (hok : ∀ x ∈ nodes, ok x) (hnh : ∀ x ∈ nodes, x.kind ≠ .hash) :
    Post (do let ls ← s0.processM e ctx nodes checker; pure ((post ls).print e sty)) (fun d => Carries d (specAllL nodes)) := by
  have hinv : LInv s0 {} := ⟨by rw [h0.1]; rfl, by rw [h0.2.1]; rfl, by rw [h0.1, h0.2.1]; rfl, h0.2.2⟩
  refine Post.bind (processM_carries e ctx checker hc hctx s0 hinv nodes hok hnh) (fun ls hls => Post.pure ?_)
  have heq := hls.1.eq
  rw [hls.2] at heq
  simp only [docsS, Streams.app_empty, foldl_specAll, Streams.empty_app] at heq
  rw [← heq, ← hpost ls]
  exact print_carries e (post ls) sty hsep hd0 hd1 (by rw [hpost]; exact hls.1.ig)

/-- The generic list construct whose delimiters are tokens of their own. -/
theorem list_construct_carries_delims (e : Env) (ctx : Ctx) (checker : Ctx → ANode → M (Option Doc)) (ok : ANode → Prop)
    {P : Ctx → Prop} {sem : ANode → Streams} (hc : CheckerS checker sem ok P) (hctx : P ctx)
    (s0 : LS) (h0 : s0.items = [] ∧ s0.free = [] ∧ s0.peekHash = false)
    (sty : ListStyle) (hsep : Carries sty.sep {}) {t0 t1 : Streams} (hd0 : Carries sty.d0 t0) (hd1 : Carries sty.d1 t1)
    (ho1 : sty.omitDelimSingle = false) (ho2 : sty.omitDelimFlat = false) (ho3 : sty.omitDelimEmpty = false)
    (nodes : List ANode) (hok : ∀ x ∈ nodes, ok x) (hnh : ∀ x ∈ nodes, x.kind ≠ .hash) :
    Post (do let ls ← s0.processM e ctx nodes checker; pure (ls.print e sty))
      (fun d => Carries d ((t0.app (nodes.foldl (fun acc x => acc.app (sem x)) {})).app t1)) := by
  have hinv : LInv s0 {} := ⟨by rw [h0.1]; rfl, by rw [h0.2.1]; rfl, by rw [h0.1, h0.2.1]; rfl, h0.2.2⟩
  refine Post.bind (processM_carries e ctx checker hc hctx s0 hinv nodes hok hnh) (fun ls hls => Post.pure ?_)
  have heq := hls.1.eq
  rw [hls.2] at heq
  simp only [docsS, Streams.app_empty] at heq
  rw [← heq]
  exact print_carries_delims e ls sty hsep hd0 hd1 ho1 ho2 ho3 hls.1.ig

theorem soft_paren (e : Env) : Carries (e.soft "(") {} ∧ Carries (e.soft ")") {} ∧ Carries (e.soft ",") {} ∧
    Carries (e.soft "{") {} ∧ Carries (e.soft "}") {} ∧ Carries (e.soft "(:") {} :=
  ⟨Carries.soft e _ (by decide), Carries.soft e _ (by decide), Carries.soft e _ (by decide),
   Carries.soft e _ (by decide), Carries.soft e _ (by decide), Carries.soft e _ (by decide)⟩

/-- A code block's children with the statements of its body in place of the body. -/
def flattenCode (cs : List ANode) : List ANode := cs.flatMap fun c => if c.kind == .code then c.children else [c]

/-- The body of a code block that is not marked prescribes what its statements prescribe. -/
theorem specAllL_flattenCode (cs : List ANode)
    (h : ∀ c ∈ cs, c.kind = .code → specAll c = specAllL c.children) :
    specAllL (flattenCode cs) = specAllL cs := by
  induction cs with
  | nil => rfl
  | cons c cs ih =>
    have ih' := ih (fun x hx => h x (List.mem_cons_of_mem _ hx))
    unfold flattenCode at ih' ⊢
    rw [List.flatMap_cons, specAllL_append, ih', specAllL_cons]
    congr 1
    split
    · rename_i hk
      rw [h c List.mem_cons_self (by simpa using hk)]
    · simp [specAllL_cons]

theorem specAll_empty_code_leaf (a : Attrs) : specAll (.leaf .code "" a) = {} := by
  apply Streams.ext' <;> simp [specAll, specToks, specCmts, specProse, specLit, specVerb, isCommentKind, Pretty.keepOf]

end Typstyle
