import TypstyleModel.Model.Printer.Markup
import TypstyleModel.Proofs.MathSeq
/-! C08: the document of one markup line is the concatenation, in source order, of exactly one piece
per node of the line, followed by the line's hard breaks; the piece of a white-space node is one
blank, the piece of a text node is its text. -/
namespace Typstyle
open Twin

/-- The piece `convert_markup_impl` appends for one node of a line. -/
def MarkupPiece (e : Env) (node : ANode) (d : Doc) : Prop :=
  (node.kind = .space → d = Twin.space) ∧
  (node.kind = .text → d = e.prose node.intoText) ∧
  (node.kind ≠ .space → node.kind ≠ .text → isExpr node = false → isCommentKind node.kind = false → d = e.tok node.text)

inductive MPieces (e : Env) : List ANode → List Doc → Prop
  | nil : MPieces e [] []
  | cons {n d ns ds} : MarkupPiece e n d → MPieces e ns ds → MPieces e (n :: ns) (d :: ds)

theorem MPieces.snoc {e : Env} {ns : List ANode} {ds : List Doc} {n : ANode} {d : Doc}
    (h : MPieces e ns ds) (hp : MarkupPiece e n d) : MPieces e (ns ++ [n]) (ds ++ [d]) := by
  induction h with
  | nil => exact MPieces.cons hp MPieces.nil
  | cons h1 _ ih => exact MPieces.cons h1 ih

theorem MPieces.length {e : Env} {ns : List ANode} {ds : List Doc} (h : MPieces e ns ds) : ds.length = ns.length := by
  induction h with
  | nil => rfl
  | cons _ _ ih => simp [ih]

theorem markupNodeStep_piece (e : Env) (r : Rec) (ctx : Ctx) (mixed : Bool) (doc : Doc) (node : ANode) :
    Post (markupNodeStep e r ctx mixed doc node) (fun doc' => ∃ d, MarkupPiece e node d ∧ doc' = doc ++ d) := by
  unfold markupNodeStep
  dsimp only
  split
  · rename_i hs
    have hs' : node.kind = .space := by simpa using hs
    rw [M.pure_bind]
    exact Post.pure ⟨_, ⟨fun _ => rfl, ⟨fun h => (by rw [hs'] at h; cases h), fun h => absurd hs' h⟩⟩, rfl⟩
  · rename_i hs
    have hs' : node.kind ≠ .space := by simpa using hs
    split
    · rename_i ht
      have ht' : node.kind = .text := by simpa using ht
      rw [M.pure_bind]
      exact Post.pure ⟨_, ⟨fun h => absurd h hs', ⟨fun _ => rfl, fun _ h => absurd ht' h⟩⟩, rfl⟩
    · rename_i ht
      have ht' : node.kind ≠ .text := by simpa using ht
      split
      · rename_i hx
        refine Post.bind (Q := fun _ => True) (fun _ _ _ _ => trivial) (fun d _ => Post.pure ⟨d, ?_, rfl⟩)
        exact ⟨fun h => absurd h hs', ⟨fun h => absurd h ht', fun _ _ h => by rw [hx] at h; cases h⟩⟩
      · split
        · rename_i hc
          refine Post.bind (Q := fun _ => True) (fun _ _ _ _ => trivial) (fun d _ => Post.pure ⟨d, ?_, rfl⟩)
          exact ⟨fun h => absurd h hs', ⟨fun h => absurd h ht', fun _ _ _ h => by rw [hc] at h; cases h⟩⟩
        · rw [M.pure_bind]
          exact Post.pure ⟨_, ⟨fun h => absurd h hs', ⟨fun h => absurd h ht', fun _ _ _ _ => rfl⟩⟩, rfl⟩

/-- **One markup line is the sequence of its nodes' pieces, then its hard breaks.** -/
theorem markupLine_pieces (e : Env) (r : Rec) (ctx : Ctx) (doc : Doc) (l : MLine) :
    Post (markupLineStep e r ctx doc l) (fun doc' => ∃ pieces, MPieces e l.nodes pieces ∧
      doc' = (if l.breaks > 0 then (pieces.foldl (· ++ ·) doc) ++ repeatN hardline l.breaks else pieces.foldl (· ++ ·) doc)) := by
  unfold markupLineStep
  have hf := Post.foldlM_idx (step := markupNodeStep e r ctx l.mixedText)
    (Inv := fun pre acc => ∃ pieces, MPieces e pre pieces ∧ acc = pieces.foldl (· ++ ·) doc) l.nodes [] doc
    ⟨[], MPieces.nil, rfl⟩
    (fun pre acc x ⟨ps, hps, hacc⟩ =>
      Post.mono (markupNodeStep_piece e r ctx l.mixedText acc x) (fun acc' ⟨d, hd, heq⟩ =>
        ⟨ps ++ [d], hps.snoc hd, by rw [heq, hacc, List.foldl_append]; rfl⟩))
  simp only [List.nil_append] at hf
  refine Post.bind hf (fun acc ⟨ps, hps, hacc⟩ => Post.pure ⟨ps, hps, ?_⟩)
  rw [hacc]

end Typstyle
