import TypstyleModel.Model.Printer.Knot
/-! Token preservation (C01 T1.3): whatever tree the printer accepts, every layout of the document
— at every indent unit, hence (R1) at every width — carries exactly the token text the tree
prescribes. -/
namespace Typstyle
open Pretty

theorem certified_tokens (root : Node) (d : Twin.Doc) (h : tokensCertified root d = true) :
    ∀ u m xs, Lay m (d.fam u) xs → tokText xs = (specToks (prepare root)).toList := by
  simp only [tokensCertified, Bool.and_eq_true, beq_iff_eq] at h
  intro u m xs hl
  rw [← h.2]
  exact d.emits h.1 u .tok m xs hl

theorem certified_comments (root : Node) (d : Twin.Doc) (h : commentsCertified root d = true) :
    ∀ u m xs, Lay m (d.fam u) xs → cmtText xs = (specCmts (prepare root)).toList := by
  simp only [commentsCertified, Bool.and_eq_true, beq_iff_eq] at h
  intro u m xs hl
  rw [← h.2]
  exact d.emits h.1 u .cmt m xs hl

theorem certified_tokensR (cfg : PConfig) (root : Node) (d : Twin.Doc) (h : tokensCertifiedR cfg root d = true) :
    ∀ u m xs, Lay m (d.fam u) xs → tokText xs = (specToks (reorderTree cfg (prepare root))).toList := by
  simp only [tokensCertifiedR, Bool.and_eq_true, beq_iff_eq] at h
  intro u m xs hl
  rw [← h.2]
  exact d.emits h.1 u .tok m xs hl

theorem certified_literalsR (cfg : PConfig) (root : Node) (d : Twin.Doc) (h : literalsCertifiedR cfg root d = true) :
    ∀ u m xs, Lay m (d.fam u) xs → litText xs = (specLit (reorderTree cfg (prepare root))).toList := by
  simp only [literalsCertifiedR, Bool.and_eq_true, beq_iff_eq] at h
  intro u m xs hl
  rw [← h.2]
  exact d.emits h.1 u .lit m xs hl

mutual
/-- With reordering off the reordered tree is the tree itself. -/
theorem reorderTree_off (cfg : PConfig) (h : cfg.reorder = false) : ∀ t : ANode, reorderTree cfg t = t
  | .leaf _ _ _ => rfl
  | .inner k cs a => by
    simp only [reorderTree, h, Bool.and_false, Bool.false_and]
    split
    · rfl
    · rw [reorderTreeL_off cfg h cs]
theorem reorderTreeL_off (cfg : PConfig) (h : cfg.reorder = false) : ∀ ts : List ANode, reorderTreeL cfg false ts = ts
  | [] => rfl
  | c :: cs => by
    simp only [reorderTreeL, Bool.false_and]
    rw [reorderTree_off cfg h c, reorderTreeL_off cfg h cs]
    rfl
end

theorem certified_prose (root : Node) (d : Twin.Doc) (h : proseCertified root d = true) :
    ∀ u m xs, Lay m (d.fam u) xs → proseText xs = (specProse (prepare root)).toList := by
  simp only [proseCertified, Bool.and_eq_true, beq_iff_eq] at h
  intro u m xs hl
  rw [← h.2]
  exact d.emits h.1 u .prose m xs hl

theorem certified_literals (root : Node) (d : Twin.Doc) (h : literalsCertified root d = true) :
    ∀ u m xs, Lay m (d.fam u) xs → litText xs = (specLit (prepare root)).toList := by
  simp only [literalsCertified, Bool.and_eq_true, beq_iff_eq] at h
  intro u m xs hl
  rw [← h.2]
  exact d.emits h.1 u .lit m xs hl

theorem certified_verbatim (root : Node) (d : Twin.Doc) (h : verbatimCertified root d = true) :
    ∀ u m xs, Lay m (d.fam u) xs → verbText xs = (specVerb (prepare root)).toList := by
  simp only [verbatimCertified, Bool.and_eq_true, beq_iff_eq] at h
  intro u m xs hl
  rw [← h.2]
  exact d.emits h.1 u .verb m xs hl

theorem certified_verbatim_best (root : Node) (d : Twin.Doc) (h : verbatimCertified root d = true) (u w : Nat) :
    verbText (best w 0 [⟨0, .brk, d.fam u⟩]) = (specVerb (prepare root)).toList :=
  certified_verbatim root d h u .brk _ (pretty_lay w _)

theorem certified_prose_best (root : Node) (d : Twin.Doc) (h : proseCertified root d = true) (u w : Nat) :
    proseText (best w 0 [⟨0, .brk, d.fam u⟩]) = (specProse (prepare root)).toList :=
  certified_prose root d h u .brk _ (pretty_lay w _)

theorem certified_literals_best (root : Node) (d : Twin.Doc) (h : literalsCertified root d = true) (u w : Nat) :
    litText (best w 0 [⟨0, .brk, d.fam u⟩]) = (specLit (prepare root)).toList :=
  certified_literals root d h u .brk _ (pretty_lay w _)

/-- The same for the renderer at any width and any indent unit. -/
theorem certified_tokens_best (root : Node) (d : Twin.Doc) (h : tokensCertified root d = true) (u w : Nat) :
    tokText (best w 0 [⟨0, .brk, d.fam u⟩]) = (specToks (prepare root)).toList :=
  certified_tokens root d h u .brk _ (pretty_lay w _)

theorem certified_comments_best (root : Node) (d : Twin.Doc) (h : commentsCertified root d = true) (u w : Nat) :
    cmtText (best w 0 [⟨0, .brk, d.fam u⟩]) = (specCmts (prepare root)).toList :=
  certified_comments root d h u .brk _ (pretty_lay w _)

theorem keepOf_append (a b : String) : Pretty.keepOf (a ++ b) = Pretty.keepOf a ++ Pretty.keepOf b := by
  simp [Pretty.keepOf, String.toList_append, List.filter_append, String.ofList_append]

theorem keepOf_empty : Pretty.keepOf "" = "" := by simp [Pretty.keepOf]

theorem keepOf_blank (t : String) (h : t.toList.all isWs = true) : Pretty.keepOf t = "" := by
  simp only [Pretty.keepOf]
  have : t.toList.filter Pretty.keepChar = [] := by
    rw [List.filter_eq_nil_iff]
    intro c hc
    have := List.all_eq_true.mp h c hc
    simp [Pretty.keepChar, this]
  rw [this]

mutual
theorem specToks_plain_node : ∀ t : ANode, t.noCommentNoVerbatim = true → t.blankSpaces = true →
    specToks t = Pretty.keepOf t.intoText
  | .leaf k t a, h, hb => by
    simp only [ANode.noCommentNoVerbatim, Bool.not_eq_true'] at h
    simp only [specToks, h, Bool.false_or, ANode.intoText]
    split
    · rename_i hk
      simp only [ANode.blankSpaces, hk, Bool.true_and] at hb
      exact (keepOf_blank t (by simpa using hb)).symm
    · rfl
  | .inner k cs a, h, hb => by
    simp only [ANode.noCommentNoVerbatim, Bool.and_eq_true, Bool.not_eq_true'] at h
    simp only [ANode.blankSpaces] at hb
    simp [specToks, h.1, ANode.intoText, specToks_plain_list cs h.2 hb]
theorem specToks_plain_list : ∀ ts : List ANode, ANode.noCommentNoVerbatimL ts = true → ANode.blankSpacesL ts = true →
    specToksL ts = Pretty.keepOf (ANode.intoTextL ts)
  | [], _, _ => by simp [specToksL, ANode.intoTextL, keepOf_empty]
  | c :: cs, h, hb => by
    simp only [ANode.noCommentNoVerbatimL, Bool.and_eq_true] at h
    simp only [ANode.blankSpacesL, Bool.and_eq_true] at hb
    simp [specToksL, ANode.intoTextL, keepOf_append, specToks_plain_node c h.1 hb.1, specToks_plain_list cs h.2 hb.2]
end

end Typstyle
