import TypstyleModel.Proofs.CarriesChain
import TypstyleModel.Proofs.CarriesConstructs
import TypstyleModel.Proofs.CarriesComment
/-! Binary expressions (`convert_binary`): the operator chain laid out by the chain stylist, and the
flow fallback, carry exactly what the node prescribes. -/
namespace Typstyle
open Twin

/-- The children after the left operand: operators, comments, white space, and — once an operator
has been seen — operands.  `pend`: a `not` was seen and its `in` is still to come (only white space and
comments may stand between the two). -/
def binRestOK : Bool → Bool → List ANode → Bool
  | _, p, [] => !p
  | seen, false, c :: cs =>
    if c.kind == .not_ then binRestOK seen true cs
    else ((binOpOfKind c.kind).isSome || isCommentKind c.kind || c.kind == .space || (isExpr c && seen)) &&
      binRestOK (seen || (binOpOfKind c.kind).isSome) false cs
  | seen, true, c :: cs =>
    if c.kind == .in_ then binRestOK true false cs
    else (isCommentKind c.kind || c.kind == .space) && binRestOK seen true cs

def binChildrenOK (cs : List ANode) : Bool :=
  match cs with
  | lhs :: rest => isExpr lhs && !(lhs.kind == .binary && lhs.attrs.disabled) && binRestOK false false rest &&
      rest.all (fun c => c.kind != .not_ || c.text == "not")
  | [] => false

/-- What the covered fragment `Q` must guarantee of binary nodes. -/
structure BinQ (Q : ANode → Prop) : Prop where
  leaf : ∀ k t a, Q (.leaf k t a) → k ≠ .binary
  inner : ∀ cs a, Q (.inner .binary cs a) → a.disabled = false →
    binChildrenOK cs = true ∧ ANode.tokensAreLeavesL cs = true ∧ ∀ c ∈ cs, Q c

theorem binOp_plain (k : Kind) (h : (binOpOfKind k).isSome = true) : k.isPlainToken = true := by
  cases k <;> simp_all [binOpOfKind, Kind.isPlainToken, Kind.isInnerKind, Kind.isExpr, isCommentKind]

theorem expr_not_op (k : Kind) (h : k.isExpr = true) :
    binOpOfKind k = none ∧ k ≠ .not_ ∧ isCommentKind k = false ∧ k ≠ .space := by
  cases k <;> simp_all [binOpOfKind, Kind.isExpr, isCommentKind]

theorem comment_not_op (k : Kind) (h : isCommentKind k = true) : binOpOfKind k = none ∧ k ≠ .not_ ∧ k.isInnerKind = false := by
  cases k <;> simp_all [binOpOfKind, isCommentKind, Kind.isInnerKind]

theorem binOpConv_post (e : Env) (c : ANode) (hlex : ANode.tokensAreLeaves c = true) (hn : c.kind ≠ .not_) :
    Post (binOpConv e false c) (fun p => p.1 = false ∧
      match p.2 with
      | some d => (binOpOfKind c.kind).isSome = true ∧ Carries d (specAll c)
      | none => binOpOfKind c.kind = none) := by
  unfold binOpConv
  have hn' : (c.kind == Kind.not_) = false := by simpa using hn
  simp only [hn', Bool.false_eq_true, ↓reduceIte, Bool.and_false]
  split
  · rename_i o ho
    exact Post.bind (synLeaf_carries e c o hlex (binOp_plain _ (by rw [ho]; rfl)))
      (fun d hd => Post.pure ⟨rfl, by rw [ho]; rfl, hd⟩)
  · rename_i ho
    exact Post.pure ⟨rfl, ho⟩

theorem specAll_comment_node (c : ANode) (h : ANode.tokensAreLeaves c = true) (hk : isCommentKind c.kind = true) :
    specAll c = commentS c.text := by
  obtain ⟨t, a, hc⟩ := leaf_of_token h (comment_not_op _ hk).2.2
  rw [hc, specAll_comment_leaf _ t a hk]; rfl

variable {Q : ANode → Prop}

/-- One child of an operand node, after the left operand. -/
theorem binChildStep (e : Env) (r : Rec) (hr : RecOK r Q) (ctx : Ctx) (hnm : NM ctx)
    (acc : CS × Bool × Bool) (sp : Streams) (h : CInvS acc.1 acc.2.1 sp) (c : ANode)
    (hlex : ANode.tokensAreLeaves c = true) (hq : Q c)
    (hc : ((binOpOfKind c.kind).isSome || isCommentKind c.kind || c.kind == .space || (isExpr c && acc.2.2)) = true) :
    Post (CS.childStepM e ctx (binOpConv e) (exprOpt r) acc c)
      (fun r' => CInvS r'.1 r'.2.1 (sp.app (specAll c)) ∧ r'.2.2 = (acc.2.2 || (binOpOfKind c.kind).isSome)) := by
  obtain ⟨cs, ca, so⟩ := acc
  simp only at h hc
  have hst := h.st
  unfold CS.childStepM
  simp only
  rw [hst]
  have hn : c.kind ≠ .not_ := by
    intro hk
    simp only [isExpr, hk] at hc
    simp [binOpOfKind, isCommentKind, Kind.isExpr] at hc
  refine Post.bind (binOpConv_post e c hlex hn) ?_
  rintro ⟨ost, op?⟩ ⟨ho, hm⟩
  simp only at ho; subst ho
  cases op? with
  | some op =>
    simp only at hm
    have := h.push (.op op) hm.2.1 (fun _ d hd => by cases hd)
      { cs with opState := false, items := cs.items ++ [.op op] } rfl rfl ca
    rw [show citemS (.op op) = specAll c from hm.2.2] at this
    exact Post.pure ⟨this, by simp [hm.1]⟩
  | none =>
    simp only at hm
    simp only [hm, Option.isSome_none, Bool.false_or, Bool.or_false] at hc ⊢
    split
    · rename_i hk
      refine Post.bind (commentOK e c hk) (fun d hd => ?_)
      rw [specAll_comment_node c hlex hk]
      cases ca with
      | true =>
        have := h.push (.attached d) hd.1 (fun he => absurd he (h.att rfl))
          { cs with opState := false, items := cs.items ++ [.attached d], hasComment := true } rfl rfl true
        rw [show citemS (.attached d) = commentS c.text from hd.2] at this
        exact Post.pure ⟨this, rfl⟩
      | false =>
        have := h.push (.comment d) hd.1 (fun _ d' hd' => by cases hd')
          { cs with opState := false, items := cs.items ++ [.comment d], hasComment := true } rfl rfl false
        rw [show citemS (.comment d) = commentS c.text from hd.2] at this
        exact Post.pure ⟨this, rfl⟩
    · rename_i hk
      split
      · rename_i hs
        rw [specAll_space c hlex (by simpa using hs), Streams.app_empty]
        split
        · refine Post.pure ⟨?_, rfl⟩
          split
          · have := h.push .linebreak rfl (fun _ d' hd' => by cases hd')
              { cs with opState := false, items := cs.items ++ [.linebreak] } rfl rfl false
            simpa [citemS] using this
          · exact ⟨h.good, h.eq, h.head, (fun hf => by cases hf), rfl⟩
        · exact Post.pure ⟨⟨h.good, h.eq, h.head, h.att, rfl⟩, rfl⟩
      · rename_i hs
        have hx : isExpr c = true ∧ so = true := by
          simp only [hk, hs, Bool.false_or, Bool.and_eq_true] at hc
          exact hc
        rw [hx.2]
        simp only [↓reduceIte]
        unfold exprOpt
        simp only [hx.1, ↓reduceIte, bind_assoc, pure_bind]
        refine Post.bind (hr.expr ctx c hnm hx.1 hq) (fun d hd => ?_)
        have := h.push (.body d) hd.1 (fun _ d' hd' => by cases hd')
          { cs with opState := false, items := cs.items ++ [.body d] } rfl rfl true
        rw [show citemS (.body d) = specAll c from hd.2] at this
        exact Post.pure ⟨this, by simp⟩

/-- The invariant while a `not` may be pending. -/
def BInv (acc : CS × Bool × Bool) (sp : Streams) : Prop :=
  ∃ sp0, CInvS { acc.1 with opState := false } acc.2.1 sp0 ∧ sp = sp0.app (if acc.1.opState then tagS .tok "not" else {})

theorem BInv.ofC {acc : CS × Bool × Bool} {sp : Streams} (h : CInvS acc.1 acc.2.1 sp) : BInv acc sp := by
  refine ⟨sp, ⟨h.good, h.eq, h.head, h.att, rfl⟩, ?_⟩
  rw [h.st]; simp

theorem BInv.toC {acc : CS × Bool × Bool} {sp : Streams} (h : BInv acc sp) (hp : acc.1.opState = false) : CInvS acc.1 acc.2.1 sp := by
  obtain ⟨sp0, h0, he⟩ := h
  rw [hp] at he
  simp only [Bool.false_eq_true, ↓reduceIte, Streams.app_empty] at he
  rw [he]
  exact ⟨h0.good, h0.eq, h0.head, h0.att, hp⟩

theorem app_comm_tok_cmt (A : Streams) (s t : String) :
    (A.app (tagS .tok s)).app (commentS t) = (A.app (commentS t)).app (tagS .tok s) := by
  apply Streams.ext' <;> simp [Streams.app, tagS, Pretty.charsOf, commentS]

theorem tagS_not_in : tagS .syn "not in" = (tagS .tok "not").app (tagS .tok "in") := by
  apply Streams.ext' <;> simp [Streams.app, tagS, Pretty.charsOf] <;> decide

/-- The `not` of `not in`: remembered. -/
theorem binNotStep (e : Env) (r : Rec) (ctx : Ctx) (acc : CS × Bool × Bool) (sp : Streams) (h : CInvS acc.1 acc.2.1 sp)
    (c : ANode) (hlex : ANode.tokensAreLeaves c = true) (hk : c.kind = .not_) (ht : c.text = "not") :
    Post (CS.childStepM e ctx (binOpConv e) (exprOpt r) acc c)
      (fun r' => BInv r' (sp.app (specAll c)) ∧ r'.1.opState = true ∧ r'.2.2 = acc.2.2) := by
  obtain ⟨cs, ca, so⟩ := acc
  simp only at h
  have hspec : specAll c = tagS .tok "not" := by
    obtain ⟨t, a, hc⟩ := leaf_of_token hlex (by rw [hk]; rfl)
    have : t = "not" := by rw [hc] at ht; exact ht
    rw [hc, hk, specAll_plain_leaf .not_ t a rfl, this]
  unfold CS.childStepM
  simp only
  unfold binOpConv
  have hk' : (c.kind == Kind.not_) = true := by rw [hk]; rfl
  have h1 : isCommentKind c.kind = false := by rw [hk]; rfl
  have h2 : (c.kind == Kind.space) = false := by rw [hk]; rfl
  have hx : isExpr c = false := by unfold isExpr; rw [hk]; rfl
  simp only [hk', ↓reduceIte, pure_bind, h1, Bool.false_eq_true, h2]
  have hres : BInv ({ cs with opState := true }, ca, so) (sp.app (specAll c)) :=
    ⟨sp, ⟨h.good, h.eq, h.head, h.att, rfl⟩, by rw [hspec]; rfl⟩
  split
  · unfold exprOpt
    simp only [hx, Bool.false_eq_true, ↓reduceIte, pure_bind]
    exact Post.pure ⟨hres, rfl, rfl⟩
  · exact Post.pure ⟨hres, rfl, rfl⟩

/-- White space or a comment between `not` and `in`. -/
theorem binPendStep (e : Env) (r : Rec) (ctx : Ctx) (acc : CS × Bool × Bool) (sp : Streams) (h : BInv acc sp)
    (hp : acc.1.opState = true) (c : ANode) (hlex : ANode.tokensAreLeaves c = true)
    (hk : (isCommentKind c.kind || c.kind == .space) = true) (hni : (c.kind == .in_) = false) :
    Post (CS.childStepM e ctx (binOpConv e) (exprOpt r) acc c)
      (fun r' => BInv r' (sp.app (specAll c)) ∧ r'.1.opState = true ∧ r'.2.2 = acc.2.2) := by
  obtain ⟨cs, ca, so⟩ := acc
  obtain ⟨sp0, h0, he⟩ := h
  simp only at h0 he hp
  rw [hp] at he
  simp only [↓reduceIte] at he
  have hnn : (c.kind == Kind.not_) = false := by
    simp only [Bool.or_eq_true, beq_iff_eq] at hk
    rcases hk with hk | hk
    · cases hkk : c.kind <;> simp_all [isCommentKind]
    · rw [hk]; rfl
  have hnop : binOpOfKind c.kind = none := by
    simp only [Bool.or_eq_true, beq_iff_eq] at hk
    rcases hk with hk | hk
    · exact (comment_not_op _ hk).1
    · rw [hk]; rfl
  unfold CS.childStepM
  simp only
  rw [hp]
  unfold binOpConv
  simp only [hnn, Bool.false_eq_true, ↓reduceIte, hni, Bool.false_and, hnop, pure_bind]
  split
  · rename_i hck
    refine Post.bind (commentOK e c hck) (fun d hd => ?_)
    rw [specAll_comment_node c hlex hck, he, app_comm_tok_cmt]
    cases ca with
    | true =>
      have := h0.push (.attached d) hd.1 (fun hemp => absurd hemp (h0.att rfl))
        { cs with opState := false, items := cs.items ++ [.attached d], hasComment := true } rfl rfl true
      rw [show citemS (.attached d) = commentS c.text from hd.2] at this
      exact Post.pure ⟨⟨_, this, rfl⟩, rfl, rfl⟩
    | false =>
      have := h0.push (.comment d) hd.1 (fun _ d' hd' => by cases hd')
        { cs with opState := false, items := cs.items ++ [.comment d], hasComment := true } rfl rfl false
      rw [show citemS (.comment d) = commentS c.text from hd.2] at this
      exact Post.pure ⟨⟨_, this, rfl⟩, rfl, rfl⟩
  · rename_i hck
    have hsp : c.kind = .space := by
      simp only [Bool.or_eq_true, beq_iff_eq] at hk
      rcases hk with hk | hk
      · exact absurd hk hck
      · exact hk
    have hsb : (c.kind == Kind.space) = true := by rw [hsp]; rfl
    simp only [hsb, ↓reduceIte]
    rw [specAll_space c hlex hsp, Streams.app_empty, he]
    split
    · split
      · have := h0.push .linebreak rfl (fun _ d' hd' => by cases hd')
          { cs with opState := false, items := cs.items ++ [.linebreak] } rfl rfl false
        exact Post.pure ⟨⟨_, by simpa [citemS] using this, rfl⟩, rfl, rfl⟩
      · exact Post.pure ⟨⟨_, ⟨h0.good, h0.eq, h0.head, (fun hf => by cases hf), rfl⟩, rfl⟩, rfl, rfl⟩
    · exact Post.pure ⟨⟨_, ⟨h0.good, h0.eq, h0.head, h0.att, rfl⟩, rfl⟩, rfl, rfl⟩

/-- The `in` of `not in`: the operator is printed. -/
theorem binInStep (e : Env) (r : Rec) (ctx : Ctx) (acc : CS × Bool × Bool) (sp : Streams) (h : BInv acc sp)
    (hp : acc.1.opState = true) (c : ANode) (hlex : ANode.tokensAreLeaves c = true) (hk : c.kind = .in_) :
    Post (CS.childStepM e ctx (binOpConv e) (exprOpt r) acc c)
      (fun r' => CInvS r'.1 r'.2.1 (sp.app (specAll c)) ∧ r'.2.2 = true) := by
  obtain ⟨cs, ca, so⟩ := acc
  obtain ⟨sp0, h0, he⟩ := h
  simp only at h0 he hp
  rw [hp] at he
  simp only [↓reduceIte] at he
  unfold CS.childStepM
  simp only
  rw [hp]
  unfold binOpConv
  have hnn : (c.kind == Kind.not_) = false := by rw [hk]; rfl
  have hin : (c.kind == Kind.in_) = true := by rw [hk]; rfl
  simp only [hnn, Bool.false_eq_true, ↓reduceIte, hin, Bool.and_self]
  split
  · rename_i ht
    have ht' : c.text = "in" := by simpa using ht
    simp only [pure_bind]
    have hspec : specAll c = tagS .tok "in" := by
      obtain ⟨t, a, hc⟩ := leaf_of_token hlex (by rw [hk]; rfl)
      have : t = "in" := by rw [hc] at ht'; exact ht'
      rw [hc, hk, specAll_plain_leaf .in_ t a rfl, this]
    have hop : Carries (e.syn "not in") ((tagS .tok "not").app (tagS .tok "in")) := by
      rw [← tagS_not_in]; exact Carries.mkText e.wd .syn "not in"
    have := h0.push (.op (e.syn "not in")) hop.1 (fun _ d hd => by cases hd)
      { cs with opState := false, items := cs.items ++ [.op (e.syn "not in")] } rfl rfl ca
    rw [show citemS (.op (e.syn "not in")) = (tagS .tok "not").app (tagS .tok "in") from hop.2] at this
    refine Post.pure ⟨?_, rfl⟩
    rw [he, hspec, Streams.app_assoc]
    exact this
  · exact Post.bind (Q := fun _ => False) (Post.rejected _) (fun _ h => False.elim h)

theorem binRest_fold (e : Env) (r : Rec) (hr : RecOK r Q) (ctx : Ctx) (hnm : NM ctx) (rest : List ANode) :
    ∀ (acc : CS × Bool × Bool) (sp : Streams), BInv acc sp → binRestOK acc.2.2 acc.1.opState rest = true →
      ANode.tokensAreLeavesL rest = true → (∀ c ∈ rest, Q c) →
      (∀ c ∈ rest, c.kind = .not_ → c.text = "not") →
      Post (rest.foldlM (CS.childStepM e ctx (binOpConv e) (exprOpt r)) acc)
        (fun r' => CInvS r'.1 r'.2.1 (sp.app (specAllL rest))) := by
  induction rest with
  | nil =>
    intro acc sp h hok _ _ _
    have hp : acc.1.opState = false := by simpa [binRestOK] using hok
    exact Post.pure (by simpa using h.toC hp)
  | cons c rest ih =>
    intro acc sp h hok hlex hq hnot
    simp only [ANode.tokensAreLeavesL, Bool.and_eq_true] at hlex
    rw [List.foldlM_cons, specAllL_cons, ← Streams.app_assoc]
    have hq' : ∀ x ∈ rest, Q x := fun x hx => hq x (by simp [hx])
    have hnot' : ∀ x ∈ rest, x.kind = .not_ → x.text = "not" := fun x hx => hnot x (by simp [hx])
    cases hp : acc.1.opState with
    | false =>
      rw [hp] at hok
      simp only [binRestOK] at hok
      have hC := h.toC hp
      by_cases hkn : c.kind = .not_
      · have hkb : (c.kind == Kind.not_) = true := by rw [hkn]; rfl
        simp only [hkb, ↓reduceIte] at hok
        refine Post.bind (binNotStep e r ctx acc sp hC c hlex.1 hkn (hnot c (by simp) hkn)) ?_
        rintro acc' ⟨h', hs1, hs2⟩
        exact ih acc' _ h' (by rw [hs1, hs2]; exact hok) hlex.2 hq' hnot'
      · have hkb : (c.kind == Kind.not_) = false := by simpa using hkn
        simp only [hkb, Bool.false_eq_true, ↓reduceIte, Bool.and_eq_true] at hok
        refine Post.bind (binChildStep e r hr ctx hnm acc sp hC c hlex.1 (hq c (by simp)) hok.1) ?_
        rintro acc' ⟨h', hs'⟩
        exact ih acc' _ (BInv.ofC h') (by rw [hs', h'.st]; exact hok.2) hlex.2 hq' hnot'
    | true =>
      rw [hp] at hok
      simp only [binRestOK] at hok
      by_cases hki : c.kind = .in_
      · have hkb : (c.kind == Kind.in_) = true := by rw [hki]; rfl
        simp only [hkb, ↓reduceIte] at hok
        refine Post.bind (binInStep e r ctx acc sp h hp c hlex.1 hki) ?_
        rintro acc' ⟨h', hs'⟩
        exact ih acc' _ (BInv.ofC h') (by rw [hs', h'.st]; exact hok) hlex.2 hq' hnot'
      · have hkb : (c.kind == Kind.in_) = false := by simpa using hki
        simp only [hkb, Bool.false_eq_true, ↓reduceIte, Bool.and_eq_true] at hok
        refine Post.bind (binPendStep e r ctx acc sp h hp c hlex.1 hok.1 hkb) ?_
        rintro acc' ⟨h', hs1, hs2⟩
        exact ih acc' _ h' (by rw [hs1, hs2]; exact hok.2) hlex.2 hq' hnot'

/-- The left operand as a child of its node: skipped (it was laid out as the inner chain). -/
theorem binLhsStep (e : Env) (r : Rec) (ctx : Ctx) (cs : CS) (ca : Bool) (sp : Streams) (h : CInvS cs ca sp)
    (lhs : ANode) (hlex : ANode.tokensAreLeaves lhs = true) (hx : isExpr lhs = true) :
    Post (CS.childStepM e ctx (binOpConv e) (exprOpt r) (cs, ca, false) lhs)
      (fun r' => CInvS r'.1 r'.2.1 sp ∧ r'.2.2 = false) := by
  have hk := expr_not_op lhs.kind hx
  have hst := h.st
  unfold CS.childStepM
  simp only
  rw [hst]
  refine Post.bind (binOpConv_post e lhs hlex hk.2.1) ?_
  rintro ⟨ost, op?⟩ ⟨ho, hm⟩
  simp only at ho; subst ho
  cases op? with
  | some op => simp only at hm; rw [hk.1] at hm; exact absurd hm.1 (by simp)
  | none =>
    have hs : (lhs.kind == Kind.space) = false := by simpa using hk.2.2.2
    simp only [hk.2.2.1, Bool.false_eq_true, ↓reduceIte, hs]
    exact Post.pure ⟨⟨h.good, h.eq, h.head, h.att, rfl⟩, rfl⟩

theorem depth_pos (n : ANode) : 1 ≤ n.depth := by
  cases n <;> simp [ANode.depth] <;> omega

theorem merge_body (cs : CS) (ca : Bool) (sp : Streams) (h : CInvS cs ca sp) (b fb : Doc) (s : Streams)
    (hl : cs.items.getLast? = some (.body b)) (hfb : Carries fb s) :
    CInvS { cs with items := cs.items.dropLast ++ [.body (b ++ fb)] } ca (sp.app s) := by
  have hdec := dropLast_getLast cs.items _ hl
  have hg := h.good
  have he := h.eq
  rw [hdec, citemsGood_append] at hg
  rw [hdec, citemsS_append] at he
  simp only [citemsGood, citemGood, Bool.and_true, Bool.and_eq_true] at hg
  simp only [citemsS, citemS, Streams.app_empty] at he
  have hb : Carries b b.ss := ⟨hg.2, rfl⟩
  have hbf := hb.app hfb
  refine ⟨?_, ?_, headOK_dropLast_body _ _ h.head, fun _ => by simp, h.st⟩
  · show citemsGood (cs.items.dropLast ++ [.body (b ++ fb)]) = true
    rw [citemsGood_append, hg.1]; simp [citemsGood, citemGood, hbf.1]
  · show citemsS (cs.items.dropLast ++ [.body (b ++ fb)]) = sp.app s
    rw [citemsS_append]
    simp only [citemsS, citemS, Streams.app_empty]
    rw [hbf.2, ← Streams.app_assoc, he]

/-- **The resolved operator chain**, processed innermost first, leaves the stylist with items that
carry the whole expression. -/
theorem binChain_carries (e : Env) (r : Rec) (hr : RecOK r Q) (hQ : BinQ Q) (ctx : Ctx) (hnm : NM ctx) (prec : Nat) :
    ∀ (fuel : Nat) (n : ANode), isExpr n = true → ANode.tokensAreLeaves n = true → Q n → n.depth ≤ fuel →
      (n.kind = .binary → n.attrs.disabled = false) →
      ∀ (acc : CS × Bool) (sp : Streams), CInvS acc.1 acc.2 sp →
      Post ((resolveBinaryChain prec fuel n).reverse.foldlM
          (CS.nodeStepM e ctx (fun node => node.kind == .binary && precOf (binaryOp node) == prec) (binOpConv e) (exprOpt r) (exprOpt r)) acc)
        (fun r' => CInvS r'.1 r'.2 (sp.app (specAll n))) := by
  intro fuel
  induction fuel with
  | zero => intro n _ _ _ hd; have := depth_pos n; omega
  | succ fuel ih =>
    intro n hx hlex hq hd hdis acc sp h
    unfold resolveBinaryChain
    rw [List.reverse_cons, List.foldlM_append]
    by_cases hcond : (n.kind == .binary && precOf (binaryOp n) == prec) = true
    · rw [if_pos hcond]
      have hkb : n.kind = .binary := by
        simp only [Bool.and_eq_true, beq_iff_eq] at hcond; exact hcond.1
      cases n with
      | leaf k t a => exact absurd hkb (hQ.leaf k t a hq)
      | inner k cs a =>
        have hk : k = .binary := hkb
        subst hk
        have hda : a.disabled = false := hdis rfl
        obtain ⟨hch, hlexL, hqc⟩ := hQ.inner cs a hq hda
        cases cs with
        | nil => simp [binChildrenOK] at hch
        | cons lhs rest =>
          simp only [binChildrenOK, Bool.and_eq_true, Bool.not_eq_true'] at hch
          obtain ⟨⟨⟨hxl, hdl⟩, hrest⟩, hnotT⟩ := hch
          have hfind : firstWhere (.inner .binary (lhs :: rest) a) isExpr = some lhs := by
            simp [firstWhere, ANode.children, hxl]
          rw [hfind]
          simp only [ANode.tokensAreLeavesL, Bool.and_eq_true] at hlexL
          have hdl' : lhs.kind = .binary → lhs.attrs.disabled = false := by
            intro hkl
            simpa [hkl] using hdl
          have hdepth : lhs.depth ≤ fuel := by
            simp only [ANode.depth, ANode.depthL] at hd; omega
          refine Post.bind (ih lhs hxl hlexL.1 (hqc lhs (by simp)) hdepth hdl' acc sp h) ?_
          rintro ⟨cs1, ca1⟩ h1
          simp only at h1
          simp only [List.foldlM_cons, List.foldlM_nil, bind_pure]
          unfold CS.nodeStepM
          simp only [hcond, ↓reduceIte, ANode.children]
          rw [List.foldlM_cons]
          have hv : isVerbatimNode .binary (lhs :: rest) a = false := by simp [isVerbatimNode, hda]
          rw [specAll_inner .binary (lhs :: rest) a hv (by decide), specAllL_cons, ← Streams.app_assoc]
          have h1' : CInvS { cs1 with opNum := cs1.opNum + 1 } ca1 (sp.app (specAll lhs)) :=
            ⟨h1.good, h1.eq, h1.head, h1.att, h1.st⟩
          simp only [bind_assoc]
          refine Post.bind (binLhsStep e r ctx _ ca1 _ h1' lhs hlexL.1 hxl) ?_
          rintro acc2 ⟨h2, hs2⟩
          refine Post.bind (binRest_fold e r hr ctx hnm rest acc2 _ (BInv.ofC h2) (by rw [hs2, h2.st]; exact hrest) hlexL.2
            (fun c hc => hqc c (by simp [hc]))
            (fun c hc hk => by
              have := List.all_eq_true.mp hnotT c hc
              simpa [hk] using this)) ?_
          intro r3 h3
          exact Post.pure h3
    · rw [if_neg hcond]
      simp only [List.reverse_nil, List.foldlM_nil, pure_bind, List.foldlM_cons, bind_pure]
      obtain ⟨cs0, ca0⟩ := acc
      simp only at h
      unfold CS.nodeStepM
      simp only [hcond, Bool.false_eq_true, ↓reduceIte]
      unfold exprOpt
      simp only [hx, ↓reduceIte, bind_assoc, pure_bind]
      refine Post.bind (hr.expr ctx n hnm hx hq) (fun fb hfb => ?_)
      split
      · rename_i b hl
        exact Post.pure (merge_body cs0 ca0 sp h b fb _ hl hfb)
      · have := h.push (.body fb) hfb.1 (fun _ d' hd' => by cases hd')
          { cs0 with items := cs0.items ++ [.body fb] } rfl h.st ca0
        rw [show citemS (.body fb) = specAll n from hfb.2] at this
        exact Post.pure this

/-- `convert_binary_chain`. -/
theorem convBinaryChain_carries (e : Env) (r : Rec) (hr : RecOK r Q) (hQ : BinQ Q) (ctx : Ctx) (hnm : NM ctx) (n : ANode)
    (hx : isExpr n = true) (hlex : ANode.tokensAreLeaves n = true) (hq : Q n) (hdis : n.attrs.disabled = false) :
    Post (convBinaryChain e r ctx n) (fun d => Carries d (specAll n)) := by
  unfold convBinaryChain CS.processM
  simp only [bind_assoc, pure_bind]
  refine Post.bind (binChain_carries e r hr hQ ctx hnm _ n.depth n hx hlex hq (Nat.le_refl _) (fun _ => hdis)
    (({} : CS), false) {} ⟨rfl, rfl, rfl, (fun h => by cases h), rfl⟩) ?_
  rintro ⟨cs, ca⟩ h
  simp only [Streams.empty_app] at h
  have := chain_print_carries e cs false true h.good h.head
  rw [h.eq] at this
  exact this

theorem binaryFlowProducer_ok (e : Env) (r : Rec) (hr : RecOK r Q) :
    ProducerS (binaryFlowProducer e r) specAll (ChildOK Q) := by
  intro st c child hnm hok
  unfold binaryFlowProducer
  split
  · rename_i hk
    exact Post.pure (tok_carries e child hok.1 (binOp_plain _ hk))
  · split
    · rename_i hx
      exact Post.bind (hr.expr c child hnm hx hok.2) (fun d hd => Post.pure hd)
    · split
      · rename_i hk
        exact Post.pure (specAll_space child hok.1 (by simpa using hk))
      · exact Post.rejected _

/-- **`convert_binary`** carries exactly what the binary expression prescribes. -/
theorem convBinary_carries (e : Env) (r : Rec) (hr : RecOK r Q) (hQ : BinQ Q) (ctx : Ctx) (hnm : NM ctx)
    (cs : List ANode) (a : Attrs) (hq : Q (.inner .binary cs a)) (hdis : a.disabled = false) :
    Post (convBinary e r ctx (.inner .binary cs a)) (fun d => Carries d (specAll (.inner .binary cs a))) := by
  obtain ⟨hch, hlexL, hqc⟩ := hQ.inner cs a hq hdis
  have hlex : ANode.tokensAreLeaves (.inner .binary cs a) = true := by
    simp only [ANode.tokensAreLeaves, Bool.and_eq_true]; exact ⟨rfl, hlexL⟩
  unfold convBinary
  split
  · unfold parenthesizeIfNecessary
    split
    · exact convBinaryChain_carries e r hr hQ ctx hnm _ rfl hlex hq hdis
    · exact Post.bind (convBinaryChain_carries e r hr hQ _ (NM.withMode _ (by decide)) _ rfl hlex hq hdis)
        (fun d hd => Post.pure (optionalParen_carries e d _ hd "(" ")" (by decide) (by decide)))
  · have hv : isVerbatimNode .binary cs a = false := by simp [isVerbatimNode, hdis]
    exact flow_construct_carries e ctx .binary cs a () (binaryFlowProducer e r) (binaryFlowProducer_ok e r hr)
      hv (by decide) hlexL hqc hnm

end Typstyle
