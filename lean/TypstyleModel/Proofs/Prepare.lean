import TypstyleModel.Model.Printer.Knot
/-! The attribute and numbering passes do not touch the text of the tree. -/
namespace Typstyle

mutual
/-- `SyntaxNode::into_text()` of the raw tree: the source text (the parser is lossless). -/
def Node.intoText : Node → String
  | .leaf _ t => t
  | .inner _ cs => Node.intoTextL cs
def Node.intoTextL : List Node → String
  | [] => ""
  | c :: cs => Node.intoText c ++ Node.intoTextL cs
end

theorem setDisabled_intoText (n : ANode) : n.setDisabled.intoText = n.intoText := by
  cases n <;> rfl

mutual
theorem annotate_intoText : ∀ (u : Bool) (n : Node), (annotate u n).intoText = n.intoText
  | _, .leaf _ _ => rfl
  | u, .inner k cs => by
    simp only [annotate, ANode.intoText, Node.intoText]
    exact annotateKids_intoText u false false cs
theorem annotateKids_intoText : ∀ (u d c : Bool) (ns : List Node),
    ANode.intoTextL (annotateKids u d c ns).1 = Node.intoTextL ns
  | _, _, _, [] => rfl
  | u, d, c, n :: rest => by
    unfold annotateKids
    split
    · simp only [ANode.intoTextL, Node.intoTextL, annotate_intoText true n, annotateKids_intoText u false false rest]
    · split
      · split
        · simp only [ANode.intoTextL, Node.intoTextL, setDisabled_intoText, annotate_intoText true n,
            annotateKids_intoText u true true rest]
        · simp only [ANode.intoTextL, Node.intoTextL, annotate_intoText true n, annotateKids_intoText u d true rest]
      · split
        · simp only [ANode.intoTextL, Node.intoTextL, setDisabled_intoText, annotate_intoText true n,
            annotateKids_intoText u false c rest]
        · simp only [ANode.intoTextL, Node.intoTextL, annotate_intoText false n, annotateKids_intoText u d c rest]
end

mutual
theorem number_intoText : ∀ (n : ANode) (k : Nat), (number n k).1.intoText = n.intoText
  | .leaf _ _ _, _ => rfl
  | .inner kd cs a, k => by
    simp only [number, ANode.intoText]
    exact numberL_intoText cs (k + 1)
theorem numberL_intoText : ∀ (ns : List ANode) (k : Nat), ANode.intoTextL (numberL ns k).1 = ANode.intoTextL ns
  | [], _ => rfl
  | n :: rest, k => by
    simp only [numberL, ANode.intoTextL, number_intoText n k, numberL_intoText rest (number n k).2]
end

/-- The prepared tree has the text of the raw tree. -/
theorem prepare_intoText (root : Node) : (prepare root).intoText = root.intoText := by
  unfold prepare
  rw [number_intoText, annotate_intoText]

end Typstyle
