import TypstyleModel.Model.Env
/-! A minimal partial-correctness logic for the model's monad `M` (state + rejection). -/
namespace Typstyle

@[simp] theorem M.run_pure {α : Type} (a : α) (s : St) : (pure a : M α).run s = .ok (a, s) := rfl

theorem M.run_bind {α β : Type} (x : M α) (f : α → M β) (s : St) :
    (x >>= f).run s = match x.run s with
      | .ok (a, s1) => (f a).run s1
      | .error e => .error e := rfl

@[simp] theorem M.run_reject {α : Type} (r : Reject) (s : St) : (reject r : M α).run s = .error r := rfl

theorem M.ext {α : Type} {x y : M α} (h : x.run = y.run) : x = y := by
  cases x; cases y; simp only at h; subst h; rfl

@[simp] theorem M.pure_bind {α β : Type} (a : α) (f : α → M β) : (pure a >>= f) = f a :=
  M.ext (by funext s; rfl)

@[simp] theorem M.bind_pure {α : Type} (x : M α) : (x >>= pure) = x :=
  M.ext (by
    funext s
    show (match x.run s with | .ok (a, s1) => Except.ok (a, s1) | .error e => .error e) = x.run s
    cases x.run s with
    | ok p => rfl
    | error e => rfl)

/-- Partial correctness: whenever `x` succeeds, its result satisfies `P`. -/
def Post {α : Type} (x : M α) (P : α → Prop) : Prop := ∀ k a k', x.run k = .ok (a, k') → P a

theorem Post.pure {α : Type} {P : α → Prop} {a : α} (h : P a) : Post (pure a : M α) P := by
  intro k a' k' hr
  simp only [M.run_pure, Except.ok.injEq, Prod.mk.injEq] at hr
  rw [← hr.1]; exact h

theorem Post.bind {α β : Type} {x : M α} {f : α → M β} {Q : α → Prop} {P : β → Prop}
    (hx : Post x Q) (hf : ∀ a, Q a → Post (f a) P) : Post (x >>= f) P := by
  intro k b k' hr
  rw [M.run_bind] at hr
  cases hxr : x.run k with
  | error e => simp [hxr] at hr
  | ok p =>
    obtain ⟨a, k1⟩ := p
    simp only [hxr] at hr
    exact hf a (hx k a k1 hxr) k1 b k' hr

theorem Post.rejected {α : Type} {P : α → Prop} (r : Reject) : Post (Typstyle.reject r : M α) P := by
  intro k a k' hr
  simp at hr

theorem Post.mono {α : Type} {x : M α} {P Q : α → Prop} (h : Post x P) (hpq : ∀ a, P a → Q a) : Post x Q :=
  fun k a k' hr => hpq a (h k a k' hr)

theorem Post.enter {P : Unit → Prop} (k : Entry) (id : Nat) (h : P ()) : Post (enter k id) P := fun _ _ _ _ => h

theorem Post.map {α β : Type} {x : M α} {f : α → β} {P : β → Prop} (h : Post x (fun a => P (f a))) : Post (f <$> x) P :=
  Post.bind (f := fun a => Pure.pure (f a)) h (fun _ ha => Post.pure ha)

theorem Post.foldlM {α β : Type} {step : β → α → M β} {Inv : β → Prop} :
    ∀ (l : List α) (init : β), Inv init → (∀ acc x, Inv acc → Post (step acc x) Inv) → Post (l.foldlM step init) Inv := by
  intro l
  induction l with
  | nil => intro init hi _; exact Post.pure hi
  | cons x xs ih =>
    intro init hi hs
    simp only [List.foldlM_cons]
    exact Post.bind (hs init x hi) (fun acc hacc => ih acc hacc hs)

/-- Fold with an invariant that is indexed by the list processed so far. -/
theorem Post.foldlM_idx {α β : Type} {step : β → α → M β} {Inv : List α → β → Prop} :
    ∀ (l pre : List α) (init : β), Inv pre init →
      (∀ pre acc x, Inv pre acc → Post (step acc x) (Inv (pre ++ [x]))) →
      Post (l.foldlM step init) (Inv (pre ++ l)) := by
  intro l
  induction l with
  | nil => intro pre init hi _; simpa using (Post.pure hi : Post (Pure.pure init : M β) (Inv pre))
  | cons x xs ih =>
    intro pre init hi hs
    simp only [List.foldlM_cons]
    refine Post.bind (hs pre init x hi) (fun acc hacc => ?_)
    have := ih (pre ++ [x]) acc hacc hs
    simpa [List.append_assoc] using this

end Typstyle

namespace Typstyle

theorem M.bind_assoc {α β γ : Type} (x : M α) (f : α → M β) (g : β → M γ) : (x >>= f >>= g) = (x >>= fun a => f a >>= g) :=
  M.ext (by
    funext s
    show (match (match x.run s with | .ok (a, s1) => (f a).run s1 | .error e => .error e) with
            | .ok (b, s2) => (g b).run s2 | .error e => .error e)
       = (match x.run s with | .ok (a, s1) => (match (f a).run s1 with | .ok (b, s2) => (g b).run s2 | .error e => .error e) | .error e => .error e)
    cases x.run s with
    | ok p => rfl
    | error e => rfl)

instance : LawfulMonad M := LawfulMonad.mk'
  (id_map := fun x => M.bind_pure x)
  (pure_bind := fun a f => M.pure_bind a f)
  (bind_assoc := fun x f g => M.bind_assoc x f g)

/-- Element-wise relation of two lists of equal length. -/
inductive Zip2 {α β : Type} (R : α → β → Prop) : List α → List β → Prop
  | nil : Zip2 R [] []
  | cons {a b as bs} : R a b → Zip2 R as bs → Zip2 R (a :: as) (b :: bs)

/-- `mapM` with a per-element postcondition. -/
theorem Post.mapM {α β : Type} {f : α → M β} {R : α → β → Prop} :
    ∀ (l : List α), (∀ x ∈ l, Post (f x) (R x)) → Post (l.mapM f) (fun ys => Zip2 R l ys) := by
  intro l
  induction l with
  | nil => intro _; simp only [List.mapM_nil]; exact Post.pure Zip2.nil
  | cons a as ih =>
    intro h
    simp only [List.mapM_cons]
    refine Post.bind (h a List.mem_cons_self) (fun b hb => ?_)
    refine Post.bind (ih (fun x hx => h x (List.mem_cons_of_mem _ hx))) (fun bs hbs => Post.pure (Zip2.cons hb hbs))

end Typstyle
