import TypstyleModel.Model.Env
/-! A minimal partial-correctness logic for the model's monad `M = StateT Nat (Except Reject)`. -/
namespace Typstyle

/-- Partial correctness: whenever `x` succeeds, its result satisfies `P`. -/
def Post {α} (x : M α) (P : α → Prop) : Prop := ∀ k a k', x.run k = .ok (a, k') → P a

theorem Post.pure {α} {P : α → Prop} {a : α} (h : P a) : Post (pure a : M α) P := by
  intro k a' k' hr
  simp [StateT.run, Pure.pure, StateT.pure, Except.pure] at hr
  rw [← hr.1]; exact h

theorem Post.bind {α β} {x : M α} {f : α → M β} {Q : α → Prop} {P : β → Prop}
    (hx : Post x Q) (hf : ∀ a, Q a → Post (f a) P) : Post (x >>= f) P := by
  intro k b k' hr
  simp only [StateT.run_bind] at hr
  cases hxr : x.run k with
  | error e => simp [hxr, Bind.bind, Except.bind] at hr
  | ok p =>
    obtain ⟨a, k1⟩ := p
    simp only [hxr, Bind.bind, Except.bind] at hr
    exact hf a (hx k a k1 hxr) k1 b k' hr

theorem Post.rejected {α} {P : α → Prop} (r : Reject) : Post (Typstyle.reject r : M α) P := by
  intro k a k' hr
  simp [Typstyle.reject, throw, throwThe, MonadExceptOf.throw, StateT.run, StateT.lift, Bind.bind, Except.bind] at hr

theorem Post.mono {α} {x : M α} {P Q : α → Prop} (h : Post x P) (hpq : ∀ a, P a → Q a) : Post x Q :=
  fun k a k' hr => hpq a (h k a k' hr)

theorem Post.tick {P : Unit → Prop} (h : P ()) : Post tick P := fun _ _ _ _ => h

theorem Post.map {α β} {x : M α} {f : α → β} {P : β → Prop} (h : Post x (fun a => P (f a))) : Post (f <$> x) P := by
  rw [map_eq_pure_bind]
  exact Post.bind h (fun a ha => Post.pure ha)

theorem Post.foldlM {α β} {step : β → α → M β} {Inv : β → Prop} :
    ∀ (l : List α) (init : β), Inv init → (∀ acc x, Inv acc → Post (step acc x) Inv) → Post (l.foldlM step init) Inv := by
  intro l
  induction l with
  | nil => intro init hi _; simpa using Post.pure hi
  | cons x xs ih =>
    intro init hi hs
    simp only [List.foldlM_cons]
    exact Post.bind (hs init x hi) (fun acc hacc => ih acc hacc hs)

/-- Fold with an invariant that is indexed by the list processed so far. -/
theorem Post.foldlM_idx {α β} {step : β → α → M β} {Inv : List α → β → Prop} :
    ∀ (l pre : List α) (init : β), Inv pre init →
      (∀ pre acc x, Inv pre acc → Post (step acc x) (Inv (pre ++ [x]))) →
      Post (l.foldlM step init) (Inv (pre ++ l)) := by
  intro l
  induction l with
  | nil => intro pre init hi _; simpa using Post.pure hi
  | cons x xs ih =>
    intro pre init hi hs
    simp only [List.foldlM_cons]
    refine Post.bind (hs pre init x hi) (fun acc hacc => ?_)
    have := ih (pre ++ [x]) acc hacc hs
    simpa [List.append_assoc] using this

end Typstyle
