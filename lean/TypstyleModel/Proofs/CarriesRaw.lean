import TypstyleModel.Proofs.CarriesCall
import TypstyleModel.Proofs.Tokens
/-! Raw elements (route M): `convert_raw` — copied as a whole, or rebuilt from fence, language tag and
text lines with the trimmed white space re-synthesised — carries what the `Raw` node prescribes. -/
namespace Typstyle
open Twin

/-- Children of a raw element the printer knows: fence, language tag, text lines, trimmed white space
(white space only) — all leaves. -/
def rawChildOK (c : ANode) : Bool :=
  match c with
  | .leaf k t _ => k == .rawDelim || k == .rawLang || k == .text || (k == .rawTrimmed && t.toList.all isWs)
  | .inner _ _ _ => false

theorem tagS_lit_append (a b : String) : tagS .lit (a ++ b) = (tagS .lit a).app (tagS .lit b) := by
  apply Streams.ext' <;> simp [tagS, Pretty.charsOf, Streams.app, String.toList_append, List.filter_append, String.ofList_append]

theorem tagS_lit_empty : tagS .lit "" = {} := by
  apply Streams.ext' <;> simp [tagS, Pretty.charsOf]

/-- A raw element copied as a whole carries its whole text as a literal (and its kept characters as tokens). -/
theorem raw_verbatim_spec (cs : List ANode) (h : cs.all rawChildOK = true) :
    specToksL cs = Pretty.keepOf (ANode.intoTextL cs) ∧ specCmtsL cs = "" ∧ specVerbL cs = "" := by
  induction cs with
  | nil => simp [specToksL, specCmtsL, specVerbL, ANode.intoTextL, Pretty.keepOf]
  | cons c cs ih =>
    simp only [List.all_cons, Bool.and_eq_true] at h
    have := ih h.2
    cases c with
    | inner _ _ _ => simp [rawChildOK] at h
    | leaf k t a =>
      have hk := h.1
      simp only [rawChildOK, Bool.or_eq_true, beq_iff_eq, Bool.and_eq_true] at hk
      refine ⟨?_, ?_, ?_⟩
      · simp only [specToksL, ANode.intoTextL, ANode.intoText, keepOf_append, this.1]
        congr 1
        rcases hk with ((hk | hk) | hk) | hk <;> (try rw [hk]) <;> simp [specToks, isCommentKind]
        rw [hk.1]; simp [specToks, isCommentKind]
      · simp only [specCmtsL, this.2.1]
        rcases hk with ((hk | hk) | hk) | hk <;> (try rw [hk]) <;> simp [specCmts, isCommentKind]
        rw [hk.1]; simp [specCmts, isCommentKind]
      · simp only [specVerbL, this.2.2]
        rcases hk with ((hk | hk) | hk) | hk <;> (try rw [hk]) <;> simp [specVerb, Kind.isExpr, leafTag]
        rw [hk.1]; simp [specVerb, Kind.isExpr]

/-- What a rebuilt raw element carries: the kept characters of its pieces as tokens, and fence, language tag
and text lines as the literal. -/
def rawS (cs : List ANode) : Streams := ⟨specToksL cs, "", "", rawPieces cs, ""⟩

theorem rawS_cons (c : ANode) (cs : List ANode) :
    rawS (c :: cs) = (⟨specToks c, "", "", (if c.kind == .rawDelim || c.kind == .rawLang || c.kind == .text then c.intoText else ""), ""⟩ : Streams).app (rawS cs) := by
  apply Streams.ext' <;> simp [rawS, Streams.app, specToksL, rawPieces]

theorem rawStep_carries (e : Env) (acc : Doc) (sa : Streams) (ha : Carries acc sa) (c : ANode) (hc : rawChildOK c = true) :
    Carries (rawStep e acc c)
      (sa.app ⟨specToks c, "", "", (if c.kind == .rawDelim || c.kind == .rawLang || c.kind == .text then c.intoText else ""), ""⟩) := by
  cases c with
  | inner _ _ _ => simp [rawChildOK] at hc
  | leaf k t a =>
    simp only [rawChildOK, Bool.or_eq_true, beq_iff_eq, Bool.and_eq_true] at hc
    have hlit : ∀ (hk : (k == .rawDelim || k == .rawLang || k == .text) = true) (hnc : isCommentKind k = false)
        (hns : (k == .space || k == .parbreak) = false),
        (⟨specToks (.leaf k t a), "", "", (if (ANode.leaf k t a).kind == .rawDelim || (ANode.leaf k t a).kind == .rawLang || (ANode.leaf k t a).kind == .text then (ANode.leaf k t a).intoText else ""), ""⟩ : Streams) = tagS .lit t := by
      intro hk hnc hns
      apply Streams.ext' <;> simp [specToks, hnc, hns, ANode.kind, hk, ANode.intoText, tagS, Pretty.charsOf, Pretty.keepOf]
    unfold rawStep
    rcases hc with ((hk | hk) | hk) | hk
    · subst hk
      simp only [ANode.kind, beq_self_eq_true, Bool.true_or, ↓reduceIte, ANode.text]
      refine (ha.app (Carries.mkText e.wd .lit t)).congr ?_
      congr 1
      apply Streams.ext' <;> simp [specToks, isCommentKind, tagS, Pretty.charsOf, Pretty.keepOf, ANode.intoText]
    · subst hk
      simp only [ANode.kind, beq_self_eq_true, Bool.or_true, ↓reduceIte, ANode.text]
      refine (ha.app (Carries.mkText e.wd .lit t)).congr ?_
      congr 1
      apply Streams.ext' <;> simp [specToks, isCommentKind, tagS, Pretty.charsOf, Pretty.keepOf, ANode.intoText]
    · subst hk
      have h1 : ((Kind.text == Kind.rawDelim) || (Kind.text == Kind.rawLang)) = false := rfl
      simp only [ANode.kind, h1, Bool.false_eq_true, ↓reduceIte, beq_self_eq_true, ANode.intoText]
      refine (ha.app (Carries.mkText e.wd .lit t)).congr ?_
      congr 1
      apply Streams.ext' <;> simp [specToks, isCommentKind, tagS, Pretty.charsOf, Pretty.keepOf]
    · obtain ⟨hk, hws⟩ := hk
      subst hk
      have h1 : ((Kind.rawTrimmed == Kind.rawDelim) || (Kind.rawTrimmed == Kind.rawLang)) = false := rfl
      have h2 : (Kind.rawTrimmed == Kind.text) = false := rfl
      simp only [ANode.kind, h1, h2, Bool.false_eq_true, ↓reduceIte, beq_self_eq_true]
      have hspec : ∀ (x : String), (⟨specToks (.leaf .rawTrimmed t a), "", "", x, ""⟩ : Streams) = ⟨"", "", "", x, ""⟩ := by
        intro x; apply Streams.ext' <;> simp [specToks, isCommentKind, keepOf_blank t hws]
      have hcar : Carries (acc ++ (if hasLinebreak (ANode.leaf Kind.rawTrimmed t a).text = true then Twin.hardline else Twin.space)) sa := by
        split
        · simpa using ha.app Carries.hardline
        · simpa using ha.app Carries.space
      refine hcar.congr ?_
      simp [hspec]

theorem foldl_rawStep_carries (e : Env) (cs : List ANode) (acc : Doc) (sa : Streams) (ha : Carries acc sa)
    (h : cs.all rawChildOK = true) : Carries (cs.foldl (rawStep e) acc) (sa.app (rawS cs)) := by
  induction cs generalizing acc sa with
  | nil =>
    have : rawS [] = {} := by apply Streams.ext' <;> simp [rawS, specToksL, rawPieces]
    simpa [this] using ha
  | cons c cs ih =>
    simp only [List.all_cons, Bool.and_eq_true] at h
    rw [List.foldl_cons, rawS_cons, ← Streams.app_assoc]
    exact ih _ _ (rawStep_carries e acc sa ha c h.1) h.2

/-- **`convert_raw` carries what the `Raw` node prescribes.** -/
theorem convRaw_carries (e : Env) (cs : List ANode) (a : Attrs) (hd : a.disabled = false) (h : cs.all rawChildOK = true) :
    Carries (convRaw e (.inner .raw cs a)) (specAll (.inner .raw cs a)) := by
  have hv : isVerbatimNode .raw cs a = false := by simp [isVerbatimNode, hd]
  have hsp := raw_verbatim_spec cs h
  unfold convRaw
  split
  · rename_i hrv
    refine (Carries.mkText e.wd .lit _).congr ?_
    apply Streams.ext' <;>
      simp [specAll, specToks, specCmts, specProse, specLit, specVerb, hv, hrv, hsp.1, hsp.2.1, hsp.2.2, tagS, Pretty.charsOf,
        ANode.intoText, Pretty.keepOf]
  · rename_i hrv
    have hrv' : rawIsVerbatim (.inner .raw cs a) = false := by simpa using hrv
    have := foldl_rawStep_carries e cs Doc.nil {} Carries.nil h
    simp only [Streams.empty_app] at this
    refine this.congr ?_
    apply Streams.ext' <;>
      simp [rawS, specAll, specToks, specCmts, specProse, specLit, specVerb, hv, hrv', hsp.2.1, hsp.2.2]

end Typstyle

namespace Typstyle
open Twin

/-! ### references -/

/-- A reference marker is `@` followed by a target that does not start with `@`. -/
def refMarkerOK (t : String) : Bool :=
  match t.toList with
  | '@' :: rest => rest.head? != some '@'
  | _ => false

theorem refMarker_target (t : String) (h : refMarkerOK t = true) :
    t = "@" ++ String.ofList (t.toList.dropWhile (· == '@')) := by
  unfold refMarkerOK at h
  cases ht : t.toList with
  | nil => rw [ht] at h; simp at h
  | cons c rest =>
    rw [ht] at h
    have hc : c = '@' := by
      by_cases hc : c = '@'
      · exact hc
      · simp [hc] at h
    subst hc
    simp only at h
    have hrest : rest.dropWhile (· == '@') = rest := by
      cases rest with
      | nil => rfl
      | cons r rs =>
        have : r ≠ '@' := by simpa using h
        simp [List.dropWhile_cons, this]
    apply String.ext
    simp only [ht, List.dropWhile_cons, beq_self_eq_true, ↓reduceIte, hrest, String.toList_append, String.toList_ofList]
    rfl

/-- `@` and the target, as the printer emits them, carry what the marker leaf prescribes. -/
theorem refMarker_carries (e : Env) (t : String) (a : Attrs) (h : refMarkerOK t = true) :
    Carries (e.syn "@" ++ e.plit (String.ofList (t.toList.dropWhile (· == '@')))) (specAll (.leaf .refMarker t a)) := by
  refine ((Carries.mkText e.wd .syn "@").app (Carries.mkText e.wd .plit _)).congr ?_
  have ht := refMarker_target t h
  generalize String.ofList (t.toList.dropWhile (· == '@')) = target at ht
  have hdw : String.ofList (t.toList.dropWhile (· == '@')) = target := by
    have := refMarker_target t h
    rw [ht] at this ⊢
    have h2 : ("@" ++ target).toList = '@' :: target.toList := by simp
    -- the target does not start with `@`
    unfold refMarkerOK at h
    rw [ht, h2] at h
    simp only at h
    rw [h2, List.dropWhile_cons]
    simp only [beq_self_eq_true, ↓reduceIte]
    cases htt : target.toList with
    | nil => simp [htt, ← String.toList_inj]
    | cons r rs =>
      rw [htt] at h
      have : r ≠ '@' := by simpa using h
      rw [List.dropWhile_cons]; simp only [beq_iff_eq, this, ↓reduceIte]
      rw [← htt, String.ofList_toList]
  apply Streams.ext'
  · simp only [specAll, specToks, isCommentKind]
    simp only [tagS, Streams.app, Pretty.charsOf, Pretty.keepOf]
    rw [ht]
    simp [String.toList_append]
    have hk : Pretty.keepChar '@' = true := by decide
    apply String.ext
    simp only [String.toList_append, String.toList_ofList]
    rw [List.filter_cons, hk]
    rfl
  · simp [specAll, specCmts, isCommentKind, tagS, Streams.app, Pretty.charsOf]
  · simp only [specAll, specProse]
    simp [tagS, Streams.app, Pretty.charsOf, hdw]
  · simp only [specAll, specLit]
    simp [tagS, Streams.app, Pretty.charsOf, hdw]
  · simp [specAll, specVerb, Kind.isExpr, tagS, Streams.app, Pretty.charsOf]

end Typstyle
