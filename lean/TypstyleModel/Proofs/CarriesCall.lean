import TypstyleModel.Proofs.CarriesMarkup
/-! Calls (route M): the argument list of a call or set rule — parenthesised arguments laid out by the list
stylist, then the trailing content blocks — carries what the `Args` node prescribes (code mode; in math
mode arguments are laid out by other code, not covered here). -/
namespace Typstyle
open Twin

/-- Shape of a content block the printer handles: `[`, a markup body, `]`. -/
def isBlockShape (b : ANode) : Bool :=
  match b with
  | .inner .contentBlock cs a => cs.map (·.kind) == [.leftBracket, .markup, .rightBracket] && !a.disabled
  | _ => false

theorem blockShape_kind (b : ANode) (h : isBlockShape b = true) : (b.kind == .contentBlock) = true := by
  cases b with
  | leaf _ _ _ => simp [isBlockShape] at h
  | inner kb cb ab => cases kb <;> simp_all [isBlockShape, ANode.kind]

/-- A content block of the given shape carries what it prescribes (given the markup entry point does). -/
theorem contentBlock_carries {Q : ANode → Prop} (e : Env) (r : Rec) (hr : RecOK r Q) (ctx : Ctx) (hctx : NM ctx) (b : ANode)
    (hs : isBlockShape b = true) (hlex : ANode.tokensAreLeaves b = true) (hq : ∀ c ∈ b.children, Q c) :
    Post (convContentBlock e r ctx b) (fun d => Carries d (specAll b)) := by
  cases b with
  | leaf k t a => simp [isBlockShape] at hs
  | inner k cs a =>
    cases k <;> simp only [isBlockShape, Bool.false_eq_true] at hs
    simp only [Bool.and_eq_true, beq_iff_eq, Bool.not_eq_true'] at hs
    obtain ⟨hm, hd⟩ := hs
    rcases cs with _ | ⟨c0, _ | ⟨m, _ | ⟨c1, _ | ⟨c2, rest⟩⟩⟩⟩ <;> simp at hm
    obtain ⟨h0, hmk, h1⟩ := hm
    simp only [ANode.tokensAreLeaves, ANode.tokensAreLeavesL, Bool.and_eq_true] at hlex
    have hv : isVerbatimNode .contentBlock [c0, m, c1] a = false := by simp [isVerbatimNode, hd]
    rw [specAll_inner _ _ a hv (by decide)]
    unfold convContentBlock
    have h0k : (c0.kind == .markup) = false := by rw [h0]; rfl
    have hfind : ([c0, m, c1] : List ANode).find? (fun x => x.kind == .markup) = some m := by
      rw [List.find?_cons, h0k, List.find?_cons, hmk]; rfl
    simp only [ANode.children, hfind, childOr, M.pure_bind]
    refine Post.bind (hr.markup ctx m .contentBlock hctx hmk (hq m (by simp [ANode.children]))) (fun d hd' => Post.pure ?_)
    obtain ⟨t0, a0, e0⟩ := leaf_of_token hlex.2.1 (by rw [h0]; rfl)
    obtain ⟨t1, a1, e1⟩ := leaf_of_token hlex.2.2.2.1 (by rw [h1]; rfl)
    have ht0 : t0 = "[" := leaf_tok_fixed (by rw [← e0]; exact hlex.2.1) (by rw [h0]; rfl)
    have ht1 : t1 = "]" := leaf_tok_fixed (by rw [← e1]; exact hlex.2.2.2.1) (by rw [h1]; rfl)
    have hs0 : specAll c0 = tagS .syn "[" := by
      rw [e0, h0, specAll_plain_leaf .leftBracket t0 a0 rfl, tagS_syn_eq_tok, ht0]
    have hs1 : specAll c1 = tagS .syn "]" := by
      rw [e1, h1, specAll_plain_leaf .rightBracket t1 a1 rfl, tagS_syn_eq_tok, ht1]
    simpa [specAllL_cons, hs0, hs1, Streams.app_assoc, Env.syn] using
      (hd'.nstTab.grp).enclose (Carries.mkText e.wd .syn "[") (Carries.mkText e.wd .syn "]")

theorem concatDocs_carries (blocks : List ANode) (docs : List Doc)
    (h : Zip2 (fun b d => Carries d (specAll b)) blocks docs) : Carries (concatDocs docs) (specAllL blocks) := by
  unfold concatDocs
  suffices ∀ (acc : Doc) (sa : Streams), Carries acc sa → Carries (docs.foldl (· ++ ·) acc) (sa.app (specAllL blocks)) by
    simpa using this Doc.nil {} Carries.nil
  induction h with
  | nil => intro acc sa ha; simpa using ha
  | cons hb _ ih =>
    intro acc sa ha
    rw [List.foldl_cons, specAllL_cons, ← Streams.app_assoc]
    exact ih _ _ (ha.app hb)

end Typstyle
