import TypstyleModel.Proofs.CarriesLists
import TypstyleModel.Proofs.CarriesConstructs
import TypstyleModel.Proofs.CarriesComment
import TypstyleModel.Proofs.CarriesImport
/-! `table` / `grid` calls: the plain argument list of a table that is not reflowed
(`convert_parenthesized_args_as_list`) and the row layout of one that is (`convert_table`). -/
namespace Typstyle
open Twin

/-! ### the plain stylist -/

def pitemS : PItem → Streams
  | .item d | .lineComment d | .blockComment d => d.ss
  | .comma | .linebreak _ => {}
def pitemGood : PItem → Bool
  | .item d | .lineComment d | .blockComment d => d.good
  | .comma | .linebreak _ => true
def pitemsS : List PItem → Streams
  | [] => {}
  | it :: rest => (pitemS it).app (pitemsS rest)
def pitemsGood : List PItem → Bool
  | [] => true
  | it :: rest => pitemGood it && pitemsGood rest

theorem pitemsS_append (a b : List PItem) : pitemsS (a ++ b) = (pitemsS a).app (pitemsS b) := by
  induction a with
  | nil => simp [pitemsS]
  | cons x xs ih => simp only [List.cons_append, pitemsS, ih, Streams.app_assoc]

theorem pitemsGood_append (a b : List PItem) : pitemsGood (a ++ b) = (pitemsGood a && pitemsGood b) := by
  induction a with
  | nil => simp [pitemsGood]
  | cons x xs ih => simp only [List.cons_append, pitemsGood, ih, Bool.and_assoc]

theorem plainStep_carries (e : Env) (f : Flow) (s : Streams) (hf : Carries f.doc s) (it : PItem) (hg : pitemGood it = true) :
    Carries (plainStep e f it).doc (s.app (pitemS it)) := by
  cases it with
  | item d => exact Flow.push_carries hf ⟨hg, rfl⟩
  | comma => exact Flow.push_carries hf (Carries.soft e "," (by decide))
  | linebreak n => exact Flow.push_carries hf (Carries.repeatN Carries.hardline n)
  | lineComment d => exact Flow.push_carries hf ⟨hg, rfl⟩
  | blockComment d => exact Flow.push_carries hf ⟨hg, rfl⟩

theorem plainPrint_carries (e : Env) (items : List PItem) (ml : Bool) (hg : pitemsGood items = true) :
    Carries (plainPrint e items ml) (pitemsS items) := by
  unfold plainPrint
  have key : ∀ (l : List PItem) (f : Flow) (s : Streams), Carries f.doc s → pitemsGood l = true →
      Carries (l.foldl (plainStep e) f).doc (s.app (pitemsS l)) := by
    intro l
    induction l with
    | nil => intro f s hf _; simpa [pitemsS] using hf
    | cons it rest ih =>
      intro f s hf hgl
      simp only [pitemsGood, Bool.and_eq_true] at hgl
      rw [List.foldl_cons]
      have := ih _ _ (plainStep_carries e f s hf it hgl.1) hgl.2
      simpa [pitemsS, Streams.app_assoc] using this
  have := key items {} {} Carries.nil hg
  simp only [Streams.empty_app] at this
  split
  · simpa using this.enclose Carries.hardline Carries.hardline
  · exact this

theorem dropWhile_rev_spec (p : PItem → Bool) (hp : ∀ x, p x = true → pitemS x = {}) (items : List PItem) :
    pitemsS (items.reverse.dropWhile p).reverse = pitemsS items ∧
    (pitemsGood items = true → pitemsGood (items.reverse.dropWhile p).reverse = true) := by
  have key : ∀ (l : List PItem),
      pitemsS (l.dropWhile p).reverse = pitemsS l.reverse ∧
      (pitemsGood l.reverse = true → pitemsGood (l.dropWhile p).reverse = true) := by
    intro l
    induction l with
    | nil => exact ⟨rfl, id⟩
    | cons x xs ih =>
      rw [List.dropWhile_cons]
      split
      · rename_i hx
        refine ⟨?_, fun h => ih.2 ?_⟩
        · rw [ih.1, List.reverse_cons, pitemsS_append]; simp [pitemsS, hp x hx]
        · rw [List.reverse_cons, pitemsGood_append] at h
          simp only [Bool.and_eq_true] at h; exact h.1
      · exact ⟨rfl, id⟩
  have := key items.reverse
  simpa using this

theorem dropTrailingP_spec (items : List PItem) :
    pitemsS (dropTrailingPLinebreaks items) = pitemsS items ∧
    (pitemsGood items = true → pitemsGood (dropTrailingPLinebreaks items) = true) := by
  unfold dropTrailingPLinebreaks
  refine dropWhile_rev_spec _ ?_ items
  intro x hx
  cases x <;> simp_all [pitemS]

variable {Q : ANode → Prop}

/-- One node of the parenthesised part of a plain argument list. -/
theorem plainArgStep_carries (e : Env) (r : Rec) (ctx : Ctx)
    (harg : ∀ x, Q x → isArg x = true → Post (convArg e r ctx x) (fun d => Carries d (specAll x)))
    (acc : List PItem × Bool) (s : Streams) (hg : pitemsGood acc.1 = true) (hs : pitemsS acc.1 = s)
    (child : ANode) (hlex : ANode.tokensAreLeaves child = true) (hq : Q child)
    (hk : isArg child = true ∨ isCommentKind child.kind = true ∨ isIgnorable child = true) :
    Post (plainArgStep e r ctx acc child) (fun r' => pitemsGood r'.1 = true ∧ pitemsS r'.1 = s.app (specAll child)) := by
  obtain ⟨items, ml⟩ := acc
  simp only at hg hs
  have snoc : ∀ it : PItem, pitemGood it = true → pitemS it = specAll child →
      pitemsGood (items ++ [it]) = true ∧ pitemsS (items ++ [it]) = s.app (specAll child) := by
    intro it h1 h2
    refine ⟨by rw [pitemsGood_append, hg]; simp [pitemsGood, h1], ?_⟩
    rw [pitemsS_append, hs]; simp [pitemsS, h2]
  have hign : isIgnorable child = true → specAll child = {} := fun h => specAll_ignorable child hlex h
  unfold plainArgStep
  simp only
  split
  · rename_i hkc
    have := hign (by unfold isIgnorable; rw [hkc]; rfl)
    exact Post.pure (snoc .comma rfl (by rw [this]; rfl))
  · rename_i hkc
    have hsp := hign (by unfold isIgnorable; rw [hkc]; rfl)
    rw [hsp, Streams.app_empty]
    split
    · split
      · refine Post.pure ?_
        have := snoc (.linebreak (min (countLinebreaks child.text) (e.cfg.blankUpper + 1))) rfl (by rw [hsp]; rfl)
        rw [hsp, Streams.app_empty] at this
        exact this
      · exact Post.pure ⟨hg, hs⟩
    · exact Post.pure ⟨hg, hs⟩
  · rename_i hkc
    have hck : isCommentKind child.kind = true := by rw [hkc]; rfl
    refine Post.bind (commentOK e child hck) (fun d hd => Post.pure ?_)
    exact snoc (.lineComment d) hd.1 (by rw [triviaS_comment child hlex hck]; unfold triviaS; rw [hck]; exact hd.2)
  · rename_i hkc
    have hck : isCommentKind child.kind = true := by rw [hkc]; rfl
    refine Post.bind (commentOK e child hck) (fun d hd => Post.pure ?_)
    exact snoc (.blockComment d) hd.1 (by rw [triviaS_comment child hlex hck]; unfold triviaS; rw [hck]; exact hd.2)
  · rename_i h1 h2 h3 h4
    split
    · rename_i ha
      refine Post.bind (harg child hq ha) (fun d hd => Post.pure ?_)
      exact snoc (.item d) hd.1 hd.2
    · rename_i ha
      refine Post.pure ?_
      rcases hk with h | h | h
      · exact absurd h ha
      · exfalso
        simp only [isCommentKind, Bool.or_eq_true, beq_iff_eq] at h
        rcases h with h | h
        · exact h3 h
        · exact h4 h
      · rw [hign h, Streams.app_empty]; exact ⟨hg, hs⟩

/-- **`convert_parenthesized_args_as_list`** over a node list. -/
theorem plainArgs_carries (e : Env) (r : Rec) (ctx : Ctx)
    (harg : ∀ x, Q x → isArg x = true → Post (convArg e r ctx x) (fun d => Carries d (specAll x)))
    (nodes : List ANode)
    (hall : ∀ x ∈ nodes, ANode.tokensAreLeaves x = true ∧ Q x ∧ (isArg x = true ∨ isCommentKind x.kind = true ∨ isIgnorable x = true)) :
    Post (nodes.foldlM (plainArgStep e r ctx) (([] : List PItem), false))
      (fun acc => pitemsGood acc.1 = true ∧ pitemsS acc.1 = specAllL nodes) := by
  have key : ∀ (l : List ANode) (acc : List PItem × Bool) (s : Streams), pitemsGood acc.1 = true → pitemsS acc.1 = s →
      (∀ x ∈ l, ANode.tokensAreLeaves x = true ∧ Q x ∧ (isArg x = true ∨ isCommentKind x.kind = true ∨ isIgnorable x = true)) →
      Post (l.foldlM (plainArgStep e r ctx) acc) (fun acc' => pitemsGood acc'.1 = true ∧ pitemsS acc'.1 = s.app (specAllL l)) := by
    intro l
    induction l with
    | nil => intro acc s hg hs _; exact Post.pure ⟨hg, by simpa using hs⟩
    | cons c cs ih =>
      intro acc s hg hs hl
      rw [List.foldlM_cons]
      have hc := hl c List.mem_cons_self
      refine Post.bind (plainArgStep_carries e r ctx harg acc s hg hs c hc.1 hc.2.1 hc.2.2) (fun acc' h' => ?_)
      have := ih acc' _ h'.1 h'.2 (fun x hx => hl x (List.mem_cons_of_mem _ hx))
      rw [specAllL_cons, ← Streams.app_assoc]
      exact this
  have := key nodes ([], false) {} rfl rfl hall
  simpa using this

end Typstyle

namespace Typstyle
open Twin
variable {Q : ANode → Prop}

/-! ### `convert_table` -/

/-- What `is_formatable` accepting an argument list means: named arguments first, then positional
ones, no spread. -/
theorem formatableGo_split : ∀ (items : List ANode) (seen b : Bool), formatableGo items seen = some b →
    ∃ N P, items = N ++ P ∧ (∀ x ∈ N, x.kind = .named) ∧ (∀ x ∈ P, x.kind ≠ .named ∧ x.kind ≠ .spread) ∧ (seen = true → N = [])
  | [], _, _, _ => ⟨[], [], rfl, (fun _ h => by cases h), (fun _ h => by cases h), fun _ => rfl⟩
  | it :: rest, seen, b, h => by
    unfold formatableGo at h
    split at h
    · rename_i hk
      split at h
      · cases h
      · rename_i hseen
        obtain ⟨N, P, hnp, hN, hP, _⟩ := formatableGo_split rest seen b h
        refine ⟨it :: N, P, by rw [hnp]; rfl, ?_, hP, fun hs => absurd hs hseen⟩
        intro x hx
        rcases List.mem_cons.mp hx with rfl | hx'
        · simpa using hk
        · exact hN x hx'
    · rename_i hk
      split at h
      · cases h
      · rename_i hs
        split at h
        · cases h
        · obtain ⟨N, P, hnp, _, hP, hNnil⟩ := formatableGo_split rest true b h
          have hN := hNnil rfl
          subst hN
          refine ⟨[], it :: P, by rw [hnp]; rfl, (fun _ h => by cases h), ?_, fun _ => rfl⟩
          intro x hx
          rcases List.mem_cons.mp hx with rfl | hx'
          · exact ⟨by simpa using hk, by simpa using hs⟩
          · exact hP x hx'

theorem filters_of_split (N P : List ANode) (hN : ∀ x ∈ N, x.kind = .named) (hP : ∀ x ∈ P, x.kind ≠ .named ∧ x.kind ≠ .spread) :
    (N ++ P).filter (fun a => a.kind == .named) = N ∧
    (N ++ P).filter (fun a => !(a.kind == .named || a.kind == .spread)) = P := by
  constructor
  · rw [List.filter_append, List.filter_eq_self.mpr (fun x hx => by simp [hN x hx]),
      List.filter_eq_nil_iff.mpr (fun x hx => by simp [(hP x hx).1]), List.append_nil]
  · rw [List.filter_append, List.filter_eq_nil_iff.mpr (fun x hx => by simp [hN x hx]),
      List.filter_eq_self.mpr (fun x hx => by simp [(hP x hx).1, (hP x hx).2]), List.nil_append]

theorem tableRows_flatten (columns : Nat) (posArgs : List ANode) :
    (if !(posArgs.foldl (tableRowStep columns) (([] : List (List ANode)), ([] : List ANode))).2.isEmpty
      then (posArgs.foldl (tableRowStep columns) ([], [])).1 ++ [(posArgs.foldl (tableRowStep columns) ([], [])).2]
      else (posArgs.foldl (tableRowStep columns) ([], [])).1).flatten = posArgs := by
  have key : ∀ (l : List ANode) (acc : List (List ANode) × List ANode),
      (l.foldl (tableRowStep columns) acc).1.flatten ++ (l.foldl (tableRowStep columns) acc).2 = acc.1.flatten ++ acc.2 ++ l := by
    intro l
    induction l with
    | nil => intro acc; simp
    | cons x xs ih =>
      intro acc
      rw [List.foldl_cons, ih]
      obtain ⟨rows, row⟩ := acc
      unfold tableRowStep
      simp only
      split <;> split <;> simp
  have := key posArgs ([], [])
  simp only [List.flatten_nil, List.nil_append] at this
  split
  · rw [List.flatten_append]; simpa using this
  · rename_i he
    have he' : (posArgs.foldl (tableRowStep columns) ([], [])).2 = [] := by simpa using he
    rw [he', List.append_nil] at this
    exact this

theorem tableCellStep_carries (e : Env) (r : Rec) (ctx : Ctx)
    (harg : ∀ x, Q x → isArg x = true → Post (convArg e r ctx x) (fun d => Carries d (specAll x)))
    (ncells : Nat) (hasNext : Bool) (acc : Doc × Nat) (s : Streams) (ha : Carries acc.1 s) (c : ANode) (hq : Q c) (hx : isArg c = true) :
    Post (tableCellStep e r ctx ncells hasNext acc c) (fun acc' => Carries acc'.1 (s.app (specAll c))) := by
  obtain ⟨rowDoc, ci⟩ := acc
  unfold tableCellStep
  simp only
  refine Post.bind (harg c hq hx) (fun d hd => Post.pure ?_)
  show Carries (((rowDoc ++ d) ++ e.soft ",") ++ _) (s.app (specAll c))
  have hsep : Carries (if ci + 1 < ncells then Twin.line else if hasNext then Twin.line_ else Doc.nil) {} := by
    split
    · exact Carries.line
    · split
      · exact Carries.line_
      · exact Carries.nil
  simpa using ((ha.app hd).app (Carries.soft e "," (by decide))).app hsep

theorem tableCells_carries (e : Env) (r : Rec) (ctx : Ctx)
    (harg : ∀ x, Q x → isArg x = true → Post (convArg e r ctx x) (fun d => Carries d (specAll x)))
    (ncells : Nat) (hasNext : Bool) (row : List ANode) (hall : ∀ x ∈ row, Q x ∧ isArg x = true) :
    Post (row.foldlM (tableCellStep e r ctx ncells hasNext) (Doc.nil, 0)) (fun rd => Carries rd.1 (specAllL row)) := by
  have key : ∀ (l : List ANode) (acc : Doc × Nat) (s : Streams), Carries acc.1 s → (∀ x ∈ l, Q x ∧ isArg x = true) →
      Post (l.foldlM (tableCellStep e r ctx ncells hasNext) acc) (fun rd => Carries rd.1 (s.app (specAllL l))) := by
    intro l
    induction l with
    | nil => intro acc s ha _; exact Post.pure (by simpa using ha)
    | cons c cs ih =>
      intro acc s ha hl
      rw [List.foldlM_cons]
      have hc := hl c List.mem_cons_self
      refine Post.bind (tableCellStep_carries e r ctx harg ncells hasNext acc s ha c hc.1 hc.2) (fun acc' h' => ?_)
      have := ih acc' _ h' (fun x hx => hl x (List.mem_cons_of_mem _ hx))
      rw [specAllL_cons, ← Streams.app_assoc]
      exact this
  have := key row (Doc.nil, 0) {} Carries.nil hall
  simpa using this

theorem tableRowDocStep_carries (e : Env) (r : Rec) (ctx : Ctx)
    (harg : ∀ x, Q x → isArg x = true → Post (convArg e r ctx x) (fun d => Carries d (specAll x)))
    (nrows : Nat) (acc : Doc × Nat) (s : Streams) (ha : Carries acc.1 s) (row : List ANode) (hall : ∀ x ∈ row, Q x ∧ isArg x = true) :
    Post (tableRowDocStep e r ctx nrows acc row) (fun acc' => Carries acc'.1 (s.app (specAllL row))) := by
  obtain ⟨d0, ri⟩ := acc
  unfold tableRowDocStep
  simp only
  refine Post.bind (tableCells_carries e r ctx harg row.length _ row hall) (fun rd hrd => Post.pure ?_)
  show Carries (d0 ++ (rd.1.grp ++ _)) (s.app (specAllL row))
  have hsep : Carries (if ri + 1 < nrows then Twin.hardline else Doc.nil) {} := by
    split
    · exact Carries.hardline
    · exact Carries.nil
  simpa using ha.app (hrd.grp.app hsep)

theorem tableRowsDoc_carries (e : Env) (r : Rec) (ctx : Ctx)
    (harg : ∀ x, Q x → isArg x = true → Post (convArg e r ctx x) (fun d => Carries d (specAll x)))
    (nrows : Nat) (rows : List (List ANode)) (hall : ∀ row ∈ rows, ∀ x ∈ row, Q x ∧ isArg x = true)
    (doc : Doc) (s0 : Streams) (hdoc : Carries doc s0) :
    Post (rows.foldlM (tableRowDocStep e r ctx nrows) (doc, 0)) (fun d => Carries d.1 (s0.app (specAllL rows.flatten))) := by
  have key : ∀ (l : List (List ANode)) (acc : Doc × Nat) (s : Streams), Carries acc.1 s →
      (∀ row ∈ l, ∀ x ∈ row, Q x ∧ isArg x = true) →
      Post (l.foldlM (tableRowDocStep e r ctx nrows) acc) (fun d => Carries d.1 (s.app (specAllL l.flatten))) := by
    intro l
    induction l with
    | nil => intro acc s ha _; exact Post.pure (by simpa using ha)
    | cons row rest ih =>
      intro acc s ha hl
      rw [List.foldlM_cons]
      refine Post.bind (tableRowDocStep_carries e r ctx harg nrows acc s ha row (hl row List.mem_cons_self)) (fun acc' h' => ?_)
      have := ih acc' _ h' (fun rw' hr' => hl rw' (List.mem_cons_of_mem _ hr'))
      rw [List.flatten_cons, specAllL_append, ← Streams.app_assoc]
      exact this
  exact key rows (doc, 0) s0 hdoc hall

theorem tableNamedStep_carries (e : Env) (r : Rec) (ctx : Ctx)
    (hnamed : ∀ x, Q x → x.kind = .named → Post (convNamed e r ctx x) (fun d => Carries d (specAll x)))
    (acc : Doc) (s : Streams) (ha : Carries acc s) (c : ANode) (hq : Q c) (hk : c.kind = .named) :
    Post (tableNamedStep e r ctx acc c) (fun d => Carries d (s.app (specAll c))) := by
  unfold tableNamedStep
  refine Post.bind (hnamed c hq hk) (fun d hd => Post.pure ?_)
  show Carries (acc ++ ((d ++ e.soft ",") ++ Twin.hardline)) (s.app (specAll c))
  simpa using ha.app ((hd.app (Carries.soft e "," (by decide))).app Carries.hardline)

theorem tableNamed_carries (e : Env) (r : Rec) (ctx : Ctx)
    (hnamed : ∀ x, Q x → x.kind = .named → Post (convNamed e r ctx x) (fun d => Carries d (specAll x)))
    (nameds : List ANode) (hall : ∀ x ∈ nameds, Q x ∧ x.kind = .named) :
    Post (nameds.foldlM (tableNamedStep e r ctx) Twin.hardline) (fun d => Carries d (specAllL nameds)) := by
  have key : ∀ (l : List ANode) (acc : Doc) (s : Streams), Carries acc s → (∀ x ∈ l, Q x ∧ x.kind = .named) →
      Post (l.foldlM (tableNamedStep e r ctx) acc) (fun d => Carries d (s.app (specAllL l))) := by
    intro l
    induction l with
    | nil => intro acc s ha _; exact Post.pure (by simpa using ha)
    | cons c cs ih =>
      intro acc s ha hl
      rw [List.foldlM_cons]
      have hc := hl c List.mem_cons_self
      refine Post.bind (tableNamedStep_carries e r ctx hnamed acc s ha c hc.1 hc.2) (fun acc' h' => ?_)
      have := ih acc' _ h' (fun x hx => hl x (List.mem_cons_of_mem _ hx))
      rw [specAllL_cons, ← Streams.app_assoc]
      exact this
  have := key nameds Twin.hardline {} Carries.hardline hall
  simpa using this

end Typstyle

namespace Typstyle
open Twin
variable {Q : ANode → Prop}

/-- **`convert_parenthesized_args_as_list`** (a `table`/`grid` that is not reflowed). -/
theorem convParenArgsAsList_carries (e : Env) (r : Rec) (ctx : Ctx)
    (harg : ∀ x, Q x → isArg x = true → Post (convArg e r (ctx.withMode .codeCont) x) (fun d => Carries d (specAll x)))
    (args : ANode)
    (hall : ∀ x ∈ parenArgsUntyped args, ANode.tokensAreLeaves x = true ∧ Q x ∧ (isArg x = true ∨ isCommentKind x.kind = true ∨ isIgnorable x = true)) :
    Post (convParenArgsAsList e r ctx args) (fun d => Carries d (specAllL (parenArgsUntyped args))) := by
  unfold convParenArgsAsList
  refine Post.bind (plainArgs_carries e r _ harg (parenArgsUntyped args) hall) (fun acc hacc => Post.pure ?_)
  have hd := dropTrailingP_spec acc.1
  have hpr := plainPrint_carries e (dropTrailingPLinebreaks acc.1) acc.2 (hd.2 hacc.1)
  rw [hd.1, hacc.2] at hpr
  have hp := soft_paren e
  simpa using (hpr.nstTab).enclose hp.1 hp.2.1

/-- **`convert_table`**: named arguments, then the cells row by row. -/
theorem convTable_carries (e : Env) (r : Rec) (ctx : Ctx)
    (harg : ∀ x, Q x → isArg x = true → Post (convArg e r (ctx.withMode .codeCont) x) (fun d => Carries d (specAll x)))
    (hnamed : ∀ x, Q x → x.kind = .named → Post (convNamed e r (ctx.withMode .codeCont) x) (fun d => Carries d (specAll x)))
    (fc args : ANode) (hfind : lastWhere fc (fun x => x.kind == .args) = some args) (cols : Nat) (sp : Streams)
    (hqn : ∀ x ∈ (args.children.filter isArg).filter (fun a => a.kind == .named), Q x)
    (hqp : ∀ x ∈ ((args.children.takeWhile (fun c => c.kind != .rightParen)).filter isArg).filter (fun a => !(a.kind == .named || a.kind == .spread)), Q x)
    (hsp : sp = (specAllL ((args.children.filter isArg).filter (fun a => a.kind == .named))).app
      (specAllL (((args.children.takeWhile (fun c => c.kind != .rightParen)).filter isArg).filter (fun a => !(a.kind == .named || a.kind == .spread))))) :
    Post (convTable e r ctx fc cols) (fun d => Carries d sp) := by
  unfold convTable
  simp only [hfind, childOr, M.pure_bind]
  refine Post.bind (tableNamed_carries e r _ hnamed _ (fun x hx => ⟨hqn x hx, by simpa using (List.mem_filter.mp hx).2⟩)) (fun doc hdoc => ?_)
  have hflat := tableRows_flatten cols (((args.children.takeWhile (fun c => c.kind != .rightParen)).filter isArg).filter (fun a => !(a.kind == .named || a.kind == .spread)))
  have hcells : ∀ row ∈ (if !(List.foldl (tableRowStep cols) (([] : List (List ANode)), ([] : List ANode))
        (((args.children.takeWhile (fun c => c.kind != .rightParen)).filter isArg).filter (fun a => !(a.kind == .named || a.kind == .spread)))).2.isEmpty
      then (List.foldl (tableRowStep cols) ([], []) (((args.children.takeWhile (fun c => c.kind != .rightParen)).filter isArg).filter (fun a => !(a.kind == .named || a.kind == .spread)))).1 ++
        [(List.foldl (tableRowStep cols) ([], []) (((args.children.takeWhile (fun c => c.kind != .rightParen)).filter isArg).filter (fun a => !(a.kind == .named || a.kind == .spread)))).2]
      else (List.foldl (tableRowStep cols) ([], []) (((args.children.takeWhile (fun c => c.kind != .rightParen)).filter isArg).filter (fun a => !(a.kind == .named || a.kind == .spread)))).1),
      ∀ x ∈ row, Q x ∧ isArg x = true := by
    intro row hrow x hx
    have hm : x ∈ (((args.children.takeWhile (fun c => c.kind != .rightParen)).filter isArg).filter (fun a => !(a.kind == .named || a.kind == .spread))) := by
      rw [← hflat]; exact List.mem_flatten.mpr ⟨row, hrow, hx⟩
    exact ⟨hqp x hm, by have := (List.mem_filter.mp (List.mem_filter.mp hm).1).2; exact this⟩
  refine Post.bind (tableRowsDoc_carries e r _ harg _ _ hcells doc _ hdoc) (fun d hd => Post.pure ?_)
  rw [hflat] at hd
  rw [hsp]
  have hp := soft_paren e
  simpa using ((hd.nstTab).app Carries.hardline).enclose hp.1 hp.2.1

end Typstyle

namespace Typstyle
open Twin

theorem specAllL_filter (p : ANode → Bool) (l : List ANode) (h : ∀ x ∈ l, p x = false → specAll x = {}) :
    specAllL l = specAllL (l.filter p) := by
  have := foldl_filter_sem specAll p l h {}
  rw [foldl_specAll, foldl_specAll, Streams.empty_app, Streams.empty_app] at this
  exact this

/-- The streams of the parenthesised part of a formatable table: named arguments, then cells. -/
theorem table_split (Pn rest : List ANode) (b : Bool)
    (hlex : ANode.tokensAreLeavesL Pn = true) (hP : ∀ x ∈ Pn, isArg x = true ∨ isIgnorable x = true)
    (hrest : ∀ x ∈ rest, (x.kind == .named) = false)
    (hform : formatableGo (Pn.filter isArg) false = some b) :
    specAllL Pn = (specAllL (((Pn ++ rest).filter isArg).filter (fun a => a.kind == .named))).app
      (specAllL ((Pn.filter isArg).filter (fun a => !(a.kind == .named || a.kind == .spread)))) := by
  obtain ⟨N, P', hnp, hN, hP', _⟩ := formatableGo_split _ _ _ hform
  have hf := filters_of_split N P' hN hP'
  rw [← hnp] at hf
  have h1 : ((Pn ++ rest).filter isArg).filter (fun a => a.kind == .named) = N := by
    rw [List.filter_append, List.filter_append, hf.1]
    have : (rest.filter isArg).filter (fun a => a.kind == .named) = [] :=
      List.filter_eq_nil_iff.mpr (fun x hx => by simp [hrest x (List.mem_filter.mp hx).1])
    rw [this, List.append_nil]
  rw [h1, hf.2, ← specAllL_append, ← hnp]
  exact specAllL_filter isArg Pn (fun x hx hna => by
    rcases hP x hx with h | h
    · rw [h] at hna; cases hna
    · exact specAll_ignorable x (tokensAreLeavesL_mem hlex hx) h)

end Typstyle
