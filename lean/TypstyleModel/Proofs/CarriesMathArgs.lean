import TypstyleModel.Proofs.CarriesMath
/-! Named and spread arguments of a call in math mode (`mat(delim: "[", ..xs; 1)`): their children are
converted as a math flow — the value in math mode, what follows a `#` in code mode. -/
namespace Typstyle
open Twin
variable {Q QM : ANode → Prop}

/-- Children of a named or spread argument in math mode: as in any math flow, and no bare `_`. -/
def okN (Q QM : ANode → Prop) (c : Ctx) (child : ANode) : Prop := okM Q QM c child ∧ child.kind ≠ .underscore

theorem okSeq_and {okc : Ctx → ANode → Prop} (P : ANode → Prop) (ctx : Ctx) (cs : List ANode) :
    ∀ hh, okSeq okc ctx hh cs → (∀ c ∈ cs, P c) → okSeq (fun cc c => okc cc c ∧ P c) ctx hh cs := by
  induction cs with
  | nil => intro _ _ _; trivial
  | cons c cs ih =>
    intro hh h hp
    obtain ⟨h1, h2⟩ := h
    refine ⟨?_, ih _ h2 (fun x hx => hp x (List.mem_cons_of_mem _ hx))⟩
    rcases h1 with h1 | h1
    · exact Or.inl h1
    · exact Or.inr ⟨h1, hp c List.mem_cons_self⟩

theorem okN_not_pattern (c : Ctx) (child : ANode) (hok : okN Q QM c child) (hx : ¬ isExpr child = true) :
    isPattern child = false := by
  have h2 := hok.1.2
  have hu := hok.2
  simp only [hx, Bool.false_eq_true, ↓reduceIte] at h2
  have hx' : isExpr child = false := by simpa using hx
  unfold isPattern
  rw [hx']
  rcases h2 with h | h | h
  · rw [h]; rfl
  · cases hk : child.kind <;> simp_all [Kind.isPlainToken, Kind.isInnerKind]
  · exact absurd h hu

theorem namedProducer_okM (e : Env) (r : Rec) (hr : RecOK r Q) (hrM : RecOKM r QM) :
    ProducerH (namedProducer e r) specAll (okN Q QM) := by
  intro st c child hok
  unfold namedProducer
  split
  · rename_i hk
    have hk' : child.kind = .colon := by simpa using hk
    exact Post.bind (synLeaf_carries e child ":" hok.1.1 (by rw [hk']; rfl)) (fun d hd => Post.pure hd)
  · split
    · rename_i hx
      exact Post.bind (okM_expr r hr hrM c child hok.1 hx) (fun d hd => Post.pure hd)
    · rename_i hx
      split
      · rename_i hp
        exfalso
        have := okN_not_pattern c child hok hx
        rw [this] at hp; cases hp
      · split
        · rename_i hk
          exact Post.pure (specAll_space child hok.1.1 (by simpa using hk))
        · split
          · rename_i hk
            exact Post.pure (specAll_semicolon child hok.1.1 (by simpa using hk))
          · exact Post.rejected _

theorem spreadProducer_okM (e : Env) (r : Rec) (hr : RecOK r Q) (hrM : RecOKM r QM) :
    ProducerH (spreadProducer e r) specAll (okN Q QM) := by
  intro st c child hok
  unfold spreadProducer
  split
  · rename_i hk
    have hk' : child.kind = .dots := by simpa using hk
    exact Post.bind (synLeaf_carries e child ".." hok.1.1 (by rw [hk']; rfl)) (fun d hd => Post.pure hd)
  · split
    · rename_i hx
      exact Post.bind (okM_expr r hr hrM c child hok.1 hx) (fun d hd => Post.pure hd)
    · split
      · rename_i hk
        exact Post.pure (specAll_space child hok.1.1 (by simpa using hk))
      · split
        · rename_i hk
          exact Post.pure (specAll_semicolon child hok.1.1 (by simpa using hk))
        · exact Post.rejected _

/-- **`convert_named` in math mode.** -/
theorem convNamedM_carries (e : Env) (r : Rec) (hr : RecOK r Q) (hrM : RecOKM r QM) (ctx : Ctx) (hm : ctx.mode = .math)
    (cs : List ANode) (a : Attrs) (hlex : ANode.tokensAreLeavesL cs = true) (hseq : MathSeqOK Q QM false cs)
    (hnu : ∀ c ∈ cs, c.kind ≠ .underscore) :
    Post (convNamed e r ctx (.inner .named cs a)) (fun d => Carries d (specAll (.inner .named cs a))) := by
  have hv : isVerbatimNode .named cs a = false := by simp [isVerbatimNode, Kind.isExpr]
  rw [specAll_inner .named cs a hv (by decide), ← contribL_specAll cs hlex]
  unfold convNamed
  exact flowM_carriesH (commentOK e) (namedProducer_okM e r hr hrM) (fun cc c hok hk => okM_space cc c hok.1 hk) cs
    (okSeq_and _ ctx cs false (mathSeq_okSeq ctx hm cs false hseq) hnu) false

/-- **`convert_spread` in math mode.** -/
theorem convSpreadM_carries (e : Env) (r : Rec) (hr : RecOK r Q) (hrM : RecOKM r QM) (ctx : Ctx) (hm : ctx.mode = .math)
    (cs : List ANode) (a : Attrs) (hlex : ANode.tokensAreLeavesL cs = true) (hseq : MathSeqOK Q QM false cs)
    (hnu : ∀ c ∈ cs, c.kind ≠ .underscore) :
    Post (convSpread e r ctx (.inner .spread cs a)) (fun d => Carries d (specAll (.inner .spread cs a))) := by
  have hv : isVerbatimNode .spread cs a = false := by simp [isVerbatimNode, Kind.isExpr]
  rw [specAll_inner .spread cs a hv (by decide), ← contribL_specAll cs hlex]
  unfold convSpread
  exact flowM_carriesH (commentOK e) (spreadProducer_okM e r hr hrM) (fun cc c hok hk => okM_space cc c hok.1 hk) cs
    (okSeq_and _ ctx cs false (mathSeq_okSeq ctx hm cs false hseq) hnu) ()

/-! ### the argument list: named and spread arguments among the positional ones -/

/-- A named or spread argument whose children form a math sequence. -/
def NamedOK (Q QM : ANode → Prop) (child : ANode) : Prop :=
  ∃ k cs a, child = .inner k cs a ∧ (k = .named ∨ k = .spread) ∧ ANode.tokensAreLeavesL cs = true ∧
    MathSeqOK Q QM false cs ∧ ∀ x ∈ cs, x.kind ≠ .underscore

/-- What `convert_args_in_math` may assume of a child it hands to its producer. -/
def okA (Q QM : ANode → Prop) (c : Ctx) (child : ANode) : Prop :=
  (c.mode = .math ∧ NamedOK Q QM child) ∨ okM Q QM c child

theorem okA_space (cc : Ctx) (c : ANode) (hok : okA Q QM cc c) (hk : c.kind = .space) : specAll c = {} := by
  rcases hok with ⟨_, k, cs, a, rfl, hkk, _⟩ | hok
  · rcases hkk with rfl | rfl <;> cases hk
  · exact okM_space cc c hok hk

theorem mathArgProducer_okA (e : Env) (r : Rec) (hr : RecOK r Q) (hrM : RecOKM r QM) :
    ProducerH (mathArgProducer e r) specAll (okA Q QM) := by
  intro st c child hok
  rcases hok with ⟨hm, k, cs, a, rfl, hk, hlex, hseq, hnu⟩ | hokM
  · rcases hk with rfl | rfl
    · have := convNamedM_carries e r hr hrM c hm cs a hlex hseq hnu
      unfold mathArgProducer
      simp only [ANode.kind, isArg, beq_self_eq_true, Bool.true_or, ↓reduceIte, convArg]
      exact Post.bind this (fun d hd => Post.pure hd)
    · have := convSpreadM_carries e r hr hrM c hm cs a hlex hseq hnu
      unfold mathArgProducer
      simp only [ANode.kind, isArg, beq_self_eq_true, Bool.true_or, Bool.or_true, ↓reduceIte, convArg]
      exact Post.bind this (fun d hd => Post.pure hd)
  · exact mathArgProducer_ok e r hr hrM st c child hokM

theorem okSeq_drop_spaces {okc : Ctx → ANode → Prop} (ctx : Ctx) (sp l : List ANode) (hs : ∀ x ∈ sp, x.kind = .space) :
    ∀ hh, okSeq okc ctx hh (sp ++ l) → okSeq okc ctx (if sp.isEmpty then hh else false) l := by
  induction sp with
  | nil => intro hh h; simpa using h
  | cons x xs ih =>
    intro hh h
    simp only [List.cons_append, okSeq] at h
    have hx : x.kind = .space := hs x List.mem_cons_self
    have hnh : (x.kind == .hash) = false := by rw [hx]; rfl
    rw [hnh] at h
    have := ih (fun y hy => hs y (List.mem_cons_of_mem _ hy)) false h.2
    simpa using this

theorem okSeq_prefix {okc : Ctx → ANode → Prop} (ctx : Ctx) (l1 l2 : List ANode) :
    ∀ hh, okSeq okc ctx hh (l1 ++ l2) → okSeq okc ctx hh l1 := by
  induction l1 with
  | nil => intro _ _; trivial
  | cons x xs ih =>
    intro hh h
    simp only [List.cons_append, okSeq] at h ⊢
    exact ⟨h.1, ih _ h.2⟩

end Typstyle
