import TypstyleModel.Model.Cert
/-! Spike R3∞: with unbounded width the renderer's decisions do not depend on positions,
so scaling every indentation step scales every line-break indentation and nothing else. -/
namespace Pretty

/-- `fitting` at unbounded width: only hard line breaks matter. -/
def fittingInf (fcmds : List Doc) (mode : Mode) (rest : List Cmd) : Bool :=
  match fcmds with
  | [] =>
    match rest with
    | [] => true
    | c :: rest' => fittingInf [c.doc] .brk rest'
  | d :: fs =>
    match d with
    | .nil => fittingInf fs mode rest
    | .append a b => fittingInf (a :: b :: fs) mode rest
    | .hardline => mode == .brk
    | .text _ _ _ => fittingInf fs mode rest
    | .flatAlt b f => fittingInf (pick mode b f :: fs) mode rest
    | .nest _ d => fittingInf (d :: fs) mode rest
    | .group d => fittingInf (d :: fs) mode rest
    | .align d => fittingInf (d :: fs) mode rest
termination_by docsSize fcmds + cmdsSize rest
decreasing_by
  all_goals simp only [docsSize, cmdsSize, Doc.size]
  all_goals try omega
  all_goals (have := pick_size_lt mode b f; omega)

/-- `best` at unbounded width. Documents with `align` are excluded by the theorem below. -/
def bestInf (pos : Nat) (cmds : List Cmd) : List Atom :=
  match cmds with
  | [] => []
  | ⟨i, m, d⟩ :: rest =>
    match d with
    | .nil => bestInf pos rest
    | .append a b => bestInf pos (⟨i, m, a⟩ :: ⟨i, m, b⟩ :: rest)
    | .flatAlt b f => bestInf pos (⟨i, m, pick m b f⟩ :: rest)
    | .group d =>
      let m' := if m = .brk ∧ fittingInf [d] .flat rest then Mode.flat else m
      bestInf pos (⟨i, m', d⟩ :: rest)
    | .nest n d => bestInf pos (⟨addInd i n, m, d⟩ :: rest)
    | .align d => bestInf pos (⟨pos, m, d⟩ :: rest)
    | .hardline =>
      match rest with
      | [] => [.nl i]
      | c :: rest' => .nl c.ind :: bestInf c.ind (c :: rest')
    | .text s len t => .txt s t :: bestInf (pos + len) rest
termination_by cmdsSize cmds
decreasing_by
  all_goals simp only [cmdsSize, Doc.size]
  all_goals try omega
  all_goals (have := pick_size_lt m b f; omega)

def NoAlign : Doc → Prop
  | .nil | .text _ _ _ | .hardline => True
  | .append a b => NoAlign a ∧ NoAlign b
  | .group d => NoAlign d
  | .flatAlt b f => NoAlign b ∧ NoAlign f
  | .nest n d => 0 ≤ n ∧ NoAlign d
  | .align _ => False

def scaleCmd (u : Nat) (c : Cmd) : Cmd := ⟨c.ind * u, c.mode, scale u c.doc⟩
def scaleAtom (u : Nat) : Atom → Atom
  | .txt s t => .txt s t
  | .nl k => .nl (k * u)

theorem pick_scale (u : Nat) (m : Mode) (b f : Doc) : pick m (scale u b) (scale u f) = scale u (pick m b f) := by
  cases m <;> rfl

theorem noAlign_pick (m : Mode) (b f : Doc) (hb : NoAlign b) (hf : NoAlign f) : NoAlign (pick m b f) := by
  cases m <;> simpa [pick]

def AllNoAlign : List Doc → Prop
  | [] => True
  | d :: ds => NoAlign d ∧ AllNoAlign ds

def CmdsNoAlign' : List Cmd → Prop
  | [] => True
  | c :: cs => NoAlign c.doc ∧ CmdsNoAlign' cs

theorem fittingInf_scale (u : Nat) (fcmds : List Doc) (mode : Mode) (rest : List Cmd)
    (h1 : AllNoAlign fcmds) (h2 : CmdsNoAlign' rest) :
    fittingInf (fcmds.map (scale u)) mode (rest.map (scaleCmd u)) = fittingInf fcmds mode rest := by
  fun_induction fittingInf fcmds mode rest <;>
    simp_all [fittingInf, scale, scaleCmd, pick_scale, AllNoAlign, CmdsNoAlign', NoAlign, noAlign_pick]

theorem cmdsNoAlign'_of {cmds : List Cmd} (h : ∀ c ∈ cmds, NoAlign c.doc) : CmdsNoAlign' cmds := by
  induction cmds with
  | nil => trivial
  | cons c cs ih => exact ⟨h c (by simp), ih (fun c' hc => h c' (by simp [hc]))⟩

theorem addInd_scale (u i : Nat) (n : Int) (hn : 0 ≤ n) : addInd (i * u) (n * u) = addInd i n * u := by
  unfold addInd
  have h1 : n * (u : Int) ≥ 0 := Int.mul_nonneg hn (Int.natCast_nonneg u)
  simp only [ge_iff_le, hn, h1, if_true]
  have : (n * (u:Int)).toNat = n.toNat * u := by
    obtain ⟨k, rfl⟩ := Int.eq_ofNat_of_zero_le hn
    simp [← Int.natCast_mul]
  rw [this, Nat.add_mul]

def CmdsNoAlign (cmds : List Cmd) : Prop := ∀ c ∈ cmds, NoAlign c.doc

/-- R3∞. -/
theorem bestInf_scale (u : Nat) (pos pos' : Nat) (cmds : List Cmd) (h : CmdsNoAlign cmds) :
    bestInf pos' (cmds.map (scaleCmd u)) = (bestInf pos cmds).map (scaleAtom u) := by
  fun_induction bestInf pos cmds generalizing pos' with
  | case1 => simp [bestInf]
  | case2 pos i m rest ih =>
    simp only [List.map_cons, scaleCmd, scale, bestInf]
    exact ih pos' (fun c hc => h c (List.mem_cons_of_mem _ hc))
  | case3 pos i m rest a b ih =>
    simp only [List.map_cons, scaleCmd, scale, bestInf]
    have := ih pos' (by
      intro c hc
      simp only [List.mem_cons] at hc
      rcases hc with rfl | rfl | hc
      · exact (h ⟨i, m, .append a b⟩ (by simp)).1
      · exact (h ⟨i, m, .append a b⟩ (by simp)).2
      · exact h c (by simp [hc]))
    simpa [scaleCmd] using this
  | case4 pos i m rest b f ih =>
    simp only [List.map_cons, scaleCmd, scale, bestInf, pick_scale]
    have := ih pos' (by
      intro c hc
      simp only [List.mem_cons] at hc
      rcases hc with rfl | hc
      · have := h ⟨i, m, .flatAlt b f⟩ (by simp)
        cases m <;> simp_all [pick, NoAlign]
      · exact h c (by simp [hc]))
    simpa [scaleCmd] using this
  | case5 pos i m rest d m' ih =>
    simp only [List.map_cons, scaleCmd, scale, bestInf]
    have hf := fittingInf_scale u [d] .flat rest ⟨h ⟨i, m, .group d⟩ (by simp), trivial⟩
      (cmdsNoAlign'_of (fun c hc => h c (List.mem_cons_of_mem _ hc)))
    simp only [List.map_cons, List.map_nil] at hf
    rw [hf]
    have := ih pos' (by
      intro c hc
      simp only [List.mem_cons] at hc
      rcases hc with rfl | hc
      · exact h ⟨i, m, .group d⟩ (by simp)
      · exact h c (by simp [hc]))
    simpa [scaleCmd, m'] using this
  | case6 pos i m rest n d ih =>
    simp only [List.map_cons, scaleCmd, scale, bestInf]
    have hn := (h ⟨i, m, .nest n d⟩ (by simp)).1
    rw [addInd_scale u i n hn]
    have := ih pos' (by
      intro c hc
      simp only [List.mem_cons] at hc
      rcases hc with rfl | hc
      · exact (h ⟨i, m, .nest n d⟩ (by simp)).2
      · exact h c (by simp [hc]))
    simpa [scaleCmd] using this
  | case7 pos i m rest d ih =>
    exact absurd (h ⟨i, m, .align d⟩ (by simp)) (by simp [NoAlign])
  | case8 pos i m =>
    simp [scaleCmd, scale, bestInf, scaleAtom]
  | case9 pos i m c rest' ih =>
    simp only [List.map_cons, scaleCmd, scale, bestInf, scaleAtom, List.cons.injEq, true_and]
    have := ih (c.ind * u) (fun c' hc => h c' (List.mem_cons_of_mem _ hc))
    simpa [scaleCmd] using this
  | case10 pos i m rest s len t ih =>
    simp only [List.map_cons, scaleCmd, scale, bestInf, scaleAtom, List.cons.injEq, true_and]
    exact ih (pos' + len) (fun c hc => h c (List.mem_cons_of_mem _ hc))

end Pretty
