import TypstyleModel.Model.Printer.Knot
/-! Linearity of the printer (C18): the number of conversion entries is at most four times the
number of nodes, for every tree and configuration. -/
namespace Typstyle

/-- Pigeonhole: a duplicate-free list of numbers below `N` has at most `N` elements. -/
theorem nodup_bounded_length : ∀ (N : Nat) (l : List Nat), l.Nodup → (∀ x ∈ l, x < N) → l.length ≤ N := by
  intro N
  induction N with
  | zero =>
    intro l _ hb
    cases l with
    | nil => simp
    | cons x xs => exact absurd (hb x (by simp)) (by omega)
  | succ N ih =>
    intro l hn hb
    have h1 : (l.erase N).Nodup := hn.erase N
    have h2 : ∀ x ∈ l.erase N, x < N := by
      intro x hx
      have hxl : x ∈ l := List.mem_of_mem_erase hx
      have hne : x ≠ N := by
        intro e; subst e
        exact (List.Nodup.not_mem_erase hn) hx
      have := hb x hxl
      omega
    have h3 := ih (l.erase N) h1 h2
    by_cases hm : N ∈ l
    · rw [List.length_erase_of_mem hm] at h3; omega
    · rw [List.erase_of_not_mem hm] at h3; omega

/-- Every computation of the model's monad, started in a state that satisfies the invariant,
ends (if it succeeds) with at most `4 · limit` conversion entries. -/
theorem M.calls_le {α : Type} (x : M α) (limit : Nat) (a : α) (s' : St)
    (h : x.run { limit := limit } = .ok (a, s')) : s'.calls ≤ 4 * limit := by
  have hok : ({ limit := limit } : St).OK := ⟨List.nodup_nil, by simp⟩
  obtain ⟨⟨hn, hb⟩, hl⟩ := x.ok _ hok a s' h
  simp only at hl
  rw [hl] at hb
  exact nodup_bounded_length _ _ hn hb

/-- **T18.1**: for every tree, configuration and display-width function, if the printer accepts the
tree, the number of entries into `convert_expr`, `convert_pattern`, `convert_markup_impl` and
`convert_math` is at most `4 ·` (number of syntax nodes): no node is converted more than once per
entry point, whatever the nesting. -/
theorem printTwin_linear (e : Env) (root : Node) (d : Twin.Doc) (calls : Nat)
    (h : printTwin e root = .ok (d, calls)) : calls ≤ 4 * (prepare root).size := by
  unfold printTwin at h
  simp only at h
  split at h
  · rename_i d' s hs
    simp only [Except.ok.injEq, Prod.mk.injEq] at h
    rw [← h.2]
    exact M.calls_le _ _ d' s hs
  · cases h

theorem printDoc_linear (cfg : Config) (wd : String → Nat) (root : Node) (d : Pretty.Doc) (calls : Nat)
    (h : printDoc cfg wd root = .ok (d, calls)) : calls ≤ 4 * (prepare root).size := by
  unfold printDoc at h
  split at h
  · rename_i d' calls' hp
    simp only [Except.ok.injEq, Prod.mk.injEq] at h
    rw [← h.2]
    exact printTwin_linear _ root d' calls' hp
  · cases h

mutual
theorem number_size : (n : ANode) → (k : Nat) → (number n k).1.size = n.size ∧ (number n k).2 = k + n.size
  | .leaf _ _ _, k => by simp [number, ANode.size]
  | .inner kd cs a, k => by
    have := numberL_size cs (k + 1)
    simp only [number, ANode.size]
    omega
theorem numberL_size : (cs : List ANode) → (k : Nat) →
    ANode.sizeL (numberL cs k).1 = ANode.sizeL cs ∧ (numberL cs k).2 = k + ANode.sizeL cs
  | [], k => by simp [numberL, ANode.sizeL]
  | c :: cs, k => by
    have h1 := number_size c k
    have h2 := numberL_size cs (number c k).2
    simp only [numberL, ANode.sizeL]
    omega
end

end Typstyle
