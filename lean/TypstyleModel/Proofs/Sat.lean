import TypstyleModel.Proofs.Inf
/-! Spike R4 (width saturation): beyond `L(d)` = total positive indentation + total text length,
the renderer behaves as at unbounded width. -/
namespace Pretty

def docsLen : List Doc → Nat
  | [] => 0
  | d :: ds => d.tlen + docsLen ds
def cmdsLen : List Cmd → Nat
  | [] => 0
  | c :: cs => c.doc.tlen + cmdsLen cs
def cmdsNsum : List Cmd → Nat
  | [] => 0
  | c :: cs => c.doc.nsum + cmdsNsum cs

theorem pick_tlen_le (m : Mode) (b f : Doc) : (pick m b f).tlen ≤ b.tlen + f.tlen := by
  cases m <;> simp [pick]
theorem pick_nsum_le (m : Mode) (b f : Doc) : (pick m b f).nsum ≤ b.nsum + f.nsum := by
  cases m <;> simp [pick]

/-- With enough room `fitting` never fails for width. -/
theorem fitting_eq_inf (w pos : Nat) (fcmds : List Doc) (mode : Mode) (rest : List Cmd)
    (h : pos + docsLen fcmds + cmdsLen rest ≤ w) :
    fitting w pos fcmds mode rest = fittingInf fcmds mode rest := by
  fun_induction fitting w pos fcmds mode rest <;> grind [fittingInf, docsLen, cmdsLen, Doc.tlen, pick_tlen_le]


/-- Invariant of the saturation argument: everything that can still be added to a column fits. -/
def J (w pos : Nat) (cmds : List Cmd) : Prop :=
  pos + cmdsNsum cmds + cmdsLen cmds ≤ w ∧ ∀ c ∈ cmds, c.ind + cmdsNsum cmds + cmdsLen cmds ≤ w

theorem addInd_le (i : Nat) (n : Int) : addInd i n ≤ i + n.toNat := by
  unfold addInd; split <;> omega

theorem best_eq_inf (w pos : Nat) (cmds : List Cmd) (h : J w pos cmds) : best w pos cmds = bestInf pos cmds := by
  fun_induction best w pos cmds with
  | case1 => simp [bestInf]
  | case2 pos i m rest ih =>
    simp only [bestInf]; apply ih
    obtain ⟨h1, h2⟩ := h
    refine ⟨by simpa [cmdsNsum, cmdsLen, Doc.nsum, Doc.tlen] using h1, fun c hc => ?_⟩
    have := h2 c (List.mem_cons_of_mem _ hc)
    simpa [cmdsNsum, cmdsLen, Doc.nsum, Doc.tlen] using this
  | case3 pos i m rest a b ih =>
    simp only [bestInf]; apply ih
    obtain ⟨h1, h2⟩ := h
    refine ⟨by simp [cmdsNsum, cmdsLen, Doc.nsum, Doc.tlen] at h1 ⊢; omega, fun c hc => ?_⟩
    simp only [List.mem_cons] at hc
    have h0 := h2 ⟨i, m, .append a b⟩ (by simp)
    rcases hc with rfl | rfl | hc
    · simp [cmdsNsum, cmdsLen, Doc.nsum, Doc.tlen] at h0 ⊢; omega
    · simp [cmdsNsum, cmdsLen, Doc.nsum, Doc.tlen] at h0 ⊢; omega
    · have := h2 c (by simp [hc]); simp [cmdsNsum, cmdsLen, Doc.nsum, Doc.tlen] at this ⊢; omega
  | case4 pos i m rest b f ih =>
    simp only [bestInf]; apply ih
    obtain ⟨h1, h2⟩ := h
    have p1 := pick_tlen_le m b f
    have p2 := pick_nsum_le m b f
    refine ⟨by simp [cmdsNsum, cmdsLen, Doc.nsum, Doc.tlen] at h1 ⊢; omega, fun c hc => ?_⟩
    simp only [List.mem_cons] at hc
    have h0 := h2 ⟨i, m, .flatAlt b f⟩ (by simp)
    rcases hc with rfl | hc
    · simp [cmdsNsum, cmdsLen, Doc.nsum, Doc.tlen] at h0 ⊢; omega
    · have := h2 c (by simp [hc]); simp [cmdsNsum, cmdsLen, Doc.nsum, Doc.tlen] at this ⊢; omega
  | case5 pos i m rest d m' ih =>
    simp only [bestInf]
    obtain ⟨h1, h2⟩ := h
    have hfit : fitting w pos [d] .flat rest = fittingInf [d] .flat rest := by
      apply fitting_eq_inf
      simp [cmdsNsum, cmdsLen, Doc.nsum, Doc.tlen, docsLen] at h1 ⊢; omega
    have hm : m' = (if m = .brk ∧ fittingInf [d] .flat rest = true then Mode.flat else m) := by
      simp [m', hfit]
    rw [← hm]
    apply ih
    refine ⟨by simpa [cmdsNsum, cmdsLen, Doc.nsum, Doc.tlen] using h1, fun c hc => ?_⟩
    simp only [List.mem_cons] at hc
    have h0 := h2 ⟨i, m, .group d⟩ (by simp)
    rcases hc with rfl | hc
    · simpa [cmdsNsum, cmdsLen, Doc.nsum, Doc.tlen] using h0
    · have := h2 c (by simp [hc]); simpa [cmdsNsum, cmdsLen, Doc.nsum, Doc.tlen] using this
  | case6 pos i m rest n d ih =>
    simp only [bestInf]; apply ih
    obtain ⟨h1, h2⟩ := h
    have hle := addInd_le i n
    refine ⟨by simp [cmdsNsum, cmdsLen, Doc.nsum, Doc.tlen] at h1 ⊢; omega, fun c hc => ?_⟩
    simp only [List.mem_cons] at hc
    have h0 := h2 ⟨i, m, .nest n d⟩ (by simp)
    rcases hc with rfl | hc
    · simp [cmdsNsum, cmdsLen, Doc.nsum, Doc.tlen] at h0 ⊢; omega
    · have := h2 c (by simp [hc]); simp [cmdsNsum, cmdsLen, Doc.nsum, Doc.tlen] at this ⊢; omega
  | case7 pos i m rest d ih =>
    simp only [bestInf]; apply ih
    obtain ⟨h1, h2⟩ := h
    refine ⟨by simpa [cmdsNsum, cmdsLen, Doc.nsum, Doc.tlen] using h1, fun c hc => ?_⟩
    simp only [List.mem_cons] at hc
    rcases hc with rfl | hc
    · simpa [cmdsNsum, cmdsLen, Doc.nsum, Doc.tlen] using h1
    · have := h2 c (by simp [hc]); simpa [cmdsNsum, cmdsLen, Doc.nsum, Doc.tlen] using this
  | case8 pos i m => simp [bestInf]
  | case9 pos i m c rest' ih =>
    simp only [bestInf]
    congr 1
    apply ih
    obtain ⟨h1, h2⟩ := h
    have hc := h2 c (by simp)
    refine ⟨by simp [cmdsNsum, cmdsLen, Doc.nsum, Doc.tlen] at hc ⊢; omega, fun c' hc' => ?_⟩
    have := h2 c' (List.mem_cons_of_mem _ hc')
    simp [cmdsNsum, cmdsLen, Doc.nsum, Doc.tlen] at this ⊢; omega
  | case10 pos i m rest s len t ih =>
    simp only [bestInf]
    congr 1
    apply ih
    obtain ⟨h1, h2⟩ := h
    refine ⟨by simp [cmdsNsum, cmdsLen, Doc.nsum, Doc.tlen] at h1 ⊢; omega, fun c hc => ?_⟩
    have := h2 c (List.mem_cons_of_mem _ hc)
    simp [cmdsNsum, cmdsLen, Doc.nsum, Doc.tlen] at this ⊢; omega

/-- **R4**: at any width `w ≥ L(d) = nsum d + tlen d` the renderer behaves as at unbounded width. -/
theorem pretty_saturates (w : Nat) (d : Doc) (h : d.nsum + d.tlen ≤ w) :
    best w 0 [⟨0, .brk, d⟩] = bestInf 0 [⟨0, .brk, d⟩] := by
  apply best_eq_inf
  refine ⟨by simpa [cmdsNsum, cmdsLen] using h, fun c hc => ?_⟩
  simp at hc; subst hc
  simpa [cmdsNsum, cmdsLen] using h

end Pretty
