import TypstyleModel.Proofs.CarriesLists
import TypstyleModel.Proofs.Repr
/-! Markup (route M): `convert_markup_impl` carries what the children of the `Markup` node prescribe —
through the line representation, whatever the scope and the boundaries. -/
namespace Typstyle
open Twin

/-! ### white space prescribes nothing, so dropping it changes nothing -/

theorem specAll_parbreak_leaf (t : String) (a : Attrs) : specAll (.leaf .parbreak t a) = {} := by
  apply Streams.ext' <;> simp [specAll, specToks, specCmts, specProse, specLit, specVerb, isCommentKind, Kind.isExpr, leafTag]

theorem specAll_ws (c : ANode) (h : ANode.tokensAreLeaves c = true) (hw : isWsNode c = true) : specAll c = {} := by
  unfold isWsNode at hw
  simp only [Bool.or_eq_true, beq_iff_eq] at hw
  rcases hw with hk | hk
  · exact specAll_space c h hk
  · obtain ⟨t, a, hc⟩ := leaf_of_token h (by rw [hk]; rfl)
    rw [hc, hk, specAll_parbreak_leaf]

theorem specAllL_filter_ws (cs : List ANode) (h : ANode.tokensAreLeavesL cs = true) :
    specAllL (cs.filter fun n => !isWsNode n) = specAllL cs := by
  induction cs with
  | nil => rfl
  | cons c cs ih =>
    simp only [ANode.tokensAreLeavesL, Bool.and_eq_true] at h
    rw [List.filter_cons, specAllL_cons]
    by_cases hw : isWsNode c = true
    · simp only [hw, Bool.not_true, Bool.false_eq_true, ↓reduceIte]
      rw [ih h.2, specAll_ws c h.1 hw, Streams.empty_app]
    · have : (!isWsNode c) = true := by simpa using hw
      simp only [this, ↓reduceIte]
      rw [specAllL_cons, ih h.2]

theorem lexL_filter (cs : List ANode) (p : ANode → Bool) (h : ANode.tokensAreLeavesL cs = true) :
    ANode.tokensAreLeavesL (cs.filter p) = true := by
  induction cs with
  | nil => rfl
  | cons c cs ih =>
    simp only [ANode.tokensAreLeavesL, Bool.and_eq_true] at h
    rw [List.filter_cons]
    split
    · simp only [ANode.tokensAreLeavesL, Bool.and_eq_true]; exact ⟨h.1, ih h.2⟩
    · exact ih h.2

/-- Two node lists with the same non-white-space nodes prescribe the same. -/
theorem specAllL_of_filter_eq (a b : List ANode) (ha : ANode.tokensAreLeavesL a = true) (hb : ANode.tokensAreLeavesL b = true)
    (h : a.filter (fun n => !isWsNode n) = b.filter (fun n => !isWsNode n)) : specAllL a = specAllL b := by
  rw [← specAllL_filter_ws a ha, ← specAllL_filter_ws b hb, h]

theorem lexL_append (a b : List ANode) : ANode.tokensAreLeavesL (a ++ b) = (ANode.tokensAreLeavesL a && ANode.tokensAreLeavesL b) := by
  induction a with
  | nil => simp [ANode.tokensAreLeavesL]
  | cons x xs ih => simp only [List.cons_append, ANode.tokensAreLeavesL, ih, Bool.and_assoc]

/-! ### the nodes of the representation -/

/-- All nodes of the lines of a representation. -/
def lineNodes (lines : List MLine) : List ANode := lines.flatMap (·.nodes)

/-- The main loop keeps lexical shape: every node of the representation is one of the children. -/
theorem reprStep_mem (acc : List MLine × MLine × Bound) (node : ANode) (P : ANode → Prop)
    (hacc : ∀ x ∈ reprNodes acc, P x) (hn : node.kind ≠ .parbreak → P node) : ∀ x ∈ reprNodes (reprStep acc node), P x := by
  obtain ⟨lines, cur, sb⟩ := acc
  unfold reprStep reprNodes at *
  simp only at *
  split
  · intro x hx
    apply hacc x
    have hnil : ({} : MLine).nodes = [] := rfl
    simpa [List.flatMap_append, hnil] using hx
  · rename_i hpb
    have hpb' : node.kind ≠ .parbreak := by simpa using hpb
    split
    · exact hacc
    · split
      · intro x hx
        apply hacc x
        have hnil : ({} : MLine).nodes = [] := rfl
        simpa [List.flatMap_append, hnil] using hx
      · intro x hx
        simp only [List.mem_append] at hx
        rcases hx with hx | hx
        · exact hacc x (List.mem_append.mpr (Or.inl hx))
        · have : x ∈ cur.nodes ++ [node] := by
            split at hx <;> simpa using hx
          rcases List.mem_append.mp this with h | h
          · exact hacc x (List.mem_append.mpr (Or.inr h))
          · simp only [List.mem_singleton] at h; rw [h]; exact hn hpb'

theorem foldl_reprStep_mem (children : List ANode) (acc : List MLine × MLine × Bound) (P : ANode → Prop)
    (hacc : ∀ x ∈ reprNodes acc, P x) (hc : ∀ x ∈ children, x.kind ≠ .parbreak → P x) : ∀ x ∈ reprNodes (children.foldl reprStep acc), P x := by
  induction children generalizing acc with
  | nil => exact hacc
  | cons c cs ih =>
    rw [List.foldl_cons]
    exact ih _ (reprStep_mem acc c P hacc (hc c List.mem_cons_self)) (fun x hx => hc x (List.mem_cons_of_mem _ hx))

/-- Removing trailing spaces of the last line removes white space only. -/
theorem stripTrailing_filter (fuel : Nat) (nodes : List ANode) (b : Bound) :
    (stripTrailing fuel nodes b).1.filter (fun n => !isWsNode n) = nodes.filter (fun n => !isWsNode n) ∧
    (∀ x ∈ (stripTrailing fuel nodes b).1, x ∈ nodes) := by
  induction fuel generalizing nodes b with
  | zero => exact ⟨rfl, fun _ h => h⟩
  | succ fuel ih =>
    unfold stripTrailing
    cases hl : nodes.getLast? with
    | none => exact ⟨rfl, fun _ h => h⟩
    | some l =>
      simp only
      split
      · rename_i hk
        have hdec := dropLast_getLast nodes l hl
        have := ih nodes.dropLast (Bound.fromSpace l.text)
        refine ⟨?_, fun x hx => (List.dropLast_sublist _).subset (this.2 x hx)⟩
        rw [this.1]
        conv => rhs; rw [hdec]
        rw [List.filter_append]
        have hw : isWsNode l = true := by unfold isWsNode; simp [show l.kind = .space by simpa using hk]
        simp [hw]
      · exact ⟨rfl, fun _ h => h⟩

theorem lineNodes_append (a b : List MLine) : lineNodes (a ++ b) = lineNodes a ++ lineNodes b := by
  unfold lineNodes; rw [List.flatMap_append]

/-- **The line representation holds exactly the children that are not white space**, in order, and
nothing else. -/
theorem collectMarkupRepr_nodes' (children : List ANode) (P : ANode → Prop) (hc : ∀ x ∈ children, x.kind ≠ .parbreak → P x) :
    (lineNodes (collectMarkupRepr children).lines).filter (fun n => !isWsNode n) = children.filter (fun n => !isWsNode n) ∧
    (∀ x ∈ lineNodes (collectMarkupRepr children).lines, P x) := by
  have hkeep := repr_keeps_every_node children (([] : List MLine), ({} : MLine), Bound.nil)
  have hmem := foldl_reprStep_mem children (([] : List MLine), ({} : MLine), Bound.nil) P
    (by intro x hx; simp [reprNodes] at hx) hc
  unfold collectMarkupRepr
  simp only
  generalize children.foldl reprStep (([] : List MLine), ({} : MLine), Bound.nil) = r at hkeep hmem
  -- the lines before the last-line processing hold `reprNodes r`
  have hlines : lineNodes (if !r.2.1.nodes.isEmpty then r.1 ++ [r.2.1] else r.1) = reprNodes r := by
    unfold reprNodes
    split
    · rw [lineNodes_append]; simp [lineNodes]
    · rename_i he
      have : r.2.1.nodes = [] := by simpa using he
      rw [this]; simp [lineNodes]
  generalize (if !r.2.1.nodes.isEmpty then r.1 ++ [r.2.1] else r.1) = lines at hlines
  simp only [reprNodes, List.flatMap_nil, List.nil_append, List.filter_nil] at hkeep
  cases hl : lines.getLast? with
  | none =>
    simp only
    rw [hlines]
    exact ⟨by simpa [reprNodes] using hkeep, hmem⟩
  | some last =>
    simp only
    have hdec := dropLast_getLast lines last hl
    -- the last line's nodes after stripping
    have hst : ∀ (l0 : MLine) (b0 : Bound), l0.nodes = last.nodes →
        (lineNodes (lines.dropLast ++ [{ l0 with nodes := (stripTrailing (l0.nodes.length + 1) l0.nodes b0).1 }])).filter (fun n => !isWsNode n)
          = children.filter (fun n => !isWsNode n) ∧
        (∀ x ∈ lineNodes (lines.dropLast ++ [{ l0 with nodes := (stripTrailing (l0.nodes.length + 1) l0.nodes b0).1 }]), P x) := by
      intro l0 b0 hl0
      have hs := stripTrailing_filter (l0.nodes.length + 1) l0.nodes b0
      have hfull : lineNodes lines = lineNodes lines.dropLast ++ last.nodes := by
        conv => lhs; rw [hdec]
        rw [lineNodes_append]; simp [lineNodes]
      constructor
      · rw [lineNodes_append, List.filter_append]
        simp only [lineNodes, List.flatMap_cons, List.flatMap_nil, List.append_nil]
        rw [hs.1, hl0, ← List.filter_append]
        have : List.flatMap (fun x => x.nodes) lines.dropLast ++ last.nodes = lineNodes lines := by rw [hfull]; rfl
        rw [this, hlines]
        simpa [reprNodes] using hkeep
      · intro x hx
        rw [lineNodes_append] at hx
        apply hmem x
        rw [← hlines, hfull]
        rcases List.mem_append.mp hx with h | h
        · exact List.mem_append.mpr (Or.inl h)
        · simp only [lineNodes, List.flatMap_cons, List.flatMap_nil, List.append_nil] at h
          exact List.mem_append.mpr (Or.inr (hl0 ▸ hs.2 x h))
    split
    · exact hst _ _ rfl
    · exact hst _ _ rfl

theorem collectMarkupRepr_nodes (children : List ANode) :
    (lineNodes (collectMarkupRepr children).lines).filter (fun n => !isWsNode n) = children.filter (fun n => !isWsNode n) ∧
    (∀ x ∈ lineNodes (collectMarkupRepr children).lines, x ∈ children) :=
  collectMarkupRepr_nodes' children (· ∈ children) (fun _ hx _ => hx)

/-! ### printing the lines -/

theorem specAll_text_leaf (t : String) (a : Attrs) : specAll (.leaf .text t a) = tagS .prose t := by
  apply Streams.ext' <;> simp [specAll, specToks, specCmts, specProse, specLit, specVerb, isCommentKind, tagS, Pretty.charsOf,
    Pretty.keepOf, leafTag]

/-- What `convert_markup_impl` may meet on a line: text, expressions, comments, white space, and plain
tokens (`#`, `;`, a shebang). -/
def MarkupChildOK (Q : ANode → Prop) (x : ANode) : Prop :=
  ANode.tokensAreLeaves x = true ∧ (isExpr x = true → Q x) ∧
  (x.kind = .space ∨ x.kind = .text ∨ isExpr x = true ∨ isCommentKind x.kind = true ∨ x.kind.isPlainToken = true)

theorem markupNodeStep_carries {Q : ANode → Prop} (e : Env) (r : Rec) (hr : RecOK r Q) (ctx : Ctx) (hctx : NM ctx) (mixed : Bool)
    (doc : Doc) (sa : Streams) (hd : Carries doc sa) (x : ANode) (hok : MarkupChildOK Q x) :
    Post (markupNodeStep e r ctx mixed doc x) (fun d => Carries d (sa.app (specAll x))) := by
  unfold markupNodeStep
  dsimp only
  split
  · rename_i hs
    rw [M.pure_bind, specAll_space x hok.1 (by simpa using hs)]
    exact Post.pure (hd.app Carries.space)
  · split
    · rename_i hs ht
      have ht' : x.kind = .text := by simpa using ht
      obtain ⟨t, a, hx⟩ := leaf_of_token hok.1 (by rw [ht']; rfl)
      rw [M.pure_bind]
      refine Post.pure (hd.app ((Carries.mkText e.wd .prose _).congr ?_))
      rw [hx, ht', specAll_text_leaf]; rfl
    · split
      · rename_i hx
        exact Post.bind (hr.expr _ x (by split <;> first | exact hctx | exact hctx.suppress) hx (hok.2.1 hx)) (fun d h => Post.pure (hd.app h))
      · split
        · rename_i hc
          refine Post.bind (commentOK e x hc) (fun d h => Post.pure (hd.app (h.congr ?_)))
          obtain ⟨t, a, hx⟩ := leaf_of_token hok.1 (by
            simp only [isCommentKind, Bool.or_eq_true, beq_iff_eq] at hc
            rcases hc with hk | hk <;> rw [hk] <;> rfl)
          rw [hx, specAll_comment_leaf _ t a hc]; rfl
        · rename_i hs ht hx hc
          rw [M.pure_bind]
          have hp : x.kind.isPlainToken = true := by
            rcases hok.2.2 with h | h | h | h | h
            · exact absurd (by simpa using h) hs
            · exact absurd (by simpa using h) ht
            · exact absurd h hx
            · exact absurd h hc
            · exact h
          exact Post.pure (hd.app (tok_carries e x hok.1 hp))

theorem markupLineStep_carries {Q : ANode → Prop} (e : Env) (r : Rec) (hr : RecOK r Q) (ctx : Ctx) (hctx : NM ctx)
    (doc : Doc) (sa : Streams) (hd : Carries doc sa) (l : MLine) (hok : ∀ x ∈ l.nodes, MarkupChildOK Q x) :
    Post (markupLineStep e r ctx doc l) (fun d => Carries d (sa.app (specAllL l.nodes))) := by
  unfold markupLineStep
  have key : ∀ (ns : List ANode) (d0 : Doc) (s0 : Streams), Carries d0 s0 → (∀ x ∈ ns, MarkupChildOK Q x) →
      Post (ns.foldlM (markupNodeStep e r ctx l.mixedText) d0) (fun d => Carries d (s0.app (specAllL ns))) := by
    intro ns
    induction ns with
    | nil => intro d0 s0 h0 _; simpa using (Post.pure h0 : Post (Pure.pure d0 : M Doc) _)
    | cons x xs ih =>
      intro d0 s0 h0 hall
      simp only [List.foldlM_cons]
      refine Post.bind (markupNodeStep_carries e r hr ctx hctx _ d0 s0 h0 x (hall x List.mem_cons_self)) (fun d1 h1 => ?_)
      have := ih d1 _ h1 (fun y hy => hall y (List.mem_cons_of_mem _ hy))
      simpa [specAllL_cons, Streams.app_assoc] using this
  refine Post.bind (key l.nodes doc sa hd hok) (fun d h => Post.pure ?_)
  split
  · simpa using h.app (Carries.repeatN Carries.hardline l.breaks)
  · exact h

theorem getDelim_carries (scope : Scope) (isSym hasLB suppressed : Bool) (b : Bound) :
    Carries (getDelim scope isSym hasLB suppressed b) {} := by
  unfold getDelim
  split
  · split
    · exact Carries.hardline
    · exact Carries.nil
  · split
    · exact Carries.nil
    · split
      · exact Carries.nil
      · exact Carries.line_
    · split
      · exact Carries.line
      · split
        · exact Carries.nil
        · exact Carries.space
    · split
      · exact Carries.line
      · split
        · exact Carries.nil
        · exact Carries.space
    · exact Carries.hardline
    · exact Carries.hardline

/-- **`convert_markup_impl` carries what the children of the node prescribe**, for every scope;
`convert_markup_impl` on children that may include paragraph breaks of any kind — also one that
carries the `@typstyle off` mark: the line representation turns every `Parbreak` into a line boundary
before any child is converted, so the mark on it is never looked at. -/
theorem convMarkup_carries_parbreak {Q : ANode → Prop} (e : Env) (r : Rec) (hr : RecOK r Q) (ctx : Ctx) (k : Kind) (cs : List ANode) (a : Attrs)
    (scope : Scope) (hok : ∀ x ∈ cs, MarkupChildOK Q x ∨ (x.kind = .parbreak ∧ ANode.tokensAreLeaves x = true)) :
    Post (convMarkup e r ctx (.inner k cs a) scope) (fun d => Carries d (specAllL cs)) := by
  have hlex : ANode.tokensAreLeavesL cs = true := by
    clear hr
    induction cs with
    | nil => rfl
    | cons c cs ih =>
      simp only [ANode.tokensAreLeavesL, Bool.and_eq_true]
      exact ⟨(hok c List.mem_cons_self).elim (·.1) (·.2), ih (fun x hx => hok x (List.mem_cons_of_mem _ hx))⟩
  unfold convMarkup
  refine Post.bind (Q := fun _ => True) (fun _ _ _ _ => trivial) (fun _ _ => ?_)
  by_cases h1 : (isOnlyOneAnd (ANode.inner k cs a).children fun x => x.kind == Kind.space) = true
  · -- a single white-space child
    rw [if_pos h1]
    simp only [ANode.children] at h1
    refine Post.pure ?_
    cases cs with
    | nil => simp [isOnlyOneAnd] at h1
    | cons c rest =>
      cases rest with
      | nil =>
        simp only [isOnlyOneAnd] at h1
        rw [specAllL_cons, specAllL_nil, Streams.app_empty, specAll_space c ((hok c List.mem_cons_self).elim (·.1) (·.2)) (by simpa using h1)]
        exact Carries.space
      | cons c2 rest2 => simp [isOnlyOneAnd] at h1
  · rw [if_neg h1]
    simp only [ANode.children]
    have hrepr := collectMarkupRepr_nodes' cs (MarkupChildOK Q) (fun x hx hpb => (hok x hx).resolve_right (fun h => hpb h.1))
    have hlexlines : ANode.tokensAreLeavesL (lineNodes (collectMarkupRepr cs).lines) = true := by
      generalize lineNodes (collectMarkupRepr cs).lines = ns at hrepr
      have hm := hrepr.2
      clear hrepr
      induction ns with
      | nil => rfl
      | cons x xs ih =>
        simp only [ANode.tokensAreLeavesL, Bool.and_eq_true]
        exact ⟨(hm x List.mem_cons_self).1, ih (fun y hy => hm y (List.mem_cons_of_mem _ hy))⟩
    have hspec : specAllL (lineNodes (collectMarkupRepr cs).lines) = specAllL cs :=
      specAllL_of_filter_eq _ _ hlexlines hlex hrepr.1
    have key : ∀ (ls : List MLine) (d0 : Doc) (s0 : Streams), Carries d0 s0 → (∀ x ∈ lineNodes ls, MarkupChildOK Q x) →
        Post (ls.foldlM (markupLineStep e r (ctx.withMode .markup)) d0) (fun d => Carries d (s0.app (specAllL (lineNodes ls)))) := by
      intro ls
      induction ls with
      | nil => intro d0 s0 h0 _; simpa [lineNodes] using (Post.pure h0 : Post (Pure.pure d0 : M Doc) _)
      | cons l rest ih =>
        intro d0 s0 h0 hall
        simp only [List.foldlM_cons]
        refine Post.bind (markupLineStep_carries e r hr _ (NM.withMode .markup (by decide)) d0 s0 h0 l (fun x hx => hall x (by
          unfold lineNodes; simp only [List.flatMap_cons, List.mem_append]; exact Or.inl hx))) (fun d1 h1 => ?_)
        have := ih d1 _ h1 (fun y hy => hall y (by
          unfold lineNodes at hy ⊢; simp only [List.flatMap_cons, List.mem_append]; exact Or.inr hy))
        have hcons : lineNodes (l :: rest) = l.nodes ++ lineNodes rest := by unfold lineNodes; simp
        rw [hcons, specAllL_append, ← Streams.app_assoc]
        exact this
    refine Post.bind (key (collectMarkupRepr cs).lines Doc.nil {} Carries.nil (fun x hx => hrepr.2 x hx)) (fun d h => Post.pure ?_)
    rw [Streams.empty_app, hspec] at h
    simpa using h.enclose (getDelim_carries _ _ _ _ _) (getDelim_carries _ _ _ _ _)

/-- The same for children none of which needs the parbreak exemption. -/
theorem convMarkup_carries {Q : ANode → Prop} (e : Env) (r : Rec) (hr : RecOK r Q) (ctx : Ctx) (k : Kind) (cs : List ANode) (a : Attrs)
    (scope : Scope) (hok : ∀ x ∈ cs, MarkupChildOK Q x) :
    Post (convMarkup e r ctx (.inner k cs a) scope) (fun d => Carries d (specAllL cs)) :=
  convMarkup_carries_parbreak e r hr ctx k cs a scope (fun x hx => Or.inl (hok x hx))

end Typstyle
