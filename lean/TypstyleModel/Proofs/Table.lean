import TypstyleModel.Model.Printer.Code
/-! T2.2 (C02): the table reflow (`convert_table`) distributes the positional arguments over rows
without losing, duplicating or reordering a cell, and no row is longer than the column count. -/
namespace Typstyle

theorem tableRowStep_flatten (columns : Nat) (acc : List (List ANode) × List ANode) (arg : ANode) :
    (tableRowStep columns acc arg).1.flatten ++ (tableRowStep columns acc arg).2 = acc.1.flatten ++ acc.2 ++ [arg] := by
  obtain ⟨rows, row⟩ := acc
  unfold tableRowStep
  simp only
  split <;> split <;> simp [List.flatten_append]

theorem foldl_tableRowStep_flatten (columns : Nat) (args : List ANode) (acc : List (List ANode) × List ANode) :
    (args.foldl (tableRowStep columns) acc).1.flatten ++ (args.foldl (tableRowStep columns) acc).2 = acc.1.flatten ++ acc.2 ++ args := by
  induction args generalizing acc with
  | nil => simp
  | cons a args ih => rw [List.foldl_cons, ih, tableRowStep_flatten]; simp

/-- Invariant of the row builder: closed rows have at most `columns` cells, the open row fewer. -/
def RowsOK (columns : Nat) (acc : List (List ANode) × List ANode) : Prop :=
  (∀ r ∈ acc.1, r.length ≤ columns) ∧ acc.2.length < columns

theorem tableRowStep_ok (columns : Nat) (acc : List (List ANode) × List ANode) (arg : ANode) (h : RowsOK columns acc) :
    RowsOK columns (tableRowStep columns acc arg) := by
  obtain ⟨rows, row⟩ := acc
  obtain ⟨h1, h2⟩ := h
  simp only at h1 h2
  have hlen : (row ++ [arg]).length = row.length + 1 := by simp
  unfold tableRowStep RowsOK
  simp only
  by_cases heq : ((row ++ [arg]).length == columns) = true
  · have heq' : row.length + 1 = columns := by rw [← hlen]; simpa using heq
    simp only [heq, ↓reduceIte]
    split
    · refine ⟨?_, by simp only [List.length_nil]; omega⟩
      intro r hr
      simp only [List.mem_append, List.mem_singleton] at hr
      rcases hr with (hr | rfl) | rfl
      · exact h1 r hr
      · omega
      · simp
    · refine ⟨?_, by simp only [List.length_nil]; omega⟩
      intro r hr
      simp only [List.mem_append, List.mem_singleton] at hr
      rcases hr with hr | rfl
      · exact h1 r hr
      · omega
  · have hne' : row.length + 1 ≠ columns := by rw [← hlen]; simpa using heq
    simp only [heq, Bool.false_eq_true, ↓reduceIte]
    split
    · refine ⟨?_, by simp only [List.length_nil]; omega⟩
      intro r hr
      simp only [List.mem_append, List.mem_singleton] at hr
      rcases hr with hr | rfl
      · exact h1 r hr
      · omega
    · exact ⟨h1, by rw [hlen]; omega⟩

theorem foldl_tableRowStep_ok (columns : Nat) (args : List ANode) (acc : List (List ANode) × List ANode) (h : RowsOK columns acc) :
    RowsOK columns (args.foldl (tableRowStep columns) acc) := by
  induction args generalizing acc with
  | nil => exact h
  | cons a args ih => exact ih _ (tableRowStep_ok columns acc a h)

end Typstyle
