import TypstyleModel.Model.Doc
/-! Consistent layouts and layout soundness of the renderer (R1, R2). -/
namespace Pretty

/-- All layouts a document can take: every group is flat or broken, flat is inherited,
and a flat region never contains a hard line break. -/
inductive Lay : Mode → Doc → List Atom → Prop
  | nil {m} : Lay m .nil []
  | text {m s len t} : Lay m (.text s len t) [.txt s t]
  | hardline {k} : Lay .brk .hardline [.nl k]
  | append {m a b xs ys} : Lay m a xs → Lay m b ys → Lay m (.append a b) (xs ++ ys)
  | groupSame {m d xs} : Lay m d xs → Lay m (.group d) xs
  | groupFlat {d xs} : Lay .flat d xs → Lay .brk (.group d) xs
  | flatAltB {b f xs} : Lay .brk b xs → Lay .brk (.flatAlt b f) xs
  | flatAltF {b f xs} : Lay .flat f xs → Lay .flat (.flatAlt b f) xs
  | nest {m n d xs} : Lay m d xs → Lay m (.nest n d) xs
  | align {m d xs} : Lay m d xs → Lay m (.align d) xs

inductive LayCmds : List Cmd → List Atom → Prop
  | nil : LayCmds [] []
  | cons {c cs xs ys} : Lay c.mode c.doc xs → LayCmds cs ys → LayCmds (c :: cs) (xs ++ ys)

def FlatNoHard : Doc → Prop
  | .nil => True
  | .text _ _ _ => True
  | .hardline => False
  | .append a b => FlatNoHard a ∧ FlatNoHard b
  | .group d => FlatNoHard d
  | .flatAlt _ f => FlatNoHard f
  | .nest _ d => FlatNoHard d
  | .align d => FlatNoHard d

def AllNH : List Doc → Prop
  | [] => True
  | d :: ds => FlatNoHard d ∧ AllNH ds

theorem fitting_flat (w pos : Nat) (fcmds : List Doc) (mode : Mode) (rest : List Cmd)
    (hm : mode = .flat) (h : fitting w pos fcmds mode rest = true) : AllNH fcmds := by
  fun_induction fitting w pos fcmds mode rest <;> simp_all [AllNH, FlatNoHard, pick]

def CmdsOK (cmds : List Cmd) : Prop := ∀ c ∈ cmds, c.mode = .flat → FlatNoHard c.doc

theorem LayCmds.cons' {c cs xs ys zs} (h1 : Lay c.mode c.doc xs) (h2 : LayCmds cs ys) (e : zs = xs ++ ys) :
    LayCmds (c :: cs) zs := e ▸ LayCmds.cons h1 h2

theorem laycmds_cons_inv {c cs zs} (h : LayCmds (c :: cs) zs) :
    ∃ xs ys, zs = xs ++ ys ∧ Lay c.mode c.doc xs ∧ LayCmds cs ys := by
  cases h with
  | cons h1 h2 => exact ⟨_, _, rfl, h1, h2⟩

theorem best_lay (w pos : Nat) (cmds : List Cmd) (hok : CmdsOK cmds) :
    LayCmds cmds (best w pos cmds) := by
  fun_induction best w pos cmds with
  | case1 => exact LayCmds.nil
  | case2 pos i m rest ih =>
    have := ih (fun c hc => hok c (List.mem_cons_of_mem _ hc))
    exact LayCmds.cons' (c := ⟨i, m, .nil⟩) Lay.nil this (by simp)
  | case3 pos i m rest a b ih =>
    have hok' : CmdsOK (⟨i, m, a⟩ :: ⟨i, m, b⟩ :: rest) := by
      intro c hc hm
      simp only [List.mem_cons] at hc
      rcases hc with rfl | rfl | hc
      · exact (hok ⟨i, m, .append a b⟩ (by simp) hm).1
      · exact (hok ⟨i, m, .append a b⟩ (by simp) hm).2
      · exact hok c (by simp [hc]) hm
    obtain ⟨xs, r1, e1, l1, h1⟩ := laycmds_cons_inv (ih hok')
    obtain ⟨ys, zs, e2, l2, h2⟩ := laycmds_cons_inv h1
    exact LayCmds.cons' (c := ⟨i, m, .append a b⟩) (Lay.append l1 l2) h2 (by simp [e1, e2])
  | case4 pos i m rest b f ih =>
    have hok' : CmdsOK (⟨i, m, pick m b f⟩ :: rest) := by
      intro c hc hm
      simp only [List.mem_cons] at hc
      rcases hc with rfl | hc
      · have := hok ⟨i, m, .flatAlt b f⟩ (by simp) hm
        simp only at hm; subst hm; simpa [pick, FlatNoHard] using this
      · exact hok c (by simp [hc]) hm
    obtain ⟨xs, ys, e, l, h⟩ := laycmds_cons_inv (ih hok')
    refine LayCmds.cons' (c := ⟨i, m, .flatAlt b f⟩) ?_ h e
    cases m with
    | brk => exact Lay.flatAltB l
    | flat => exact Lay.flatAltF l
  | case5 pos i m rest d m' ih =>
    have hok' : CmdsOK (⟨i, m', d⟩ :: rest) := by
      intro c hc hm
      simp only [List.mem_cons] at hc
      rcases hc with rfl | hc
      · simp only at hm
        by_cases hfit : m = .brk ∧ fitting w pos [d] .flat rest = true
        · exact (fitting_flat w pos [d] .flat rest rfl hfit.2).1
        · have hmm : m' = m := by simp [m', hfit]
          have := hok ⟨i, m, .group d⟩ (by simp) (by simpa [hmm] using hm)
          simpa [FlatNoHard] using this
      · exact hok c (by simp [hc]) hm
    obtain ⟨xs, ys, e, l, h⟩ := laycmds_cons_inv (ih hok')
    refine LayCmds.cons' (c := ⟨i, m, .group d⟩) ?_ h e
    by_cases hfit : m = .brk ∧ fitting w pos [d] .flat rest = true
    · have hmm : m' = .flat := by simp [m', hfit]
      simp only [hmm] at l
      simp only [hfit.1]
      exact Lay.groupFlat l
    · have hmm : m' = m := by simp [m', hfit]
      simp only [hmm] at l
      exact Lay.groupSame l
  | case6 pos i m rest n d ih =>
    have hok' : CmdsOK (⟨addInd i n, m, d⟩ :: rest) := by
      intro c hc hm
      simp only [List.mem_cons] at hc
      rcases hc with rfl | hc
      · simpa [FlatNoHard] using hok ⟨i, m, .nest n d⟩ (by simp) hm
      · exact hok c (by simp [hc]) hm
    obtain ⟨xs, ys, e, l, h⟩ := laycmds_cons_inv (ih hok')
    exact LayCmds.cons' (c := ⟨i, m, .nest n d⟩) (Lay.nest l) h e
  | case7 pos i m rest d ih =>
    have hok' : CmdsOK (⟨pos, m, d⟩ :: rest) := by
      intro c hc hm
      simp only [List.mem_cons] at hc
      rcases hc with rfl | hc
      · simpa [FlatNoHard] using hok ⟨i, m, .align d⟩ (by simp) hm
      · exact hok c (by simp [hc]) hm
    obtain ⟨xs, ys, e, l, h⟩ := laycmds_cons_inv (ih hok')
    exact LayCmds.cons' (c := ⟨i, m, .align d⟩) (Lay.align l) h e
  | case8 pos i m =>
    have hm : m = .brk := by
      cases m with
      | brk => rfl
      | flat => exact absurd (hok ⟨i, .flat, .hardline⟩ (by simp) rfl) (by simp [FlatNoHard])
    subst hm
    exact LayCmds.cons' (c := ⟨i, .brk, .hardline⟩) (Lay.hardline (k := i)) LayCmds.nil (by simp)
  | case9 pos i m c rest' ih =>
    have hm : m = .brk := by
      cases m with
      | brk => rfl
      | flat => exact absurd (hok ⟨i, .flat, .hardline⟩ (by simp) rfl) (by simp [FlatNoHard])
    subst hm
    have := ih (fun c' hc => hok c' (List.mem_cons_of_mem _ hc))
    exact LayCmds.cons' (c := ⟨i, .brk, .hardline⟩) (Lay.hardline (k := c.ind)) this (by simp)
  | case10 pos i m rest s len t ih =>
    have := ih (fun c hc => hok c (List.mem_cons_of_mem _ hc))
    exact LayCmds.cons' (c := ⟨i, m, .text s len t⟩) Lay.text this (by simp)

/-- **R1** (with R2 built into `Lay`): at every width the renderer's output is a consistent layout. -/
theorem pretty_lay (w : Nat) (d : Doc) : Lay .brk d (best w 0 [⟨0, .brk, d⟩]) := by
  have h := best_lay w 0 [⟨0, .brk, d⟩] (by intro c hc hm; simp at hc; subst hc; simp at hm)
  obtain ⟨xs, ys, e, l, h'⟩ := laycmds_cons_inv h
  cases h'
  simpa [e] using l

end Pretty
