import TypstyleModel.Model.Cli
/-! Lemmas about the CLI model. -/
namespace Typstyle.Cli

/-! ### check mode never writes -/

theorem formatOne_check_world (lib : Lib) (a : Args) (hc : a.check = true) (hi : a.inplace = false)
    (input : Option Path) (stdin : String) (st : St) :
    (formatOne lib a input stdin st).1.world = st.world := by
  unfold formatOne
  simp only [hi, hc]
  repeat' split
  all_goals simp_all

theorem manyStep_check_world (lib : Lib) (a : Args) (hc : a.check = true) (hi : a.inplace = false)
    (acc : ManySt) (p : Path) : (manyStep lib a acc p).st.world = acc.st.world := by
  unfold manyStep
  have := formatOne_check_world lib a hc hi (some p) "" acc.st
  split <;> simp_all

theorem foldl_manyStep_check_world (lib : Lib) (a : Args) (hc : a.check = true) (hi : a.inplace = false)
    (ps : List Path) (acc : ManySt) : (ps.foldl (manyStep lib a) acc).st.world = acc.st.world := by
  induction ps generalizing acc with
  | nil => rfl
  | cons p ps ih => simp only [List.foldl_cons]; rw [ih, manyStep_check_world lib a hc hi]

theorem allFile_check_world (lib : Lib) (a : Args) (hc : a.check = true) (acc : AllSt) (p : Path) (c : Content) :
    (allFile lib a acc p c).st.world = acc.st.world := by
  unfold allFile
  repeat' split
  all_goals simp_all

mutual
theorem walk_check_world (lib : Lib) (a : Args) (hc : a.check = true) (acc : AllSt) (p : Path) (name : String)
    (depth : Nat) : (e : Entry) → (walk lib a acc p name depth e).st.world = acc.st.world
  | .file c t => by
    unfold walk
    repeat' split
    all_goals first | rfl | exact allFile_check_world lib a hc acc p c
  | .symlink => by unfold walk; rfl
  | .dir es => by
    unfold walk
    split
    · rfl
    · exact walkL_check_world lib a hc acc p (depth + 1) es
theorem walkL_check_world (lib : Lib) (a : Args) (hc : a.check = true) (acc : AllSt) (p : Path)
    (depth : Nat) : (es : List (String × Entry)) → (walkL lib a acc p depth es).st.world = acc.st.world
  | [] => by unfold walkL; rfl
  | (n, e) :: r => by
    unfold walkL
    rw [walkL_check_world lib a hc _ p depth r, walk_check_world lib a hc acc (p ++ [n]) n depth e]
end

theorem runFormatAll_check_world (lib : Lib) (a : Args) (w : Entry) (dir : Option Path) (rootName : String)
    (hc : a.check = true) : (runFormatAll lib a w dir rootName).world = w := by
  unfold runFormatAll
  simp only
  split
  · rfl
  · split <;> exact walk_check_world lib a hc _ _ _ 0 _

theorem runStdin_check_world (lib : Lib) (a : Args) (w : Entry) (input : String)
    (hc : a.check = true) (hi : a.inplace = false) : (runStdin lib a w input).world = w := by
  unfold runStdin
  have := formatOne_check_world lib a hc hi none input { world := w }
  split <;> simp_all

theorem runFiles_check_world (lib : Lib) (a : Args) (w : Entry) (ps : List Path)
    (hc : a.check = true) (hi : a.inplace = false) : (runFiles lib a w ps).world = w := by
  unfold runFiles
  have := foldl_manyStep_check_world lib a hc hi ps { st := { world := w } }
  simp only
  split <;> simpa using this

/-- T14.1: with `--check` the file tree (contents and modification marks) is unchanged, for every
library function, file tree and invocation shape. -/
theorem run_check_world (lib : Lib) (a : Args) (w : Entry) (rootName : String) (hc : a.check = true) :
    (run lib a w rootName).world = w := by
  unfold run
  split
  · rfl
  · rename_i h
    have hi : a.inplace = false := by cases h' : a.inplace <;> simp_all
    split
    · exact runFormatAll_check_world lib a w _ rootName hc
    · split
      · rfl
      · exact runStdin_check_world lib a w _ hc hi
    · rfl
    · exact runFiles_check_world lib a w _ hc hi

end Typstyle.Cli

namespace Typstyle.Cli

/-! ### `format-all` is a fold of the per-file step over the eligible files (isolation) -/

mutual
/-- Specification of eligibility for `format-all`: regular files with extension `typ` that are
not hidden and not inside a hidden sub-directory, in visiting order; the directory the walk starts
from (depth 0) may be called anything; symbolic links are never followed. -/
def eligibleFiles : Entry → Path → String → Nat → List (Path × Content)
  | .file c _, p, name, depth =>
    if depth > 0 && isHidden name then [] else if hasTypExt name then [(p, c)] else []
  | .symlink, _, _, _ => []
  | .dir es, p, name, depth =>
    if depth > 0 && isHidden name then [] else eligibleFilesL es p (depth + 1)
def eligibleFilesL : List (String × Entry) → Path → Nat → List (Path × Content)
  | [], _, _ => []
  | (n, e) :: r, p, depth => eligibleFiles e (p ++ [n]) n depth ++ eligibleFilesL r p depth
end

def allStep (lib : Lib) (a : Args) (acc : AllSt) (f : Path × Content) : AllSt := allFile lib a acc f.1 f.2

mutual
theorem walk_eq_fold (lib : Lib) (a : Args) (acc : AllSt) (p : Path) (name : String) (depth : Nat) :
    (e : Entry) → walk lib a acc p name depth e = (eligibleFiles e p name depth).foldl (allStep lib a) acc
  | .file c t => by
    unfold walk eligibleFiles
    split
    · rfl
    · split <;> rfl
  | .symlink => by unfold walk eligibleFiles; rfl
  | .dir es => by
    unfold walk eligibleFiles
    split
    · rfl
    · exact walkL_eq_fold lib a acc p (depth + 1) es
theorem walkL_eq_fold (lib : Lib) (a : Args) (acc : AllSt) (p : Path) (depth : Nat) :
    (es : List (String × Entry)) → walkL lib a acc p depth es = (eligibleFilesL es p depth).foldl (allStep lib a) acc
  | [] => by unfold walkL eligibleFilesL; rfl
  | (n, e) :: r => by
    unfold walkL eligibleFilesL
    rw [List.foldl_append, ← walk_eq_fold lib a acc (p ++ [n]) n depth e, walkL_eq_fold lib a _ p depth r]
end

/-! ### what one file contributes -/

/-- The file differs from its formatted form. -/
def Differs (lib : Lib) (a : Args) (c : Content) : Prop :=
  ∃ x y, c = .text x ∧ lib a.style x = some y ∧ y ≠ x

instance (lib : Lib) (a : Args) (c : Content) : Decidable (Differs lib a c) := by
  unfold Differs
  cases c with
  | binary => exact isFalse (by rintro ⟨x, y, h, _⟩; cases h)
  | text s =>
    cases h : lib a.style s with
    | none => exact isFalse (by rintro ⟨x, y, hx, hy, _⟩; cases hx; rw [h] at hy; cases hy)
    | some y =>
      if hne : y = s then exact isFalse (by rintro ⟨x, y', hx, hy, hn⟩; cases hx; rw [h] at hy; cases hy; exact hn hne)
      else exact isTrue ⟨s, y, rfl, h, hne⟩

theorem allFile_changed (lib : Lib) (a : Args) (acc : AllSt) (p : Path) (c : Content) :
    (allFile lib a acc p c).changed = (acc.changed || decide (Differs lib a c)) := by
  unfold allFile
  cases c with
  | binary => simp [Differs]
  | text s =>
    simp only
    cases h : lib a.style s with
    | none => simp [Differs, h]
    | some y =>
      simp only
      by_cases hy : y = s
      · subst hy; simp [Differs, h]
      · have : Differs lib a (.text s) := ⟨s, y, rfl, h, hy⟩
        have hb : (y == s) = false := by simpa using hy
        simp only [hb, Bool.false_eq_true, if_false]
        split <;> simp [this]

theorem allFile_errors (lib : Lib) (a : Args) (acc : AllSt) (p : Path) (c : Content) :
    (allFile lib a acc p c).errors = acc.errors + (if c = .binary then 1 else 0) := by
  unfold allFile
  cases c with
  | binary => simp
  | text s =>
    simp only
    cases h : lib a.style s with
    | none => simp
    | some y => simp only; split <;> (try split) <;> simp_all

theorem foldl_allStep_changed (lib : Lib) (a : Args) (fs : List (Path × Content)) (acc : AllSt) :
    (fs.foldl (allStep lib a) acc).changed = (acc.changed || fs.any fun f => decide (Differs lib a f.2)) := by
  induction fs generalizing acc with
  | nil => simp
  | cons f fs ih => simp only [List.foldl_cons, ih, allStep, allFile_changed, List.any_cons, Bool.or_assoc]

theorem foldl_allStep_errors (lib : Lib) (a : Args) (fs : List (Path × Content)) (acc : AllSt) :
    (fs.foldl (allStep lib a) acc).errors = acc.errors + (fs.filter fun f => f.2 = .binary).length := by
  induction fs generalizing acc with
  | nil => simp
  | cons f fs ih =>
    simp only [List.foldl_cons, ih, allStep, allFile_errors, List.filter_cons]
    split <;> simp_all <;> omega

/-- T14.3 for `format-all --check`: the exit status is 1 exactly when an eligible file differs from
its formatted form or an eligible file is unreadable; and 0 otherwise. -/
theorem runFormatAll_check_exit (lib : Lib) (a : Args) (w : Entry) (dir : Option Path) (rootName : String)
    (hc : a.check = true) (e : Entry) (he : w.get (dir.getD []) = some e)
    (fs : List (Path × Content)) (hfs : fs = eligibleFiles e (dir.getD []) (rootNameOf (dir.getD []) rootName) 0) :
    (runFormatAll lib a w dir rootName).exit =
      if (fs.any fun f => decide (Differs lib a f.2)) || (fs.any fun f => decide (f.2 = .binary)) then 1 else 0 := by
  unfold runFormatAll
  simp only [he]
  rw [walk_eq_fold, ← hfs]
  have hch := foldl_allStep_changed lib a fs { st := { world := w } }
  have her := foldl_allStep_errors lib a fs { st := { world := w } }
  simp only [Bool.false_or, Nat.zero_add] at hch her
  simp only [her, hch]
  by_cases hb : (fs.filter fun f => f.2 = .binary).length > 0
  · have : fs.any (fun f => decide (f.2 = .binary)) = true := by
      have := List.length_pos_iff_exists_mem.mp hb
      obtain ⟨f, hf⟩ := this
      simp only [List.mem_filter] at hf
      exact List.any_eq_true.mpr ⟨f, hf.1, hf.2⟩
    simp [hb, this]
  · have hnone : fs.any (fun f => decide (f.2 = .binary)) = false := by
      apply Bool.eq_false_iff.mpr
      intro h
      obtain ⟨f, hf, hfb⟩ := List.any_eq_true.mp h
      apply hb
      exact List.length_pos_iff_exists_mem.mpr ⟨f, List.mem_filter.mpr ⟨hf, hfb⟩⟩
    simp only [hb, if_false, hnone, Bool.or_false, exitOf, hc, Bool.true_and]

end Typstyle.Cli

namespace Typstyle.Cli

/-! ### file lists and standard input -/

def outsOf (evs : List Ev) : List String := evs.filterMap fun | .out s => some s | _ => none

@[simp] theorem outsOf_append (a b : List Ev) : outsOf (a ++ b) = outsOf a ++ outsOf b := by
  simp [outsOf, List.filterMap_append]
@[simp] theorem outsOf_infoEv (a : Args) (s : String) : outsOf (infoEv a s) = [] := by
  unfold infoEv; split <;> simp [outsOf]
@[simp] theorem outsOf_debugEv (a : Args) (s : String) : outsOf (debugEv a s) = [] := by
  unfold debugEv; split <;> simp [outsOf]
@[simp] theorem outsOf_warnEv (a : Args) : outsOf (warnEv a) = [] := by
  unfold warnEv; split <;> simp [outsOf]

/-- What `format_one` prints for one input in plain mode: the library result, or the input itself
when the library refuses it. -/
def plainOutput (lib : Lib) (a : Args) (x : String) : String := (lib a.style x).getD x

/-- One input in plain mode (neither `--check` nor `--inplace`): nothing is written, and exactly
the library result (or the unchanged input) is printed. -/
theorem formatOne_plain (lib : Lib) (a : Args) (hc : a.check = false) (hi : a.inplace = false)
    (input : Option Path) (stdin : String) (st : St) (x : String)
    (hx : getInput st.world input stdin = some x) :
    (formatOne lib a input stdin st).1.world = st.world ∧
    outsOf (formatOne lib a input stdin st).1.evs = outsOf st.evs ++ [plainOutput lib a x] ∧
    (formatOne lib a input stdin st).2.isSome = true := by
  unfold formatOne
  simp only [hx, hc, hi, formatDebug, plainOutput]
  cases h : lib a.style x with
  | none =>
    have := outsOf_warnEv a
    simp [outsOf] at this ⊢
    exact this
  | some y => by_cases hy : (y != x) = true <;> simp [hy, outsOf]

/-- One unreadable input: an I/O error, no effect, nothing printed. -/
theorem formatOne_unreadable (lib : Lib) (a : Args) (p : Path) (st : St) (h : readToString st.world p = none) :
    formatOne lib a (some p) "" st = (st, none) := by
  unfold formatOne; simp [getInput, h]

/-- One input with `--check`: nothing is written, no library result is printed, and the status
says whether the input differs from its formatted form. -/
theorem formatOne_check (lib : Lib) (a : Args) (hc : a.check = true) (hi : a.inplace = false)
    (input : Option Path) (stdin : String) (st : St) (x : String)
    (hx : getInput st.world input stdin = some x) :
    (formatOne lib a input stdin st).1.world = st.world ∧
    outsOf (formatOne lib a input stdin st).1.evs = outsOf st.evs ∧
    (formatOne lib a input stdin st).2 = some (decide (Differs lib a (.text x))) := by
  unfold formatOne
  simp only [hx, hc, hi, formatDebug]
  cases h : lib a.style x with
  | none =>
    have : ¬ Differs lib a (.text x) := by rintro ⟨x', y, hx', hy, _⟩; cases hx'; rw [h] at hy; cases hy
    simp [this]
  | some y =>
    by_cases hy : y = x
    · subst hy
      have : ¬ Differs lib a (.text y) := by rintro ⟨x', y', hx', hy', hn⟩; cases hx'; rw [h] at hy'; cases hy'; exact hn rfl
      simp [this]
    · have hd : Differs lib a (.text x) := ⟨x, y, rfl, h, hy⟩
      have hb : (y != x) = true := by simpa using hy
      simp only [hb, if_true]
      cases input <;> simp [hd]

/-- One input with `--inplace`: the file is rewritten with the library result exactly when that
differs from its content; nothing is printed. -/
theorem formatOne_inplace (lib : Lib) (a : Args) (hi : a.inplace = true) (p : Path) (st : St) (x : String)
    (hx : getInput st.world (some p) "" = some x) :
    (formatOne lib a (some p) "" st).1.world =
      (match lib a.style x with
       | some y => if y = x then st.world else st.world.write p y
       | none => st.world) ∧
    outsOf (formatOne lib a (some p) "" st).1.evs = outsOf st.evs := by
  unfold formatOne
  simp only [hx, hi, formatDebug]
  cases h : lib a.style x with
  | none => simp
  | some y =>
    by_cases hy : y = x
    · subst hy; simp
    · have hb : (y != x) = true := by simpa using hy
      simp [hb, hy]

end Typstyle.Cli

namespace Typstyle.Cli

theorem manyStep_error_out (lib : Lib) (a : Args) (acc : ManySt) (p : Path)
    (h : readToString acc.st.world p = none) :
    manyStep lib a acc p = { st := { acc.st with evs := acc.st.evs ++ [.error] }, changed := acc.changed, errors := acc.errors + 1 } := by
  unfold manyStep
  rw [formatOne_unreadable lib a p acc.st h]

theorem manyStep_ok (lib : Lib) (a : Args) (acc : ManySt) (p : Path) (st' : St) (ch : Bool)
    (h : formatOne lib a (some p) "" acc.st = (st', some ch)) :
    manyStep lib a acc p = { acc with st := st', changed := acc.changed || ch } := by
  unfold manyStep; rw [h]

theorem manyStep_err (lib : Lib) (a : Args) (acc : ManySt) (p : Path) (st' : St)
    (h : formatOne lib a (some p) "" acc.st = (st', none)) :
    manyStep lib a acc p = { st := { st' with evs := st'.evs ++ [.error] }, changed := acc.changed, errors := acc.errors + 1 } := by
  unfold manyStep; rw [h]

/-- Plain mode over a file list: nothing is written; standard output is the concatenation, in
argument order, of the library results (or unchanged inputs) of the readable inputs; every
unreadable input is counted and does not affect the others. -/
theorem foldl_manyStep_plain (lib : Lib) (a : Args) (hc : a.check = false) (hi : a.inplace = false) (w : Entry)
    (ps : List Path) (acc : ManySt) (hw : acc.st.world = w) :
    (ps.foldl (manyStep lib a) acc).st.world = w ∧
    outsOf (ps.foldl (manyStep lib a) acc).st.evs =
      outsOf acc.st.evs ++ ps.filterMap (fun p => (readToString w p).map (plainOutput lib a)) ∧
    (ps.foldl (manyStep lib a) acc).errors = acc.errors + (ps.filter fun p => (readToString w p).isNone).length := by
  induction ps generalizing acc with
  | nil => simp [hw]
  | cons p ps ih =>
    simp only [List.foldl_cons]
    cases hr : readToString w p with
    | none =>
      have hr' : readToString acc.st.world p = none := by rw [hw]; exact hr
      rw [manyStep_error_out lib a acc p hr']
      have := ih { st := { acc.st with evs := acc.st.evs ++ [.error] }, changed := acc.changed, errors := acc.errors + 1 } (by simpa using hw)
      simp only [List.filterMap_cons, hr, Option.map_none, List.filter_cons, Option.isNone_none, if_true, List.length_cons]
      refine ⟨this.1, ?_, ?_⟩
      · rw [this.2.1]; simp [outsOf]
      · rw [this.2.2]; simp only; omega
    | some x =>
      have hx : getInput acc.st.world (some p) "" = some x := by simp [getInput, hw, hr]
      have h1 := formatOne_plain lib a hc hi (some p) "" acc.st x hx
      cases hf : formatOne lib a (some p) "" acc.st with
      | mk st' res =>
        rw [hf] at h1
        cases res with
        | none => simp at h1
        | some ch =>
          rw [manyStep_ok lib a acc p st' ch hf]
          have := ih { acc with st := st', changed := acc.changed || ch } (by simpa [hw] using h1.1)
          simp only [List.filterMap_cons, hr, Option.map_some, List.filter_cons, Option.isNone_some]
          refine ⟨this.1, ?_, ?_⟩
          · rw [this.2.1]; simp only at h1 ⊢; rw [h1.2.1]; simp
          · rw [this.2.2]; simp

/-- `--check` over a file list. -/
theorem foldl_manyStep_check (lib : Lib) (a : Args) (hc : a.check = true) (hi : a.inplace = false) (w : Entry)
    (ps : List Path) (acc : ManySt) (hw : acc.st.world = w) :
    (ps.foldl (manyStep lib a) acc).st.world = w ∧
    outsOf (ps.foldl (manyStep lib a) acc).st.evs = outsOf acc.st.evs ∧
    (ps.foldl (manyStep lib a) acc).changed =
      (acc.changed || ps.any fun p => match readToString w p with
        | some x => decide (Differs lib a (.text x))
        | none => false) ∧
    (ps.foldl (manyStep lib a) acc).errors = acc.errors + (ps.filter fun p => (readToString w p).isNone).length := by
  induction ps generalizing acc with
  | nil => simp [hw]
  | cons p ps ih =>
    simp only [List.foldl_cons]
    cases hr : readToString w p with
    | none =>
      have hr' : readToString acc.st.world p = none := by rw [hw]; exact hr
      rw [manyStep_error_out lib a acc p hr']
      have := ih { st := { acc.st with evs := acc.st.evs ++ [.error] }, changed := acc.changed, errors := acc.errors + 1 } (by simpa using hw)
      simp only [List.any_cons, hr, Bool.false_or, List.filter_cons, Option.isNone_none, if_true, List.length_cons]
      refine ⟨this.1, ?_, this.2.2.1, ?_⟩
      · rw [this.2.1]; simp [outsOf]
      · rw [this.2.2.2]; simp only; omega
    | some x =>
      have hx : getInput acc.st.world (some p) "" = some x := by simp [getInput, hw, hr]
      have h1 := formatOne_check lib a hc hi (some p) "" acc.st x hx
      cases hf : formatOne lib a (some p) "" acc.st with
      | mk st' res =>
        rw [hf] at h1
        simp only at h1
        obtain ⟨h1w, h1o, h1r⟩ := h1
        subst h1r
        rw [manyStep_ok lib a acc p st' _ hf]
        have := ih { acc with st := st', changed := acc.changed || decide (Differs lib a (.text x)) } (by simpa [hw] using h1w)
        simp only [List.any_cons, hr, List.filter_cons, Option.isNone_some]
        refine ⟨this.1, ?_, ?_, ?_⟩
        · rw [this.2.1]; exact h1o
        · rw [this.2.2.1]; simp [Bool.or_assoc]
        · rw [this.2.2.2]; simp

/-- The per-file effect of `--inplace` on the file tree. -/
def inplaceStep (lib : Lib) (a : Args) (w : Entry) (p : Path) : Entry :=
  match readToString w p with
  | some x =>
    (match lib a.style x with
     | some y => if y = x then w else w.write p y
     | none => w)
  | none => w

/-- `--inplace` over a file list: the final tree is the fold of the per-file effect (an
unreadable, erroneous or already formatted input changes nothing and does not stop the others),
and nothing is printed. -/
theorem foldl_manyStep_inplace (lib : Lib) (a : Args) (hi : a.inplace = true)
    (ps : List Path) (acc : ManySt) :
    (ps.foldl (manyStep lib a) acc).st.world = ps.foldl (inplaceStep lib a) acc.st.world ∧
    outsOf (ps.foldl (manyStep lib a) acc).st.evs = outsOf acc.st.evs := by
  induction ps generalizing acc with
  | nil => simp
  | cons p ps ih =>
    simp only [List.foldl_cons]
    cases hr : readToString acc.st.world p with
    | none =>
      rw [manyStep_error_out lib a acc p hr]
      have := ih { st := { acc.st with evs := acc.st.evs ++ [.error] }, changed := acc.changed, errors := acc.errors + 1 }
      refine ⟨?_, ?_⟩
      · rw [this.1]; simp [inplaceStep, hr]
      · rw [this.2]; simp [outsOf]
    | some x =>
      have hx : getInput acc.st.world (some p) "" = some x := by simp [getInput, hr]
      have h1 := formatOne_inplace lib a hi p acc.st x hx
      cases hf : formatOne lib a (some p) "" acc.st with
      | mk st' res =>
        rw [hf] at h1
        simp only at h1
        cases res with
        | none =>
          rw [manyStep_err lib a acc p st' hf]
          have := ih { st := { st' with evs := st'.evs ++ [.error] }, changed := acc.changed, errors := acc.errors + 1 }
          refine ⟨?_, ?_⟩
          · rw [this.1]; simp only [inplaceStep, hr]; rw [h1.1]
          · rw [this.2]; simp only [outsOf_append]; rw [h1.2]; simp [outsOf]
        | some ch =>
          rw [manyStep_ok lib a acc p st' ch hf]
          have := ih { acc with st := st', changed := acc.changed || ch }
          refine ⟨?_, ?_⟩
          · rw [this.1]; simp only [inplaceStep, hr]; rw [h1.1]
          · rw [this.2]; exact h1.2

end Typstyle.Cli

namespace Typstyle.Cli

/-- The effect of `format-all` (without `--check`) on the file tree for one eligible file. -/
def allWrite (lib : Lib) (a : Args) (w : Entry) (f : Path × Content) : Entry :=
  match f.2 with
  | .binary => w
  | .text x =>
    match lib a.style x with
    | some y => if y = x then w else w.write f.1 y
    | none => w

theorem allFile_world (lib : Lib) (a : Args) (hc : a.check = false) (acc : AllSt) (p : Path) (c : Content) :
    (allFile lib a acc p c).st.world = allWrite lib a acc.st.world (p, c) := by
  unfold allFile allWrite
  cases c with
  | binary => rfl
  | text x =>
    simp only
    cases h : lib a.style x with
    | none => rfl
    | some y =>
      simp only
      by_cases hy : y = x
      · subst hy; simp
      · have hb : (y == x) = false := by simpa using hy
        simp [hb, hy, hc]

theorem allFile_outs (lib : Lib) (a : Args) (acc : AllSt) (p : Path) (c : Content) :
    outsOf (allFile lib a acc p c).st.evs = outsOf acc.st.evs := by
  unfold allFile
  cases c with
  | binary => simp [outsOf]
  | text x =>
    simp only
    cases h : lib a.style x with
    | none => simp
    | some y => simp only; split <;> (try split) <;> simp

theorem foldl_allStep_world (lib : Lib) (a : Args) (hc : a.check = false) (fs : List (Path × Content)) (acc : AllSt) :
    (fs.foldl (allStep lib a) acc).st.world = fs.foldl (allWrite lib a) acc.st.world := by
  induction fs generalizing acc with
  | nil => rfl
  | cons f fs ih => simp only [List.foldl_cons, ih, allStep, allFile_world lib a hc]

theorem foldl_allStep_outs (lib : Lib) (a : Args) (fs : List (Path × Content)) (acc : AllSt) :
    outsOf (fs.foldl (allStep lib a) acc).st.evs = outsOf acc.st.evs := by
  induction fs generalizing acc with
  | nil => rfl
  | cons f fs ih => simp only [List.foldl_cons, ih, allStep, allFile_outs]

/-! ### frame lemmas for `write` -/

theorem lookup_writeL_same (es : List (String × Entry)) (n : String) (p : Path) (s : String) :
    lookup (writeL es n p s) n = (lookup es n).map fun e => e.write p s := by
  induction es with
  | nil => simp [writeL, lookup]
  | cons h t ih =>
    obtain ⟨k, e⟩ := h
    unfold writeL
    by_cases hk : (k == n) = true
    · simp [hk, lookup]
    · simp only [hk, Bool.false_eq_true, if_false, lookup]
      exact ih

theorem lookup_writeL_other (es : List (String × Entry)) (n m : String) (p : Path) (s : String) (h : (m == n) = false) :
    lookup (writeL es n p s) m = lookup es m := by
  induction es with
  | nil => simp [writeL, lookup]
  | cons hd t ih =>
    obtain ⟨k, e⟩ := hd
    unfold writeL
    by_cases hk : (k == n) = true
    · have hkn : k = n := by simpa using hk
      have hkm : (k == m) = false := by
        subst hkn
        cases hkm : (k == m) with
        | false => rfl
        | true =>
          have : k = m := by simpa using hkm
          subst this; simp at h
      simp [hk, lookup, hkm]
    · simp only [hk, Bool.false_eq_true, if_false, lookup]
      split
      · rfl
      · exact ih

/-- Writing a file makes its content exactly the written text. -/
theorem readToString_write_same : (w : Entry) → (p : Path) → (s x : String) →
    readToString w p = some x → readToString (w.write p s) p = some s
  | .file c t, [], s, x, _ => by simp [readToString, Entry.write, Entry.get]
  | .file c t, n :: p, s, x, h => by simp [readToString, Entry.get] at h
  | .symlink, [], s, x, h => by simp [readToString, Entry.get] at h
  | .symlink, n :: p, s, x, h => by simp [readToString, Entry.get] at h
  | .dir es, [], s, x, h => by simp [readToString, Entry.get] at h
  | .dir es, n :: p, s, x, h => by
    simp only [readToString, Entry.write, Entry.get, lookup_writeL_same] at h ⊢
    cases hl : lookup es n with
    | none => simp [hl] at h
    | some e =>
      simp only [hl, Option.map_some] at h ⊢
      have := readToString_write_same e p s x (by simpa [readToString] using h)
      simpa [readToString] using this

end Typstyle.Cli
