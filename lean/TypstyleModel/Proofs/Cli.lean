import TypstyleModel.Model.Cli
/-! Lemmas about the CLI model. -/
namespace Typstyle.Cli

/-! ### check mode never writes -/

theorem formatOne_check_world (lib : Lib) (a : Args) (hc : a.check = true) (hi : a.inplace = false)
    (input : Option Path) (stdin : String) (st : St) :
    (formatOne lib a input stdin st).1.world = st.world := by
  unfold formatOne
  simp only [hi, hc]
  repeat' split
  all_goals simp_all

theorem manyStep_check_world (lib : Lib) (a : Args) (hc : a.check = true) (hi : a.inplace = false)
    (acc : ManySt) (p : Path) : (manyStep lib a acc p).st.world = acc.st.world := by
  unfold manyStep
  have := formatOne_check_world lib a hc hi (some p) "" acc.st
  split <;> simp_all

theorem foldl_manyStep_check_world (lib : Lib) (a : Args) (hc : a.check = true) (hi : a.inplace = false)
    (ps : List Path) (acc : ManySt) : (ps.foldl (manyStep lib a) acc).st.world = acc.st.world := by
  induction ps generalizing acc with
  | nil => rfl
  | cons p ps ih => simp only [List.foldl_cons]; rw [ih, manyStep_check_world lib a hc hi]

theorem allFile_check_world (lib : Lib) (a : Args) (hc : a.check = true) (acc : AllSt) (p : Path) (c : Content) :
    (allFile lib a acc p c).st.world = acc.st.world := by
  unfold allFile
  repeat' split
  all_goals simp_all

mutual
theorem walk_check_world (lib : Lib) (a : Args) (hc : a.check = true) (acc : AllSt) (p : Path) (name : String)
    (depth : Nat) : (e : Entry) → (walk lib a acc p name depth e).st.world = acc.st.world
  | .file c t => by
    unfold walk
    repeat' split
    all_goals first | rfl | exact allFile_check_world lib a hc acc p c
  | .symlink => by unfold walk; rfl
  | .dir es => by
    unfold walk
    split
    · rfl
    · exact walkL_check_world lib a hc acc p (depth + 1) es
theorem walkL_check_world (lib : Lib) (a : Args) (hc : a.check = true) (acc : AllSt) (p : Path)
    (depth : Nat) : (es : List (String × Entry)) → (walkL lib a acc p depth es).st.world = acc.st.world
  | [] => by unfold walkL; rfl
  | (n, e) :: r => by
    unfold walkL
    rw [walkL_check_world lib a hc _ p depth r, walk_check_world lib a hc acc (p ++ [n]) n depth e]
end

theorem runFormatAll_check_world (lib : Lib) (a : Args) (w : Entry) (dir : Option Path) (rootName : String)
    (hc : a.check = true) : (runFormatAll lib a w dir rootName).world = w := by
  unfold runFormatAll
  simp only
  split
  · rfl
  · split <;> split <;> exact walk_check_world lib a hc _ _ _ 0 _

theorem runStdin_check_world (lib : Lib) (a : Args) (w : Entry) (input : String)
    (hc : a.check = true) (hi : a.inplace = false) : (runStdin lib a w input).world = w := by
  unfold runStdin
  have := formatOne_check_world lib a hc hi none input { world := w }
  split <;> simp_all

theorem runFiles_check_world (lib : Lib) (a : Args) (w : Entry) (ps : List Path)
    (hc : a.check = true) (hi : a.inplace = false) : (runFiles lib a w ps).world = w := by
  unfold runFiles
  have := foldl_manyStep_check_world lib a hc hi ps { st := { world := w } }
  simp only
  split <;> simpa using this

/-- T14.1: with `--check` the file tree (contents and modification marks) is unchanged, for every
library function, file tree and invocation shape. -/
theorem run_check_world (lib : Lib) (a : Args) (w : Entry) (rootName : String) (hc : a.check = true) :
    (run lib a w rootName).world = w := by
  unfold run
  split
  · rfl
  · rename_i h
    have hi : a.inplace = false := by cases h' : a.inplace <;> simp_all
    split
    · exact runFormatAll_check_world lib a w _ rootName hc
    · split
      · rfl
      · exact runStdin_check_world lib a w _ hc hi
    · rfl
    · exact runFiles_check_world lib a w _ hc hi

end Typstyle.Cli
