//! `vc` — C02 oracle: compile the source and the formatted text with the repository's own
//! comparison (typstyle-consistency: page count, PNG of every page at 2x, title/author/keywords;
//! equal diagnostics when both fail).
#[allow(dead_code)]
#[path = "../../harness/src/gens.rs"]
mod gens;
#[allow(dead_code)]
#[path = "../../harness/src/util.rs"]
mod util;
#[allow(dead_code)]
#[path = "../../harness/src/shapes.rs"]
mod shapes;

use gens::*;
use std::collections::{BTreeMap, HashSet};
use std::io::Write as _;
use typstyle_consistency::{cmp::compare_docs, universe::make_universe};
use util::*;

const PRELUDE: &str = "#let x = 1\n#let y = 2\n#let a1 = 3\n#let foo = (long_name_here: 1, f: 2, x: (y: 1))\n#let f(..args) = [f]\n#let long_name_here = \"s\"\n#let bar-baz = 4\n#let g(..args) = [g]\n#let h = h\n";

fn format(src: &str, cfg: Cfg) -> Result<String, String> {
    let s = src.to_string();
    match std::panic::catch_unwind(move || typstyle_core::Typstyle::new(cfg.to_config()).format_content(s)) {
        Ok(Ok(o)) => Ok(o),
        Ok(Err(_)) => Err("refused".into()),
        Err(_) => Err("panic".into()),
    }
}

fn compare(name: &str, src: &str, out: &str) -> Result<(), String> {
    let a = make_universe(src).map_err(|e| format!("universe: {e}"))?;
    let b = make_universe(out).map_err(|e| format!("universe: {e}"))?;
    let name = name.to_string();
    match std::panic::catch_unwind(std::panic::AssertUnwindSafe(|| compare_docs(&name, a, b, false))) {
        Ok(Ok(())) => Ok(()),
        Ok(Err(e)) => Err(format!("{e}").chars().take(300).collect()),
        Err(p) => {
            let m = p.downcast_ref::<String>().cloned().or_else(|| p.downcast_ref::<&str>().map(|s| s.to_string())).unwrap_or_default();
            Err(format!("comparison failed: {}", m.chars().take(300).collect::<String>()))
        }
    }
}

fn hash_str(s: &str) -> u64 {
    let mut h = 0xcbf29ce484222325u64;
    for b in s.bytes() {
        h ^= b as u64;
        h = h.wrapping_mul(0x100000001b3);
    }
    h
}

fn main() {
    let args: Vec<String> = std::env::args().collect();
    std::panic::set_hook(Box::new(|_| {}));
    // vc run <tier> <seed> <outdir> | vc one <file> tab width
    if args.get(1).map(|s| s.as_str()) == Some("one") {
        let src = std::fs::read_to_string(&args[2]).unwrap();
        let cfg = Cfg { tab: args[3].parse().unwrap_or(2), width: args[4].parse().unwrap_or(80), blank: 2, reorder: false };
        match format(&src, cfg) {
            Ok(out) => match compare("one", &src, &out) {
                Ok(()) => println!("PASS"),
                Err(m) => {
                    println!("FAIL compile {}", m);
                    std::process::exit(1);
                }
            },
            Err(e) => println!("SKIP {}", e),
        }
        return;
    }
    let tier = args[2].clone();
    let seed: u64 = args[3].parse().unwrap_or(0);
    let outdir = args[4].clone();
    std::fs::create_dir_all(&outdir).unwrap();
    let fx = Fixtures::load("/repo/tests/fixtures/unit", false);
    let known: HashSet<u64> = std::env::var("VC_KNOWN").ok().and_then(|p| std::fs::read_to_string(p).ok()).map(|t| t.split_whitespace().filter_map(|x| x.parse().ok()).collect()).unwrap_or_default();
    // programs: (name, source)
    let mut progs: Vec<(String, String)> = vec![];
    let (nfix, ngram) = match tier.as_str() { "validate" => (usize::MAX, 6000), "thorough" => (usize::MAX, 1500), _ => (60, 100) };
    let mut r = Rng::new(mix(seed, 0xC02));
    let mut order: Vec<usize> = (0..fx.items.len()).collect();
    for i in (1..order.len()).rev() {
        order.swap(i, r.below(i + 1));
    }
    for &i in order.iter().take(nfix) {
        if fx.items[i].1.len() < 20000 {
            progs.push((format!("fix:{}", fx.items[i].0), fx.items[i].1.clone()));
        }
    }
    let mut seen = HashSet::new();
    while seen.len() < ngram {
        let idx = if tier == "validate" { seen.len() as u64 } else { r.next() % 6000 };
        if !seen.insert(idx) {
            continue;
        }
        let (src, _, _) = gram_case(0xC0DE_0000 + idx);
        progs.push((format!("prog:{}", idx), format!("{}{}", PRELUDE, src)));
    }
    let cfgs = [Cfg { tab: 2, width: 80, blank: 2, reorder: false }, Cfg { tab: 4, width: 20, blank: 2, reorder: false }, Cfg { tab: 1, width: 0, blank: 2, reorder: false }, Cfg { tab: 2, width: 40, blank: 2, reorder: false }, Cfg { tab: 2, width: 120, blank: 2, reorder: false }];
    let ncfg = if tier == "quick" { 2 } else { 5 };
    let nthreads = 16usize;
    let chunk = (progs.len() + nthreads - 1) / nthreads;
    let results: Vec<(u64, u64, u64, Vec<String>, BTreeMap<String, u64>, Vec<String>)> = std::thread::scope(|sc| {
        let mut hs = vec![];
        for part in progs.chunks(chunk.max(1)) {
            let known = &known;
            let h = std::thread::Builder::new().stack_size(256 << 20).spawn_scoped(sc, move || {
                let (mut evals, mut skipped, mut compiled) = (0u64, 0u64, 0u64);
                let mut fails = vec![];
                let mut kinds: BTreeMap<String, u64> = BTreeMap::new();
                let mut samples = vec![];
                for (name, src) in part {
                    let parsed = typst_syntax::Source::detached(src.clone());
                    if parsed.root().erroneous() {
                        skipped += 1;
                        continue;
                    }
                    if let Some(id) = shapes::excluded(parsed.root(), "C02") {
                        *kinds.entry(format!("excluded-shape:{}", id)).or_default() += 1;
                        continue;
                    }
                    if known.contains(&hash_str(src)) {
                        *kinds.entry("known-index".into()).or_default() += 1;
                        continue;
                    }
                    for cfg in cfgs.iter().take(ncfg) {
                        let Ok(out) = format(src, *cfg) else { continue };
                        evals += 1;
                        match compare(name, src, &out) {
                            Ok(()) => compiled += 1,
                            Err(m) => {
                                fails.push(format!(
                                    "{{\"property\":\"C02\",\"gen\":{},\"idx\":0,\"hash\":{},\"kind\":\"compile\",\"msg\":{},\"cfg\":{{\"tab\":{},\"width\":{},\"blank\":2,\"reorder\":false}},\"src\":{},\"out\":{}}}",
                                    jstr(name), hash_str(src), jstr(&m), cfg.tab, cfg.width, jstr(src), jstr(&out)
                                ));
                                break;
                            }
                        }
                    }
                    *kinds.entry(name.split(':').next().unwrap_or("").to_string()).or_default() += 1;
                    if samples.len() < 1 && src.len() < 400 {
                        samples.push(format!("{} :: {}", name, src));
                    }
                }
                (evals, skipped, compiled, fails, kinds, samples)
            });
            hs.push(h.unwrap());
        }
        hs.into_iter().map(|h| h.join().unwrap()).collect()
    });
    let mut of = std::fs::File::create(format!("{}/oracle-compile.jsonl", outdir)).unwrap();
    let (mut evals, mut skipped, mut ok) = (0, 0, 0);
    let mut kinds: BTreeMap<String, u64> = BTreeMap::new();
    let mut samples = vec![];
    let mut nf = 0;
    for (e, s, c, f, k, sm) in results {
        evals += e;
        skipped += s;
        ok += c;
        for x in f {
            writeln!(of, "{}", x).unwrap();
            nf += 1;
        }
        for (a, b) in k {
            *kinds.entry(a).or_default() += b;
        }
        samples.extend(sm);
    }
    let j = format!(
        "{{\"compile_comparisons\":{},\"agreeing\":{},\"programs\":{},\"erroneous_skipped\":{},\"failures\":{},\"by_kind\":{{{}}},\"samples\":[{}]}}",
        evals, ok, progs.len(), skipped, nf,
        kinds.iter().map(|(k, v)| format!("{}:{}", jstr(k), v)).collect::<Vec<_>>().join(","),
        samples.iter().take(3).map(|s| jstr(s)).collect::<Vec<_>>().join(",")
    );
    std::fs::write(format!("{}/stats-compile.json", outdir), &j).unwrap();
    println!("{}", j);
}
