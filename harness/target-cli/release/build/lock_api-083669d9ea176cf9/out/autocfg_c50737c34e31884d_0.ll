; ModuleID = 'autocfg_c50737c34e31884d_0.e36dbba63e2f4651-cgu.0'
source_filename = "autocfg_c50737c34e31884d_0.e36dbba63e2f4651-cgu.0"
target datalayout = "e-m:e-p270:32:32-p271:32:32-p272:64:64-i64:64-i128:128-f80:128-n8:16:32:64-S128"
target triple = "x86_64-unknown-linux-gnu"

!llvm.module.flags = !{!0, !1}
!llvm.ident = !{!2}

!0 = !{i32 8, !"PIC Level", i32 2}
!1 = !{i32 2, !"RtLibUseGOT", i32 1}
!2 = !{!"rustc version 1.95.0 (59807616e 2026-04-14)"}
